#!/usr/bin/env python3
"""Run /repo's pinned test suite (the BASELINE command) and compare with stable_pass.
Exit 0 iff every stable_pass test passed.  Guard REGIONS_VERIF is left unset (hooks off)."""
import json
import os
import subprocess
import sys
import tempfile
import xml.etree.ElementTree as ET

b = json.load(open('/root/.vp/BASELINE.json'))
out = tempfile.mktemp(suffix='.junit.xml', dir=os.environ.get('TMPDIR', '/tmp'))
env = dict(os.environ)
env.pop('REGIONS_VERIF', None)
cmd = b['cmd'].replace('<file>', out)
p = subprocess.run(cmd, shell=True, env=env, capture_output=True, text=True)
passed = set()
try:
    for tc in ET.parse(out).getroot().iter('testcase'):
        if not any(ch.tag in ('failure', 'error', 'skipped') for ch in tc):
            passed.add(f"{tc.get('classname')}::{tc.get('name')}")
finally:
    if os.path.exists(out):
        os.unlink(out)
missing = [t for t in b['stable_pass'] if t not in passed]
print(f'stable_pass={len(b["stable_pass"])} passed_now={len(passed)} missing={len(missing)}')
for t in missing[:20]:
    print('  MISSING', t)
print(p.stdout.strip().splitlines()[-1] if p.stdout.strip() else '')
sys.exit(1 if missing else 0)
