#!/venv/bin/python
"""
C14 table extractor (translator tie T of property C14).

From the CURRENT source of the live `regions` package it extracts, on every run:

 (i)  the ordered list of protocol steps of every registered `_write_*` function, by walking
      its AST in evaluation order: existence check (`os.path.lexists` / `os.path.exists` in an
      `if … and not overwrite: raise OSError`), serialisation call, text encoding (explicit
      `.encode(...)` or the implicit one of a text-mode `fh.write`), `BinTableHDU(...)`,
      `open(filename, 'w')`, `fh.write(...)`, astropy `hdu.writeto(filename, overwrite=overwrite)`;
      and whether the serialiser returns '' for an empty list / when every element was skipped;
 (ii) the identifier tables: extension lists per method and content signature of every
      `identify` function (AST), the registration order from the live registry (for `Regions`
      and for `Region`), cross-checked against the live identifier functions on synthetic names
      and files.

It writes /verif/lean/RegionsVerif/Gen/WriteTables.lean (only when the content changed).
Anything it does not understand is reported as a problem (= translator tie broken); it never
guesses.
"""
import ast
import inspect
import json
import os
import sys
import tempfile
import textwrap

HERE = os.path.dirname(os.path.abspath(__file__))
GEN = os.path.join(os.path.dirname(HERE), 'lean', 'RegionsVerif', 'Gen', 'WriteTables.lean')
KNOWN_FORMATS = ('crtf', 'ds9', 'fits')
FS_CALLS = ('os.remove', 'os.unlink', 'os.rename', 'os.replace', 'os.truncate', 'os.symlink', 'os.link',
            'os.makedirs', 'os.mkdir', 'os.rmdir', 'os.open', 'os.write')
FS_PREFIXES = ('shutil.', 'tempfile.', 'pathlib.', 'Path')


def dotted(node):
    if isinstance(node, ast.Name):
        return node.id
    if isinstance(node, ast.Attribute):
        b = dotted(node.value)
        return (b + '.' if b else '?.') + node.attr
    return None


def calls_in_order(expr):
    """Call nodes of an expression in evaluation order (arguments before the call itself)."""
    out = []

    def go(n):
        if isinstance(n, ast.Call):
            go(n.func)
            for a in n.args:
                go(a)
            for k in n.keywords:
                go(k.value)
            out.append(n)
        elif isinstance(n, (ast.Lambda, ast.GeneratorExp, ast.ListComp, ast.SetComp, ast.DictComp)):
            for c in ast.iter_child_nodes(n):
                go(c)
        else:
            for c in ast.iter_child_nodes(n):
                go(c)
    go(expr)
    return out


class WriterWalk:
    def __init__(self, fn, fmt, serializer_name):
        self.fn = fn
        self.fmt = fmt
        self.serializer_name = serializer_name
        a = fn.args
        names = [x.arg for x in a.posonlyargs + a.args + a.kwonlyargs]
        self.params = names
        self.path = names[1] if len(names) > 1 else None
        self.steps = []
        self.problems = []
        self.ignored = []
        self.out_names = set()
        self.encoded_names = set()
        self.explicit_encode = False
        self.handles = {}       # name -> 'text' | 'binary'
        self.depth = 0          # > 0 inside a conditional / loop / try that is not a recognised pattern
        if 'overwrite' not in names:
            self.problems.append(f'{fmt}: writer has no `overwrite` parameter')
        defaults = dict(zip([x.arg for x in a.args][len(a.args) - len(a.defaults):], a.defaults))
        defaults.update({k.arg: d for k, d in zip(a.kwonlyargs, a.kw_defaults) if d is not None})
        d = defaults.get('overwrite')
        if not (isinstance(d, ast.Constant) and d.value is False):
            self.problems.append(f'{fmt}: `overwrite` does not default to False')

    def emit(self, step, node):
        if self.depth:
            self.problems.append(f'{self.fmt}: step {step} at line {node.lineno} sits inside a conditional/loop/try')
        self.steps.append(step)

    # -- statements
    def body(self, stmts):
        for s in stmts:
            self.stmt(s)

    def exist_check(self, s):
        """`if os.path.lexists(filename) and not overwrite: raise OSError(...)` -> step name or None"""
        if not isinstance(s, ast.If) or s.orelse:
            return None
        t = s.test
        if not (isinstance(t, ast.BoolOp) and isinstance(t.op, ast.And) and len(t.values) == 2):
            return None
        call = [v for v in t.values if isinstance(v, ast.Call)]
        neg = [v for v in t.values if isinstance(v, ast.UnaryOp) and isinstance(v.op, ast.Not)
               and isinstance(v.operand, ast.Name) and v.operand.id == 'overwrite']
        if len(call) != 1 or len(neg) != 1:
            return None
        c = call[0]
        name = dotted(c.func)
        if name not in ('os.path.lexists', 'os.path.exists'):
            return None
        if not (len(c.args) == 1 and isinstance(c.args[0], ast.Name) and c.args[0].id == self.path):
            return None
        if not (len(s.body) == 1 and isinstance(s.body[0], ast.Raise) and s.body[0].exc is not None):
            return None
        exc = s.body[0].exc
        exc_name = dotted(exc.func) if isinstance(exc, ast.Call) else dotted(exc)
        if exc_name not in ('OSError', 'FileExistsError', 'IOError'):
            self.problems.append(f'{self.fmt}: existence check raises {exc_name}, not OSError')
            return None
        return 'checkExists' if name == 'os.path.lexists' else 'checkExistsFollow'

    def stmt(self, s):
        if isinstance(s, ast.Expr) and isinstance(s.value, ast.Constant):
            return  # docstring
        chk = self.exist_check(s)
        if chk:
            self.emit(chk, s)
            return
        if isinstance(s, ast.With):
            for item in s.items:
                opened = self.expr(item.context_expr)
                if opened and isinstance(item.optional_vars, ast.Name):
                    self.handles[item.optional_vars.id] = opened
            self.body(s.body)
            return
        if isinstance(s, ast.Assign):
            kinds = self.expr(s.value, assign=True)
            for t in s.targets:
                if isinstance(t, ast.Name):
                    if kinds == 'serialized':
                        self.out_names.add(t.id)
                    elif kinds == 'encoded':
                        self.encoded_names.add(t.id)
                    elif kinds in ('text', 'binary'):
                        self.handles[t.id] = kinds
            return
        if isinstance(s, (ast.Expr, ast.Return)):
            if s.value is not None:
                self.expr(s.value)
            return
        if isinstance(s, (ast.If, ast.For, ast.While, ast.Try)):
            self.depth += 1
            for f in ('test', 'iter'):
                if hasattr(s, f):
                    self.expr(getattr(s, f))
            for f in ('body', 'orelse', 'finalbody'):
                self.body(getattr(s, f, []))
            for h in getattr(s, 'handlers', []):
                self.body(h.body)
            self.depth -= 1
            return
        if isinstance(s, (ast.Pass, ast.Raise, ast.Import, ast.ImportFrom, ast.AugAssign, ast.AnnAssign)):
            for c in ast.iter_child_nodes(s):
                if isinstance(c, ast.expr):
                    self.expr(c)
            return
        self.problems.append(f'{self.fmt}: unsupported statement {type(s).__name__} at line {s.lineno}')

    # -- expressions
    def expr(self, e, assign=False):
        result = None
        for c in calls_in_order(e):
            name = dotted(c.func) or '?'
            last = name.split('.')[-1]
            if last in ('lexists', 'exists', 'isfile'):
                self.problems.append(f'{self.fmt}: existence test {name} outside the recognised '
                                     f'`if … and not overwrite: raise OSError` pattern (line {c.lineno})')
            elif name.startswith('_serialize_'):
                if name != self.serializer_name:
                    self.problems.append(f'{self.fmt}: calls {name}, registered serialiser is {self.serializer_name}')
                if not (c.args and isinstance(c.args[0], ast.Name) and c.args[0].id == self.params[0]):
                    self.problems.append(f'{self.fmt}: serialiser is not called on the regions argument')
                self.emit('serialize', c)
                result = 'serialized'
            elif last == 'encode' and isinstance(c.func, ast.Attribute) and isinstance(c.func.value, ast.Name) \
                    and c.func.value.id in self.out_names:
                self.emit('encode', c)
                self.explicit_encode = True
                result = 'encoded'
            elif name == 'open':
                mode = None
                if len(c.args) > 1 and isinstance(c.args[1], ast.Constant):
                    mode = c.args[1].value
                for k in c.keywords:
                    if k.arg == 'mode' and isinstance(k.value, ast.Constant):
                        mode = k.value.value
                if not (c.args and isinstance(c.args[0], ast.Name) and c.args[0].id == self.path):
                    self.problems.append(f'{self.fmt}: open() of something that is not the filename argument (line {c.lineno})')
                if mode in ('w', 'wt', 'wb'):
                    self.emit('openWrite', c)
                    result = 'binary' if 'b' in mode else 'text'
                else:
                    self.problems.append(f'{self.fmt}: open() with unmodelled mode {mode!r} (line {c.lineno})')
            elif last == 'write' and isinstance(c.func, ast.Attribute) and isinstance(c.func.value, ast.Name) \
                    and c.func.value.id in self.handles:
                mode = self.handles[c.func.value.id]
                arg = c.args[0] if c.args else None
                argname = arg.id if isinstance(arg, ast.Name) else None
                if mode == 'text':
                    if argname not in self.out_names:
                        self.problems.append(f'{self.fmt}: text-mode write of something that is not the serialiser output')
                    if not self.explicit_encode:
                        self.emit('encode', c)   # implicit: TextIOWrapper encodes inside write()
                else:
                    if argname not in self.encoded_names:
                        self.problems.append(f'{self.fmt}: binary write of something that is not the encoded output')
                self.emit('writeBytes', c)
            elif last == 'BinTableHDU':
                self.emit('buildHdu', c)
            elif last == 'writeto':
                ok = (c.args and isinstance(c.args[0], ast.Name) and c.args[0].id == self.path)
                kw = {k.arg: k.value for k in c.keywords}
                ok = ok and isinstance(kw.get('overwrite'), ast.Name) and kw['overwrite'].id == 'overwrite'
                if not ok:
                    self.problems.append(f'{self.fmt}: writeto() not of the form writeto(filename, overwrite=overwrite)')
                self.emit('writeto', c)
            elif name in FS_CALLS or name.startswith(FS_PREFIXES) or last in ('write_text', 'write_bytes', 'unlink', 'rename', 'replace'):
                self.problems.append(f'{self.fmt}: unmodelled file-system call {name} (line {c.lineno})')
            else:
                self.ignored.append(name)
        return result


def fn_ast(func):
    src = textwrap.dedent(inspect.getsource(func))
    tree = ast.parse(src)
    for n in ast.walk(tree):
        if isinstance(n, ast.FunctionDef) and n.name == func.__name__:
            return n
    raise ValueError(f'no def {func.__name__}')


def blank_rules(func):
    """(empty_blank, kept_blank): does the serialiser contain, at top level,
    `if not regions: return ''`  (empty INPUT list -> '') and
    `if not <list it appends the serialised elements to>: return ''`  (nothing KEPT -> '') ?"""
    fn = fn_ast(func)
    arg0 = fn.args.args[0].arg
    appended = {n.func.value.id for n in ast.walk(fn)
                if isinstance(n, ast.Call) and isinstance(n.func, ast.Attribute) and n.func.attr == 'append'
                and isinstance(n.func.value, ast.Name)}
    empty = kept = False
    for s in fn.body:
        if (isinstance(s, ast.If) and isinstance(s.test, ast.UnaryOp) and isinstance(s.test.op, ast.Not)
                and isinstance(s.test.operand, ast.Name) and not s.orelse
                and len(s.body) == 1 and isinstance(s.body[0], ast.Return)
                and isinstance(s.body[0].value, ast.Constant) and s.body[0].value.value == ''):
            name = s.test.operand.id
            if name == arg0:
                empty = True
            elif name in appended:
                kept = True
    return empty, kept


def identify_table(func, fmt, problems):
    fn = fn_ast(func)
    all_exten = None
    exten = None
    signature = None
    via = None
    for n in ast.walk(fn):
        if isinstance(n, ast.Assign) and len(n.targets) == 1 and isinstance(n.targets[0], ast.Name):
            t = n.targets[0].id
            if t == 'all_exten':
                all_exten = ast.literal_eval(n.value)
            elif t == 'exten':
                exten = n.value
            elif t == 'signature':
                signature = ast.literal_eval(n.value)
        if isinstance(n, ast.Call):
            d = dotted(n.func)
            if d == 'get_readable_fileobj':
                via = via or 'signature'
            if d == 'fits.open':
                via = 'fitsOpen'
    if all_exten is None or exten is None:
        problems.append(f'{fmt}: identifier has no all_exten/exten tables')
        return None
    if isinstance(all_exten, str):
        all_exten = (all_exten,)
    try:
        ex = eval(compile(ast.Expression(exten), '<exten>', 'eval'), {'__builtins__': {}}, {'all_exten': all_exten})
    except Exception as e:
        problems.append(f'{fmt}: cannot evaluate exten table: {e}')
        return None
    norm = lambda v: [v] if isinstance(v, str) else list(v)
    if set(ex) != {'read', 'write'}:
        problems.append(f'{fmt}: exten keys are {sorted(ex)}')
        return None
    if via == 'fitsOpen':
        from astropy.io.fits.hdu.hdulist import FITS_SIGNATURE
        signature = FITS_SIGNATURE[:-1].decode()
    if via is None or signature is None:
        problems.append(f'{fmt}: identifier content test not recognised')
        return None
    if isinstance(signature, bytes):
        signature = signature.decode('latin-1')
    return {'fmt': fmt, 'read': norm(ex['read']), 'write': norm(ex['write']), 'sig': signature, 'via': via}


def lean_chars(s):
    out = []
    for ch in s:
        o = ord(ch)
        if 32 <= o < 127 and ch not in "'\\":
            out.append(f"'{ch}'")
        else:
            out.append(f'Char.ofNat {o}')
    return '[' + ', '.join(out) + ']'


def extract():
    import warnings
    import regions  # noqa: F401  (the live package: /repo editable install or REGIONS_SRC)
    from regions import Region, Regions
    from regions.core.registry import RegionsRegistry as RR
    problems = []
    info = {'source': os.path.dirname(inspect.getsourcefile(regions))}
    reg = RR.registry
    formats = sorted({k[2] for k in reg if k[1] in ('write', 'identify', 'read')})
    for f in formats:
        if f not in KNOWN_FORMATS:
            problems.append(f'format {f!r} is registered but unknown to the model (Impl.Write.Format)')
    for f in KNOWN_FORMATS:
        for m in ('write', 'serialize', 'read', 'parse', 'identify'):
            for cls in (Region, Regions):
                if m in ('read', 'parse') and cls is Region:
                    continue
                if (cls, m, f) not in reg:
                    problems.append(f'{m} for {f} is not registered for {cls.__name__}')
    if problems:
        return None, info, problems

    protos = {}
    blanks = {}
    kept_blanks = {}
    info['ignored_calls'] = {}
    for f in KNOWN_FORMATS:
        w = reg[(Regions, 'write', f)]
        if reg[(Region, 'write', f)] is not w:
            problems.append(f'{f}: Region and Regions use different writers')
        ser = reg[(Regions, 'serialize', f)]
        if reg[(Region, 'serialize', f)] is not ser:
            problems.append(f'{f}: Region and Regions use different serialisers')
        walk = WriterWalk(fn_ast(w), f, ser.__name__)
        walk.body(walk.fn.body)
        problems.extend(walk.problems)
        protos[f] = walk.steps
        blanks[f], kept_blanks[f] = blank_rules(ser)
        info['ignored_calls'][f] = sorted(set(walk.ignored))
        if 'serialize' not in walk.steps:
            problems.append(f'{f}: no serialisation step found in {w.__name__}')
        if not ({'writeBytes', 'writeto'} & set(walk.steps)):
            problems.append(f'{f}: no write step found in {w.__name__}')
    info['protocols'] = protos
    info['empty_blank'] = blanks
    info['kept_blank'] = kept_blanks

    tables = {}
    for f in KNOWN_FORMATS:
        idf = reg[(Regions, 'identify', f)]
        if reg[(Region, 'identify', f)] is not idf:
            problems.append(f'{f}: Region and Regions use different identifiers')
        t = identify_table(idf, f, problems)
        if t:
            tables[f] = t
    order = {cls.__name__: [k[2] for k in RR.get_identifiers(cls)] for cls in (Regions, Region)}
    info['order'] = order
    info['tables'] = tables
    if len(tables) != len(KNOWN_FORMATS):
        return None, info, problems

    # live cross-check of the identifier tables
    all_exts = sorted({e for t in tables.values() for e in t['read'] + t['write']})
    names = ['x' + e for e in all_exts] + ['X' + e.upper() for e in all_exts] + ['x.dat', 'x', 'x.gz', 'x.txt']
    with tempfile.TemporaryDirectory(prefix='c14x_') as d, warnings.catch_warnings():
        warnings.simplefilter('ignore')
        from astropy.io import fits
        contents = {'empty': b'', 'junk': b'hello world\n'}
        for f, t in tables.items():
            if t['via'] == 'signature':
                contents['sig_' + f] = t['sig'].encode() + b' rest\n'
        fits.PrimaryHDU().writeto(os.path.join(d, 'min.fits'))
        contents['sig_fits'] = open(os.path.join(d, 'min.fits'), 'rb').read()
        os.unlink(os.path.join(d, 'min.fits'))
        for f, t in tables.items():
            idf = reg[(Regions, 'identify', f)]
            for n in names:
                want = n.lower().endswith(tuple(t['write']))
                got = bool(idf('write', n))
                if want != got:
                    problems.append(f'{f}: identify(write, {n!r}) is {got}, extracted table says {want}')
                if n.lower().endswith(tuple(t['read'])):
                    if not idf('read', n):
                        problems.append(f'{f}: identify(read, {n!r}) is False, extracted table says True')
            for cname, c in contents.items():
                p = os.path.join(d, 'probe_' + cname + '.dat')
                with open(p, 'wb') as fh:
                    fh.write(c)
                want = c.startswith(t['sig'].encode()) and len(c) > 0
                try:
                    got = bool(idf('read', p))
                except Exception as e:   # noqa
                    got = f'{type(e).__name__}'
                if want != got:
                    problems.append(f'{f}: identify(read) on content {cname} is {got}, signature model says {want}')

    cap = lambda s: s[0].upper() + s[1:]
    L = []
    L.append('/- GENERATED by tools/c14_extract.py from the current source of the `regions` package.')
    L.append('   Do not edit; regenerated (and everything that imports it re-proved) on every check run. -/')
    L.append('import RegionsVerif.Impl.Write')
    L.append('')
    L.append('namespace RegionsVerif.Gen.WriteTables')
    L.append('open RegionsVerif.Impl.Write')
    L.append('')
    L.append('/-- step order of the registered `_write_*` functions (AST walk, evaluation order). -/')
    L.append('def proto : Format → List Step')
    for f in KNOWN_FORMATS:
        L.append(f'  | .{f} => [' + ', '.join('.' + s for s in protos[f]) + ']')
    L.append('')
    L.append("/-- the serialiser starts with `if not regions: return ''`. -/")
    L.append('def emptyBlank : Format → Bool')
    for f in KNOWN_FORMATS:
        L.append(f'  | .{f} => {"true" if blanks[f] else "false"}')
    L.append('')
    L.append("/-- the serialiser returns '' when no element is left after skipping (`if not region_data: return ''`). -/")
    L.append('def keptBlank : Format → Bool')
    for f in KNOWN_FORMATS:
        L.append(f'  | .{f} => {"true" if kept_blanks[f] else "false"}')
    L.append('')

    def entry(f):
        t = tables[f]
        return ('⟨.' + f + ',\n     [' + ', '.join(lean_chars(e) for e in t['read']) + '],\n     ['
                + ', '.join(lean_chars(e) for e in t['write']) + '],\n     ' + lean_chars(t['sig'])
                + ', .' + t['via'] + '⟩')
    for clsname in ('Regions', 'Region'):
        L.append(f'/-- identifiers of `{clsname}` in registration order (first match wins). -/')
        L.append(f'def ident{clsname} : List IdentEntry := [')
        L.append('    ' + ',\n    '.join(entry(f) for f in order[clsname]))
        L.append('  ]')
        L.append('')
    L.append('end RegionsVerif.Gen.WriteTables')
    return '\n'.join(L) + '\n', info, problems


def run(path=GEN):
    """regenerate the Gen file; returns (info, problems)."""
    text, info, problems = extract()
    if text is not None:
        old = open(path).read() if os.path.exists(path) else None
        if old != text:
            os.makedirs(os.path.dirname(path), exist_ok=True)
            tmp = f'{path}.{os.getpid()}.tmp'
            with open(tmp, 'w') as f:
                f.write(text)
            os.replace(tmp, path)
            info['rewritten'] = True
    return info, problems


if __name__ == '__main__':
    if os.environ.get('REGIONS_SRC'):
        sys.path.insert(0, os.environ['REGIONS_SRC'])
    info, problems = run()
    print(json.dumps({'info': info, 'problems': problems}, indent=1))
    sys.exit(1 if problems else 0)
