"""Single source of truth for MANIFEST.json (tools/mkmanifest.py)."""

FIX_COMMITS = ['cca4fac (C19 bbox int coercion)', '1b3ab08 (C05 cutout fill dtype)', '81c7236 (C05 multiply Quantity fill)']
HOOK_COMMITS = []

CHECKS = [
    {'property_id': 'C19',
     'technique': 'Lean 4 theorems (omega / floor lemmas) over Int and any ordered floor field; correspondence run',
     'text': 'All clauses are theorems about the Impl model of RegionBoundingBox for ALL integers / rationals / reals: '
             'union = least upper bound (corner order; pixel sets for non-empty boxes), intersection = common pixels, '
             'commutativity, associativity, shape/centre/extent vs pixel set, from_float minimal covering box, '
             'overlap slices in range / equal-shaped / exactly the common pixels. The two "None exactly when" clauses are '
             'refuted at full strength in Lean (touching/empty boxes, F16a/F16b, replayed on the real code = known findings) '
             'and proved under the decidable non-degeneracy predicates. Model tied to the code by an exhaustive small-window + random differential run.',
     'note': 'Trusted: Lean kernel, Mathlib, propext/Classical.choice/Quot.sound; the hand model BBox.lean is tied to bounding_box.py by the '
             'correspondence run (and translator bridge when enabled); numpy floor/ceil exact on doubles.'},
    {'property_id': 'C05',
     'technique': 'Lean 4 theorems (placement algebra over Int indices, any element type); correspondence run',
     'text': 'to_image / cutout / multiply / get_values of the Impl model of RegionMask are proved equal to placement of the mask array '
             'with its lower-left pixel at (ixmin, iymin), for every box position, every mask/image shape and every element type; '
             'None exactly when get_overlap_slices is None; view iff fully inside and copy=False; windows in range (no wrap-around, from C19). '
             'numpy slicing/casting, and that the input image is not modified, are not theorems: they are parameters of the model, '
             'exercised by the differential run (exact value comparison on dyadic data, input fingerprinted before/after).',
     'note': 'Trusted: Lean kernel/Mathlib/3 std axioms; numpy basic slicing = sliceAssign/sliceRead primitives; numpy dtype casting; '
             'hand model Mask.lean tied to mask.py by the correspondence run. Degenerate empty box / zero-sized image = known finding F16c.'},
]

_PENDING = 'check not built yet in this session (see DESIGN.md build order); not a statement that the technique cannot apply'
NOT_APPLICABLE = [{'property_id': f'C{i:02d}', 'reason': _PENDING} for i in range(1, 21)
                  if f'C{i:02d}' not in {c['property_id'] for c in CHECKS}]
