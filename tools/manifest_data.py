"""Single source of truth for MANIFEST.json (tools/mkmanifest.py)."""

FIX_COMMITS = ['cca4fac (C19 bbox int coercion)']
HOOK_COMMITS = []

CHECKS = [
    {'property_id': 'C19',
     'technique': 'Lean 4 theorems (omega / floor lemmas) over Int and any ordered floor field; correspondence run',
     'text': 'All clauses are theorems about the Impl model of RegionBoundingBox for ALL integers / rationals / reals: '
             'union = least upper bound (corner order; pixel sets for non-empty boxes), intersection = common pixels, '
             'commutativity, associativity, shape/centre/extent vs pixel set, from_float minimal covering box, '
             'overlap slices in range / equal-shaped / exactly the common pixels. The two "None exactly when" clauses are '
             'refuted at full strength in Lean (touching/empty boxes, F16a/F16b, replayed on the real code = known findings) '
             'and proved under the decidable non-degeneracy predicates. Model tied to the code by an exhaustive small-window + random differential run.',
     'note': 'Trusted: Lean kernel, Mathlib, propext/Classical.choice/Quot.sound; the hand model BBox.lean is tied to bounding_box.py by the '
             'correspondence run (and translator bridge when enabled); numpy floor/ceil exact on doubles.'},
]

_PENDING = 'check not built yet in this session (see DESIGN.md build order); not a statement that the technique cannot apply'
NOT_APPLICABLE = [{'property_id': f'C{i:02d}', 'reason': _PENDING} for i in range(1, 21)
                  if f'C{i:02d}' not in {c['property_id'] for c in CHECKS}]
