"""Single source of truth for MANIFEST.json (tools/mkmanifest.py)."""

FIX_COMMITS = ['cca4fac (C19 bbox int coercion)', '1b3ab08 28009fb (C05 cutout fill dtype / out-of-range integer fill)', '81c7236 (C05 multiply Quantity fill)', '1970dc7 e443d7c (C20 PixCoord.rotate any shape / differences in float)', 'c13e427 032fdea 32d7f72 d3bcfe5 (C01 polygon scalar contains / ellipse+rectangle offsets in float F1c / regular polygon follows assigned parameters F1r)', 'b692b96 (C14 FITS lexists)', 'd5e55fe (C14 encode before open)', '7575e32 ccc4c00 50480bb b15a97b d623722 727d915 942a7aa ec59199 (C17 validators (+ huge Python ints F11b)/meta/list (+ one-shot iterables in the constructor F13c and in extend F13d)/nvertices/text)', 'd91a439 7c95242 bdc0d0d 562b011 (C12 FITS exclude prefix / include+component / component dtype / ROTANG degrees)', '23f75f4 4b5524a 7cc5a6b fa5f94a 048db14 4a2f847 (C16/C06 compound sky meta, shape-mismatch ==, symmetric PixCoord ==, DS9 Path markers survive copy F15m, == with an extra frame attribute F15v, numpy-scalar vs Python-number parameters F22b)', 'dca4ab5 4987549 cb1965c (C18 text kwargs aliases / polygon origin in float F182 / circle radius float F183)', 'be2b52e f813781 bd2caa9 1c54a50 e6a38a6 3370b62 (C10 DS9 reader; last two: composite properties F105/F106)', 'd58a058 80f2f4f 193fdcf b51f440 4e1204d (C09 DS9 writer; frame attributes F35; reader accepts the trailing decimal point of precision=0 F38)', '90d029a 48bc62d 5176ec4 3bd1349 e7c5f7b 10da16e 120394c (C11/C13 CRTF; last one: frame attributes F34)', 'b532b53 b44d15d (C06 point/line/text sky contains() shape F203; sky contains() on latitude-first WCSs F205)']
HOOK_COMMITS = []

CHECKS = [
    {'property_id': 'C19',
     'technique': 'Lean 4 theorems (omega / floor lemmas) over Int and any ordered floor field; correspondence run',
     'text': 'All clauses are theorems about the Impl model of RegionBoundingBox for ALL integers / rationals / reals: '
             'union = least upper bound (corner order; pixel sets for non-empty boxes), intersection = common pixels, '
             'commutativity, associativity, shape/centre/extent vs pixel set, from_float minimal covering box, '
             'overlap slices in range / equal-shaped / exactly the common pixels. The two "None exactly when" clauses are '
             'refuted at full strength in Lean (touching/empty boxes, F16a/F16b, replayed on the real code = known findings) '
             'and proved under the decidable non-degeneracy predicates. Model tied to the code by an exhaustive small-window + random differential run.',
     'note': 'Trusted: Lean kernel, Mathlib, propext/Classical.choice/Quot.sound; the hand model BBox.lean is tied to bounding_box.py by the '
             'correspondence run (and translator bridge when enabled); numpy floor/ceil exact on doubles.'},
    {'property_id': 'C05',
     'technique': 'Lean 4 theorems (placement algebra over Int indices, any element type); correspondence run',
     'text': 'to_image / cutout / multiply / get_values of the Impl model of RegionMask are proved equal to placement of the mask array '
             'with its lower-left pixel at (ixmin, iymin), for every box position, every mask/image shape and every element type; '
             'None exactly when get_overlap_slices is None; view iff fully inside and copy=False; windows in range (no wrap-around, from C19). '
             'numpy slicing/casting, and that the input image is not modified, are not theorems: they are parameters of the model, '
             'exercised by the differential run (exact value comparison on dyadic data, input fingerprinted before/after).',
     'note': 'Trusted: Lean kernel/Mathlib/3 std axioms; numpy basic slicing = sliceAssign/sliceRead primitives; numpy dtype casting; '
             'hand model Mask.lean tied to mask.py by the correspondence run. Degenerate empty box / zero-sized image = known finding F16c.'},
    {'property_id': 'C01',
     'technique': 'Lean 4 theorems over any ordered field (linear_combination with c^2+s^2=1, nlinarith), parity induction for the even-odd rule; correspondence run',
     'text': 'contains() of the Impl model is proved equal to the geometric point set for circle (open disk; hypot form over R), '
             'ellipse (closed, axes w,h along u,u-perp), rectangle (open), annuli (inner subset outer hence outer minus inner, and the shared '
             'include flag still yields the exact complement), points/lines/text (nothing), for ALL parameters, unit vectors and query points; '
             'include flag = exact complement for every value in {absent,True,False,1,0}; result shape = query shape for every class. '
             'Polygons: proved laws of the even-odd implementation (division-free form, edge symmetry, translation invariance, start-vertex and orientation independence, axis rectangles exact, '
             'confinement to the vertex range via parity of straddling edges); the even-odd implementation is PROVED correct for every non-degenerate triangle '
             '(true on the open triangle = strict convex combinations of the vertices, false off the closed triangle, both orientations) and, by the exact fan decomposition '
             'pnpoly_fan + induction, for every strictly convex polygon with any number of vertices (true on the open polygon off the fan diagonals of one vertex, false outside), '
             'in particular for the ideal vertices of RegularPolygonPixelRegion for every n >= 3 (proved strictly convex over R: C01Regular); '
             'for EVERY vertex list in generic position the ray-casting implementation is proved equal to the fan parity (number of fan triangles containing the point mod 2, C01Fan), a direction-free definition of even-odd filling; '
             'for polygons star-shaped with respect to their first vertex (convex or not) the fan parity is proved to be membership in the union of the fan triangles = the polygon (C01Star); '
             'that the fan parity of a GENERAL simple polygon is its interior is the classical triangulation fact (Jordan curve), NOT a theorem here: decided by the differential run against an exact-rational crossing oracle.',
     'note': 'Trusted: Lean kernel/Mathlib/3 std axioms; hand model Shapes.lean/Region.lean tied to the code by the correspondence run '
             '(exact rationals, boundary band 1e-9 excepted as C01 allows); np.cos/np.sin/np.hypot correct to a few ulp; the compiled pnpoly .so is what runs.'},
    {'property_id': 'C04',
     'technique': 'Lean 4 theorems (Cauchy-Schwarz via nlinarith, corner case analysis, fold invariants, exact floor-of-sqrt with proof against Real.sqrt); correspondence run',
     'text': 'For every shape the float rectangle handed to from_float is proved to enclose every member point and to be tight (circle: every line strictly inside meets the disk; '
             'rectangle: each side attained by a corner that is a limit of members; ellipse over R: each side attained by a member; polygon: exact vertex range, members confined by the parity argument; '
             'line/point: endpoints); from_float gives the smallest box covering it and each border column/row is reached (C19); the executable ellipse box is proved equal to from_float of the real sqrt extent; '
             'for region expressions of ANY depth the box encloses every component shape (induction), annulus box = outer box, compound box = union. '
             'mask.bbox == region.bounding_box and no weight outside are checked on the real code (kernels are C02/C03).',
     'note': 'Trusted: Lean kernel/Mathlib/3 std axioms; hand model Extent.lean tied by the correspondence run (exact box equality; a side whose extent is within 1e-9 of a pixel edge is excepted '
             'only when the float arithmetic is inexact); np.sqrt/cos/sin to a few ulp.'},
    {'property_id': 'C15',
     'technique': 'Lean 4 theorems (linear_combination with c^2+s^2=1, structural induction over region expressions, floor/sqrt-floor translation lemmas); correspondence run',
     'text': 'PixCoord.rotate is proved an isometry that fixes the centre, composes additively and is inverted by the opposite angle; a rotated circle/ellipse/rectangle/annulus/'
             'point/line/text and any compound of them (induction, any depth) contains a rotated position exactly when the original contained the unrotated one; class, operator and include flags '
             'are preserved, area unchanged for EVERY class (polygons: the shoelace sum is rotation invariant, telescoping over the closed polygon), rotating back restores every parameter (all classes incl. polygons: vertex map). Translation: membership follows a translation for EVERY class '
             '(polygons included) and the bounding box of any region expression moves by exactly the integer shift (incl. the exact sqrt-floor ellipse box). '
             'The mask of ANY region expression is unchanged by a whole-pixel translation and its box moves with it (mask_shift, center/subpixels, polygons via translation invariance of the even-odd rule). Rotation invariance of the even-odd answer is proved for ARBITRARY polygons in generic position (pnpoly_rotate_generic via the fan parity; C15Poly.contains_rotate: every region expression incl. polygons) and without the genericity hypothesis for triangles and strictly convex polygons strictly inside/outside; points on a fan line (a null set containing the boundary) are validated only; exact-mode masks under translation are checked on the real code.',
     'note': 'Trusted: Lean kernel/Mathlib/3 std axioms; hand model Region.lean (rotate/shift) tied by the correspondence run: rotated parameters within 1e-9*scale of the exact model values, '
             'membership compared outside a rounding band; original object fingerprinted before/after.'},
    {'property_id': 'C14',
     'technique': 'Lean 4 theorems about a write-protocol step machine over an abstract file system; step order and identify tables regenerated from the source AST / live package on every run (translator) and decided; correspondence run on a real temp-dir matrix',
     'text': 'For every file system, path state (absent/file/symlink chain/dangling), list length and failing position: a write to an existing destination without overwrite raises OSError and changes nothing; '
             'a write that fails for any cause (serialisation at any position, encoding, bad option) changes nothing even with overwrite=True (because serialise/encode precede open in the GENERATED step order); '
             'success writes exactly encode(serialize items) at the end of the symlink chain; read(write) = parse(serialize) for format given / from extension / from content; identify tables consistent and first-match routing cannot mis-route (decide over generated tables). '
             'OS semantics, astropy writeto, serialisers/parsers and gzip are parameters (laws stated as hypotheses, exercised for real).',
     'note': 'Partial: OS file semantics and astropy.io.fits.writeto are parameters of the model (astropyWriteto proved to satisfy the assumed WritetoLaw); trusted extractor tools/c14_extract.py; '
             'Lean kernel + propext/Quot.sound only. F18/F40 fixed in /repo (b692b96, d5e55fe).'},
    {'property_id': 'C02',
     'technique': 'Lean 4 theorems (loop invariants over List.range folds, skip-box soundness, structural induction over region expressions); translator (the to_mask glue of the four maskable classes regenerated from source, rfl bridges); correspondence run',
     'text': 'The sub-sampling double loop of all four kernels is proved to count exactly the n x n regularly spaced sample centres passing the kernel test (accumulator closed form), '
             'values are k/n^2 in [0,1]; n=1 samples the pixel centre; the kernels tests equal the shapes membership tests (ellipse: open vs closed, boundary only); the bounding-box skips of the '
             'circle/ellipse/polygon kernels lose nothing (polygon: via the parity theorem); with the to_mask glue every cell (j,i) of a simple-shape mask is the sampled membership of pixel '
             '(ixmin+i, iymin+j) and the mask box is bounding_box; for EVERY region expression (annuli, compounds of any depth) the centre mask is 0/1, has the expression box, and is 1 exactly '
             'where the pixel centre is in the expression point set (C08.center_mask_spec, induction); mode table. '
             'the circle kernel fast paths (sqrt, over R) are proved to agree with sampling (triangle inequality). Validated only: that the compiled .so implements the .pyx.',
     'note': 'Trusted: Lean kernel/Mathlib/3 std axioms; hand model MaskGen.lean tied to the '
             'compiled kernels + to_mask glue by exact comparison of recovered sample counts; boundary sub-samples (exact distance < 1e-9) excepted.'},
    {'property_id': 'C08',
     'technique': 'Lean 4 theorems by structural induction over region expressions; padding/placement algebra with omega; translator (compound contains + annulus structure regenerated from source, rfl bridges); correspondence run',
     'text': 'contains of a compound = operator applied to the operands answers, negated as a whole when its include flag is falsy; |,&,^ are or/and/xor; rotation commutes with the operator and keeps it; '
             'np.pad placement on the union box is proved cell-exact (padCell_spec) and the centre mask of any compound = operator of the operands masks on the union box = indicator of the operator applied to the '
             'operands point sets (combine_ok, center_mask_spec, any depth); annulus = outer minus inner (nesting proved), complement under the shared include flag, area = difference; annulus box = outer box (monotonicity of from_float and of the sqrt-floor). '
             'Commutation with pixel<->sky conversion is C06.',
     'note': 'Trusted: Lean kernel/Mathlib/3 std axioms; hand model tied to compound.py by the correspondence run (real compound vs operator of the real operands answers/masks, exact). numpy pad / integer bitwise ops are parameters.'},
    {'property_id': 'C20',
     'technique': 'Lean 4 theorems over a list model of n-d arrays with numpy broadcasting/indexing as a stated parameter; correspondence run (by builder)',
     'text': 'Constructor broadcast (shape, values, scalar stays scalar, ValueError iff not broadcastable), getitem delegates to x[key], y[key] for every key of the modelled index language incl. exceptions, '
             'len/iter agreement, +/- component-wise and mutually inverse, separation = Euclidean, rotate = point-wise isometry that composes additively, fixes the centre and is inverted by the opposite angle (any shapes), '
             'sky round trip under an invertible WCS for both origins. numpy broadcasting/indexing rules and the WCS are parameters; copy independence is checked on real arrays.',
     'note': 'Partial: numpy and wcslib are parameters. Trusted: Lean kernel/Mathlib/3 std axioms; model PixCoord.lean + Lemmas/NDArr.lean tied by the differential run (exact on dyadic data). F201 (rotate for rank>=2) fixed in /repo 1970dc7.'},
    {'property_id': 'C10',
     'technique': 'Lean 4 theorems about an independent reference interpreter of the DS9 conventions (induction over token/line lists); conformance of the real parser by differential run (by builder)',
     'text': 'A reference interpreter written from the DS9 conventions in the property text (not from the parser) is proved, for files of any length, to satisfy frame persistence, no-frame-no-region, '
             'origin shift on positions only, ellipse semi-axes, bare = degrees/pixels, hours only for equatorial longitudes, local-over-global precedence, include sign vs key, multi-radius expansion, '
             'separator/punctuation interchangeability and independence from unsupported lines. That the REAL regex parser equals the reference is NOT a theorem: it is decided by the differential run on grammar-generated files '
             '(every shape x frame x notation x separator x case x sign x property list, interleaved unsupported lines).',
     'note': 'Partial: conformance of regions/io/ds9/read.py to the reference is established only by the differential run. Trusted: Lean kernel + 3 std axioms; the Spec reading of the conventions; astropy unit conversion. '
             'F101-F104 fixed in /repo (be2b52e f813781 bd2caa9 1c54a50).'},
    {'property_id': 'C12',
     'technique': 'Lean 4 theorems by induction over region lists on a variant-parameterised model of FITS writer/reader (exact rationals); generated shape tables decided; correspondence incl. real files (by builder)',
     'text': 'For every list (any length, any mix, any padding) of representable regions: serialize then parse yields the same classes, identical geometry, exclude flag and components (fresh distinct otherwise); '
             'fixed point proved outright; skipped regions leave no trace; other read notations (box/rectangle/rotrectangle). The round trip is refuted at full strength by exactly one open defect (F10: zero-padded short polygons) and '
             'proved under the decidable predicate NoShortPolygon, which is shown exact. The astropy table/file layer is a parameter (law: table in = table out), exercised for real.',
     'note': 'Trusted: Lean kernel + 3 std axioms; astropy BinTableHDU/QTable as a parameter; Gen/FitsTables.lean regenerated from the live package each run. F8/F9/F121 fixed (d91a439 7c95242 bdc0d0d); F10 open (known finding).'},
    {'property_id': 'C16',
     'technique': 'Lean 4 theorems on a heap (object-id tree) model of copy/deepcopy/mutation and a line-by-line model of Region.__eq__/PixCoord.__eq__; induction over mutation sequences; correspondence with aliasing-graph walk (by builder)',
     'text': 'copy/deepcopy share no mutable object with the original, so ANY sequence of mutations of one leaves the other unchanged (induction); copy equals original and copy(**changes) differs in exactly the named fields; '
             '== is symmetric (two-way tolerance), unit-insensitive, never raises, and detects any differing class/parameter/meta/visual entry; reflexive except for NaN parameters (F11c, open, refuted + partial); Regions slices/copies independent.',
     'note': 'Trusted: Lean kernel + 3 std axioms; which real attributes are mutable nodes is the harness reading (validated by the aliasing walk); float rounding in cross-unit comparison excepted. F15/F22/F22b/F2c fixed in /repo.'},
    {'property_id': 'C17',
     'technique': 'Lean 4 theorems: translated validator decision logic, state machine over assignment/delete/dict/list operations, invariant by induction over histories; class and vocabulary tables checked against the live package each run (by builder)',
     'text': 'validator soundness and completeness for all 12 descriptor classes, rejected operation = no-op (atomic), parameters not deletable, read-back, every Meta dict entry point validates, Regions list typed, '
             'every constructed region valid (23 classes), and the validity invariant for histories of ANY length — full strength for all classes without an inner/outer pair; for annuli refuted by F14 (assignment can make inner >= outer; open, patch would break an existing test) and proved under the exact excluding predicate.',
     'note': 'Trusted: Lean kernel + 3 std axioms; that Val captures what validators observe and the constructor store order are harness-validated. F11/F12/F13/F14b/F14c fixed in /repo; F14 open.'},
    {'property_id': 'C18',
     'technique': 'Lean 4 theorems with matplotlib patch semantics as stated parameters (rotation algebra, shoelace/winding reversal lemmas, association-list precedence); correspondence with a winding-number oracle on the real transformed paths (by builder)',
     'text': 'For all parameters/origins/unit vectors: the point set of the Rectangle/Ellipse/Circle/Polygon patch built from the code arguments equals the region point set shifted by -origin (degrees vs radians, corner, width/height order), '
             'annulus path = outer ++ reversed inner with negated winding (a hole under the non-zero rule; un-reversed would fill it), points/text/lines at position - origin, caller kwargs override visual override defaults (after normalisation of aliases). '
             'The curve-approximation tolerance is a theorem (Props/C18Bezier): every point of the 8 cubic Bezier segments of matplotlib\'s unit circle has radius in [1 - 3.85e-6, 1 + 2.8e-6] (Bernstein-coefficient certificates after de Casteljau subdivision; also for control points within delta of the ideal ones, +-2 delta), the polar angle increases strictly along each segment and the curve closes; hence the outline of any Circle/Ellipse patch lies between the ellipses scaled by those factors.',
     'note': 'Partial: matplotlib constructor/path semantics are parameters; validated on real patches by flattening Beziers and computing winding numbers (3e-4 boundary band for curves). F181/F181b fixed in /repo (dca4ab5).'},
    {'property_id': 'C03',
     'technique': 'Lean 4 theorems over R (Mathlib: FTC, arcsin/chord identities, Lebesgue measure of regions between graphs, convex hulls, linear change of variables) about template-generated models of the circle AND ellipse exact kernels (same text instantiated over Float for execution, bit-identical to the compiled kernel); differential run against the compiled kernel and a 50-digit closed-form integration oracle',
     'text': 'PARTIAL. Circle exact path PROVED over R for all inputs (Props/C03, Props/C03Area): the quadrant recursion terminates; circular_overlap_core equals the integral of the vertical slice length AND the Lebesgue measure of rectangle ∩ open disk in all six branches, with no side conditions; '
             'circular_overlap_single_exact of ANY rectangle = its area of intersection with the disk; every cell of the exact grid = area(pixel ∩ disk)/(dx dy) through skip box, both fast paths and the recursion, hence in [0,1], exactly 1 / 0 for covered / uncovered pixels; the mask over any grid covering the disk sums to pi r^2. '
             'Ellipse exact path (Props/C03Ellipse, C03EllipseGeom; literal model of elliptical_overlap_single_exact and overlap_area_triangle_unit_circle with circle_line / circle_segment / in_triangle): the recursion terminates (fuel 2); pixel ∩ ellipse = rx ry (T1 ∩ disk + T2 ∩ disk) in measure (linear change of variables); area_triangle = measure of the closed triangle, area_arc_unit = circular segment (minor or major); '
             'overlapTri_correct_partial: for every triangle in the class Good (all vertices inside or on; two in / one out; one in / two out incl. the pi - arc and the two-crossing branch; none in with or without chord recursion; vertices outside the 1e-10 tolerance ring, edges not tiny) the routine returns exactly the measure of triangle ∩ unit disk, hence ellipseCell_eq_volume_good: the cell value = area(pixel ∩ ellipse)/(dx dy) in [0,1]. '
             'The full statement is REFUTED by theorems at rational inputs (on1_branch_refuted, on2_branch_refuted = open findings F3a / F3b, a pixel corner exactly on the ellipse; on_tip_branch_refuted = F3c, a vertex inside the 1e-10 tolerance ring next to a tangent edge: circle_line returns its sentinel (2,2), which is then used as a point - NaN when the chord exceeds 2; on_tip_exact_correct: with the vertex exactly on the circle the branch is right, so F3c is a pure tolerance-ring defect), confirmed on the real library. '
             'Convergence (Props/C03Converge): for every circle and every ellipse (any unit direction), every pixel and every n > 0, |sub-pixel mask cell - area(pixel ∩ open shape)| <= 2/n (circle_mask_converges, ellipse_mask_converges; abstract form sampled_error_quasiconcave for any shape whose vertical slices are open intervals of continuous quasi-concave length; per column two threshold counts within 1/(2n), across columns the midpoint rule of a unimodal function). '
             'Sub-pixel values are k/n^2 in [0,1] (C02). NOT proved (validated only): that the IEEE-double evaluation stays within 1e-8 of the real value; the remaining on-vertex sub-branches and the tolerance ring of the ellipse routine; the convergence bound for polygons (rotated rectangles: rect_mask_converges, 2/n, Props/C03ConvergeConvex - the sandwiched column lemma admits any boundary convention and the running-maximum decomposition needs no continuity; strictly convex polygons: polygon_mask_converges_convex, (k + V)/n with k vertices and V vertical edges, Props/C03ConvergePoly - exceptional points per column for the fan diagonals and the unknown boundary convention; non-convex polygons stay validated).',
     'note': 'Partial proof: floating-point evaluation is validated by a differential run: Float instance of the SAME Lean text vs the compiled kernel (circle 1e-12, ellipse bit-identical on all cells so far), and kernel vs an independent closed-form integration oracle evaluated with 50-60 digits (1e-8); convergence with the explicit constant 4L/n + 4m/n^2. Open findings F3a, F3b (not repairable here: Cython source, no compiler). '
             'Trusted: Lean kernel + 3 std axioms; tools/instantiate.py (one template, two instances); libm.'},
    {'property_id': 'C06',
     'technique': 'Lean 4 theorems with the WCS as a parameter (mutually inverse maps; helper result as unit vector + scale), structural induction over region expressions, unit-vector angle algebra; correspondence with real astropy WCS objects (by builder)',
     'text': 'PARTIAL (WCS is a parameter). Given exactly inverse WCS maps: pixel->sky->pixel and sky->pixel->sky return the same class, operator, text and every numeric parameter for all 11 classes and compounds of any depth (induction); '
             'meta/visual (incl. include flag and text rotation) preserved with no WCS hypothesis; SkyRegion.contains equals the pixel image answer on converted positions, compounds component-wise. '
             'The literal sqrt/atan2 helper is proved to meet its root-free spec over R. Real WCS objects satisfy the hypotheses only approximately: exercised by the differential run (TAN/SIN/CAR, rotations, scales, parities, frames).',
     'note': 'Partial: wcslib/astropy WCS, unit/Angle arithmetic and frames are parameters. Trusted: Lean kernel + 3 std axioms. F2 fixed in /repo (23f75f4).'},
    {'property_id': 'C07',
     'technique': 'Lean 4 theorems under a local-similarity hypothesis for the WCS; correspondence against an oracle independent of the helper (SkyCoord.directional_offset_by + world_to_pixel) (by builder)',
     'text': 'PARTIAL (WCS is a parameter). Given an exact local similarity of standard parity: the helper returns exactly the local scale and north direction (also for the literal sqrt/atan2 code over R); the pixel image of circle/ellipse/rectangle/annuli '
             'has centre toPix(c), lengths = angular/s and the width axis along rot(alpha)(rot90cw n); sky points at the semi-axes land on the pixel boundary; indeed every sky offset point is inside the pixel shape iff inside the sky shape. '
             'This is the absolute statement a round trip cannot see. That TAN/SIN are similarities to the needed order is validated by the run only.',
     'note': 'Partial: WCS is a parameter; centres limited to 1 deg off-axis in the run (second-order term). Trusted: Lean kernel + 3 std axioms; astropy offsets as the independent oracle.'},
    {'property_id': 'C09',
     'technique': 'Lean 4 theorems on a structured model of DS9 writer and reader (lists of any length, all hash orders, parameterised by writer-fix flags) + exact decimal printer/reader; correspondence on text and parsed regions incl. cross-PYTHONHASHSEED runs (by builder)',
     'text': 'dec_roundtrip (|read(fmt p x) - x| <= half a unit for every rational and precision); ds9_roundtrip (class, frame, text/label/tags, include sense, every number = its printed rounding; ellipse full axes within one unit, stated), '
             'ds9_fixed_point on the reader image, skip_independent, output independent of hash order. Full round trip refuted only by F19 (size below half a printed unit prints 0.000; open, limit of fixed notation) and proved on the exact complement class. '
             'Character level (Props/C09Lex): lex (render o) = ok (toRaw o) for EVERY output o whose metadata satisfies the decidable side condition WellFormedText (no line break / closing delimiter inside a value, no duplicate keys, ...: each excluded class is one the real reader loses too, proved for two of them by refutation theorems; shapes, frames, numbers, precision and file length unrestricted) - scanner lemmas, one line, global/frame/header lines, induction over the file; it is also still evaluated per case by the driver. astropy number formatting enters as hypotheses checked by value.',
     'note': 'Trusted: Lean kernel + 3 std axioms; astropy to_string formatting (SkyLaw/SkyFix hypotheses). F3/F4/F5/F50 fixed in /repo; F19 open.'},
    {'property_id': 'C11',
     'technique': 'Lean 4 theorems on a structured model of the CRTF writer and two-phase reader with exact decimal formatting; correspondence: model text == real text (string equality), model parse == real parse; (by builder)',
     'text': 'dec_roundtrip; crtf_roundtrip (one region per input, class, include sense, annotation type, geometry within half a unit of fmt, ellipse axes swap/halving involutive and never touching the angle, label/text/scalar meta), '
             'crtf_fixed_point, global default / inline override, coord= frame selection, prefix rules, units required, box forms agree — for lists of any length. The real regex tokenisation is tied by correspondence only. '
             'Open: F19 (shared with C09) and F31 (labelcolor dropped on write; patch would break a stored expected test file).',
     'note': 'Trusted: Lean kernel + 3 std axioms; astropy frame transforms/unit parsing as parameters. F6/F7/F20/F21/F32/F33 fixed in /repo.'},
    {'property_id': 'C13',
     'technique': 'Lean 4 frame theorem over a heap-effect model + decision over mutating-site and module-state tables regenerated from the source AST on every run; dynamic net: fingerprinted operation sequences, line tracer on unknown sites, fresh interpreters with other PYTHONHASHSEED (by builder)',
     'text': 'PARTIAL. Proved: frame_general (a program whose writes all target objects it allocated itself leaves every pre-existing/input-reachable object unchanged, any heap, induction), history_independent (results depending only on arguments and on module state no step writes are equal after any call sequence), '
             'and — decided over the GENERATED tables — no in-scope mutating site has an input receiver (sites_ok), module-level iterators are stateless or re-created per call, the registry is written only at import. '
             'The receiver classification itself is a static approximation by the extractor (trusted), unknown sites are validated dynamically (>= 20 hits, never aliasing an input); the fingerprint / repeat / fresh-interpreter runs are the second net.',
     'note': 'Partial: tools/c13_effects.py classification is trusted, not proved; C-level and astropy-internal mutations are seen by fingerprints only. Trusted: Lean kernel + 3 std axioms. F5/F6 fixed in /repo (193fdcf, 90d029a).'},
]

_PENDING = 'check not built yet in this session (see DESIGN.md build order); not a statement that the technique cannot apply'
NOT_APPLICABLE = [{'property_id': f'C{i:02d}', 'reason': _PENDING} for i in range(1, 21)
                  if f'C{i:02d}' not in {c['property_id'] for c in CHECKS}]
