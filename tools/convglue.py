#!/usr/bin/env python3
"""
convglue — translate the pixel<->sky conversion methods (`to_sky`, `to_pixel`, the annulus
`to_*_args` helpers) and the sky-side `contains` of every region class of astropy/regions into a
table of terms (tie T for C06 / C07).  Output: lean/RegionsVerif/Gen/ConvGlue.lean;
`Bridge/ConvGlue.lean` proves the table equal to the conversion rules the WCS model is built on.

Each method is interpreted symbolically (anything outside this grammar is REFUSED = broken tie):

  W2S(self.X)              wcs.pixel_to_world(self.X.x, self.X.y)
  S2P(self.X)              wcs.world_to_pixel(self.X)  (tuple, re-packed with PixCoord(…))
  CEN(e) SCALE(e) NORTH(e) the three results of pixel_scale_angle_at_skycoord(e, wcs)
  PIX(a / s)               (a / s).to(u.pix).value           sky size -> pixel size
  ANG(a * s)               a * u.pix * s  [Angle(…, 'arcsec') | .to(u.arcsec) | bare]   pixel size -> sky size
  ADD(a, n - 90deg) / SUB(a, n - 90deg)      the angle correction by the local north
  COPY(self.meta) COPY(self.visual)          fresh copies
  REC(self.R)              self.R.to_sky(wcs=wcs) / self.R.to_pixel(wcs=wcs)   (compounds)
  ROTVIS(+|-, e)           the text classes' visual['rotation'] correction (copy first, then += / -=)
  self.X                   an attribute handed over unchanged (text, operator)

Result per method: the class that is built and the list (parameter, term) in call order.
"""
import ast
import os
import sys

sys.path.insert(0, os.path.dirname(os.path.abspath(__file__)))
import py2lean  # noqa: E402
from py2lean import Refuse  # noqa: E402

OUT = os.path.join(py2lean.OUTDIR, 'ConvGlue.lean')

FILES = ['regions/shapes/circle.py', 'regions/shapes/ellipse.py', 'regions/shapes/rectangle.py',
         'regions/shapes/polygon.py', 'regions/shapes/annulus.py', 'regions/shapes/point.py',
         'regions/shapes/line.py', 'regions/shapes/text.py', 'regions/core/compound.py', 'regions/core/core.py']
METHODS = ('to_sky', 'to_pixel', 'to_sky_args', 'to_pixel_args')


def is_self_attr(n, depth=1):
    return isinstance(n, ast.Attribute) and isinstance(n.value, ast.Name) and n.value.id == 'self'


def unit_is(n, names):
    return isinstance(n, ast.Attribute) and isinstance(n.value, ast.Name) and n.value.id == 'u' and n.attr in names


class Interp:
    def __init__(self, cls, fn, args_methods):
        self.cls, self.fn, self.args_methods = cls, fn, args_methods
        self.env = {}
        self.rotvis = None

    def term(self, n):
        if isinstance(n, ast.Name):
            if n.id in self.env:
                return self.env[n.id]
            raise Refuse(f'unknown name {n.id}')
        if is_self_attr(n):
            return f'self.{n.attr}'
        if isinstance(n, ast.Call):
            f = n.func
            # wcs.pixel_to_world(self.X.x, self.X.y)
            if (isinstance(f, ast.Attribute) and f.attr == 'pixel_to_world' and getattr(f.value, 'id', None) == 'wcs'
                    and len(n.args) == 2 and not n.keywords):
                a, b = n.args
                if (isinstance(a, ast.Attribute) and a.attr == 'x' and isinstance(b, ast.Attribute) and b.attr == 'y'
                        and is_self_attr(a.value) and is_self_attr(b.value) and a.value.attr == b.value.attr):
                    return f'W2S(self.{a.value.attr})'
                raise Refuse('pixel_to_world arguments')
            # wcs.world_to_pixel(self.X)
            if (isinstance(f, ast.Attribute) and f.attr == 'world_to_pixel' and getattr(f.value, 'id', None) == 'wcs'
                    and len(n.args) == 1 and not n.keywords and is_self_attr(n.args[0])):
                return ('S2P', f'self.{n.args[0].attr}')
            # pixel_scale_angle_at_skycoord(e, wcs)
            if (isinstance(f, ast.Name) and f.id == 'pixel_scale_angle_at_skycoord' and len(n.args) == 2
                    and getattr(n.args[1], 'id', None) == 'wcs' and not n.keywords):
                e = self.term(n.args[0])
                return ('PSA', e)
            # PixCoord(a, b): a, b the two halves of an S2P tuple, or (t.x, t.y) of a term
            if isinstance(f, ast.Name) and f.id == 'PixCoord' and len(n.args) == 2 and not n.keywords:
                a, b = n.args
                if isinstance(a, ast.Name) and isinstance(b, ast.Name):
                    ta, tb = self.env.get(a.id), self.env.get(b.id)
                    if (isinstance(ta, tuple) and isinstance(tb, tuple) and ta[0] == 'S2Px' and tb[0] == 'S2Py' and ta[1] == tb[1]):
                        return f'S2P({ta[1]})'
                if (isinstance(a, ast.Attribute) and a.attr == 'x' and isinstance(b, ast.Attribute) and b.attr == 'y'
                        and isinstance(a.value, ast.Name) and isinstance(b.value, ast.Name) and a.value.id == b.value.id):
                    return self.term(a.value)
                raise Refuse('PixCoord arguments')
            # Angle(e, 'arcsec')
            if (isinstance(f, ast.Name) and f.id == 'Angle' and len(n.args) == 2 and isinstance(n.args[1], ast.Constant)
                    and n.args[1].value == 'arcsec' and not n.keywords):
                return self.ang(n.args[0], 'Angle-arcsec')
            # (e).to(u.arcsec)
            if (isinstance(f, ast.Attribute) and f.attr == 'to' and len(n.args) == 1 and unit_is(n.args[0], ('arcsec',))):
                return self.ang(f.value, 'to-arcsec')
            # X.copy()
            if isinstance(f, ast.Attribute) and f.attr == 'copy' and not n.args and not n.keywords:
                inner = self.term(f.value)
                if self.rotvis and isinstance(f.value, ast.Name) and f.value.id == 'visual':
                    return f'COPY({inner})'
                return f'COPY({inner})'
            # self.R.to_sky(wcs=wcs) / to_pixel(wcs=wcs)
            if (isinstance(f, ast.Attribute) and f.attr in ('to_sky', 'to_pixel') and is_self_attr(f.value)
                    and not n.args and len(n.keywords) == 1 and n.keywords[0].arg == 'wcs'
                    and getattr(n.keywords[0].value, 'id', None) == 'wcs'):
                return f'REC(self.{f.value.attr})'
            raise Refuse(f'call {ast.unparse(n)[:70]}')
        # (a / s).to(u.pix).value
        if (isinstance(n, ast.Attribute) and n.attr == 'value' and isinstance(n.value, ast.Call)
                and isinstance(n.value.func, ast.Attribute) and n.value.func.attr == 'to' and len(n.value.args) == 1
                and unit_is(n.value.args[0], ('pix', 'pixel'))):
            q = n.value.func.value
            if isinstance(q, ast.BinOp) and isinstance(q.op, ast.Div) and is_self_attr(q.left):
                return f'PIX(self.{q.left.attr} / {self.term(q.right)})'
            raise Refuse('sky size -> pixel size form')
        # a * u.pix * s  (bare)
        if isinstance(n, ast.BinOp) and isinstance(n.op, ast.Mult):
            return self.ang(n, 'bare')
        # angle +- (north - 90 * u.deg)
        if isinstance(n, ast.BinOp) and isinstance(n.op, (ast.Add, ast.Sub)) and is_self_attr(n.left) and n.left.attr == 'angle':
            r = n.right
            if (isinstance(r, ast.BinOp) and isinstance(r.op, ast.Sub) and isinstance(r.right, ast.BinOp)
                    and isinstance(r.right.op, ast.Mult) and isinstance(r.right.left, ast.Constant) and r.right.left.value == 90
                    and unit_is(r.right.right, ('deg',))):
                op = 'ADD' if isinstance(n.op, ast.Add) else 'SUB'
                return f'{op}(self.angle, {self.term(r.left)} - 90deg)'
            raise Refuse('angle correction form')
        raise Refuse(f'expression {ast.unparse(n)[:70]}')

    def ang(self, n, flavour):
        # self.S * u.pix * scale
        if (isinstance(n, ast.BinOp) and isinstance(n.op, ast.Mult) and isinstance(n.left, ast.BinOp)
                and isinstance(n.left.op, ast.Mult) and is_self_attr(n.left.left) and unit_is(n.left.right, ('pix', 'pixel'))):
            return f'ANG[{flavour}](self.{n.left.left.attr} * {self.term(n.right)})'
        raise Refuse('pixel size -> sky size form')

    def assign(self, tgt, val):
        t = self.term(val) if not isinstance(val, str) else val
        if isinstance(tgt, ast.Name):
            if isinstance(t, tuple):
                raise Refuse('tuple result assigned to one name')
            self.env[tgt.id] = t
            return
        if isinstance(tgt, ast.Tuple):
            names = [getattr(e, 'id', None) for e in tgt.elts]
            if isinstance(t, tuple) and t[0] == 'S2P' and len(names) == 2:
                self.env[names[0]] = ('S2Px', t[1])
                self.env[names[1]] = ('S2Py', t[1])
                return
            if isinstance(t, tuple) and t[0] == 'PSA' and len(names) == 3:
                for nm, part in zip(names, ('CEN', 'SCALE', 'NORTH')):
                    if nm != '_':
                        self.env[nm] = f'{part}({t[1]})'
                return
        raise Refuse('assignment form')

    def run(self):
        body = [st for st in self.fn.body
                if not (isinstance(st, ast.Expr) and isinstance(st.value, ast.Constant) and isinstance(st.value.value, str))]
        for st in body:
            if isinstance(st, ast.Assign) and len(st.targets) == 1:
                tgt = st.targets[0]
                if isinstance(tgt, ast.Name) and tgt.id == 'visual' and is_self_attr(st.value) and st.value.attr == 'visual':
                    self.env['visual'] = 'self.visual'
                    continue
                self.assign(tgt, st.value)
                continue
            if isinstance(st, ast.If):
                # if 'rotation' in self.visual: [ _, _, angle = psa(center, wcs) ] ; visual = visual.copy() ; visual['rotation'] +=/-= angle.to('deg').value - 90.0
                t = st.test
                if not (isinstance(t, ast.Compare) and isinstance(t.left, ast.Constant) and t.left.value == 'rotation'
                        and len(t.ops) == 1 and isinstance(t.ops[0], ast.In) and is_self_attr(t.comparators[0])
                        and t.comparators[0].attr == 'visual' and not st.orelse):
                    raise Refuse('if statement')
                copied, sign, angle_term = False, None, None
                for b in st.body:
                    if isinstance(b, ast.Assign) and isinstance(b.targets[0], ast.Tuple):
                        self.assign(b.targets[0], b.value)
                    elif (isinstance(b, ast.Assign) and getattr(b.targets[0], 'id', None) == 'visual'
                          and ast.unparse(b.value) == 'visual.copy()'):
                        if sign is not None:
                            raise Refuse('visual copied AFTER the rotation update')
                        copied = True
                    elif (isinstance(b, ast.AugAssign) and ast.unparse(b.target) == "visual['rotation']"
                          and isinstance(b.op, (ast.Add, ast.Sub)) and ast.unparse(b.value) == "angle.to('deg').value - 90.0"):
                        if not copied:
                            raise Refuse('visual rotation updated without copying the visual first')
                        sign = '+' if isinstance(b.op, ast.Add) else '-'
                        angle_term = self.env.get('angle')
                    else:
                        raise Refuse(f'text rotation block: {ast.unparse(b)[:60]}')
                if sign is None or angle_term is None:
                    raise Refuse('text rotation block incomplete')
                self.env['visual'] = f'ROTVIS({sign}, {angle_term})'
                self.rotvis = True
                continue
            if isinstance(st, ast.Return):
                return self.ret(st.value)
            if isinstance(st, ast.Raise):
                return ('raise', ast.unparse(st.exc) if st.exc else '')
            raise Refuse(f'statement {ast.unparse(st)[:60]}')
        raise Refuse('no return')

    def ret(self, v):
        if isinstance(v, ast.Tuple):      # the *_args helpers
            return ('tuple', [self.term(e) for e in v.elts])
        if not (isinstance(v, ast.Call) and isinstance(v.func, ast.Name)):
            raise Refuse('return form')
        slots = []
        for i, a in enumerate(v.args):
            if isinstance(a, ast.Starred):
                c = a.value
                if not (isinstance(c, ast.Call) and isinstance(c.func, ast.Attribute) and getattr(c.func.value, 'id', None) == 'self'
                        and c.func.attr in ('to_sky_args', 'to_pixel_args') and [getattr(x, 'id', None) for x in c.args] == ['wcs']):
                    raise Refuse('starred argument')
                slots.append((f'*{c.func.attr}', ''))
            else:
                slots.append((str(i), self.term(a)))
        for kw in v.keywords:
            slots.append((kw.arg, self.term(kw.value)))
        return ('build', v.func.id, slots)


def q(s):
    return '"' + s.replace('\\', '\\\\').replace('"', '\\"') + '"'


def main():
    root = os.environ.get('REGIONS_SRC', '/repo')
    problems, rows, sky_contains = [], [], []
    for rel in FILES:
        tree = ast.parse(open(os.path.join(root, rel)).read())
        for c in tree.body:
            if not isinstance(c, ast.ClassDef):
                continue
            for m in c.body:
                if not isinstance(m, ast.FunctionDef):
                    continue
                if m.name == 'contains' and ('Sky' in c.name):
                    body = [s for s in m.body if not (isinstance(s, ast.Expr) and isinstance(s.value, ast.Constant))]
                    sky_contains.append((c.name, ' ; '.join(' '.join(ast.unparse(s).split()) for s in body)))
                if m.name not in METHODS:
                    continue
                try:
                    r = Interp(c.name, m, None).run()
                    if r[0] == 'raise':
                        rows.append(f'({q(c.name + "." + m.name)}, {q("raise " + r[1])}, [])')
                    elif r[0] == 'tuple':
                        rows.append(f'({q(c.name + "." + m.name)}, "tuple", [' + ', '.join(f'({q(str(i))}, {q(t)})' for i, t in enumerate(r[1])) + '])')
                    else:
                        rows.append(f'({q(c.name + "." + m.name)}, {q(r[1])}, [' + ', '.join(f'({q(k)}, {q(t)})' for k, t in r[2]) + '])')
                except Refuse as e:
                    problems.append(f'{c.name}.{m.name}: translator refuses: {e}')
                    rows.append(f'({q(c.name + "." + m.name)}, {q("REFUSED: " + str(e))}, [])')
    # the helper every sized class uses: signature and statements (docstring dropped, whitespace normalised)
    htree = ast.parse(open(os.path.join(root, 'regions/_utils/wcs_helpers.py')).read())
    helper_sig, helper_body = '', []
    for n in htree.body:
        if isinstance(n, ast.FunctionDef) and n.name == 'pixel_scale_angle_at_skycoord':
            helper_sig = ' '.join(ast.unparse(n.args).split())
            helper_body = [' '.join(ast.unparse(st).split()) for st in n.body
                           if not (isinstance(st, ast.Expr) and isinstance(st.value, ast.Constant) and isinstance(st.value.value, str))]
    if not helper_body:
        problems.append('pixel_scale_angle_at_skycoord not found')
    text = ('''/-
GENERATED by tools/convglue.py from the CURRENT source of astropy/regions — do not edit.
What every pixel<->sky conversion method builds, as terms over the WCS primitives, and the bodies
of the sky-side `contains` methods.  `Bridge/ConvGlue.lean` proves both equal to the rules the WCS
model (Impl/Wcs.lean) is built on.
-/
namespace RegionsVerif.Gen.ConvGlue

/-- (class.method, class built | "tuple" | "raise …", [(parameter, term)]). -/
def conv_table : List (String × String × List (String × String)) :=
  [''' + ',\n   '.join(rows) + ''']

/-- the sky classes that define `contains` themselves, with their (whitespace-normalised) bodies; every
other sky class inherits `SkyRegion.contains` = ask the pixel image. -/
def sky_contains : List (String × String) :=
  [''' + ',\n   '.join(f'({q(a)}, {q(b)})' for a, b in sky_contains) + ''']

/-- `pixel_scale_angle_at_skycoord`: its parameters and its statements. -/
def helper_sig : String := ''' + q(helper_sig) + '''
def helper_body : List String :=
  [''' + ',\n   '.join(q(b) for b in helper_body) + ''']

end RegionsVerif.Gen.ConvGlue
''')
    if not os.path.exists(OUT) or open(OUT).read() != text:
        open(OUT, 'w').write(text)
    return problems


if __name__ == '__main__':
    for p in main():
        print('PROBLEM', p)
