#!/usr/bin/env python3
"""
maskglue — translate the `to_mask` glue of the four maskable shape classes of astropy/regions
(the Python between `self.bounding_box` and the compiled `*_overlap_grid` kernel) into Lean
definitions (tie T for C02/C03/C04's mask clause).  Output: lean/RegionsVerif/Gen/MaskGlue.lean;
`Bridge/MaskGlue.lean` proves the definitions equal to what `Impl/MaskGen.lean` uses.

What is read from the CURRENT source of each `to_mask` (anything else is REFUSED = broken tie):

  self._validate_mode(mode, subpixels)                 must be the first statement
  if mode == '<m>': mode = '<m2>'; subpixels = <k>     mode rewriting (interpreted per mode)
  bbox = self.bounding_box                             the box of the mask is the region's box
  ny, nx = bbox.shape
  <name> = <arithmetic over bbox.*, self.*>            translated with py2lean's expression rules
  use_exact = <a> if mode == '<m>' else <b>            interpreted per mode
  vx = np.asarray(self.vertices.x, dtype=float)        array argument (by name)
  fraction = <kernel>(xmin, xmax, ymin, ymax, nx, ny, <shape args…>, use_exact, subpixels)
  return RegionMask(fraction, bbox=bbox)
"""
import ast
import os
import sys

sys.path.insert(0, os.path.dirname(os.path.abspath(__file__)))
import py2lean  # noqa: E402
from py2lean import Refuse, Tr, flat, get_source  # noqa: E402

OUT = os.path.join(py2lean.OUTDIR, 'MaskGlue.lean')

SHAPES = [
    ('circle', 'regions.shapes.circle:CirclePixelRegion.to_mask'),
    ('ellipse', 'regions.shapes.ellipse:EllipsePixelRegion.to_mask'),
    ('rectangle', 'regions.shapes.rectangle:RectanglePixelRegion.to_mask'),
    ('polygon', 'regions.shapes.polygon:PolygonPixelRegion.to_mask'),
]
MODES = ['center', 'subpixels', 'exact']


def is_mode_test(t):
    return (isinstance(t, ast.Compare) and isinstance(t.left, ast.Name) and t.left.id == 'mode'
            and len(t.ops) == 1 and isinstance(t.ops[0], ast.Eq)
            and isinstance(t.comparators[0], ast.Constant) and isinstance(t.comparators[0].value, str))


class Glue(Tr):
    """py2lean expressions plus the two unit-stripping idioms of the glue."""

    def call(self, n):
        # self.angle.to(u.rad).value  is handled in expr (Attribute); nothing else is added here
        return super().call(n)

    def expr(self, n):
        # X.to(u.rad).value  ->  parameter X_rad   (the angle in radians, as the kernel receives it)
        if (isinstance(n, ast.Attribute) and n.attr == 'value' and isinstance(n.value, ast.Call)
                and isinstance(n.value.func, ast.Attribute) and n.value.func.attr == 'to'
                and len(n.value.args) == 1 and isinstance(n.value.args[0], ast.Attribute)
                and isinstance(n.value.args[0].value, ast.Name) and n.value.args[0].value.id == 'u'
                and n.value.args[0].attr == 'rad'):
            name = flat(n.value.func.value) + '_rad'
            self.params.add(name)
            return name
        return super().expr(n)


def translate(name, src):
    fn = get_source(src)
    body = [st for st in fn.body
            if not (isinstance(st, ast.Expr) and isinstance(st.value, ast.Constant) and isinstance(st.value.value, str))]
    if not body:
        raise Refuse('empty body')
    st0 = body[0]
    if not (isinstance(st0, ast.Expr) and isinstance(st0.value, ast.Call) and isinstance(st0.value.func, ast.Attribute)
            and st0.value.func.attr == '_validate_mode' and [getattr(a, 'id', None) for a in st0.value.args] == ['mode', 'subpixels']):
        raise Refuse('first statement is not self._validate_mode(mode, subpixels)')
    tr = Glue('ℚ')
    mode_prog = []          # statements interpreted per mode, in order
    arrays = {}
    kernel = None
    kargs = None
    bbox_src = None
    result = None
    for st in body[1:]:
        if isinstance(st, ast.If) and is_mode_test(st.test) and not st.orelse:
            assigns = []
            for b in st.body:
                if not (isinstance(b, ast.Assign) and len(b.targets) == 1 and isinstance(b.targets[0], ast.Name)
                        and b.targets[0].id in ('mode', 'subpixels') and isinstance(b.value, ast.Constant)):
                    raise Refuse('mode rewriting: unexpected statement')
                assigns.append((b.targets[0].id, b.value.value))
            mode_prog.append(('if', st.test.comparators[0].value, assigns))
            continue
        if isinstance(st, ast.Assign) and len(st.targets) == 1:
            tgt, val = st.targets[0], st.value
            if isinstance(tgt, ast.Name) and tgt.id == 'bbox':
                if not (isinstance(val, ast.Attribute) and flat(val) == 'self_bounding_box'):
                    raise Refuse('bbox is not self.bounding_box')
                bbox_src = 'self.bounding_box'
                continue
            if isinstance(tgt, ast.Tuple) and [getattr(e, 'id', None) for e in tgt.elts] == ['ny', 'nx']:
                if not (isinstance(val, ast.Attribute) and flat(val) == 'bbox_shape'):
                    raise Refuse('ny, nx are not bbox.shape')
                tr.env['ny'] = 'bbox_shape_0'
                tr.env['nx'] = 'bbox_shape_1'
                tr.params.update(['bbox_shape_0', 'bbox_shape_1'])
                continue
            if isinstance(tgt, ast.Name) and tgt.id == 'use_exact':
                if not (isinstance(val, ast.IfExp) and is_mode_test(val.test) and isinstance(val.body, ast.Constant)
                        and isinstance(val.orelse, ast.Constant)):
                    raise Refuse('use_exact: unexpected form')
                mode_prog.append(('use_exact', val.test.comparators[0].value, val.body.value, val.orelse.value))
                continue
            if isinstance(tgt, ast.Name) and isinstance(val, ast.Call) and tr.fname(val) == 'np.asarray':
                if not (len(val.args) == 1 and len(val.keywords) == 1 and val.keywords[0].arg == 'dtype'
                        and getattr(val.keywords[0].value, 'id', None) == 'float'):
                    raise Refuse('np.asarray form')
                arrays[tgt.id] = flat(val.args[0])
                continue
            if isinstance(tgt, ast.Name) and tgt.id == 'fraction':
                if not (isinstance(val, ast.Call) and isinstance(val.func, ast.Name) and val.func.id.endswith('_overlap_grid')
                        and not val.keywords):
                    raise Refuse('fraction is not a *_overlap_grid call')
                kernel, kargs = val.func.id, val.args
                continue
            if isinstance(tgt, ast.Name):
                tr.env[tgt.id] = tr.expr(val)
                continue
            raise Refuse('assignment form')
        if isinstance(st, ast.Return):
            v = st.value
            if not (isinstance(v, ast.Call) and getattr(v.func, 'id', None) == 'RegionMask' and len(v.args) == 1
                    and getattr(v.args[0], 'id', None) == 'fraction' and len(v.keywords) == 1
                    and v.keywords[0].arg == 'bbox' and getattr(v.keywords[0].value, 'id', None) == 'bbox'):
                raise Refuse('return is not RegionMask(fraction, bbox=bbox)')
            result = 'RegionMask(fraction, bbox=bbox)'
            continue
        raise Refuse(f'statement {type(st).__name__}: {ast.unparse(st)[:60]}')
    if kernel is None or bbox_src is None or result is None:
        raise Refuse('kernel call / bbox / return not found')
    if len(kargs) < 8:
        raise Refuse('kernel call arity')
    if [getattr(a, 'id', None) for a in kargs[-2:]] != ['use_exact', 'subpixels']:
        raise Refuse('kernel call does not end with use_exact, subpixels')
    if not any(p[0] == 'use_exact' for p in mode_prog):
        raise Refuse('use_exact is never set')
    grid = [tr.expr(a) for a in kargs[:6]]
    shape_args, array_args = [], []
    for a in kargs[6:-2]:
        if isinstance(a, ast.Name) and a.id in arrays:
            array_args.append(arrays[a.id])
        else:
            if array_args:
                raise Refuse('numeric argument after an array argument')
            shape_args.append(tr.expr(a))

    # interpret the mode program for each mode: (use_exact, subpixels or None = the caller's value)
    eff = {}
    for m in MODES:
        mode, sub, ue = m, None, None
        for p in mode_prog:
            if p[0] == 'if':
                if mode == p[1]:
                    for (t, v) in p[2]:
                        if t == 'mode':
                            mode = v
                        else:
                            sub = v
            else:
                ue = p[2] if mode == p[1] else p[3]
        if not isinstance(ue, int) or (sub is not None and not isinstance(sub, int)):
            raise Refuse('mode program does not yield integers')
        eff[m] = (ue, sub)

    gparams = sorted(p for p in tr.params if p.startswith('bbox_'))
    sparams = sorted(p for p in tr.params if not p.startswith('bbox_'))
    used_in_grid = [p for p in sparams if any(p in g for g in grid)]
    used_in_args = [p for p in sparams if any(p in g for g in shape_args)]

    def sig(ps):
        return ' '.join(f'({p} : Int)' if p.startswith('bbox_') else f'({p} : ℚ)' for p in ps)

    def cast(e):
        # bbox fields are Int in the model; the grid is rational
        for p in gparams:
            e = e.replace(p, f'({p} : ℚ)') if not p.startswith('bbox_shape') else e
        return e
    out = [f'/-- `{src}`: grid arguments of the kernel call. -/']
    out.append(f'def {name}_grid {sig(gparams + used_in_grid)} : Grid :=\n'
               f'  ⟨{cast(grid[0])}, {cast(grid[1])}, {cast(grid[2])}, {cast(grid[3])},\n'
               f'   ({grid[4]}).toNat, ({grid[5]}).toNat⟩\n')
    out.append(f'/-- the compiled kernel that is called. -/\ndef {name}_kernel : String := "{kernel}"\n')
    out.append(f'/-- numeric shape arguments between `ny` and `use_exact`. -/\n'
               f'def {name}_shape_args {sig(used_in_args)} : List ℚ := [{", ".join(shape_args)}]\n')
    out.append(f'/-- array arguments (by attribute), after the numeric ones. -/\n'
               f'def {name}_array_args : List String := [{", ".join(chr(34) + a + chr(34) for a in array_args)}]\n')
    lines = []
    for m, pat in (('center', '.center'), ('subpixels', '.subpixels n _'), ('exact', '.exact')):
        ue, sub = eff[m]
        if sub is None:
            subl = 'n.toNat' if m == 'subpixels' else 'default'
        else:
            subl = str(sub)
        lines.append(f'  | {pat}, {"d" if subl == "default" else "_"} => some ({ue}, {"d" if subl == "default" else subl})' if m != 'subpixels'
                     else f'  | {pat}, _ => some ({ue}, {subl})')
    out.append(f'/-- `(use_exact, subpixels)` handed to the kernel for each valid mode (`d` = the\n'
               f'`subpixels` argument of the call when the mode does not fix it). -/\n'
               f'def {name}_effective : MaskMode → Nat → Option (Nat × Nat)\n' + '\n'.join(lines) + '\n  | .other, _ => none\n')
    out.append(f'/-- where the box of the returned mask comes from, and what is returned. -/\n'
               f'def {name}_bbox_source : String := "{bbox_src}"\ndef {name}_result : String := "{result}"\n')
    return '\n'.join(out) + '\n'


HEADER = '''/-
GENERATED by tools/maskglue.py from the CURRENT source of astropy/regions — do not edit.
The `to_mask` glue of the four maskable shape classes: grid arguments, kernel, shape arguments,
mode handling.  `Bridge/MaskGlue.lean` proves them equal to what `Impl/MaskGen.lean` uses.
-/
import RegionsVerif.Impl.MaskGen

namespace RegionsVerif.Gen.MaskGlue
open RegionsVerif.Impl

'''


def main():
    problems = []
    out = [HEADER]
    for name, src in SHAPES:
        try:
            out.append(translate(name, src))
        except Refuse as e:
            problems.append(f'{src}: translator refuses: {e}')
            out.append(f'-- {src}: REFUSED ({e})\n\n')
    out.append('end RegionsVerif.Gen.MaskGlue\n')
    text = ''.join(out)
    if not os.path.exists(OUT) or open(OUT).read() != text:
        open(OUT, 'w').write(text)
    return problems


if __name__ == '__main__':
    for p in main():
        print('PROBLEM', p)
