#!/usr/bin/env python3
"""Confirm a seeded change and run checks against it.

usage: tools/seedtest.py <seeded-dir> [--checks C01,C04] [--skip-confirm]

<seeded-dir> holds patch.diff, demo.py, meta.json.  The change is applied in a scratch git
worktree of /repo (never in /repo itself while builders are active); the checks read it through
REGIONS_SRC.  Results are merged into <seeded-dir>/meta.json.
"""
import argparse
import json
import os
import shutil
import subprocess
import sys
import tempfile
import xml.etree.ElementTree as ET

VERIF = os.path.dirname(os.path.dirname(os.path.abspath(__file__)))


def sh(cmd, **kw):
    return subprocess.run(cmd, shell=True, capture_output=True, text=True, **kw)


def suite_ok(wt):
    b = json.load(open('/root/.vp/BASELINE.json'))
    out = tempfile.mktemp(suffix='.xml', dir='/tmp')
    env = dict(os.environ, PYTHONPATH=wt)
    env.pop('REGIONS_VERIF', None)
    sh(f'cd {wt} && /venv/bin/python -m pytest -ra -q -p no:cacheprovider --timeout=900 '
       f'--continue-on-collection-errors --junitxml={out}', env=env)
    passed = set()
    for tc in ET.parse(out).getroot().iter('testcase'):
        if not any(ch.tag in ('failure', 'error', 'skipped') for ch in tc):
            passed.add(f"{tc.get('classname')}::{tc.get('name')}")
    os.unlink(out)
    missing = [t for t in b['stable_pass'] if t not in passed]
    return missing


def main():
    ap = argparse.ArgumentParser()
    ap.add_argument('dir')
    ap.add_argument('--checks', default='')
    ap.add_argument('--skip-confirm', action='store_true')
    ap.add_argument('--no-regen', action='store_true')
    ap.add_argument('--confirm-only', action='store_true')
    a = ap.parse_args()
    d = os.path.abspath(a.dir)
    meta = json.load(open(os.path.join(d, 'meta.json')))
    wt = tempfile.mkdtemp(prefix='seedwt_', dir='/tmp')
    os.rmdir(wt)
    r = sh(f'{VERIF}/tools/mkworktree.sh {wt}')
    assert r.returncode == 0, r.stderr
    try:
        r = sh(f'git -C {wt} apply {d}/patch.diff')
        assert r.returncode == 0, 'patch does not apply: ' + r.stderr
        if not a.skip_confirm:
            with_change = sh(f'/venv/bin/python {d}/demo.py', env=dict(os.environ, PYTHONPATH=wt), cwd='/tmp')
            without = sh(f'/venv/bin/python {d}/demo.py', env=dict(os.environ, PYTHONPATH='/repo'), cwd='/tmp')
            missing = suite_ok(wt)
            meta['confirmed'] = {
                'demo_fails_with_change': with_change.returncode != 0,
                'demo_passes_without': without.returncode == 0,
                'existing_tests_still_pass': not missing,
                'missing_tests': missing[:5],
            }
            print('confirm:', meta['confirmed'])
        checks = [] if a.confirm_only else ([c for c in a.checks.split(',') if c] or [meta['property']])
        det = meta.setdefault('checks_run', {})
        for c in checks:
            env = dict(os.environ, REGIONS_SRC=wt, VERIF_SEED='0')
            r = sh(f'cd {VERIF} && ./check {c} --tier quick', env=env)
            lines = [l for l in r.stdout.splitlines() if l.startswith('VIOLATION') or l.startswith('[')]
            viol = [l for l in r.stdout.splitlines() if l.startswith('VIOLATION')]
            det[c] = {'exit': r.returncode, 'violation_line': viol[0] if viol else None,
                      'summary': [l for l in r.stdout.splitlines() if l.startswith('[' + c)][:1]}
            print(c, 'exit', r.returncode, viol[:1])
        meta['detected_by'] = sorted(c for c, v in det.items() if v['exit'] == 1 and v['violation_line'])
        json.dump(meta, open(os.path.join(d, 'meta.json'), 'w'), indent=1)
    finally:
        sh(f'git -C /repo worktree remove --force {wt}')
        shutil.rmtree(wt, ignore_errors=True)
        # the checks regenerate Gen files from REGIONS_SRC; regenerate them from /repo again
        if not a.no_regen and not a.confirm_only:
            env = dict(os.environ)
            env.pop('REGIONS_SRC', None)
            sh(f'cd {VERIF} && ./check setup', env=env)


if __name__ == '__main__':
    main()
