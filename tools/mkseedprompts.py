#!/usr/bin/env python3
"""Write the prompts for a round of independent seeding sub-agents.

usage: tools/mkseedprompts.py <round-tag> [property ids…]     e.g.  tools/mkseedprompts.py p C01 C02

Each prompt carries ONLY the property text (from properties.jsonl), the location of the agent's own
scratch worktree (/tmp/seed/<ID>), and one-line descriptions of the changes earlier seeders already
tried (from seeded/*/meta.json) — nothing about the verification machinery.
"""
import glob
import json
import os
import sys

VERIF = os.path.dirname(os.path.dirname(os.path.abspath(__file__)))
TEMPLATE = open(os.path.join(VERIF, 'tools', 'seedprompt.template.txt')).read()


def main():
    tag = sys.argv[1]
    want = sys.argv[2:]
    props = [json.loads(l) for l in open(os.path.join(VERIF, 'properties.jsonl')) if l.strip()]
    for p in props:
        pid = p['id']
        if want and pid not in want:
            continue
        tried = []
        for d in sorted(glob.glob(os.path.join(VERIF, 'seeded', pid + '_*'))):
            try:
                m = json.load(open(os.path.join(d, 'meta.json')))
            except Exception:
                continue
            tried.append(f"- {m.get('what', '').strip()} (files: {m.get('files')})")
        q = p.get('quantifier', {})
        text = (f"{pid}: {p.get('title', '')}\n\nStatement: {p['statement']}\n\nQuantifier: {q.get('text', q)}\n\n"
                f"Why existing tests cannot settle it: {p.get('why_tests_cant', '')}\n\n"
                f"Anchored in: {', '.join(p.get('anchors', {}).get('files', []))}\n")
        out = (TEMPLATE.replace('@ID@', pid).replace('@TAG@', tag).replace('@PROPERTY@', text)
               .replace('@TRIED@', '\n'.join(tried) if tried else '(none)'))
        os.makedirs('/tmp/seed/out_' + tag + '/' + pid, exist_ok=True)
        open(f'/tmp/seed/{pid}.prompt_{tag}.txt', 'w').write(out)
        print(f'/tmp/seed/{pid}.prompt_{tag}.txt', len(tried), 'tried')


if __name__ == '__main__':
    main()
