#!/usr/bin/env python3
"""Instantiate the sqrt/trig templates twice — over the reals (noncomputable, for theorems) and
over Float (executable, for the driver) — from ONE text, so the two copies cannot drift.
Writes only when the content changed (keeps lake incremental)."""
import os

HERE = os.path.dirname(os.path.abspath(__file__))
LEAN = os.path.join(HERE, '..', 'lean', 'RegionsVerif')
INST = {
    'Real': {
        'INSTANCE': 'real numbers', 'NUM': 'ℝ',
        'IMPORTS': 'import Mathlib.Analysis.SpecialFunctions.Sqrt\nimport Mathlib.Analysis.SpecialFunctions.Trigonometric.Inverse',
        'SQRT': 'Real.sqrt', 'ASIN': 'Real.arcsin', 'SIN': 'Real.sin', 'ABS': 'abs',
        'COS': 'Real.cos', 'PI': 'Real.pi',
        'SECTION_OPEN': 'noncomputable section\nopen Classical', 'SECTION_CLOSE': 'end',
    },
    'Float': {
        'INSTANCE': 'IEEE doubles', 'NUM': 'Float',
        'IMPORTS': '',
        'SQRT': 'Float.sqrt', 'ASIN': 'Float.asin', 'SIN': 'Float.sin', 'ABS': 'Float.abs',
        # np.pi as the double 0x400921FB54442D18
        'COS': 'Float.cos', 'PI': '(Float.ofBits 0x400921FB54442D18)',
        'SECTION_OPEN': 'section', 'SECTION_CLOSE': 'end',
    },
}


def main():
    changed = []
    tdir = os.path.join(LEAN, 'Impl', 'templates')
    for fn in sorted(os.listdir(tdir)):
        if not fn.endswith('.lean.in'):
            continue
        text = open(os.path.join(tdir, fn)).read()
        base = fn[:-len('.lean.in')]
        for name, sub in INST.items():
            out = text
            # the namespace is derived from the template's base name: <base>Real / <base>Float
            out = out.replace('@NS@', base + name)
            for k, v in sub.items():
                out = out.replace('@' + k + '@', v)
            path = os.path.join(LEAN, 'Gen', f'{base}{name}.lean')
            if not os.path.exists(path) or open(path).read() != out:
                open(path, 'w').write(out)
                changed.append(path)
    return changed


if __name__ == '__main__':
    for p in main():
        print('wrote', p)
