#!/usr/bin/env python3
"""
py2lean — translate straight-line arithmetic / decision code of astropy/regions (Python `ast`)
into Lean 4 definitions (tie T of DESIGN.md §2.3).

Deliberately small subset; anything else is REFUSED (a refusal = broken tie, reported by the check):

  statements : assignment to local names / tuples of names, `if/elif/else` whose branches end in
               `return`, `return`, leading type guards `if not isinstance(...): raise ...` (skipped),
               docstrings, `pixcoord = PixCoord._validate(...)` (identity)
  expressions: + - * /  **2  unary -, comparisons (chained), and/or/not, & on booleans,
               abs/np.abs, max/min (args or one tuple), np.floor/np.ceil/int/float,
               np.hypot(a, b) < r  (rewritten on squares), numbers, attribute chains flattened to
               parameters (`self.center.x` -> `self_center_x`, `shape[0]` -> `shape_0`),
               np.cos(X)/np.sin(X) -> the two components `X_c`, `X_s` of a unit-vector parameter,
               `self.meta.get('include', True)` pattern -> `withInclude include …`,
               constructors `cls(...)`/`RegionBoundingBox(...)` -> `BBox.mk? …`, `slice(a, b)`,
               `RegionBoundingBox.from_float(a, b, c, d)` -> `BBox.fromFloat a b c d`, tuples, None,
               `np.subtract(a, b, dtype=float)` -> `a - b`, `<array attr>.min()/.max()` -> scalar parameters,
               `np.sqrt(e)` -> `sqrtF e` with `sqrtF` a function parameter, `bbox1 | bbox2` -> `BBox.union`.

Each translated function becomes `def <name> (params in alphabetical order) : <type> := <expr>` in
`lean/RegionsVerif/Gen/Formulas.lean`; `Bridge/Formulas.lean` proves each equal to the hand-written
Impl definition, so a change of the source changes the generated definition and breaks the bridge.
"""
import ast
import inspect
import os
import sys
import textwrap

HERE = os.path.dirname(os.path.abspath(__file__))
OUTDIR = os.path.join(HERE, '..', 'lean', 'RegionsVerif', 'Gen')


class Refuse(Exception):
    pass


def flat(node):
    """attribute chain / subscript with constant index -> flat identifier."""
    if isinstance(node, ast.Name):
        return node.id
    if isinstance(node, ast.Attribute):
        return flat(node.value) + '_' + node.attr
    if isinstance(node, ast.Subscript) and isinstance(node.slice, ast.Constant) and isinstance(node.slice.value, int):
        return flat(node.value) + '_' + str(node.slice.value)
    raise Refuse(f'cannot flatten {ast.dump(node)[:80]}')


class Tr:
    def __init__(self, numtype, ret='plain'):
        self.numtype = numtype
        self.ret = ret
        self.params = set()
        self.env = {}

    # ------------------------------------------------------------ expressions
    def num(self, v):
        if isinstance(v, bool):
            raise Refuse('bool constant')
        if isinstance(v, int):
            return f'({v})' if v < 0 else str(v)
        if isinstance(v, float):
            from fractions import Fraction
            f = Fraction(v)
            if f.denominator == 1:
                return str(f.numerator)
            if f.denominator in (2, 4, 8):
                return f'({f.numerator}/{f.denominator})'
        raise Refuse(f'constant {v!r}')

    def expr(self, n):
        if isinstance(n, ast.Constant):
            if n.value is None:
                return 'none'
            return self.num(n.value)
        if isinstance(n, ast.Name):
            if n.id in self.env:
                return self.env[n.id]
            self.params.add(n.id)
            return n.id
        if isinstance(n, (ast.Attribute, ast.Subscript)):
            name = flat(n)
            self.params.add(name)
            return name
        if isinstance(n, ast.UnaryOp):
            if isinstance(n.op, ast.USub):
                return f'(-{self.expr(n.operand)})'
            if isinstance(n.op, ast.Not):
                return f'(¬ {self.expr(n.operand)})'
            raise Refuse('unary op')
        if isinstance(n, ast.BinOp):
            a, b = self.expr(n.left), self.expr(n.right)
            if isinstance(n.op, ast.Add):
                return f'({a} + {b})'
            if isinstance(n.op, ast.Sub):
                return f'({a} - {b})'
            if isinstance(n.op, ast.Mult):
                return f'({a} * {b})'
            if isinstance(n.op, ast.Div):
                return f'({a} / {b})'
            if isinstance(n.op, ast.Pow) and isinstance(n.right, ast.Constant) and n.right.value == 2:
                return f'({a} ^ 2)'
            if isinstance(n.op, ast.BitAnd):
                return f'({a} ∧ {b})'
            if isinstance(n.op, ast.BitOr) and a.endswith('bounding_box') and b.endswith('bounding_box'):
                return f'(BBox.union {a} {b})'      # RegionBoundingBox.__or__ = union
            raise Refuse(f'binop {type(n.op).__name__}')
        if isinstance(n, ast.BoolOp):
            op = ' ∧ ' if isinstance(n.op, ast.And) else ' ∨ '
            return '(' + op.join(self.expr(v) for v in n.values) + ')'
        if isinstance(n, ast.Compare):
            parts = []
            left = n.left
            for op, right in zip(n.ops, n.comparators):
                parts.append(self.compare(left, op, right))
                left = right
            return '(' + ' ∧ '.join(parts) + ')' if len(parts) > 1 else parts[0]
        if isinstance(n, ast.Tuple):
            return '(' + ', '.join(self.expr(e) for e in n.elts) + ')'
        if isinstance(n, ast.Call):
            return self.call(n)
        raise Refuse(f'expression {type(n).__name__}')

    def compare(self, left, op, right):
        sym = {ast.Lt: '<', ast.LtE: '≤', ast.Gt: '>', ast.GtE: '≥', ast.Eq: '=', ast.NotEq: '≠'}.get(type(op))
        if sym is None:
            raise Refuse('comparison op')
        # np.hypot(a, b) < r  and  separation(...) < r : compare squares (valid for r > 0; proved in Props/C01)
        if isinstance(left, ast.Call) and self.fname(left) in ('np.hypot',) and sym == '<':
            a, b = (self.expr(x) for x in left.args)
            return f'(({a}) ^ 2 + ({b}) ^ 2 < ({self.expr(right)}) ^ 2)'
        return f'({self.expr(left)} {sym} {self.expr(right)})'

    def fname(self, call):
        f = call.func
        if isinstance(f, ast.Name):
            return f.id
        if isinstance(f, ast.Attribute):
            try:
                return flat(f).replace('_', '.', 1) if isinstance(f.value, ast.Name) and f.value.id in ('np', 'math') else flat(f)
            except Refuse:
                return '?'
        return '?'

    def call(self, n):
        f = self.fname(n)
        args = n.args
        # <array attribute>.min() / .max()  ->  scalar parameter <attr>_min / <attr>_max
        if (isinstance(n.func, ast.Attribute) and n.func.attr in ('min', 'max') and not args and not n.keywords
                and isinstance(n.func.value, ast.Attribute)):
            name = flat(n.func.value) + '_' + n.func.attr
            self.params.add(name)
            return name
        # np.sqrt(e): the square root is a function parameter of the generated definition
        if f == 'np.sqrt' and len(args) == 1 and not n.keywords:
            self.params.add('sqrtF')
            return f'(sqrtF {self.expr(args[0])})'
        if f in ('int', 'float') and len(args) == 1:
            return self.expr(args[0])
        # np.hypot(a, b) as a value: sqrtF (a^2 + b^2), the square root being a function parameter
        if f == 'np.hypot' and len(args) == 2 and not n.keywords:
            self.params.add('sqrtF')
            return f'(sqrtF (({self.expr(args[0])}) ^ 2 + ({self.expr(args[1])}) ^ 2))'
        if f == 'np.floor':
            return f'(⌊{self.expr(args[0])}⌋ : Int)'
        if f == 'np.ceil':
            return f'(⌈{self.expr(args[0])}⌉ : Int)'
        if f in ('abs', 'np.abs'):
            return f'|{self.expr(args[0])}|'
        if f in ('max', 'min'):
            xs = args[0].elts if len(args) == 1 and isinstance(args[0], ast.Tuple) else args
            if len(xs) != 2:
                raise Refuse('max/min arity')
            return f'({f} {self.expr(xs[0])} {self.expr(xs[1])})'
        if f in ('np.cos', 'np.sin') and len(args) == 1:
            base = flat(args[0])
            name = base + ('_c' if f == 'np.cos' else '_s')
            self.params.add(name)
            return name
        if f in ('cls', 'RegionBoundingBox'):
            vals = [self.expr(a) for a in args] + [self.expr(k.value) for k in n.keywords]
            if len(vals) != 4:
                raise Refuse('bbox ctor arity')
            return 'BBox.mk? ' + ' '.join(f'({v})' for v in vals)
        if f == 'RegionBoundingBox_from_float':
            return 'BBox.fromFloat ' + ' '.join(f'({self.expr(a)})' for a in args)
        if isinstance(n.func, ast.Attribute) and n.func.attr == '__class__' and len(args) == 2:
            if getattr(self, 'pair_points', False):
                return f'({self.expr(args[0])}, {self.expr(args[1])})'   # self.__class__(x, y) as a pair
            return f'(Pt.mk {self.expr(args[0])} {self.expr(args[1])})'   # self.__class__(x, y)
        if f == 'slice' and len(args) == 2:
            return f'(Slice.mk {self.expr(args[0])} {self.expr(args[1])})'
        if f == 'np.logical_not' and len(args) == 1:
            return f'(¬ {self.expr(args[0])})'
        # np.subtract(a, b, dtype=float): the difference, formed in float64 (exact in the model)
        if (f == 'np.subtract' and len(args) == 2 and len(n.keywords) == 1 and n.keywords[0].arg == 'dtype'
                and isinstance(n.keywords[0].value, ast.Name) and n.keywords[0].value.id == 'float'):
            return f'({self.expr(args[0])} - {self.expr(args[1])})'
        raise Refuse(f'call {f}')

    # ------------------------------------------------------------ statements
    def block(self, stmts):
        """returns the Lean expression of the value returned by the block."""
        for i, st in enumerate(stmts):
            if isinstance(st, ast.Expr) and isinstance(st.value, ast.Constant) and isinstance(st.value.value, str):
                continue  # docstring
            if isinstance(st, ast.Assign) and len(st.targets) == 1:
                tgt = st.targets[0]
                # pixcoord = PixCoord._validate(pixcoord, ...)  -> identity
                if (isinstance(st.value, ast.Call) and isinstance(st.value.func, ast.Attribute)
                        and st.value.func.attr == '_validate'):
                    continue
                if isinstance(tgt, ast.Name):
                    self.env[tgt.id] = self.expr(st.value)
                    continue
                if isinstance(tgt, ast.Tuple) and isinstance(st.value, ast.Tuple) and len(tgt.elts) == len(st.value.elts):
                    vals = [self.expr(v) for v in st.value.elts]
                    for t, v in zip(tgt.elts, vals):
                        if not isinstance(t, ast.Name):
                            raise Refuse('tuple target')
                        self.env[t.id] = v
                    continue
                raise Refuse('assignment form')
            if isinstance(st, ast.If):
                # type guards:  if not isinstance(...): raise / if len(shape) != 2: raise
                if all(isinstance(b, ast.Raise) for b in st.body) and not st.orelse:
                    continue
                # include flag pattern
                inc = self.include_pattern(st)
                if inc is not None:
                    return inc
                cond = self.expr(st.test)
                saved = dict(self.env)
                then = self.block(st.body)
                self.env = dict(saved)
                rest = st.orelse if st.orelse else stmts[i + 1:]
                els = self.block(rest)
                self.env = saved
                return f'(if {cond} then {then} else {els})'
            if isinstance(st, ast.Return):
                return self.ret_expr(st.value)
            raise Refuse(f'statement {type(st).__name__}')
        raise Refuse('block without return')

    def ret_expr(self, v):
        is_none = v is None or (isinstance(v, ast.Constant) and v.value is None)
        if self.ret == 'option':
            return 'none' if is_none else f'(some ({self.expr(v)}))'
        if self.ret == 'pair_option':
            # `return None, None`  /  `return a, b`
            if isinstance(v, ast.Tuple) and all(isinstance(e, ast.Constant) and e.value is None for e in v.elts):
                return 'none'
            return f'(some ({self.expr(v)}))'
        return 'none' if is_none else self.expr(v)

    def include_pattern(self, st):
        """if self.meta.get('include', True): return X else: return np.logical_not(X)"""
        t = st.test
        if not (isinstance(t, ast.Call) and isinstance(t.func, ast.Attribute) and t.func.attr == 'get'
                and len(t.args) == 2 and isinstance(t.args[0], ast.Constant) and t.args[0].value == 'include'):
            return None
        if not (len(st.body) == 1 and isinstance(st.body[0], ast.Return) and len(st.orelse) == 1
                and isinstance(st.orelse[0], ast.Return)):
            raise Refuse('include pattern shape')
        x = self.expr(st.body[0].value)
        neg = st.orelse[0].value
        if not (isinstance(neg, ast.Call) and self.fname(neg) == 'np.logical_not'
                and self.expr(neg.args[0]) == x):
            raise Refuse('include pattern: else-branch is not the negation')
        self.params.add('incl')
        return f'(withInclude incl (decide {x}))'


def get_source(qualname):
    """'regions.core.bounding_box:RegionBoundingBox.union' -> FunctionDef"""
    mod, path = qualname.split(':')
    root = os.environ.get('REGIONS_SRC', '/repo')
    fn = os.path.join(root, *mod.split('.')) + '.py'
    tree = ast.parse(open(fn).read())
    parts = path.split('.')
    node = tree
    for p in parts:
        for ch in ast.iter_child_nodes(node):
            if isinstance(ch, (ast.ClassDef, ast.FunctionDef)) and ch.name == p:
                node = ch
                break
        else:
            raise Refuse(f'{qualname}: {p} not found')
    return node


# group -> [(lean name, source, number type, result type[, return mode])]; one generated file per group
# (= per property), so that a change of one property's code cannot break another property's tie
GROUPS = {'C19': [
    ('bbox_from_float', 'regions.core.bounding_box:RegionBoundingBox.from_float', 'α', 'Except BBoxErr BBox'),
    ('bbox_union', 'regions.core.bounding_box:RegionBoundingBox.union', 'Int', 'Except BBoxErr BBox'),
    ('bbox_intersection', 'regions.core.bounding_box:RegionBoundingBox.intersection', 'Int', 'Option (Except BBoxErr BBox)', 'option'),
    ('bbox_shape', 'regions.core.bounding_box:RegionBoundingBox.shape', 'Int', 'Int × Int'),
    ('bbox_overlap_slices', 'regions.core.bounding_box:RegionBoundingBox.get_overlap_slices', 'Int',
     'Option ((Slice × Slice) × (Slice × Slice))', 'pair_option'),
], 'C01': [
    ('circle_contains', 'regions.shapes.circle:CirclePixelRegion.contains', 'α', 'Bool'),
    ('ellipse_contains', 'regions.shapes.ellipse:EllipsePixelRegion.contains', 'α', 'Bool'),
    ('rectangle_contains', 'regions.shapes.rectangle:RectanglePixelRegion.contains', 'α', 'Bool'),
], 'C04': [
    ('circle_bounding_box', 'regions.shapes.circle:CirclePixelRegion.bounding_box', 'α', 'Except BBoxErr BBox'),
    ('rectangle_bounding_box', 'regions.shapes.rectangle:RectanglePixelRegion.bounding_box', 'α', 'Except BBoxErr BBox'),
    ('line_bounding_box', 'regions.shapes.line:LinePixelRegion.bounding_box', 'α', 'Except BBoxErr BBox'),
    ('point_bounding_box', 'regions.shapes.point:PointPixelRegion.bounding_box', 'α', 'Except BBoxErr BBox'),
    ('ellipse_bounding_box', 'regions.shapes.ellipse:EllipsePixelRegion.bounding_box', 'α', 'Except BBoxErr BBox'),
    ('polygon_bounding_box', 'regions.shapes.polygon:PolygonPixelRegion.bounding_box', 'α', 'Except BBoxErr BBox'),
    ('compound_bounding_box', 'regions.core.compound:CompoundPixelRegion.bounding_box', 'α', 'Except BBoxErr BBox'),
    ('annulus_bounding_box', 'regions.shapes.annulus:AnnulusPixelRegion.bounding_box', 'α', 'BBox'),
], 'C15': [
    ('pixcoord_rotate', 'regions.core.pixcoord:PixCoord.rotate', 'α', 'Pt α'),
], 'C20': [
    ('pixcoord_add', 'regions.core.pixcoord:PixCoord.__add__', 'α', 'α × α'),
    ('pixcoord_sub', 'regions.core.pixcoord:PixCoord.__sub__', 'α', 'α × α'),
    ('pixcoord_separation', 'regions.core.pixcoord:PixCoord.separation', 'α', 'α'),
    ('pixcoord_rotate', 'regions.core.pixcoord:PixCoord.rotate', 'α', 'α × α'),
]}

# groups whose generated file must not import Impl.Shapes (C20's model has its own point functions on pairs)
GROUP_IMPORTS = {'C20': 'import RegionsVerif.Impl.PixCoord\nimport Mathlib.Algebra.Order.Floor.Defs\n'}


def translate_one(name, src, numtype, rtype, ret='plain'):
    fn = get_source(src)
    tr = Tr(numtype, ret)
    tr.pair_points = (rtype == 'α × α')
    # `self.center.separation(pixcoord) < self.radius` (circle): inline PixCoord.separation = hypot(dx, dy)
    body = list(fn.body)
    expr = tr.block(InlineSeparation().visit(ast.Module(body=body, type_ignores=[])).body)
    params = sorted(tr.params)
    ptypes = []
    for p in params:
        if p == 'incl':
            ptypes.append('(incl : Include)')
        elif p == 'sqrtF':
            ptypes.append(f'(sqrtF : {numtype} → {numtype})')
        elif p.endswith('bounding_box'):
            ptypes.append(f'({p} : BBox)')
        else:
            ptypes.append(f'({p} : {numtype})')
    plist = ', '.join('"' + p + '"' for p in params)
    return params, (f'def {name} ' + ' '.join(ptypes) + f' : {rtype} :=\n  {expr}\n\n'
                    f'/-- the attributes of the object(s) that `{name}` reads (its parameters, in order). -/\n'
                    f'def {name}_reads : List String := [{plist}]\n')


class InlineSeparation(ast.NodeTransformer):
    """self.center.separation(pixcoord)  ->  np.hypot(pixcoord.x - self.center.x, pixcoord.y - self.center.y)"""

    def visit_Call(self, node):
        self.generic_visit(node)
        if isinstance(node.func, ast.Attribute) and node.func.attr == 'separation' and len(node.args) == 1:
            a, b = node.func.value, node.args[0]
            dx = ast.BinOp(ast.Attribute(b, 'x', ast.Load()), ast.Sub(), ast.Attribute(a, 'x', ast.Load()))
            dy = ast.BinOp(ast.Attribute(b, 'y', ast.Load()), ast.Sub(), ast.Attribute(a, 'y', ast.Load()))
            return ast.Call(ast.Attribute(ast.Name('np', ast.Load()), 'hypot', ast.Load()), [dx, dy], [])
        if (isinstance(node.func, ast.Attribute) and node.func.attr == 'from_float'
                and isinstance(node.func.value, ast.Name) and node.func.value.id == 'RegionBoundingBox'):
            return ast.Call(ast.Name('RegionBoundingBox_from_float', ast.Load()), node.args, [])
        return node


HEADER = '''/-
GENERATED by tools/py2lean.py from the CURRENT source of astropy/regions — do not edit.
One definition per translated Python function; parameters in alphabetical order.
`Bridge/Formulas.lean` proves each equal to the hand-written Impl definition.
-/
import RegionsVerif.Impl.BBox
import RegionsVerif.Impl.Shapes

namespace RegionsVerif.Gen.Formulas@GROUP@
open RegionsVerif.Impl

variable {α : Type} [Field α] [LinearOrder α] [IsStrictOrderedRing α] [FloorRing α]

'''


def main(groups=None):
    """regenerate Gen/Formulas<group>.lean for the given groups (default: all).
    -> (problems, signatures)"""
    problems = []
    sigs = {}
    for group, specs in GROUPS.items():
        if groups is not None and group not in groups:
            continue
        hdr = HEADER.replace('@GROUP@', group)
        if group in GROUP_IMPORTS:
            hdr = hdr.replace('import RegionsVerif.Impl.BBox\nimport RegionsVerif.Impl.Shapes\n', GROUP_IMPORTS[group])
        out = [hdr]
        for spec in specs:
            name, src = spec[:2]
            try:
                params, text = translate_one(*spec)
                sigs[name] = params
                out.append(f'/-- `{src}` -/\n' + text + '\n')
            except Refuse as e:
                problems.append(f'{src}: translator refuses: {e}')
                out.append(f'-- {src}: REFUSED ({e})\n\n')
        out.append(f'end RegionsVerif.Gen.Formulas{group}\n')
        text = ''.join(out)
        path = os.path.join(OUTDIR, f'Formulas{group}.lean')
        if not os.path.exists(path) or open(path).read() != text:
            open(path, 'w').write(text)
    return problems, sigs


if __name__ == '__main__':
    problems, sigs = main(sys.argv[1:] or None)
    for p in problems:
        print('PROBLEM', p)
    for k, v in sigs.items():
        print(k, v)
