#!/usr/bin/env python3
"""
inlineglue — normal forms of the small "glue" methods of astropy/regions (array plumbing, option
handling, delegation) that are not arithmetic and therefore not translated by py2lean.

Each configured function is executed SYMBOLICALLY: local names are substituted by the expressions
they were bound to, `if` statements become conditional expressions, early returns become nested
conditionals.  The result is one expression for the returned value plus the list of side effects
(stores into attributes / items, bare calls, in-place updates, loops), all with locals inlined.
The normal form does not depend on the names of local variables, on how a computation is split into
statements, on comments or on docstrings; it does change when what is computed, from which
attributes, in which order of side effects, changes.

Output: lean/RegionsVerif/Gen/InlineGlue<GROUP>.lean   (regenerated on every run)
        `def glue : List (String × String × List String)` = (function, returned value, effects)
`Bridge/InlineGlue<GROUP>.lean` (committed; re-created with `--write-bridge` from a tree known to be
good) states what each function is and proves `glue = expected` by `decide`.

usage: inlineglue.py [GROUP …] [--write-bridge]
"""
import ast
import copy
import os
import sys

sys.path.insert(0, os.path.dirname(os.path.abspath(__file__)))
import py2lean  # noqa: E402

GEN = py2lean.OUTDIR
BRIDGE = os.path.join(os.path.dirname(GEN), 'Bridge')

GROUPS = {
    'C01': ['regions.shapes.polygon:PolygonPixelRegion.contains',
            'regions.shapes.point:PointPixelRegion.contains',
            'regions.shapes.line:LinePixelRegion.contains',
            'regions.shapes.annulus:AnnulusPixelRegion.contains'],
    'C05': ['regions.core.mask:RegionMask.__init__',
            'regions.core.mask:RegionMask.to_image',
            'regions.core.mask:RegionMask.cutout',
            'regions.core.mask:RegionMask.multiply',
            'regions.core.mask:RegionMask._get_overlap_cutouts',
            'regions.core.mask:RegionMask.get_values',
            'regions.core.mask:RegionMask.get_overlap_slices'],
    'C20': ['regions.core.pixcoord:PixCoord.__init__',
            'regions.core.pixcoord:PixCoord.copy',
            'regions.core.pixcoord:PixCoord.isscalar',
            'regions.core.pixcoord:PixCoord.__len__',
            'regions.core.pixcoord:PixCoord.__iter__',
            'regions.core.pixcoord:PixCoord.__getitem__',
            'regions.core.pixcoord:PixCoord.to_sky',
            'regions.core.pixcoord:PixCoord.from_sky',
            'regions.core.pixcoord:PixCoord.xy'],
    'C16': ['regions.core.core:Region.copy',
            'regions.core.core:Region.__eq__',
            'regions.core.core:Region.__ne__',
            'regions.core.pixcoord:PixCoord.__eq__',
            'regions.core.regions:Regions.__init__',
            'regions.core.regions:Regions.__getitem__',
            'regions.core.regions:Regions.__len__',
            'regions.core.regions:Regions.append',
            'regions.core.regions:Regions.extend',
            'regions.core.regions:Regions.insert',
            'regions.core.regions:Regions.reverse',
            'regions.core.regions:Regions.pop',
            'regions.core.regions:Regions.copy'],
    'C08': ['regions.core.compound:CompoundPixelRegion.__init__',
            'regions.core.compound:CompoundPixelRegion.to_mask',
            'regions.core.compound:CompoundPixelRegion.area',
            'regions.core.core:Region.__and__',
            'regions.core.core:Region.__or__',
            'regions.core.core:Region.__xor__',
            'regions.core.core:PixelRegion.intersection',
            'regions.core.core:PixelRegion.union',
            'regions.core.core:PixelRegion.symmetric_difference'],
    'C18': ['regions.shapes.circle:CirclePixelRegion.as_artist',
            'regions.shapes.ellipse:EllipsePixelRegion.as_artist',
            'regions.shapes.rectangle:RectanglePixelRegion.as_artist',
            'regions.shapes.rectangle:RectanglePixelRegion._lower_left_xy',
            'regions.shapes.polygon:PolygonPixelRegion.as_artist',
            'regions.shapes.point:PointPixelRegion.as_artist',
            'regions.shapes.line:LinePixelRegion.as_artist',
            'regions.shapes.text:TextPixelRegion.as_artist',
            'regions.core.compound:CompoundPixelRegion.as_artist',
            'regions.core.core:PixelRegion.plot'],
}


class Subst(ast.NodeTransformer):
    def __init__(self, env):
        self.env = env

    def visit_Name(self, n):
        if isinstance(n.ctx, ast.Load) and n.id in self.env:
            return copy.deepcopy(self.env[n.id])
        return n


def U(n):
    return ' '.join(ast.unparse(n).split())


class Sym:
    def __init__(self):
        self.effects = []

    def sub(self, n, env):
        return Subst(env).visit(copy.deepcopy(n))

    def block(self, stmts, env, guard):
        """-> (returned expression AST or None, env)   (None = falls through)"""
        for i, st in enumerate(stmts):
            if isinstance(st, ast.Expr) and isinstance(st.value, ast.Constant) and isinstance(st.value.value, str):
                continue
            if isinstance(st, (ast.Import, ast.ImportFrom, ast.Pass)):
                continue
            if isinstance(st, ast.Assign):
                val = self.sub(st.value, env)
                for tgt in st.targets:
                    self.bind(tgt, val, env, guard)
                continue
            if isinstance(st, ast.AugAssign):
                val = self.sub(st.value, env)
                opname = type(st.op).__name__
                if isinstance(st.target, ast.Name):
                    cur = env.get(st.target.id, ast.Name(st.target.id, ast.Load()))
                    # in-place update of whatever object the name is bound to (arrays alias!)
                    new = ast.Call(ast.Name('INPLACE_' + opname, ast.Load()), [copy.deepcopy(cur), val], [])
                    self.effects.append(f'{guard}inplace {U(new)}')
                    env[st.target.id] = new
                else:
                    self.effects.append(f'{guard}{U(self.sub(st.target, env))} {opname}= {U(val)}')
                continue
            if isinstance(st, ast.Expr):
                self.effects.append(f'{guard}{U(self.sub(st.value, env))}')
                continue
            if isinstance(st, ast.Return):
                return (self.sub(st.value, env) if st.value is not None else ast.Constant(None)), env
            if isinstance(st, ast.Raise):
                exc = U(self.sub(st.exc, env)) if st.exc is not None else ''
                # only the exception class matters, not the message text
                cls = exc.split('(')[0]
                return ast.Call(ast.Name('RAISE', ast.Load()), [ast.Name(cls or 'reraise', ast.Load())], []), env
            if isinstance(st, ast.If):
                cond = self.sub(st.test, env)
                g2 = f'{guard}[{U(cond)}] '
                e1, e2 = dict(env), dict(env)
                r1, e1 = self.block(st.body, e1, g2)
                r2, e2 = self.block(st.orelse, e2, f'{guard}[not {U(cond)}] ') if st.orelse else (None, e2)
                rest = stmts[i + 1:]
                if r1 is not None and r2 is not None:
                    return ast.IfExp(cond, r1, r2), env
                if r1 is not None:
                    r_rest, e_rest = self.block(rest, e2, f'{guard}[not {U(cond)}] ' if rest else guard)
                    return ast.IfExp(cond, r1, r_rest if r_rest is not None else ast.Name('FALLTHROUGH', ast.Load())), e_rest
                if r2 is not None:
                    r_rest, e_rest = self.block(rest, e1, f'{guard}[{U(cond)}] ' if rest else guard)
                    return ast.IfExp(cond, r_rest if r_rest is not None else ast.Name('FALLTHROUGH', ast.Load()), r2), e_rest
                for name in sorted(set(e1) | set(e2)):
                    a = e1.get(name, ast.Name(name, ast.Load()))
                    b = e2.get(name, ast.Name(name, ast.Load()))
                    env[name] = a if U(a) == U(b) else ast.IfExp(cond, a, b)
                continue
            # loops, with, try, … : kept as a statement with the locals known so far inlined
            self.effects.append(f'{guard}stmt {U(self.sub(st, env))}')
            for n in ast.walk(st):
                if isinstance(n, ast.Name) and isinstance(n.ctx, ast.Store):
                    env.pop(n.id, None)
        return None, env

    def bind(self, tgt, val, env, guard):
        if isinstance(tgt, ast.Name):
            env[tgt.id] = val
        elif isinstance(tgt, (ast.Tuple, ast.List)):
            if isinstance(val, (ast.Tuple, ast.List)) and len(val.elts) == len(tgt.elts):
                for t, v in zip(tgt.elts, val.elts):
                    self.bind(t, v, env, guard)
            else:
                for k, t in enumerate(tgt.elts):
                    self.bind(t, ast.Subscript(copy.deepcopy(val), ast.Constant(k), ast.Load()), env, guard)
        else:
            self.effects.append(f'{guard}{U(self.sub(tgt, env))} = {U(val)}')


def normal_form(fn):
    s = Sym()
    ret, _ = s.block(fn.body, {}, '')
    args = ' '.join(ast.unparse(fn.args).split())
    decos = [U(d) for d in fn.decorator_list]
    head = (('@' + ' @'.join(decos) + ' ') if decos else '') + f'({args})'
    return head, (U(ret) if ret is not None else 'None'), s.effects


def q(s):
    return '"' + s.replace('\\', '\\\\').replace('"', '\\"') + '"'


def render(group, rows, ns, extra=''):
    items = []
    for name, head, ret, eff in rows:
        items.append(f'({q(name)}, {q(head + " => " + ret)}, [' + ', '.join(q(e) for e in eff) + '])')
    return items


def main(groups=None, write_bridge=False):
    problems = []
    for group, funcs in GROUPS.items():
        if groups and group not in groups:
            continue
        rows = []
        for src in funcs:
            try:
                fn = py2lean.get_source(src)
                head, ret, eff = normal_form(fn)
                rows.append((src.split(':')[1], head, ret, eff))
            except py2lean.Refuse as e:
                problems.append(f'{src}: {e}')
                rows.append((src.split(':')[1], 'MISSING', str(e), []))
        items = render(group, rows, '')
        text = ('/-\nGENERATED by tools/inlineglue.py from the CURRENT source of astropy/regions — do not edit.\n'
                'Normal forms (locals inlined, conditionals as expressions, side effects listed) of glue methods.\n-/\n'
                f'namespace RegionsVerif.Gen.InlineGlue{group}\n\n'
                '/-- (function, "(parameters) => returned value", side effects in order). -/\n'
                'def glue : List (String × String × List String) :=\n  [' + ',\n   '.join(items) + ']\n\n'
                f'end RegionsVerif.Gen.InlineGlue{group}\n')
        path = os.path.join(GEN, f'InlineGlue{group}.lean')
        if not os.path.exists(path) or open(path).read() != text:
            open(path, 'w').write(text)
        if write_bridge:
            btext = ('/-\nBridge: the normal forms of the glue methods of the current source (`Gen/InlineGlue' + group + '.lean`,\n'
                     'obtained by symbolic execution: locals inlined, conditionals as expressions, side effects in order)\n'
                     'are the ones the hand-written model and the correspondence run of ' + group + ' were validated against.\n'
                     'Re-created with `tools/inlineglue.py ' + group + ' --write-bridge` from a tree on which the check passes.\n-/\n'
                     f'import RegionsVerif.Gen.InlineGlue{group}\n\n'
                     f'namespace RegionsVerif.Bridge.InlineGlue{group}\nopen RegionsVerif.Gen.InlineGlue{group}\n\n'
                     'def expected : List (String × String × List String) :=\n  [' + ',\n   '.join(items) + ']\n\n'
                     'theorem glue_eq : glue = expected := rfl\n\n'
                     f'end RegionsVerif.Bridge.InlineGlue{group}\n')
            open(os.path.join(BRIDGE, f'InlineGlue{group}.lean'), 'w').write(btext)
    return problems


if __name__ == '__main__':
    args = [a for a in sys.argv[1:] if not a.startswith('--')]
    for p in main(args or None, '--write-bridge' in sys.argv):
        print('PROBLEM', p)
