#!/usr/bin/env python3
"""
rotateglue — translate the `rotate(center, angle)` methods of all pixel region classes of
astropy/regions into Lean (tie T for C15).  Output: lean/RegionsVerif/Gen/RotateGlue.lean;
`Bridge/RotateGlue.lean` proves the generated definitions equal to `Impl.*.rotate` / `PReg.rotate`.

Each method is interpreted symbolically.  The parameters `center` and `angle` start as the symbols
CENTER / ANGLE and may be re-bound by the method (so the ORDER of the statements matters):

  <name> = <expr>                     expr ::= self.<attr>.rotate(<e>, <e>)  |  self.angle + <e>  |  <name>
  changes = {} ; changes['k'] = <expr> ; if hasattr(self, 'angle'): changes['angle'] = <expr>
  return self.copy(k=<expr>, …)  |  return self.copy(**changes)

Result per class: the list of (parameter, value) the copy is made with, values being terms over
  rot(self.X, C, A)   PixCoord.rotate / region.rotate of attribute X about C by A
  add(self.angle, A)  angle addition
For circle / ellipse / rectangle / polygon a Lean function on the model structure is generated as well.
Anything else is REFUSED (= broken tie).
"""
import ast
import os
import sys

sys.path.insert(0, os.path.dirname(os.path.abspath(__file__)))
import py2lean  # noqa: E402
from py2lean import Refuse, get_source  # noqa: E402

OUT = os.path.join(py2lean.OUTDIR, 'RotateGlue.lean')

CLASSES = [
    ('circle', 'regions.shapes.circle:CirclePixelRegion.rotate'),
    ('ellipse', 'regions.shapes.ellipse:EllipsePixelRegion.rotate'),
    ('rectangle', 'regions.shapes.rectangle:RectanglePixelRegion.rotate'),
    ('polygon', 'regions.shapes.polygon:PolygonPixelRegion.rotate'),
    ('regular_polygon', 'regions.shapes.polygon:RegularPolygonPixelRegion.rotate'),
    ('annulus', 'regions.shapes.annulus:AnnulusPixelRegion.rotate'),
    ('point', 'regions.shapes.point:PointPixelRegion.rotate'),
    ('line', 'regions.shapes.line:LinePixelRegion.rotate'),
    ('compound', 'regions.core.compound:CompoundPixelRegion.rotate'),
]


def self_attr(n):
    return isinstance(n, ast.Attribute) and isinstance(n.value, ast.Name) and n.value.id == 'self'


def term(n, env):
    if isinstance(n, ast.Name):
        if n.id in env:
            return env[n.id]
        raise Refuse(f'unknown name {n.id}')
    if (isinstance(n, ast.Call) and isinstance(n.func, ast.Attribute) and n.func.attr == 'rotate'
            and self_attr(n.func.value) and len(n.args) == 2 and not n.keywords):
        return f'rot(self.{n.func.value.attr}, {term(n.args[0], env)}, {term(n.args[1], env)})'
    if isinstance(n, ast.BinOp) and isinstance(n.op, ast.Add) and self_attr(n.left) and n.left.attr == 'angle':
        return f'add(self.angle, {term(n.right, env)})'
    raise Refuse(f'expression {ast.unparse(n)[:60]}')


def interpret(fn):
    args = [a.arg for a in fn.args.args]
    if args != ['self', 'center', 'angle']:
        raise Refuse(f'signature {args}')
    env = {'center': 'CENTER', 'angle': 'ANGLE'}
    changes = None          # list of (key, term, conditional)
    body = [st for st in fn.body
            if not (isinstance(st, ast.Expr) and isinstance(st.value, ast.Constant) and isinstance(st.value.value, str))]
    for st in body:
        if isinstance(st, ast.Assign) and len(st.targets) == 1:
            t = st.targets[0]
            if isinstance(t, ast.Name) and t.id == 'changes' and isinstance(st.value, ast.Dict) and not st.value.keys:
                changes = []
                continue
            if (isinstance(t, ast.Subscript) and isinstance(t.value, ast.Name) and t.value.id == 'changes'
                    and isinstance(t.slice, ast.Constant) and changes is not None):
                changes.append((t.slice.value, term(st.value, env), False))
                continue
            if isinstance(t, ast.Name):
                env[t.id] = term(st.value, env)
                continue
            raise Refuse('assignment form')
        if (isinstance(st, ast.If) and not st.orelse and isinstance(st.test, ast.Call) and getattr(st.test.func, 'id', None) == 'hasattr'
                and len(st.test.args) == 2 and getattr(st.test.args[0], 'id', None) == 'self'
                and isinstance(st.test.args[1], ast.Constant) and changes is not None):
            attr = st.test.args[1].value
            for b in st.body:
                if not (isinstance(b, ast.Assign) and len(b.targets) == 1 and isinstance(b.targets[0], ast.Subscript)
                        and getattr(b.targets[0].value, 'id', None) == 'changes' and isinstance(b.targets[0].slice, ast.Constant)):
                    raise Refuse('conditional change form')
                if b.targets[0].slice.value != attr:
                    raise Refuse('conditional change on another attribute than the one tested')
                changes.append((attr, term(b.value, env), True))
            continue
        if isinstance(st, ast.Return):
            v = st.value
            if not (isinstance(v, ast.Call) and isinstance(v.func, ast.Attribute) and v.func.attr == 'copy'
                    and getattr(v.func.value, 'id', None) == 'self' and not v.args):
                raise Refuse('return is not self.copy(...)')
            out = []
            for kw in v.keywords:
                if kw.arg is None:
                    if not (isinstance(kw.value, ast.Name) and kw.value.id == 'changes' and changes is not None):
                        raise Refuse('**kwargs form')
                    out += changes
                else:
                    out.append((kw.arg, term(kw.value, env), False))
            return out
        raise Refuse(f'statement {ast.unparse(st)[:60]}')
    raise Refuse('no return')


def q(s):
    return '"' + s + '"'


ROT_C = 'rot(self.center, CENTER, ANGLE)'
ADD_A = 'add(self.angle, ANGLE)'


def lean_struct(name, ch):
    """a Lean function on the model structure for the four basic shapes (only the canonical terms are expressible)."""
    d = {k: v for (k, v, c) in ch}
    if name in ('circle', 'ellipse', 'rectangle', 'polygon') and any(c for (_, _, c) in ch):
        raise Refuse('conditional change in a basic shape')
    if name == 'circle':
        if d != {'center': ROT_C}:
            raise Refuse(f'circle.rotate changes {d}')
        return ('def circle_rotate (r : Circle α) (center : Pt α) (angle : Dir α) : Circle α :=\n'
                '  { r with center := r.center.rotate center angle }\n')
    if name in ('ellipse', 'rectangle'):
        if d != {'center': ROT_C, 'angle': ADD_A}:
            raise Refuse(f'{name}.rotate changes {d}')
        T = 'Ellipse' if name == 'ellipse' else 'Rect'
        return (f'def {name}_rotate (r : {T} α) (center : Pt α) (angle : Dir α) : {T} α :=\n'
                '  { r with center := r.center.rotate center angle, dir := r.dir.add angle }\n')
    if name == 'polygon':
        if d != {'vertices': 'rot(self.vertices, CENTER, ANGLE)'}:
            raise Refuse(f'polygon.rotate changes {d}')
        return ('def polygon_rotate (r : Polygon α) (center : Pt α) (angle : Dir α) : Polygon α :=\n'
                '  { r with vertices := r.vertices.map fun v => v.rotate center angle }\n')
    return None


def main():
    problems = []
    out = ['''/-
GENERATED by tools/rotateglue.py from the CURRENT source of astropy/regions — do not edit.
What every `rotate(center, angle)` method changes in the copy it returns.
`Bridge/RotateGlue.lean` proves it equal to `Impl.*.rotate` / `PReg.rotate`.
-/
import RegionsVerif.Impl.Region

namespace RegionsVerif.Gen.RotateGlue
open RegionsVerif.Impl

variable {α : Type} [Field α] [LinearOrder α] [IsStrictOrderedRing α]

''']
    table = []
    for name, src in CLASSES:
        try:
            ch = interpret(get_source(src))
            table.append(f'({q(name)}, [' + ', '.join(f'({q(k)}, {q(v)}, {"true" if c else "false"})' for (k, v, c) in ch) + '])')
            ls = lean_struct(name, ch)
            if ls:
                out.append(f'/-- `{src}` -/\n' + ls + '\n')
        except Refuse as e:
            problems.append(f'{src}: translator refuses: {e}')
            out.append(f'-- {src}: REFUSED ({e})\n\n')
    out.append('/-- per class: (parameter, new value, only-if-the-attribute-exists). -/\n'
               'def rotate_changes : List (String × List (String × String × Bool)) :=\n  [' + ',\n   '.join(table) + ']\n\n')
    out.append('end RegionsVerif.Gen.RotateGlue\n')
    text = ''.join(out)
    if not os.path.exists(OUT) or open(OUT).read() != text:
        open(OUT, 'w').write(text)
    return problems


if __name__ == '__main__':
    for p in main():
        print('PROBLEM', p)
