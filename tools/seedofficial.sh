#!/bin/sh
# Official confirmation of seeded changes: apply the patch IN /repo (never committed), run the quick
# check(s) from /verif against /repo itself, restore /repo.  Only run when nothing else uses /repo.
# usage: tools/seedofficial.sh seeded/C01_m1 [more dirs…]      -> one line per (seed, check)
cd "$(dirname "$0")/.."
for d in "$@"; do
  name=$(basename "$d")
  prop=${name%%_*}
  if [ -n "$(git -C /repo status --porcelain --untracked-files=no)" ]; then echo "$name: /repo is not clean, abort"; exit 2; fi
  if ! git -C /repo apply "$PWD/$d/patch.diff" 2>/dev/null; then echo "$name $prop patch-does-not-apply"; continue; fi
  checks=$(python3 -c "import json,sys; m=json.load(open('$d/meta.json')); print(' '.join(m.get('detected_by') or ['$prop']))")
  for c in $checks; do
    out=$(./check $c 2>&1); rc=$?
    echo "$name $c rc=$rc $(echo "$out" | grep -m1 '^VIOLATION' | cut -c1-120)"
  done
  git -C /repo checkout -- .
done
# regenerate the generated Lean files from the clean tree
./check setup > /dev/null 2>&1
