#!/bin/sh
# usage: tools/mkworktree.sh <dir>   -- scratch git worktree of /repo HEAD with the compiled extension modules copied in
set -e
d="$1"
git -C /repo worktree add --detach "$d" HEAD >/dev/null 2>&1
for f in $(cd /repo && ls regions/_geometry/*.so regions/*.so 2>/dev/null); do cp "/repo/$f" "$d/$f"; done
echo "$d"
