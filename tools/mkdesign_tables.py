#!/usr/bin/env python3
"""Regenerate the generated tables of DESIGN.md (between <!-- BEGIN x --> / <!-- END x --> markers):
findings (from known_findings/*.json) and seeded changes (from seeded/*/meta.json)."""
import json
import os
import re

HERE = os.path.dirname(os.path.abspath(__file__))
V = os.path.join(HERE, '..')


def findings_table():
    rows = []
    for fn in sorted(os.listdir(os.path.join(V, 'known_findings'))):
        for f in json.load(open(os.path.join(V, 'known_findings', fn)))['findings']:
            what = f['what']
            what = re.sub(r'^fixed: property=\S+ \S+ ', '', what)
            rows.append((f['property'], f['id'], f.get('status'), f.get('commit', ''), f.get('site', ''), what[:230].replace('|', '/')))
    out = ['| prop | id | status | commit | site | what |', '|---|---|---|---|---|---|']
    for r in sorted(rows):
        out.append('| ' + ' | '.join(str(x) for x in r) + ' |')
    return '\n'.join(out)


def seeded_table():
    out = ['| seed | property | change | needs | detected by (quick checks, exit 1 + VIOLATION) | checks run |', '|---|---|---|---|---|---|']
    d = os.path.join(V, 'seeded')
    for name in sorted(os.listdir(d)):
        p = os.path.join(d, name, 'meta.json')
        if not os.path.exists(p):
            continue
        m = json.load(open(p))
        det = ', '.join(m.get('detected_by', [])) or '**none**'
        run = ', '.join(sorted(m.get('checks_run', {})))
        out.append(f"| {name} | {m.get('property')} | {str(m.get('what'))[:160].replace('|', '/')} | {str(m.get('needs'))[:160].replace('|', '/')} | {det} | {run} |")
    return '\n'.join(out)


def main():
    p = os.path.join(V, 'DESIGN.md')
    s = open(p).read()
    for key, text in (('findings', findings_table()), ('seeded', seeded_table())):
        pat = re.compile(rf'(<!-- BEGIN {key} -->\n).*?(<!-- END {key} -->)', re.S)
        if pat.search(s):
            s = pat.sub(lambda m: m.group(1) + text + '\n' + m.group(2), s)
    open(p, 'w').write(s)


if __name__ == '__main__':
    main()
