#!/usr/bin/env python3
"""Regenerate MANIFEST.json from tools/manifest_data.py (single source of truth)."""
import json
import os
import sys
HERE = os.path.dirname(os.path.abspath(__file__))
sys.path.insert(0, HERE)
from manifest_data import CHECKS, NOT_APPLICABLE, FIX_COMMITS, HOOK_COMMITS

props = [json.loads(l)['id'] for l in open(os.path.join(HERE, '..', 'properties.jsonl'))]
claimed = [c['property_id'] for c in CHECKS]
assert set(claimed) | {n['property_id'] for n in NOT_APPLICABLE} == set(props), 'every property must be claimed or listed'
assert not (set(claimed) & {n['property_id'] for n in NOT_APPLICABLE})
checks = []
for c in CHECKS:
    pid = c['property_id']
    checks.append({
        'property_id': pid,
        'quick_cmd': f'./check {pid} --tier quick',
        'thorough_cmd': f'./check {pid} --tier thorough',
        'evidence_file': f'evidence/{pid}.json',
        'replay_cmd_template': f'./check {pid} --replay {{path}}',
        'engine': 'lean4-proof+correspondence',
        'level_claimed': {'category': 'proof', 'text': c['text'], 'design_ref': c.get('design_ref', 'DESIGN.md §5 ' + pid)},
        'level_note': c['note'],
        'technique': c['technique'],
    })
m = {
    'version': 1,
    'setup_cmd': './check setup',
    'hooks': {
        'guard': 'REGIONS_VERIF',
        'enable': 'no source hooks are needed: checks import /repo\'s working tree in-process (editable install) and set REGIONS_VERIF=1 only for uniformity',
        'baseline_off_cmd': 'python3 tools/baseline.py',
        'source_commits': HOOK_COMMITS,
        'add_only': True,
    },
    'engines': [{
        'name': 'lean4-proof+correspondence',
        'path': 'check',
        'serves_properties': claimed,
        'kind_free_text': 'Lean 4 theorems about a hand-written executable model (lean/RegionsVerif), '
                          'model tied to /repo by a differential correspondence run (harness/, lean/Driver) '
                          'and for formula code by a Python-AST -> Lean translator with bridge lemmas (tools/py2lean.py)',
    }],
    'checks': checks,
    'not_applicable': NOT_APPLICABLE,
    'notes': 'fix commits in /repo: ' + ', '.join(FIX_COMMITS) + '. Known findings: known_findings.json. See DESIGN.md.',
}
json.dump(m, open(os.path.join(HERE, '..', 'MANIFEST.json'), 'w'), indent=1)
print('MANIFEST.json written:', len(checks), 'checks,', len(NOT_APPLICABLE), 'not claimed')
