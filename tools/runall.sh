#!/bin/sh
# usage: tools/runall.sh "<seeds>" [tier]  -- run every claimed check for each seed; print one line per run
cd "$(dirname "$0")/.."
tier=${2:-quick}
for s in $1; do
  for c in $(python3 -c "import json; print(' '.join(x['property_id'] for x in json.load(open('MANIFEST.json'))['checks']))"); do
    out=$(VERIF_SEED=$s ./check $c --tier $tier 2>&1); rc=$?
    echo "seed=$s $c rc=$rc $(echo "$out" | grep "^\[$c\]" | cut -c1-170)"
    if [ $rc -ne 0 ]; then echo "$out" | grep -E "VIOLATION|broken:|violation:|disagreement:" | head -4 | cut -c1-400; fi
  done
done
