#!/venv/bin/python
"""
C13 effect-table extractor (translator tie T of property C13).

From the CURRENT source text of the `regions` package (Python `ast`; nothing is imported) it
produces /verif/lean/RegionsVerif/Gen/Effects.lean with

 (i)  the table of MUTATING SITES of regions/core, regions/shapes, regions/io, regions/_utils
      (tests excluded): calls of .pop/.update/.append/.extend/.insert/.remove/.clear/
      .setdefault/.sort/.reverse/.popitem (and the dunder / numpy in-place spellings), `del x[..]`,
      `del x.a`, subscript and attribute stores, setattr/delattr, augmented assignments
      (incl. `<<=`, `|=`); each with file, line, function, operation, receiver expression and a
      conservative receiver CLASS

         fresh            the receiver was allocated by the library during the operation
         selfInit         the object under construction / assignment (`__init__`, descriptor
                          `__set__`, `__setitem__`, property setters, import-time module set-up) or
                          the receiver of a method that is a mutator BY CONTRACT (Meta.update,
                          Regions.append, the interactive selector callbacks, ...)
         immutableScalar  rebinding of a name that holds a number / str
         input            the receiver is (reachable from) an argument of a public entry point
         moduleState      the receiver is a module-level / class-level object
         unknown          none of the above could be established (validated dynamically)

      The classification is an abstract interpretation of every function body (flow-sensitive
      inside a function, attribute paths tracked, loops iterated twice), inter-procedural and
      context-insensitive: parameters of private helpers get the join of the actual arguments
      at all call sites found, return values are summarised ("returns a fresh object", with one
      level of element / field information) and everything is iterated to a fixed point.
      Public functions, dunder methods, registry-registered functions and private helpers without
      a call site have `input` parameters.

 (ii) the table of MODULE-LEVEL MUTABLE STATE: module-level names and class attributes bound
      to iterators (itertools.cycle/chain/count/repeat/..., `iter(..)`, generator expressions;
      also when nested in a dict/list display), module-level / class-level containers that some
      function body mutates, mutable default arguments that are mutated - with where they are
      read and where they are written, and whether every writer runs at import time only.

It writes the Gen file only when the content changed.  Anything it cannot place is `unknown`,
never guessed; constructs it does not understand at all are reported as problems.
"""
import ast
import json
import os
import sys

HERE = os.path.dirname(os.path.abspath(__file__))
GEN = os.path.join(os.path.dirname(HERE), 'lean', 'RegionsVerif', 'Gen', 'Effects.lean')
SCAN_DIRS = ('regions/core', 'regions/shapes', 'regions/io', 'regions/_utils')

MUTATORS = {'pop', 'update', 'append', 'extend', 'insert', 'remove', 'clear', 'setdefault', 'sort',
            'reverse', 'popitem'}
MUTATORS_EXTRA = {'__setitem__', '__delitem__', '__setattr__', '__delattr__', '__setstate__',
                  'add', 'discard', 'fill', 'put', 'itemset', 'resize', 'setflags', 'partition_inplace',
                  'appendleft', 'popleft', 'extendleft'}
OP_NAME = {'__setitem__': 'storeItem', '__delitem__': 'delItem', '__setattr__': 'storeAttr',
           '__delattr__': 'delAttr'}
INIT_LIKE = {'__init__', '__post_init__', '__new__', '__setitem__', '__delitem__', '__setattr__',
             '__delattr__', '__setstate__', '__init_subclass__'}
DESCRIPTOR_SET = {'__set__', '__delete__', '__set_name__'}
# methods that change their receiver BY CONTRACT (not part of the read-only / constructive API)
CONTRACT_MUTATORS = {
    'Meta': {'update', 'setdefault', 'pop', 'popitem', 'clear', '__ior__'},
    'RegionMeta': {'update', 'setdefault'},
    'RegionVisual': {'update', 'setdefault'},
    'Regions': {'append', 'extend', 'insert', 'reverse', 'pop', 'remove', 'clear', 'sort', '__iadd__'},
    '*': {'_update_from_mpl_selector', 'as_mpl_selector'},
}
STR_METHODS = {'format', 'replace', 'strip', 'lstrip', 'rstrip', 'lower', 'upper', 'title', 'join',
               'encode', 'decode', 'startswith', 'endswith', 'find', 'rfind', 'index', 'count',
               'isdigit', 'isalpha', 'isnumeric', 'is_integer', 'zfill', 'ljust', 'rjust', 'capitalize',
               'casefold', 'center', 'expandtabs', 'swapcase', 'removeprefix', 'removesuffix', 'item',
               'isscalar', 'span', 'start', 'end', 'group'}
STR_LIST_METHODS = {'split', 'rsplit', 'splitlines', 'partition', 'rpartition', 'groups', 'findall',
                    'tolist'}
FRESH_METHODS = {'to', 'transform_to', 'astype', 'flatten', 'to_string', 'directional_offset_by',
                 'separation', 'position_angle', 'to_pixel', 'to_sky', 'rotate', 'to_polygon',
                 'to_mask', 'to_image', 'wcs_pix2world', 'wcs_world2pix', 'all_pix2world',
                 'all_world2pix', 'pixel_to_world', 'world_to_pixel', 'deepcopy', '__deepcopy__',
                 'transform_path', 'get_path', 'get_transform', 'search', 'match', 'finditer',
                 'sum', 'mean', 'min', 'max', 'any', 'all', 'round', 'dot', 'nonzero', 'cumsum',
                 'from_float', 'from_sky', 'union', 'intersection', 'symmetric_difference',
                 'as_artist', 'define_mpl_kwargs'}
ELEM_METHODS = {'get', 'pop', 'setdefault', 'popitem', '__getitem__'}
VIEW_METHODS = {'items', 'values', 'keys'}
BUILTIN_FRESH_COPY = {'dict', 'list', 'set', 'frozenset', 'tuple', 'sorted', 'bytearray', 'OrderedDict'}
BUILTIN_SCALAR = {'str', 'int', 'float', 'bool', 'len', 'repr', 'abs', 'round', 'isinstance', 'callable',
                  'hasattr', 'id', 'hash', 'ord', 'chr', 'format', 'sum', 'any', 'all', 'type',
                  'issubclass', 'print', 'complex', 'bytes', 'divmod', 'pow', 'input', 'vars_'}
BUILTIN_ITER = {'zip', 'enumerate', 'reversed', 'map', 'filter', 'range', 'iter'}
NP_ALIASING = {'asarray', 'asanyarray', 'atleast_1d', 'atleast_2d', 'ravel', 'squeeze', 'reshape',
               'transpose', 'broadcast_to', 'broadcast_arrays', 'ascontiguousarray', 'moveaxis',
               'swapaxes', 'expand_dims', 'array_split', 'split', 'nditer', 'diagonal', 'real', 'imag'}
ITERTOOLS = {'cycle', 'chain', 'count', 'repeat', 'islice', 'accumulate', 'product', 'permutations',
             'combinations', 'starmap', 'takewhile', 'dropwhile', 'zip_longest', 'tee', 'groupby',
             'compress', 'filterfalse', 'pairwise', 'batched'}
EXTERNAL_MODULE_ROOTS = {'np', 'numpy', 'u', 'os', 'copy', 'warnings', 'itertools', 're', 'string',
                         'operator', 'op', 'math', 'locale', 'abc', 'numbers', 'mpath', 'mpatches',
                         'plt', 'fits', 'units', 'mpl', 'sys', 'functools', 'dataclasses'}

# ------------------------------------------------------------------ origins (abstract values)
#
# kind: 'bot' (no information yet), 'scalar', 'fresh', 'self' (object under construction /
# contract mutation), 'global' (module/class level object), 'param' (reachable from an argument
# of a public entry point), 'unknown'.
RANK = {'bot': 0, 'scalar': 1, 'fresh': 2, 'self': 3, 'global': 4, 'unknown': 5, 'param': 6}
MAXDEPTH = 3


class O:
    __slots__ = ('kind', 'elem', 'fields', 'root', 'deep')

    def __init__(self, kind, elem=None, fields=None, root=None, deep=False):
        self.kind = kind
        self.elem = elem        # origin of the elements / attributes (None: not tracked)
        self.fields = fields    # attribute name -> origin (objects built by a scanned constructor)
        self.root = root        # for param/global: the name it is rooted at (display only)
        self.deep = deep        # fresh all the way down (deepcopy)

    def key(self, d=0):
        if d >= MAXDEPTH:
            return (self.kind,)
        return (self.kind, self.deep, self.elem.key(d + 1) if self.elem is not None else None,
                tuple(sorted((k, v.key(d + 1)) for k, v in self.fields.items())) if self.fields else None)

    def __repr__(self):
        s = self.kind + (f'<{self.root}>' if self.root else '')
        if self.deep:
            s += '!'
        if self.elem is not None:
            s += f'[{self.elem!r}]'
        if self.fields:
            s += '{' + ','.join(f'{k}:{v!r}' for k, v in sorted(self.fields.items())) + '}'
        return s


BOT = O('bot')
SCALAR = O('scalar')
UNKNOWN = O('unknown')


def fresh(elem=None, fields=None, deep=False):
    return O('fresh', elem=elem, fields=fields, deep=deep)


def truncate(o, d=0):
    if o is None:
        return None
    if d >= MAXDEPTH:
        return O(o.kind, root=o.root, deep=o.deep)
    return O(o.kind, elem=truncate(o.elem, d + 1),
             fields={k: truncate(v, d + 1) for k, v in o.fields.items()} if o.fields else None,
             root=o.root, deep=o.deep)


def join(a, b, d=0):
    if a is None:
        return b
    if b is None:
        return a
    if a.kind == 'bot':
        return b
    if b.kind == 'bot':
        return a
    # a scalar cannot be mutated: joining it with a container keeps the container
    if a.kind == 'scalar':
        return b
    if b.kind == 'scalar':
        return a
    if a.kind != b.kind:
        hi = a if RANK[a.kind] >= RANK[b.kind] else b
        lo = b if hi is a else a
        if hi.kind in ('param', 'unknown', 'global', 'self'):
            return O(hi.kind, root=hi.root)
        return hi if lo.kind == 'scalar' else O(hi.kind, root=hi.root)
    if a.kind in ('param', 'global'):
        if a.root == b.root and (a.elem is None) == (b.elem is None):
            return a
        return O(a.kind, root=a.root if a.root == b.root else (a.root or b.root))
    if a.kind != 'fresh':
        return a
    if d >= MAXDEPTH:
        return O('fresh', deep=a.deep and b.deep)
    if a.elem is None and b.elem is None:
        elem = None
    else:
        # an untracked element of a fresh container is `unknown` unless the container is deep-fresh
        ea = a.elem if a.elem is not None else (None if a.deep else UNKNOWN)
        eb = b.elem if b.elem is not None else (None if b.deep else UNKNOWN)
        elem = join(ea, eb, d + 1)
    fields = None
    if a.fields and b.fields:
        fields = {}
        for k in set(a.fields) | set(b.fields):
            fa = a.fields.get(k, a.elem if a.elem is not None else UNKNOWN)
            fb = b.fields.get(k, b.elem if b.elem is not None else UNKNOWN)
            fields[k] = join(fa, fb, d + 1)
    elif a.fields or b.fields:
        # drop field information, fold it into elem
        fl = a.fields or b.fields
        for v in fl.values():
            elem = join(elem if elem is not None else BOT, v, d + 1)
    return O('fresh', elem=elem, fields=fields, deep=a.deep and b.deep)


def joins(xs):
    r = BOT
    for x in xs:
        r = join(r, x)
    return r


def derive(o, attr=None):
    """origin of `o.attr` / `o[...]` / an element of o."""
    if o.kind in ('bot', 'scalar', 'unknown'):
        return o
    if o.kind == 'global' and o.elem is not None:
        return o.elem
    if o.kind in ('param', 'global', 'self'):
        if o.kind == 'self':
            # what hangs off the object under construction may be anything that was stored there
            return O('self', root=o.root)
        return O(o.kind, root=o.root)
    # fresh
    if o.deep:
        return fresh(deep=True)
    if attr is not None and o.fields and attr in o.fields:
        return o.fields[attr]
    if o.elem is not None:
        return o.elem
    return UNKNOWN


# ------------------------------------------------------------------ source model

def dotted(node):
    if isinstance(node, ast.Name):
        return node.id
    if isinstance(node, ast.Attribute):
        b = dotted(node.value)
        return None if b is None else b + '.' + node.attr
    return None


def src(node):
    try:
        return ast.unparse(node)
    except Exception:
        return '?'


class Func:
    def __init__(self, module, node, cls, outer):
        self.module = module
        self.node = node
        self.cls = cls              # ClassInfo or None
        self.outer = outer          # enclosing Func or None
        self.name = node.name
        q = []
        if outer is not None:
            q.append(outer.qual + '.<locals>')
        elif cls is not None:
            q.append(cls.name)
        q.append(node.name)
        self.qual = '.'.join(q)
        a = node.args
        self.pos = [x.arg for x in a.posonlyargs + a.args]
        self.kwonly = [x.arg for x in a.kwonlyargs]
        self.vararg = a.vararg.arg if a.vararg else None
        self.kwarg = a.kwarg.arg if a.kwarg else None
        defaults = {}
        pa = a.posonlyargs + a.args
        for x, d in zip(pa[len(pa) - len(a.defaults):], a.defaults):
            defaults[x.arg] = d
        for x, d in zip(a.kwonlyargs, a.kw_defaults):
            if d is not None:
                defaults[x.arg] = d
        self.defaults = defaults
        decs = [src(d) for d in node.decorator_list]
        self.decorators = decs
        self.is_static = 'staticmethod' in decs
        self.is_classmethod = 'classmethod' in decs
        self.is_setter = any(d.endswith('.setter') or d.endswith('.deleter') for d in decs)
        self.registered = any('register' in d for d in decs)
        self.is_method = cls is not None and outer is None and not self.is_static
        self.param_in = {}          # param name -> joined origin of the actual arguments
        self.ret = BOT
        self.has_callsite = False
        self.callsites_importtime = True
        self.env_final = {}

    @property
    def self_name(self):
        if self.is_method and self.pos:
            return self.pos[0]
        return None

    def is_dunder(self):
        return self.name.startswith('__') and self.name.endswith('__')

    def is_public(self):
        """an entry point a user may call with his own objects."""
        if self.outer is not None:
            return False
        if self.registered:
            return True
        if self.is_dunder():
            return True
        if self.name.startswith('_'):
            return False
        if self.cls is not None and self.cls.name.startswith('_'):
            return False
        return True


class ClassInfo:
    def __init__(self, module, node):
        self.module = module
        self.node = node
        self.name = node.name
        self.bases = [src(b) for b in node.bases]
        self.methods = {}
        self.attrs = {}             # class-level assignments name -> value node
        self.is_dataclass = any('dataclass' in src(d) for d in node.decorator_list)
        self.dc_fields = []
        self.init_fields = None     # attr -> param name (simple `self.a = p` stores of __init__)


class Module:
    def __init__(self, name, path, rel, tree):
        self.name = name
        self.path = path
        self.rel = rel
        self.tree = tree
        self.funcs = {}
        self.classes = {}
        self.imports = {}           # local name -> ('module', modname) | ('name', modname, name)
        self.globals = {}           # name -> value node (last module-level assignment)
        self.global_lines = {}


class Site:
    def __init__(self, func, node, op, recv_node, detail=''):
        self.func = func
        self.line = node.lineno
        self.col = node.col_offset
        self.op = op
        self.recv_node = recv_node
        self.recv = src(recv_node)
        self.detail = detail
        self.origin = BOT
        self.cls = None
        self.note = ''
        self.is_call = isinstance(node, ast.Call)

    def key(self):
        return (self.func.module.rel, self.line, self.col, self.op, self.recv)


class Analysis:
    def __init__(self, root):
        self.root = root
        self.modules = {}
        self.problems = []
        self.all_funcs = []
        self.classes_by_name = {}
        self.methods_by_name = {}
        self.sites = {}
        self.global_reads = {}      # (modrel, gname) -> set of (file, line, func, keyinfo)
        self.global_writes = {}     # (modrel, gname) -> list of Site
        self.changed = False
        self.load()

    # -------------------------------------------------------------- loading
    def load(self):
        for d in SCAN_DIRS:
            top = os.path.join(self.root, d)
            for dirpath, dirnames, filenames in os.walk(top):
                dirnames[:] = sorted(x for x in dirnames if x not in ('tests', '__pycache__'))
                for fn in sorted(filenames):
                    if not fn.endswith('.py'):
                        continue
                    p = os.path.join(dirpath, fn)
                    rel = os.path.relpath(p, self.root)
                    modname = rel[:-3].replace(os.sep, '.')
                    if modname.endswith('.__init__'):
                        modname = modname[:-9]
                    try:
                        tree = ast.parse(open(p).read(), filename=p)
                    except SyntaxError as e:
                        self.problems.append(f'{rel}: cannot parse: {e}')
                        continue
                    m = Module(modname, p, rel, tree)
                    self.modules[modname] = m
                    self.index_module(m)
        for m in self.modules.values():
            for c in m.classes.values():
                self.classes_by_name.setdefault(c.name, []).append(c)
                for f in c.methods.values():
                    self.methods_by_name.setdefault(f.name, []).append(f)

    def index_module(self, m):
        def add_func(node, cls, outer):
            f = Func(m, node, cls, outer)
            self.all_funcs.append(f)
            if outer is None:
                if cls is not None:
                    # property getter/setter pairs share a name: keep all, key by (name, kind)
                    key = node.name + ('#set' if f.is_setter else '')
                    cls.methods[key] = f
                else:
                    m.funcs[node.name] = f
            for sub in ast.walk(node):
                pass
            self.index_nested(node, f, m)
            return f

        self._add_func = add_func
        for s in m.tree.body:
            self.index_stmt(s, m, add_func)

    def index_nested(self, node, f, m):
        for child in ast.iter_child_nodes(node):
            self._index_nested_rec(child, f, m)

    def _index_nested_rec(self, node, f, m):
        if isinstance(node, (ast.FunctionDef, ast.AsyncFunctionDef)):
            self._add_func(node, f.cls, f)
            return
        if isinstance(node, ast.ClassDef):
            return
        for child in ast.iter_child_nodes(node):
            self._index_nested_rec(child, f, m)

    def index_stmt(self, s, m, add_func):
        if isinstance(s, (ast.FunctionDef, ast.AsyncFunctionDef)):
            add_func(s, None, None)
        elif isinstance(s, ast.ClassDef):
            c = ClassInfo(m, s)
            m.classes[s.name] = c
            for b in s.body:
                if isinstance(b, (ast.FunctionDef, ast.AsyncFunctionDef)):
                    add_func(b, c, None)
                elif isinstance(b, ast.Assign):
                    for t in b.targets:
                        if isinstance(t, ast.Name):
                            c.attrs[t.id] = b
                elif isinstance(b, ast.AnnAssign) and isinstance(b.target, ast.Name):
                    if c.is_dataclass:
                        c.dc_fields.append(b.target.id)
                    if b.value is not None:
                        c.attrs[b.target.id] = b
            init = c.methods.get('__init__')
            if init is not None:
                fields = {}
                sn = init.self_name
                for n in ast.walk(init.node):
                    if isinstance(n, ast.Assign) and len(n.targets) == 1:
                        t = n.targets[0]
                        if (isinstance(t, ast.Attribute) and isinstance(t.value, ast.Name)
                                and t.value.id == sn):
                            fields.setdefault(t.attr, []).append(n.value)
                c.init_fields = fields
        elif isinstance(s, ast.Import):
            for a in s.names:
                m.imports[(a.asname or a.name).split('.')[0]] = ('module', a.name)
        elif isinstance(s, ast.ImportFrom):
            for a in s.names:
                m.imports[a.asname or a.name] = ('name', s.module or '', a.name)
        elif isinstance(s, (ast.Assign, ast.AnnAssign)):
            targets = s.targets if isinstance(s, ast.Assign) else [s.target]
            for t in targets:
                if isinstance(t, ast.Name) and getattr(s, 'value', None) is not None:
                    m.globals[t.id] = s.value
                    m.global_lines[t.id] = s.lineno
        elif isinstance(s, (ast.If, ast.Try, ast.With)):
            for f in ('body', 'orelse', 'finalbody'):
                for x in getattr(s, f, []):
                    self.index_stmt(x, m, add_func)
            for h in getattr(s, 'handlers', []):
                for x in h.body:
                    self.index_stmt(x, m, add_func)

    # -------------------------------------------------------------- name resolution
    def resolve_name(self, m, name, seen=()):
        """-> ('func', Func) | ('class', ClassInfo) | ('extmodule', modname) | ('ext', dotted) |
              ('global', Module, name) | None"""
        if (m.name, name) in seen:
            return None
        if name in m.funcs:
            return ('func', m.funcs[name])
        if name in m.classes:
            return ('class', m.classes[name])
        if name in m.imports:
            imp = m.imports[name]
            if imp[0] == 'module':
                if imp[1] in self.modules:
                    return ('module', self.modules[imp[1]])
                return ('extmodule', imp[1])
            modname, nm = imp[1], imp[2]
            target = self.modules.get(modname)
            if target is None and modname + '.' + nm in self.modules:
                return ('module', self.modules[modname + '.' + nm])
            if target is not None:
                r = self.resolve_name(target, nm, seen + ((m.name, name),))
                if r is not None:
                    return r
                return ('ext', modname + '.' + nm)
            # packages re-export: regions.core, regions.shapes
            for mn, mod in self.modules.items():
                if mn.startswith(modname + '.') or mn == modname:
                    if nm in mod.funcs:
                        return ('func', mod.funcs[nm])
                    if nm in mod.classes:
                        return ('class', mod.classes[nm])
            if modname.startswith('regions'):
                for mod in self.modules.values():
                    if nm in mod.classes:
                        return ('class', mod.classes[nm])
                    if nm in mod.funcs:
                        return ('func', mod.funcs[nm])
                    if nm in mod.globals:
                        return ('global', mod, nm)
            return ('ext', modname + '.' + nm)
        if name in m.globals:
            return ('global', m, name)
        return None

    def class_mro(self, c, seen=None):
        seen = seen or set()
        out = [c]
        seen.add(id(c))
        for b in c.bases:
            bn = b.split('.')[-1]
            r = self.resolve_name(c.module, bn)
            if r and r[0] == 'class' and id(r[1]) not in seen:
                out.extend(self.class_mro(r[1], seen))
        return out

    def find_method(self, c, name):
        for k in self.class_mro(c):
            if name in k.methods:
                return k.methods[name]
        return None

    def class_is_container(self, c):
        for k in self.class_mro(c):
            for b in k.bases:
                if b.split('.')[-1] in ('dict', 'list', 'set', 'OrderedDict', 'UserDict', 'UserList', 'deque'):
                    return True
        return False

    def contract_mutator(self, f):
        if f.cls is None:
            return False
        if f.name in CONTRACT_MUTATORS['*']:
            return True
        for k in self.class_mro(f.cls):
            if f.name in CONTRACT_MUTATORS.get(k.name, ()):
                return True
        return False

    # -------------------------------------------------------------- per-function analysis
    def initial_env(self, f):
        env = {}
        if f.outer is not None:
            env.update(f.outer.env_final)
        public = f.is_public() or not f.has_callsite
        names = f.pos + f.kwonly
        for i, p in enumerate(names):
            if f.is_method and i == 0:
                if f.is_classmethod:
                    env[p] = O('global', root=f'{f.cls.module.rel}:{f.cls.name}')
                elif f.name in INIT_LIKE or f.is_setter or self.contract_mutator(f):
                    env[p] = O('self', root=p)
                elif f.name in DESCRIPTOR_SET:
                    env[p] = O('self', root=p)
                elif public:
                    env[p] = O('param', root=p)
                else:
                    env[p] = f.param_in.get(p, BOT)
                continue
            if f.is_method and i == 1 and f.name in DESCRIPTOR_SET:
                # descriptor protocol: the object under assignment is the second parameter
                env[p] = O('self', root=p)
                continue
            if public:
                o = O('param', root=p)
            else:
                o = f.param_in.get(p, BOT)
                d = f.defaults.get(p)
                if d is not None:
                    o = join(o, self.default_origin(f, p, d))
            env[p] = o
        if f.vararg:
            env[f.vararg] = fresh(elem=(O('param', root=f.vararg) if public else
                                        f.param_in.get('*', UNKNOWN)))
        if f.kwarg:
            env[f.kwarg] = fresh(elem=(O('param', root=f.kwarg) if public else
                                       f.param_in.get('**', UNKNOWN)))
        return env

    def default_origin(self, f, p, d):
        if isinstance(d, ast.Constant):
            return SCALAR
        if isinstance(d, ast.Tuple) and all(isinstance(e, ast.Constant) for e in d.elts):
            return SCALAR
        if isinstance(d, (ast.Dict, ast.List, ast.Set, ast.Call, ast.ListComp, ast.DictComp)):
            # a mutable default is evaluated once: module-level state
            return O('global', root=f'{f.qual}(default {p})')
        return SCALAR

    def analyse(self, f):
        w = Walker(self, f)
        w.run()
        f.env_final = w.env
        new = truncate(join(f.ret, w.ret))
        if new.key() != f.ret.key():
            f.ret = new
            self.changed = True

    def push_args(self, callee, call, walker, recv_origin=None, constructor=False):
        """join the actual arguments into the callee's parameter origins."""
        names = callee.pos + callee.kwonly
        actual = {}
        pos = list(callee.pos)
        if callee.is_method and not constructor and recv_origin is not None and pos:
            actual[pos[0]] = recv_origin
            pos = pos[1:]
        elif callee.is_method and constructor and pos:
            pos = pos[1:]
        elif callee.is_method and pos and recv_origin is None:
            # Class.method(x, ...) called through the class: classmethod -> cls is implicit
            if callee.is_classmethod:
                pos = pos[1:]
        star_extra = []
        i = 0
        for a in call.args:
            if isinstance(a, ast.Starred):
                o = derive(walker.origin(a.value))
                for p in pos[i:]:
                    actual[p] = join(actual.get(p, BOT), o)
                star_extra.append(o)
                i = len(pos)
                continue
            o = walker.origin(a)
            if i < len(pos):
                actual[pos[i]] = o
            else:
                star_extra.append(o)
            i += 1
        kw_extra = []
        for k in call.keywords:
            o = walker.origin(k.value)
            if k.arg is None:
                o = derive(o)
                for p in names:
                    if p not in actual:
                        actual[p] = join(actual.get(p, BOT), o)
                kw_extra.append(o)
            elif k.arg in names:
                actual[k.arg] = o
            else:
                kw_extra.append(o)
        if star_extra:
            actual['*'] = joins(star_extra)
        if kw_extra:
            actual['**'] = joins(kw_extra)
        if not callee.has_callsite:
            callee.has_callsite = True
            self.changed = True
        if not walker.import_time and callee.callsites_importtime:
            callee.callsites_importtime = False
            self.changed = True
        for p, o in actual.items():
            old = callee.param_in.get(p, BOT)
            new = truncate(join(old, o))
            if new.key() != old.key():
                callee.param_in[p] = new
                self.changed = True

    def run(self):
        # phase 1: discover the call sites (which helpers are called from inside the package)
        self.discovery = True
        for it in range(3):
            self.changed = False
            self.sites_round = {}
            self.global_reads = {}
            self.global_writes = {}
            for m in self.modules.values():
                ModuleWalker(self, m).run()
            for f in self.all_funcs:
                self.analyse(f)
        for f in self.all_funcs:
            f.param_in = {}
            f.ret = BOT
            f.env_final = {}
        self.discovery = False
        # phase 2: module-level code first (import time), then functions, to a fixed point
        for it in range(60):
            self.changed = False
            self.sites_round = {}
            self.global_reads = {}
            self.global_writes = {}
            for m in self.modules.values():
                ModuleWalker(self, m).run()
            for f in self.all_funcs:
                self.analyse(f)
            if not self.changed:
                break
        else:
            self.problems.append('fixed point not reached in 60 rounds')
        self.rounds = it + 1
        self.sites = self.sites_round
        for s in self.sites.values():
            self.classify(s)

    # -------------------------------------------------------------- classification
    def classify(self, s):
        o = s.origin
        f = s.func
        k = o.kind
        if s.op in ('augName',) and k == 'bot':
            k = 'unknown'
        if k == 'bot':
            k = 'unknown'
        note = ''
        if not isinstance(f, ModuleFunc) and self.dead(f) and k in ('param', 'bot', 'unknown'):
            s.cls = 'unknown'
            s.note = 'dead code: private function without a call site in the package'
            return
        if isinstance(f, ModuleFunc):
            cls = {'scalar': 'immutableScalar', 'fresh': 'selfInit', 'global': 'selfInit'}.get(k, 'unknown')
            if cls == 'selfInit':
                note = 'import-time set-up of a module-level / class-level object'
            s.cls, s.note = cls, note
            return
        if k == 'scalar':
            cls = 'immutableScalar'
        elif k == 'fresh':
            cls = 'fresh'
        elif k == 'self':
            cls = 'selfInit'
            if self.contract_mutator(f):
                note = f'mutator by contract: {f.qual}'
            elif f.name in DESCRIPTOR_SET:
                note = 'descriptor protocol: the object under assignment'
            elif f.is_setter:
                note = 'property setter'
            else:
                note = 'object under construction'
        elif k == 'global':
            cls = 'moduleState'
            note = f'module/class-level object {o.root}'
        elif k == 'param' and s.op in ('augName', 'augElem'):
            # `x op= y` changes x in place only when x is a mutable object (list, ndarray, Quantity);
            # a number / str is rebound.  The type is not known statically.
            cls = 'unknown'
            note = f'in place only if the value (from parameter {o.root}) is mutable; validated dynamically'
        elif k == 'param':
            cls = 'input'
            note = f'rooted at parameter {o.root}' if o.root else ''
        else:
            cls = 'unknown'
        s.cls, s.note = cls, note


def _dead(self, f):
    while f.outer is not None:
        f = f.outer
    return (not f.is_public()) and (not f.has_callsite)


Analysis.dead = _dead


class ModuleFunc:
    """pseudo function: the module-level code of a module (runs at import)."""

    def __init__(self, module):
        self.module = module
        self.qual = '<module>'
        self.name = '<module>'
        self.cls = None
        self.outer = None
        self.is_method = False
        self.is_setter = False

    def is_public(self):
        return False


class Walker:
    """abstract interpretation of one function body."""

    def __init__(self, an, f):
        self.an = an
        self.f = f
        self.m = f.module
        self.env = an.initial_env(f) if not isinstance(f, ModuleFunc) else {}
        self.ret = BOT
        self.import_time = False
        self.guards = []        # stack of (name-expr-src, consts, positive?) for `if k in (...)`
        self._last_read = None

    def run(self):
        self.block(self.f.node.body)

    # ---- environment helpers
    def copy_env(self):
        return dict(self.env)

    def join_env(self, a, b):
        out = {}
        for k in set(a) | set(b):
            if k in a and k in b:
                out[k] = join(a[k], b[k])
            elif '.' in k:
                continue        # a path fact must hold on both branches
            else:
                out[k] = a.get(k) or b.get(k)
        return out

    def bind(self, target, o):
        if isinstance(target, ast.Name):
            self.kill(target.id)
            self.env[target.id] = o
        elif isinstance(target, (ast.Tuple, ast.List)):
            for t in target.elts:
                if isinstance(t, ast.Starred):
                    self.bind(t.value, fresh(elem=derive(o)))
                else:
                    self.bind(t, derive(o))
        elif isinstance(target, ast.Attribute):
            self.site(target, 'storeAttr', target.value, target.attr)
            p = dotted(target)
            if p is not None:
                self.kill(p)
                self.env[p] = o
            self.note_elem_store(target.value, o)
        elif isinstance(target, ast.Subscript):
            self.site(target, 'storeItem', target.value, src(target.slice))
            self.origin(target.slice)
            self.note_elem_store(target.value, o,
                                 target.slice.value if isinstance(target.slice, ast.Constant)
                                 and isinstance(target.slice.value, str) else None)
        elif isinstance(target, ast.Starred):
            self.bind(target.value, o)

    def kill(self, name):
        pre = name + '.'
        for k in [k for k in self.env if k.startswith(pre)]:
            del self.env[k]

    def note_elem_store(self, recv, o, key=None):
        """recv[...] = v / recv.a = v / recv.append(v): v joins the element origin of a fresh local."""
        p = dotted(recv)
        if p is None or p not in self.env:
            return
        cur = self.env[p]
        if cur.kind == 'fresh' and cur.fields is not None:
            if key is not None:
                f2 = dict(cur.fields)
                f2[key] = truncate(join(f2.get(key, BOT), o), 1)
                cur = O('fresh', elem=cur.elem, fields=f2, deep=cur.deep)
            elif o.kind not in ('scalar', 'bot'):
                cur = O('fresh', elem=cur.elem, fields=None, deep=cur.deep)
                for v in self.env[p].fields.values():
                    cur.elem = join(cur.elem if cur.elem is not None else BOT, v)
            self.env[p] = cur
        if cur.kind != 'fresh' or o.kind in ('scalar', 'bot'):
            return
        if o.kind == 'fresh' and o.deep and cur.deep:
            return
        if cur.elem is not None:
            base = cur.elem
        else:
            base = fresh(deep=True) if cur.deep else UNKNOWN
        self.env[p] = O('fresh', elem=truncate(join(base, o), 1), fields=cur.fields, deep=False)

    # ---- sites
    def site(self, node, op, recv_node, detail=''):
        o = self.origin(recv_node)
        s = Site(self.f, node, op, recv_node, detail)
        k = s.key()
        old = self.an.sites_round.get(k)
        if old is not None:
            old.origin = join(old.origin, o)
            s = old
        else:
            s.origin = o
            self.an.sites_round[k] = s
        if o.kind == 'global':
            self.an.global_writes.setdefault(o.root, {})[k] = (s, self.import_time)
        return s

    # ---- statements
    def block(self, stmts):
        for s in stmts:
            self.stmt(s)

    def stmt(self, s):
        if isinstance(s, (ast.FunctionDef, ast.AsyncFunctionDef)):
            for d in s.decorator_list:
                self.origin(d)
            self.env[s.name] = SCALAR
            return
        if isinstance(s, ast.ClassDef):
            self.env[s.name] = SCALAR
            if isinstance(self.f, ModuleFunc):
                for d in s.decorator_list:
                    self.origin(d)
                for b in s.body:
                    if isinstance(b, (ast.FunctionDef, ast.AsyncFunctionDef)):
                        for d in b.decorator_list:
                            self.origin(d)
                    elif isinstance(b, (ast.Assign, ast.AnnAssign, ast.AugAssign, ast.Expr, ast.If, ast.For)):
                        self.stmt(b)
            return
        if isinstance(s, ast.Expr):
            self.origin(s.value)
            return
        if isinstance(s, ast.Assign):
            o = self.origin(s.value)
            for t in s.targets:
                if (isinstance(t, (ast.Tuple, ast.List)) and isinstance(s.value, (ast.Tuple, ast.List))
                        and len(t.elts) == len(s.value.elts)
                        and not any(isinstance(e, ast.Starred) for e in t.elts + s.value.elts)):
                    os_ = [self.origin(e) for e in s.value.elts]
                    for tt, oo in zip(t.elts, os_):
                        self.bind(tt, oo)
                else:
                    self.bind(t, o)
            return
        if isinstance(s, ast.AnnAssign):
            if s.value is not None:
                self.bind(s.target, self.origin(s.value))
            return
        if isinstance(s, ast.AugAssign):
            v = self.origin(s.value)
            opname = type(s.op).__name__
            t = s.target
            if isinstance(t, ast.Name):
                cur = self.env.get(t.id)
                if cur is None:
                    cur = self.origin(t)
                # numbers and strings are rebound; a list / array / Quantity is changed in place
                if isinstance(s.op, ast.Add) and (isinstance(s.value, ast.JoinedStr) or (
                        isinstance(s.value, ast.Constant) and isinstance(s.value.value, str))):
                    # `x += 'text'` is defined for str only: a rebinding
                    cur = SCALAR
                    self.env[t.id] = SCALAR
                self.site(s, 'augName', t, opname)
                if cur.kind == 'scalar' and v.kind in ('scalar', 'bot'):
                    new = SCALAR
                elif cur.kind == 'scalar':
                    # scalar OP= container gives a new object (e.g. 2 * array)
                    new = fresh()
                else:
                    new = cur
                    if cur.kind == 'fresh':
                        self.env[t.id] = cur
                        self.note_elem_store(t, derive(v) if isinstance(s.op, ast.Add) else SCALAR)
                        new = self.env[t.id]
                self.env[t.id] = new
            elif isinstance(t, (ast.Attribute, ast.Subscript)):
                self.site(s, 'augStore', t.value, opname + ' ' + (t.attr if isinstance(t, ast.Attribute) else src(t.slice)))
                self.site(s, 'augElem', t, opname)
                p = dotted(t) if isinstance(t, ast.Attribute) else None
                if p is not None and self.env.get(p) is not None and self.env[p].kind == 'scalar' and v.kind == 'scalar':
                    pass
                elif p is not None:
                    self.kill(p)
                    self.env.pop(p, None)
            return
        if isinstance(s, ast.Delete):
            for t in s.targets:
                if isinstance(t, ast.Subscript):
                    self.site(t, 'delItem', t.value, src(t.slice))
                elif isinstance(t, ast.Attribute):
                    self.site(t, 'delAttr', t.value, t.attr)
                elif isinstance(t, ast.Name):
                    self.kill(t.id)
                    self.env.pop(t.id, None)
            return
        if isinstance(s, ast.Return):
            if s.value is not None:
                self.ret = join(self.ret, self.origin(s.value))
            else:
                self.ret = join(self.ret, SCALAR)
            return
        if isinstance(s, ast.For):
            it = self.origin(s.iter)
            before = self.copy_env()
            for _ in range(2):
                self.bind(s.target, derive(it))
                self.block(s.body)
                self.env = self.join_env(before, self.env)
                before = self.copy_env()
            self.block(s.orelse)
            return
        if isinstance(s, ast.While):
            before = self.copy_env()
            for _ in range(2):
                self.origin(s.test)
                self.block(s.body)
                self.env = self.join_env(before, self.env)
                before = self.copy_env()
            self.block(s.orelse)
            return
        if isinstance(s, ast.If):
            self.origin(s.test)
            g = self.guard_of(s.test)
            base = self.copy_env()
            if g:
                self.guards.append((g[0], g[1], True))
            self.block(s.body)
            if g:
                self.guards.pop()
            env_a = self.env
            self.env = dict(base)
            if g:
                self.guards.append((g[0], g[1], False))
            self.block(s.orelse)
            if g:
                self.guards.pop()
            self.env = self.join_env(env_a, self.env)
            return
        if isinstance(s, ast.With):
            for item in s.items:
                o = self.origin(item.context_expr)
                if item.optional_vars is not None:
                    self.bind(item.optional_vars, o)
            self.block(s.body)
            return
        if isinstance(s, ast.Try):
            base = self.copy_env()
            self.block(s.body)
            after = self.join_env(base, self.env)
            envs = []
            for h in s.handlers:
                self.env = dict(after)
                if h.name:
                    self.env[h.name] = fresh()
                self.block(h.body)
                envs.append(self.env)
            self.env = dict(after)
            self.block(s.orelse)
            for e in envs:
                self.env = self.join_env(self.env, e)
            self.block(s.finalbody)
            return
        if isinstance(s, ast.Raise):
            if s.exc is not None:
                self.origin(s.exc)
            if s.cause is not None:
                self.origin(s.cause)
            return
        if isinstance(s, ast.Assert):
            self.origin(s.test)
            return
        if isinstance(s, (ast.Import, ast.ImportFrom)):
            for a in s.names:
                self.env[(a.asname or a.name).split('.')[0]] = SCALAR
            return
        if isinstance(s, (ast.Pass, ast.Break, ast.Continue, ast.Global, ast.Nonlocal)):
            if isinstance(s, (ast.Global, ast.Nonlocal)):
                for n in s.names:
                    self.env[n] = O('global', root=f'{self.m.rel}:{n}')
            return
        if isinstance(s, ast.Match):
            self.origin(s.subject)
            base = self.copy_env()
            out = None
            for c in s.cases:
                self.env = dict(base)
                self.block(c.body)
                out = self.env if out is None else self.join_env(out, self.env)
            self.env = out or base
            return
        self.an.problems.append(f'{self.m.rel}:{s.lineno}: unsupported statement {type(s).__name__}')

    def guard_of(self, test):
        """`k in (consts)` / `k == const` -> (src(k), consts)"""
        if isinstance(test, ast.Compare) and len(test.ops) == 1:
            op, rhs = test.ops[0], test.comparators[0]
            if isinstance(op, ast.In) and isinstance(rhs, (ast.Tuple, ast.List, ast.Set)) \
                    and all(isinstance(e, ast.Constant) for e in rhs.elts):
                return (src(test.left), tuple(e.value for e in rhs.elts))
            if isinstance(op, ast.Eq) and isinstance(rhs, ast.Constant):
                return (src(test.left), (rhs.value,))
        return None

    # ---- expressions
    def origin(self, e):
        if e is None:
            return SCALAR
        m = getattr(self, 'o_' + type(e).__name__, None)
        if m is None:
            for c in ast.iter_child_nodes(e):
                if isinstance(c, ast.expr):
                    self.origin(c)
            return UNKNOWN
        return m(e)

    def o_Constant(self, e):
        return SCALAR

    def o_JoinedStr(self, e):
        for v in e.values:
            self.origin(v)
        return SCALAR

    def o_FormattedValue(self, e):
        self.origin(e.value)
        if e.format_spec is not None:
            self.origin(e.format_spec)
        return SCALAR

    def o_Name(self, e):
        if e.id in self.env:
            return self.env[e.id]
        if e.id in ('True', 'False', 'None', 'NotImplemented', 'Ellipsis', '__name__', '__file__'):
            return SCALAR
        r = self.an.resolve_name(self.m, e.id)
        if r is None:
            return SCALAR if e.id in dir(__builtins__) or e.id in BUILTIN_SCALAR else UNKNOWN
        if r[0] == 'global':
            mod, nm = r[1], r[2]
            v = mod.globals[nm]
            if isinstance(v, ast.Constant) or (isinstance(v, ast.Tuple) and all(isinstance(x, ast.Constant) for x in v.elts)):
                return SCALAR
            key = f'{mod.rel}:{nm}'
            self.note_global_read(key, e, None)
            return O('global', root=key, elem=SCALAR if const_display(v) else None)
        if r[0] == 'class':
            return O('global', root=f'{r[1].module.rel}:{r[1].name}')
        return SCALAR       # functions, modules: not heap objects of interest

    def note_global_read(self, key, node, sub):
        keys = None
        if sub is not None:
            if isinstance(sub, ast.Constant):
                keys = ('only', (sub.value,))
            else:
                ssrc = src(sub)
                for (gsrc, consts, positive) in reversed(self.guards):
                    if gsrc == ssrc:
                        keys = ('only', consts) if positive else ('except', consts)
                        break
        fn = self.f.qual
        d = self.an.global_reads.setdefault(key, {})
        k = (self.m.rel, node.lineno, node.col_offset, fn)
        if sub is not None or k not in d:
            d[k] = (keys, self.import_time)
        self._last_read = (node, key)

    def o_Attribute(self, e):
        p = dotted(e)
        if p is not None and p in self.env:
            return self.env[p]
        if e.attr in ('__name__', '__qualname__', '__module__', '__doc__'):
            self.origin(e.value)
            return SCALAR
        # Class.attr / cls.attr / module.attr : module-level state
        if isinstance(e.value, ast.Name) and e.value.id not in self.env:
            r = self.an.resolve_name(self.m, e.value.id)
            if r is not None and r[0] == 'class':
                c = r[1]
                for k in self.an.class_mro(c):
                    if e.attr in k.attrs:
                        key = f'{k.module.rel}:{k.name}.{e.attr}'
                        self.note_global_read(key, e, None)
                        return self.class_attr_origin(k, e.attr, key)
                if self.an.find_method(c, e.attr) is not None:
                    return SCALAR
                return O('global', root=f'{c.module.rel}:{c.name}.{e.attr}')
            if r is not None and r[0] == 'module':
                mod = r[1]
                if e.attr in mod.globals:
                    key = f'{mod.rel}:{e.attr}'
                    self.note_global_read(key, e, None)
                    return O('global', root=key)
                return SCALAR
            if r is not None and r[0] in ('extmodule', 'ext'):
                return SCALAR
        base = self.origin(e.value)
        if base.kind == 'global' and base.root and ':' in base.root and '.' not in base.root.split(':', 1)[1]:
            # attribute of a class object reached through `cls` / the class name
            cname = base.root.split(':', 1)[1]
            for c in self.an.classes_by_name.get(cname, []):
                for k in self.an.class_mro(c):
                    if e.attr in k.attrs:
                        key = f'{k.module.rel}:{k.name}.{e.attr}'
                        self.note_global_read(key, e, None)
                        return self.class_attr_origin(k, e.attr, key)
                if self.an.find_method(c, e.attr) is not None:
                    return SCALAR
        if base.kind in ('param', 'self', 'unknown', 'fresh') and self.f.cls is not None \
                and isinstance(e.value, ast.Name) and e.value.id == getattr(self.f, 'self_name', None):
            # self.attr where attr is a CLASS attribute never assigned on the instance
            for k in self.an.class_mro(self.f.cls):
                if e.attr in k.attrs and not self.assigned_on_instance(e.attr):
                    v = k.attrs[e.attr].value
                    if self.is_mutable_display(v):
                        key = f'{k.module.rel}:{k.name}.{e.attr}'
                        self.note_global_read(key, e, None)
                        return self.class_attr_origin(k, e.attr, key)
                    break
        return derive(base, e.attr)

    def class_attr_origin(self, k, attr, key):
        v = k.attrs[attr].value
        if isinstance(v, ast.Constant) or (isinstance(v, ast.Tuple) and all(isinstance(x, ast.Constant) for x in v.elts)):
            return SCALAR
        return O('global', root=key)

    def is_mutable_display(self, v):
        return isinstance(v, (ast.Dict, ast.List, ast.Set, ast.Call, ast.ListComp, ast.DictComp, ast.SetComp))

    def assigned_on_instance(self, attr):
        for k in self.an.class_mro(self.f.cls):
            for f in k.methods.values():
                sn = f.self_name
                for n in ast.walk(f.node):
                    if isinstance(n, ast.Attribute) and isinstance(n.ctx, ast.Store) and n.attr == attr \
                            and isinstance(n.value, ast.Name) and n.value.id == sn:
                        return True
            # descriptors: the class attribute is a descriptor object, instance values live in __dict__
            if attr in k.attrs:
                v = k.attrs[attr].value
                if isinstance(v, ast.Call):
                    fn = dotted(v.func) or ''
                    r = self.an.resolve_name(k.module, fn.split('.')[0]) if fn else None
                    if r is not None and r[0] == 'class' and any(
                            '__set__' in kk.methods or '__get__' in kk.methods for kk in self.an.class_mro(r[1])):
                        return True
        return False

    def o_Subscript(self, e):
        self._last_read = None
        base = self.origin(e.value)
        lr = self._last_read
        self.origin(e.slice)
        if lr is not None and lr[0] is e.value:
            # D[k] where D is read directly: remember which keys this read can select
            self.note_global_read(lr[1], e.value, e.slice)
        if isinstance(e.slice, ast.Slice):
            if base.kind in ('fresh', 'scalar'):
                return base if base.kind == 'scalar' else fresh(elem=base.elem, deep=base.deep)
            return base
        if isinstance(e.slice, ast.Constant) and isinstance(e.slice.value, str):
            return derive(base, e.slice.value)
        return derive(base)

    def o_Slice(self, e):
        for x in (e.lower, e.upper, e.step):
            if x is not None:
                self.origin(x)
        return SCALAR

    def o_Starred(self, e):
        return self.origin(e.value)

    def o_BinOp(self, e):
        a, b = self.origin(e.left), self.origin(e.right)
        if a.kind in ('scalar', 'bot') and b.kind in ('scalar', 'bot'):
            return SCALAR
        if isinstance(e.op, ast.Mod) and isinstance(e.left, (ast.Constant, ast.JoinedStr)):
            return SCALAR
        # arithmetic / concatenation result: a new object; a concatenated list shares its elements
        elem = None
        if isinstance(e.op, ast.Add):
            ea = derive(a) if a.kind not in ('scalar', 'bot') else BOT
            eb = derive(b) if b.kind not in ('scalar', 'bot') else BOT
            elem = join(ea, eb)
            if elem.kind == 'bot':
                elem = None
        return fresh(elem=elem)

    def o_UnaryOp(self, e):
        a = self.origin(e.operand)
        if isinstance(e.op, ast.Not) or a.kind in ('scalar', 'bot'):
            return SCALAR
        return fresh()

    def o_BoolOp(self, e):
        return joins([self.origin(v) for v in e.values])

    def o_Compare(self, e):
        self.origin(e.left)
        for c in e.comparators:
            self.origin(c)
        return SCALAR

    def o_IfExp(self, e):
        self.origin(e.test)
        return join(self.origin(e.body), self.origin(e.orelse))

    def o_Lambda(self, e):
        return SCALAR

    def o_NamedExpr(self, e):
        o = self.origin(e.value)
        self.bind(e.target, o)
        return o

    def _display(self, elts):
        os_ = []
        for x in elts:
            if isinstance(x, ast.Starred):
                os_.append(derive(self.origin(x.value)))
            else:
                os_.append(self.origin(x))
        el = joins(os_)
        return fresh(elem=None if el.kind == 'bot' else el, deep=(el.kind in ('bot', 'scalar')))

    def o_List(self, e):
        return self._display(e.elts)

    def o_Tuple(self, e):
        return self._display(e.elts)

    def o_Set(self, e):
        return self._display(e.elts)

    def o_Dict(self, e):
        os_ = []
        fields = {}
        for k, v in zip(e.keys, e.values):
            if k is None:
                os_.append(derive(self.origin(v)))
                fields = None
            else:
                self.origin(k)
                o = self.origin(v)
                os_.append(o)
                if fields is not None and isinstance(k, ast.Constant) and isinstance(k.value, str):
                    fields[k.value] = join(fields.get(k.value, BOT), o)
                else:
                    fields = None
        el = joins(os_)
        return fresh(elem=None if el.kind == 'bot' else el, fields=fields or None,
                     deep=(el.kind in ('bot', 'scalar')))

    def _comp(self, e, elts):
        saved = self.copy_env()
        for g in e.generators:
            it = self.origin(g.iter)
            self.bind(g.target, derive(it))
            for c in g.ifs:
                self.origin(c)
        el = joins([self.origin(x) for x in elts])
        self.env = saved
        return fresh(elem=None if el.kind == 'bot' else el, deep=(el.kind in ('bot', 'scalar')))

    def o_ListComp(self, e):
        return self._comp(e, [e.elt])

    def o_SetComp(self, e):
        return self._comp(e, [e.elt])

    def o_GeneratorExp(self, e):
        return self._comp(e, [e.elt])

    def o_DictComp(self, e):
        return self._comp(e, [e.value, e.key])

    def o_Await(self, e):
        self.origin(e.value)
        return UNKNOWN

    def o_Yield(self, e):
        if e.value is not None:
            self.ret = join(self.ret, fresh(elem=self.origin(e.value)))
        return UNKNOWN

    def o_YieldFrom(self, e):
        self.ret = join(self.ret, fresh(elem=derive(self.origin(e.value))))
        return UNKNOWN

    # ---- calls
    def o_Call(self, e):
        fn = e.func
        args_o = None

        def args():
            nonlocal args_o
            if args_o is None:
                args_o = [self.origin(a.value if isinstance(a, ast.Starred) else a) for a in e.args] + \
                         [self.origin(k.value) for k in e.keywords]
            return args_o

        if isinstance(fn, ast.Name):
            name = fn.id
            if name in self.env and self.env[name].kind != 'scalar':
                args()
                return UNKNOWN
            r = self.an.resolve_name(self.m, name) if name not in self.env else None
            if r is not None and r[0] == 'func':
                self.an.push_args(r[1], e, self)
                return r[1].ret if r[1].ret.kind != 'bot' else BOT
            if r is not None and r[0] == 'class':
                return self.construct(r[1], e)
            if name == 'getattr':
                a = args()
                if not a:
                    return UNKNOWN
                attr = e.args[1].value if len(e.args) > 1 and isinstance(e.args[1], ast.Constant) else None
                o = derive(a[0], attr)
                if len(a) > 2:
                    o = join(o, a[2])
                return o
            if name in ('setattr', 'delattr'):
                if e.args:
                    self.site(e, 'storeAttr' if name == 'setattr' else 'delAttr', e.args[0],
                              src(e.args[1]) if len(e.args) > 1 else '')
                    if name == 'setattr' and len(e.args) > 2:
                        self.note_elem_store(e.args[0], self.origin(e.args[2]))
                args()
                return SCALAR
            if name in ('deepcopy',):
                args()
                return fresh(deep=True)
            if name in BUILTIN_FRESH_COPY:
                a = args()
                el = joins([derive(x) for x in a]) if a else BOT
                if name == 'dict' and e.keywords:
                    el = join(el, joins([self.origin(k.value) for k in e.keywords if k.arg is not None]))
                return fresh(elem=None if el.kind == 'bot' else el, deep=(el.kind in ('bot', 'scalar')))
            if name in ('min', 'max'):
                a = args()
                return joins([derive(x) for x in a]) if len(a) == 1 else joins(a)
            if name == 'next':
                a = args()
                return joins([derive(a[0])] + a[1:]) if a else UNKNOWN
            if name in BUILTIN_ITER:
                a = args()
                if name in ('zip', 'enumerate'):
                    return fresh(elem=fresh(elem=joins([derive(x) for x in a])))
                if name == 'range':
                    return fresh(deep=True)
                if name == 'map' or name == 'filter':
                    return fresh(elem=joins([derive(x) for x in a[1:]]) if name == 'filter' else UNKNOWN)
                return fresh(elem=joins([derive(x) for x in a]))
            if name in BUILTIN_SCALAR or name in ('ValueError', 'TypeError', 'KeyError', 'OSError',
                                                  'AttributeError', 'NotImplementedError', 'RuntimeError',
                                                  'IndexError', 'Exception'):
                args()
                return SCALAR if name in BUILTIN_SCALAR else fresh()
            if name == 'super':
                sn = getattr(self.f, 'self_name', None)
                return self.env.get(sn, UNKNOWN) if sn else UNKNOWN
            if name == 'open':
                args()
                return fresh()
            if r is not None and r[0] == 'ext':
                return self.external_call(r[1], e, args())
            a = args()
            if name[:1].isupper() and (name not in self.env or self.env[name].kind == 'scalar'):
                # a class of another package: a constructor call returns a new object
                el = joins(a)
                return fresh(elem=None if el.kind == 'bot' else el, deep=(el.kind in ('bot', 'scalar')))
            return UNKNOWN

        if isinstance(fn, ast.Attribute):
            meth = fn.attr
            d = dotted(fn)
            # module functions: np.xyz, copy.deepcopy, itertools.cycle, u.Quantity ...
            if d is not None:
                root = d.split('.')[0]
                if root not in self.env:
                    r = self.an.resolve_name(self.m, root)
                    if (r is not None and r[0] in ('extmodule', 'ext')) or (r is None and root in EXTERNAL_MODULE_ROOTS):
                        modname = r[1] if r is not None else root
                        return self.external_call(modname + '.' + '.'.join(d.split('.')[1:]), e, args())
                    if r is not None and r[0] == 'module':
                        mod = r[1]
                        nm = d.split('.')[1]
                        if nm in mod.funcs and len(d.split('.')) == 2:
                            self.an.push_args(mod.funcs[nm], e, self)
                            return mod.funcs[nm].ret
                        if nm in mod.classes and len(d.split('.')) == 2:
                            return self.construct(mod.classes[nm], e)
                    if r is not None and r[0] == 'class' and len(d.split('.')) == 2:
                        c = r[1]
                        if meth == '__new__':
                            args()
                            return fresh()
                        callee = self.an.find_method(c, meth)
                        if callee is not None:
                            recv = None
                            if callee.is_method and not callee.is_classmethod:
                                # Class.method(obj, ...): explicit receiver
                                recv = None
                            self.an.push_args(callee, e, self,
                                              recv_origin=O('global', root=f'{c.module.rel}:{c.name}') if callee.is_classmethod else None)
                            return callee.ret
            if d == 'object.__new__':
                args()
                return fresh()
            recv = self.origin(fn.value)
            a = args()
            # mutating method calls
            if meth in MUTATORS or meth in MUTATORS_EXTRA:
                skip = False
                if recv.kind == 'scalar' and isinstance(fn.value, ast.Name) and fn.value.id not in self.env:
                    skip = True     # a module (os.remove, ...) - not a heap object
                if isinstance(fn.value, ast.Call) and isinstance(fn.value.func, ast.Name) and fn.value.func.id == 'super':
                    skip = False
                if not skip:
                    self.site(e, OP_NAME.get(meth, meth), fn.value,
                              src(e.args[0]) if e.args else '')
                    if meth in ('append', 'add', 'insert', 'extend', 'update', 'setdefault', '__setitem__', 'appendleft'):
                        vals = a[-1:] if meth in ('append', 'add', 'insert', '__setitem__', 'setdefault', 'appendleft') else [derive(x) for x in a]
                        if meth == 'update':
                            vals = [derive(x) for x in a[:len(e.args)]] + a[len(e.args):]
                        for v in vals:
                            self.note_elem_store(fn.value, v)
            # result origin
            if isinstance(fn.value, ast.Call) and isinstance(fn.value.func, ast.Name) and fn.value.func.id == 'super':
                return SCALAR if meth.startswith('__') and meth not in ('__getitem__',) else derive(recv)
            # self.method(...) / obj.method(...) resolved inside the scanned classes
            callee = None
            sn = getattr(self.f, 'self_name', None)
            if isinstance(fn.value, ast.Name) and sn is not None and fn.value.id == sn and self.f.cls is not None:
                callee = self.an.find_method(self.f.cls, meth)
                if callee is None:
                    # a subclass may provide it
                    cands = [f for f in self.an.methods_by_name.get(meth, [])
                             if self.f.cls in self.an.class_mro(f.cls)]
                    if cands:
                        for c in cands:
                            self.an.push_args(c, e, self, recv_origin=recv)
                        return joins([c.ret for c in cands])
            if callee is not None:
                self.an.push_args(callee, e, self, recv_origin=recv)
                # subclass overrides
                outs = [callee.ret]
                for f2 in self.an.methods_by_name.get(meth, []):
                    if f2 is not callee and self.f.cls in self.an.class_mro(f2.cls):
                        self.an.push_args(f2, e, self, recv_origin=recv)
                        outs.append(f2.ret)
                return joins(outs)
            if meth == 'copy':
                for f2 in self.an.methods_by_name.get('copy', []):
                    self.an.push_args(f2, e, self, recv_origin=recv)
                return fresh(elem=derive(recv) if recv.kind not in ('scalar', 'bot') else None)
            if meth in VIEW_METHODS:
                el = derive(recv)
                return fresh(elem=fresh(elem=el) if meth == 'items' else el)
            if meth in ELEM_METHODS:
                o = derive(recv)
                if meth in ('get', 'pop', 'setdefault') and len(a) > 1:
                    o = join(o, a[1])
                return o
            if meth in STR_METHODS:
                return SCALAR
            if meth in STR_LIST_METHODS:
                return fresh(deep=True)
            cands = self.an.methods_by_name.get(meth, [])
            if cands and not (meth in FRESH_METHODS and not any(True for _ in cands)):
                for c in cands:
                    self.an.push_args(c, e, self, recv_origin=recv)
                out = joins([c.ret for c in cands])
                if meth in FRESH_METHODS and out.kind in ('bot',):
                    return fresh()
                return out
            if meth in FRESH_METHODS:
                return fresh()
            return UNKNOWN

        # call of a call / subscript: e.g. registry[key](...), ds9_shape_to_region[t][shape](*params)
        self.origin(fn)
        a = args()
        fs = src(fn)
        if 'shape_to_sky_region' in fs or 'shape_to_pixel_region' in fs or 'ds9_shape_to_region' in fs:
            # tables of region classes: a constructor call
            return self.construct_any_region(e)
        return UNKNOWN

    def external_call(self, name, e, a):
        parts = name.split('.')
        last = parts[-1]
        if name in ('copy.deepcopy',) or last == 'deepcopy':
            return fresh(deep=True)
        if name == 'copy.copy':
            return fresh(elem=joins([derive(x) for x in a]))
        if parts[0] in ('np', 'numpy'):
            if last in NP_ALIASING:
                return joins(a) if a else UNKNOWN
            return fresh(deep=True)
        if parts[0] == 'itertools' or last in ITERTOOLS and parts[0] == 'itertools':
            return fresh(elem=joins([derive(x) for x in a]) if a else None)
        if parts[0] in ('re', 'string', 'os', 'math', 'locale', 'warnings', 'operator', 'op', 'sys', 'numbers'):
            return SCALAR if last not in ('compile', 'findall', 'split', 'finditer', 'search', 'match') else fresh(deep=True)
        if last in ('Quantity', 'Angle', 'SkyCoord', 'Longitude', 'Latitude', 'UnitSphericalRepresentation',
                    'QTable', 'Table', 'BinTableHDU', 'Header', 'Unit', 'Path', 'PathPatch', 'Ellipse',
                    'Circle', 'Rectangle', 'Polygon', 'Line2D', 'Text', 'Arrow', 'WCS', 'Column'):
            # astropy / matplotlib constructors copy their data by default
            el = joins(a)
            return fresh(deep=(el.kind in ('bot', 'scalar')))
        if last[:1].isupper():
            # a class of another package: a constructor call returns a new object
            el = joins(a)
            return fresh(elem=None if el.kind == 'bot' else el, deep=(el.kind in ('bot', 'scalar')))
        return UNKNOWN

    def construct(self, c, call):
        """origin of ClassName(args...)"""
        an = self.an
        init = an.find_method(c, '__init__')
        if init is not None:
            an.push_args(init, call, self, constructor=True)
        post = an.find_method(c, '__post_init__')
        a_pos = [self.origin(x.value if isinstance(x, ast.Starred) else x) for x in call.args]
        a_kw = {k.arg: self.origin(k.value) for k in call.keywords}
        allo = a_pos + list(a_kw.values())
        elem = joins(allo)
        if an.class_is_container(c):
            el = joins([derive(x) for x in allo]) if allo else BOT
            return fresh(elem=None if el.kind == 'bot' else el, deep=(el.kind in ('bot', 'scalar')))
        fields = None
        names = None
        if c.is_dataclass and c.dc_fields:
            names = list(c.dc_fields)
            amap = {}
            for i, o in enumerate(a_pos):
                if i < len(names) and not isinstance(call.args[i], ast.Starred):
                    amap[names[i]] = o
            for k, o in a_kw.items():
                if k in names:
                    amap[k] = o
            fields = {n: amap.get(n, SCALAR) for n in names}
        elif init is not None and init.cls.init_fields is not None and not any(
                isinstance(x, ast.Starred) for x in call.args) and None not in a_kw:
            params = init.pos[1:]
            amap = {}
            for i, o in enumerate(a_pos):
                if i < len(params):
                    amap[params[i]] = o
            for k, o in a_kw.items():
                amap[k] = o
            fields = {}
            for attr, vals in init.cls.init_fields.items():
                os_ = []
                for v in vals:
                    if isinstance(v, ast.Name) and v.id in params:
                        if v.id in amap:
                            os_.append(amap[v.id])
                        elif v.id in init.defaults:
                            os_.append(SCALAR if isinstance(init.defaults[v.id], ast.Constant) else UNKNOWN)
                        else:
                            os_.append(UNKNOWN)
                    elif isinstance(v, ast.Constant):
                        os_.append(SCALAR)
                    elif isinstance(v, (ast.Dict, ast.List, ast.Set)) and not (getattr(v, 'elts', None) or getattr(v, 'keys', None)):
                        os_.append(fresh(deep=True))
                    else:
                        os_.append(join(UNKNOWN, elem))
                fields[attr] = joins(os_)
        return fresh(elem=None if elem.kind == 'bot' else elem, fields=fields,
                     deep=(elem.kind in ('bot', 'scalar')) and not fields)

    def construct_any_region(self, call):
        a = [self.origin(x.value if isinstance(x, ast.Starred) else x) for x in call.args]
        a += [self.origin(k.value) for k in call.keywords]
        # every region constructor gets these arguments
        for cs in self.an.classes_by_name.values():
            for c in cs:
                if c.name.endswith('PixelRegion') or c.name.endswith('SkyRegion'):
                    init = self.an.find_method(c, '__init__')
                    if init is not None and a:
                        o = joins([derive(x) if isinstance(call.args[i] if i < len(call.args) else None, ast.Starred) else x
                                   for i, x in enumerate(a)])
                        for p in init.pos[1:]:
                            old = init.param_in.get(p, BOT)
                            new = truncate(join(old, o))
                            if new.key() != old.key():
                                init.param_in[p] = new
                                self.an.changed = True
                        if not init.has_callsite:
                            init.has_callsite = True
                            self.an.changed = True
        el = joins([derive(x) for x in a]) if a else BOT
        return fresh(elem=None if el.kind == 'bot' else join(el, UNKNOWN))


class ModuleWalker(Walker):
    def __init__(self, an, m):
        self.an = an
        self.f = ModuleFunc(m)
        self.m = m
        self.env = {}
        self.ret = BOT
        self.import_time = True
        self.guards = []
        self._last_read = None

    def run(self):
        self.block(self.m.tree.body)

    def o_Name(self, e):
        # module-level names are the module's own objects under construction
        if e.id in self.env:
            return self.env[e.id]
        return Walker.o_Name(self, e)

    def bind(self, target, o):
        if isinstance(target, ast.Name):
            # module-level containers keep their identity as module state for the functions,
            # but at import time they are "under construction"
            self.env[target.id] = o if o.kind in ('scalar',) else O('global', root=f'{self.m.rel}:{target.id}')
            return
        Walker.bind(self, target, o)


# ------------------------------------------------------------------ module-level state table

def iter_expr(node):
    """structure of an iterator-valued expression, or None.
    -> ('cycle', [consts]) | ('chain', [parts]) | ('tuple', [consts]) | ('count',) |
       ('repeat', const) | ('other', src)"""
    if isinstance(node, ast.Call):
        d = dotted(node.func) or ''
        last = d.split('.')[-1]
        if d.split('.')[0] == 'itertools' or last in ITERTOOLS:
            if last == 'cycle' and len(node.args) == 1:
                c = const_seq(node.args[0])
                return ('cycle', c) if c is not None else ('other', src(node))
            if last == 'chain':
                parts = []
                for a in node.args:
                    sub = iter_expr(a)
                    if sub is None:
                        c = const_seq(a)
                        if c is None:
                            return ('other', src(node))
                        sub = ('tuple', c)
                    parts.append(sub)
                return ('chain', parts)
            if last == 'count':
                return ('count',)
            if last == 'repeat' and len(node.args) == 1 and isinstance(node.args[0], ast.Constant):
                return ('repeat', str(node.args[0].value))
            return ('other', src(node))
        if d == 'iter' and len(node.args) == 1:
            c = const_seq(node.args[0])
            return ('tuple', c) if c is not None else ('other', src(node))
        if d in ('zip', 'map', 'filter', 'enumerate', 'reversed'):
            return ('other', src(node))
    if isinstance(node, ast.GeneratorExp):
        return ('other', src(node))
    return None


def const_display(v):
    """a display all of whose leaves are constants (strings, numbers): its elements are immutable."""
    if isinstance(v, ast.Constant):
        return True
    if isinstance(v, (ast.Tuple, ast.List, ast.Set)):
        return all(const_display(x) for x in v.elts)
    if isinstance(v, ast.Dict):
        return all(k is not None and const_display(k) and const_display(x) for k, x in zip(v.keys, v.values))
    return False


def const_seq(node):
    if isinstance(node, ast.Constant) and isinstance(node.value, str):
        return list(node.value)
    if isinstance(node, (ast.Tuple, ast.List)) and all(isinstance(e, ast.Constant) for e in node.elts):
        return [str(e.value) for e in node.elts]
    return None


def lean_str(s):
    out = []
    for ch in s:
        if ch == '"':
            out.append('\\"')
        elif ch == '\\':
            out.append('\\\\')
        elif ch == '\n':
            out.append('\\n')
        elif ch == '\t':
            out.append('\\t')
        elif ord(ch) < 32 or ord(ch) > 126:
            out.append('?')
        else:
            out.append(ch)
    return '"' + ''.join(out) + '"'


def lean_iter(ix):
    k = ix[0]
    if k == 'cycle':
        return '(.cycle [' + ', '.join(lean_str(x) for x in ix[1]) + '])'
    if k == 'tuple':
        return '(.tuple [' + ', '.join(lean_str(x) for x in ix[1]) + '])'
    if k == 'chain':
        return '(.chain [' + ', '.join(lean_iter(p) for p in ix[1]) + '])'
    if k == 'count':
        return '.count'
    if k == 'repeat':
        return f'(.repeat {lean_str(ix[1])})'
    return f'(.other {lean_str(ix[1])})'


def module_state(an):
    """entries: dict(name, file, line, kind, iter, readers, writers)"""
    entries = []

    def scan_value(file, line, name, value, owner_key):
        """register iterators found in `value` (top level or nested in displays)."""
        ix = iter_expr(value)
        if ix is not None:
            entries.append({'file': file, 'line': getattr(value, 'lineno', line), 'name': name,
                            'kind': 'iterator', 'iter': ix, 'owner': owner_key, 'key': None})
            return
        if isinstance(value, ast.Dict):
            for k, v in zip(value.keys, value.values):
                kk = k.value if isinstance(k, ast.Constant) else src(k) if k is not None else '**'
                sub = iter_expr(v)
                if sub is not None:
                    entries.append({'file': file, 'line': v.lineno, 'name': f'{name}[{kk!r}]',
                                    'kind': 'iterator', 'iter': sub, 'owner': owner_key, 'key': kk})
                elif isinstance(v, ast.Call) and isinstance(v.func, ast.Name):
                    # a call of a module-level helper that returns an iterator (make_region_template())
                    r = an.resolve_name(an.modules_by_rel[file], v.func.id)
                    if r is not None and r[0] == 'func':
                        rets = [n.value for n in ast.walk(r[1].node) if isinstance(n, ast.Return) and n.value is not None]
                        if len(rets) == 1 and iter_expr(rets[0]) is not None:
                            entries.append({'file': file, 'line': v.lineno, 'name': f'{name}[{kk!r}]',
                                            'kind': 'iterator', 'iter': iter_expr(rets[0]), 'owner': owner_key,
                                            'key': kk, 'via': v.func.id})
                elif isinstance(v, (ast.Dict, ast.List, ast.Tuple)):
                    scan_value(file, line, f'{name}[{kk!r}]', v, owner_key)
        elif isinstance(value, (ast.List, ast.Tuple, ast.Set)):
            for i, v in enumerate(value.elts):
                sub = iter_expr(v)
                if sub is not None:
                    entries.append({'file': file, 'line': v.lineno, 'name': f'{name}[{i}]',
                                    'kind': 'iterator', 'iter': sub, 'owner': owner_key, 'key': i})
        elif isinstance(value, ast.Call) and isinstance(value.func, ast.Name):
            m = an.modules_by_rel[file]
            r = an.resolve_name(m, value.func.id)
            if r is not None and r[0] == 'func':
                rets = [n.value for n in ast.walk(r[1].node) if isinstance(n, ast.Return) and n.value is not None]
                if len(rets) == 1 and iter_expr(rets[0]) is not None:
                    entries.append({'file': file, 'line': line, 'name': name, 'kind': 'iterator',
                                    'iter': iter_expr(rets[0]), 'owner': owner_key, 'key': None,
                                    'via': value.func.id})

    an.modules_by_rel = {m.rel: m for m in an.modules.values()}
    for m in an.modules.values():
        for name, value in m.globals.items():
            scan_value(m.rel, m.global_lines.get(name, 0), name, value, f'{m.rel}:{name}')
        for c in m.classes.values():
            for attr, node in c.attrs.items():
                scan_value(m.rel, node.lineno, f'{c.name}.{attr}', node.value, f'{m.rel}:{c.name}.{attr}')

    # containers written by some function body
    written = {}
    for key, ws in an.global_writes.items():
        for k, (s, import_time) in ws.items():
            if isinstance(s.func, ModuleFunc):
                continue
            written.setdefault(key, []).append(s)
    for key, ss in sorted(written.items()):
        file = key.split(':', 1)[0] if ':' in key else ss[0].func.module.rel
        entries.append({'file': file, 'line': 0, 'name': key.split(':', 1)[1] if ':' in key else key,
                        'kind': 'container', 'iter': None, 'owner': key, 'key': None})

    # readers / writers
    for en in entries:
        owner = en['owner']
        readers = []
        for (file, line, _col, fn), (keys, import_time) in sorted(an.global_reads.get(owner, {}).items()):
            if import_time:
                continue
            if en['key'] is not None and keys is not None:
                mode, consts = keys
                if mode == 'only' and en['key'] not in consts:
                    continue
                if mode == 'except' and en['key'] in consts:
                    continue
            if (file, line, fn) not in readers:
                readers.append((file, line, fn))
        en['readers'] = readers
        ws = []
        for k, (s, import_time) in sorted(an.global_writes.get(owner, {}).items()):
            f = s.func
            it = isinstance(f, ModuleFunc) or import_only(an, f)
            ws.append((s.func.module.rel, s.line, s.func.qual, it))
        en['writers'] = ws
    # line numbers of container entries
    for en in entries:
        if en['kind'] == 'container' and en['line'] == 0:
            m = an.modules_by_rel.get(en['file'])
            nm = en['name']
            if m is not None:
                if nm in m.global_lines:
                    en['line'] = m.global_lines[nm]
                elif '.' in nm:
                    c, a = nm.split('.', 1)
                    if c in m.classes and a in m.classes[c].attrs:
                        en['line'] = m.classes[c].attrs[a].lineno
    return entries


def import_only(an, f):
    """every call site of f (or of the function that defines it) found in the scanned modules runs at import."""
    seen = set()
    while f is not None:
        if id(f) in seen:
            break
        seen.add(id(f))
        if f.outer is not None:
            # a closure: it runs when what the outer function returned is called; decorators call it
            # at import exactly when the outer function's call sites are decorators / module level
            f = f.outer
            continue
        return f.has_callsite and f.callsites_importtime
    return False


# ------------------------------------------------------------------ output

OPS = ['pop', 'update', 'append', 'extend', 'insert', 'remove', 'clear', 'setdefault', 'sort', 'reverse',
       'popitem', 'delItem', 'delAttr', 'storeItem', 'storeAttr', 'augName', 'augStore', 'augElem', 'otherCall']


def extract(root):
    an = Analysis(root)
    an.run()
    sites = sorted(an.sites.values(), key=lambda s: (s.func.module.rel, s.line, s.col, s.op))
    # decorators evaluated at import: calls inside decorator expressions of module-level defs were
    # walked by ModuleWalker (import_time=True)
    mstate = module_state(an)
    counts = {}
    for s in sites:
        counts[s.cls] = counts.get(s.cls, 0) + 1
    info = {'root': root, 'files': len(an.modules), 'functions': len(an.all_funcs), 'rounds': an.rounds,
            'sites': len(sites), 'by_class': dict(sorted(counts.items())),
            'input_sites': [[s.func.module.rel, s.line, s.func.qual, s.op, s.recv] for s in sites if s.cls == 'input'],
            'unknown_sites': [[s.func.module.rel, s.line, s.func.qual, s.op, s.recv] for s in sites if s.cls == 'unknown'],
            'module_state_sites': [[s.func.module.rel, s.line, s.func.qual, s.op, s.recv] for s in sites if s.cls == 'moduleState'],
            'module_state': [{'name': e['name'], 'file': e['file'], 'line': e['line'], 'kind': e['kind'],
                              'iter': e['iter'], 'readers': e['readers'], 'writers': e['writers']} for e in mstate]}
    L = []
    L.append('/- GENERATED by tools/c13_effects.py from the current source text of the `regions` package')
    L.append('   (Python ast; mutating sites with a conservative receiver class, module-level mutable state).')
    L.append('   Do not edit; regenerated (and everything that imports it re-proved) on every check run. -/')
    L.append('import RegionsVerif.Impl.Effects')
    L.append('')
    L.append('namespace RegionsVerif.Gen.Effects')
    L.append('open RegionsVerif.Impl.Effects')
    L.append('')
    L.append(f'/-- {len(sites)} mutating sites: file, line, function, operation, receiver expression, receiver class, note. -/')
    L.append('def sites : List Site := [')
    rows = []
    for s in sites:
        op = s.op if s.op in OPS else 'otherCall'
        rows.append(f'    ⟨{lean_str(s.func.module.rel)}, {s.line}, {lean_str(s.func.qual)}, .{op}, '
                    f'{lean_str(s.recv)}, .{s.cls}, {lean_str(s.note)}⟩')
    L.append(',\n'.join(rows))
    L.append('  ]')
    L.append('')
    L.append(f'/-- {len(mstate)} module-level / class-level mutable objects: iterators (with their structure), and containers')
    L.append('    that some function body writes; `readers` = run-time reads, `writers` = writes (flag: import time only). -/')
    L.append('def moduleState : List ModEntry := [')
    rows = []
    for e in mstate:
        kind = f'.iterator {lean_iter(e["iter"])}' if e['kind'] == 'iterator' else '.container'
        rd = '[' + ', '.join(f'⟨{lean_str(f)}, {ln}, {lean_str(fn)}⟩' for (f, ln, fn) in e['readers']) + ']'
        wr = '[' + ', '.join(f'⟨⟨{lean_str(f)}, {ln}, {lean_str(fn)}⟩, {"true" if it else "false"}⟩' for (f, ln, fn, it) in e['writers']) + ']'
        rows.append(f'    ⟨{lean_str(e["file"])}, {e["line"]}, {lean_str(e["name"])}, {kind},\n      {rd},\n      {wr}⟩')
    L.append(',\n'.join(rows))
    L.append('  ]')
    L.append('')
    L.append('end RegionsVerif.Gen.Effects')
    problems = list(an.problems) + self_check(an, sites)
    return '\n'.join(L) + '\n', info, problems, an, sites, mstate


def syntactic_sites(an):
    """independent scan (plain ast.walk, no abstract interpretation) of the mutating constructs:
    every one of them must be in the site table."""
    out = set()
    for m in an.modules.values():
        for n in ast.walk(m.tree):
            if isinstance(n, ast.Call) and isinstance(n.func, ast.Attribute) and \
                    (n.func.attr in MUTATORS or n.func.attr in MUTATORS_EXTRA):
                v = n.func.value
                if isinstance(v, ast.Name) and v.id in m.imports and m.imports[v.id][0] == 'module':
                    continue        # os.remove(...): a module function, not a method of a heap object
                out.add((m.rel, n.lineno, n.col_offset, 'call'))
            elif isinstance(n, ast.Call) and isinstance(n.func, ast.Name) and n.func.id in ('setattr', 'delattr'):
                out.add((m.rel, n.lineno, n.col_offset, 'call'))
            elif isinstance(n, (ast.Subscript, ast.Attribute)) and isinstance(n.ctx, (ast.Store, ast.Del)):
                out.add((m.rel, n.lineno, n.col_offset, 'target'))
            elif isinstance(n, ast.AugAssign):
                out.add((m.rel, n.lineno, n.col_offset, 'aug'))
    return out


def self_check(an, sites):
    have = set()
    for s in sites:
        kind = 'aug' if s.op in ('augName', 'augStore', 'augElem') else (
            'target' if s.op in ('storeItem', 'storeAttr', 'delItem', 'delAttr') and not s.is_call else 'call')
        have.add((s.func.module.rel, s.line, s.col, kind))
    want = syntactic_sites(an)
    problems = []
    for w in sorted(want - have):
        # an augmented assignment to a subscript/attribute also has a Store target inside it
        if w[3] == 'target' and any(h[0] == w[0] and h[1] == w[1] and h[3] == 'aug' for h in have):
            continue
        problems.append(f'{w[0]}:{w[1]}:{w[2]}: mutating construct ({w[3]}) is not in the site table')
    return problems


def source_root():
    root = os.environ.get('REGIONS_SRC', '/repo')
    return root


def run(path=GEN, root=None):
    """regenerate the Gen file; returns (info, problems)."""
    text, info, problems, an, sites, mstate = extract(root or source_root())
    old = open(path).read() if os.path.exists(path) else None
    if old != text:
        os.makedirs(os.path.dirname(path), exist_ok=True)
        tmp = f'{path}.{os.getpid()}.tmp'
        with open(tmp, 'w') as f:
            f.write(text)
        os.replace(tmp, path)
        info['rewritten'] = True
    info['site_table'] = [{'file': s.func.module.rel, 'line': s.line, 'col': s.col, 'func': s.func.qual, 'op': s.op,
                           'recv': s.recv, 'cls': s.cls, 'detail': s.detail, 'note': s.note,
                           'end_line': getattr(s.recv_node, 'end_lineno', s.line)} for s in sites]
    return info, problems


if __name__ == '__main__':
    info, problems = run()
    if '-v' in sys.argv:
        for s in info['site_table']:
            print(f"{s['cls']:16s} {s['file']}:{s['line']} {s['func']} {s['op']} {s['recv']}  -- {s['note']}")
    info.pop('site_table')
    print(json.dumps({'info': info, 'problems': problems}, indent=1, default=str))
    sys.exit(1 if problems else 0)
