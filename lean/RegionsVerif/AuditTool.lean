/-
`#audit_namespaces ns₁ ns₂ …` prints, for every theorem whose name lies in one of the
given namespaces, the axioms it depends on (one line per theorem:
`AUDIT <name> :: <axiom> <axiom> …`).  Used by the `check` script on every run.
-/
import Lean
open Lean Elab Command

elab "#audit_namespaces " nss:ident* : command => do
  let env ← getEnv
  let prefixes := nss.toList.map (·.getId)
  let mut names : Array Name := #[]
  for (n, ci) in env.constants.toList do
    if prefixes.any (fun p => p.isPrefixOf n) && !n.isInternalDetail then
      match ci with
      | .thmInfo _ => names := names.push n
      | _ => pure ()
  let sorted := names.qsort (fun a b => a.toString < b.toString)
  for n in sorted do
    let axs ← liftCoreM (collectAxioms n)
    let axs := axs.qsort (fun a b => a.toString < b.toString)
    logInfo m!"AUDIT {n} :: {" ".intercalate (axs.toList.map toString)}"
