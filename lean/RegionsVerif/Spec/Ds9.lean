/-
Spec.Ds9 — a REFERENCE INTERPRETER for the supported subset of the DS9 region-file format.

Written from the DS9 region-file conventions as they are listed in property C10 (and the
DS9 region documentation), NOT from `regions/io/ds9/read.py`, and sharing no code with
the C09 model (`Impl/Ds9*.lean`).

Input: a flat TOKEN stream (`List Tok`).  Surface punctuation is part of the stream:
statement separators (`nl`, `semi`), optional punctuation (`lpar`, `rpar`, `comma`), the
include sign, keywords, numbers in every DS9 notation, `#`, `key=value` properties with
their text delimiter, and free comment text.

    interp toks = run init ((splitStmts (stripPunct toks)).map parseStmt)

`lex : String → List Tok` (end of the file) is an executable character-level lexer for the same
subset; the driver uses it to confirm, file by file, that the token stream it is given is the
lexing of the text the real parser reads.  The theorems (Props/C10.lean) are at token level.

Output: `List Region`, exact.  Pixel quantities are rationals (`Val.pix`), angular quantities
are DEGREES as exact rationals (`Val.deg`); a value written in radians is kept SYMBOLICALLY
(`Val.rad q` = `q` radians) because `q·180/π` is irrational — the harness compares those by
value (1e-9 relative), everything else exactly.

Conventions implemented (each is a clause of C10):
* the active frame applies to every following region line until the next frame line; an
  unsupported frame line leaves NO active frame (regions in its scope are dropped);
* no region from a line that has no active frame;
* image frame: bare / `i` numbers are pixels; POSITIONS are shifted 1-based → 0-based,
  sizes and angles are not;
* sky frames: bare / `d` numbers are degrees, `"` arcsec, `'` arcmin, `r` radians;
  `a:b:c` is sexagesimal — HOURS for the first coordinate of a pair in an equatorial frame
  (fk4/b1950, fk5/j2000, icrs), degrees otherwise; `..h..m..s` is always hours, `..d..m..s`
  always degrees;
* ellipse radii are semi-axes (the region's width/height are twice the numbers);
* `annulus x y r1 … rn`, `ellipse x y a1 b1 … an bn θ`, `box x y w1 h1 … wn hn θ` (n ≥ 2)
  expand into the n−1 consecutive annuli;
* include: local `include=` key, else the leading sign, else the global `include=` key,
  else included;
* effective properties: local ones, then the global ones not overridden locally; later
  `global` lines override earlier ones; values are kept verbatim (strings);
* unsupported shapes / frames, and region lines whose numbers use a notation that cannot be
  represented in the line's frame (e.g. `3"` in `image`, `10i` in `fk5`, physical `p`),
  produce no region and do not touch the state (an unsupported frame only clears the frame).

* composite: `# composite(x,y,θ) || composite=1 props` opens a composite; the following lines
  that end in `||` and the first line that does not (the LAST member) belong to it; members get
  the composite's properties between the global and their own (global < composite < sign <
  local); after the last member the composite's properties are gone; a new header replaces them;

Outside the grammar (no statement is made about them; `parseStmt` maps them to `junk`, which
is ignored): the `# text(...)` spelling, `box`/`ellipse` without an angle,
wrong parameter counts, text that contains its own closing delimiter, valueless flags.
-/
import Mathlib.Data.Rat.Defs
import Mathlib.Algebra.Order.Field.Rat

namespace RegionsVerif.Spec.Ds9

/-! ### vocabulary -/

/-- the coordinate frames a region can live in (DS9 names `b1950`, `j2000` are aliases). -/
inductive Frame | image | fk4 | fk5 | icrs | galactic | ecliptic
deriving DecidableEq, Repr

/-- equatorial systems: the ones whose longitude is a right ascension. -/
def Frame.equatorial : Frame → Bool
  | .fk4 | .fk5 | .icrs => true
  | _ => false

/-- frame keywords as they appear in a file. -/
inductive FrameKw | image | fk4 | b1950 | fk5 | j2000 | icrs | galactic | ecliptic
deriving DecidableEq, Repr

def FrameKw.frame : FrameKw → Frame
  | .image => .image
  | .fk4 | .b1950 => .fk4
  | .fk5 | .j2000 => .fk5
  | .icrs => .icrs
  | .galactic => .galactic
  | .ecliptic => .ecliptic

/-- supported shape keywords. -/
inductive Shape | circle | ellipse | box | polygon | line | point | text | annulus
deriving DecidableEq, Repr

/-- a classified keyword.  `badFrame`: a DS9 coordinate system without a counterpart here
(physical, detector, amplifier, linear, tile, wcs, wcsa…z); `badShape`: vector, ruler,
compass, projection, panda, epanda, bpanda; `other`: not a DS9 keyword (outside the grammar). -/
inductive Word
  | frame (k : FrameKw) | badFrame
  | shape (s : Shape) | badShape
  | composite
  | global | other
deriving DecidableEq, Repr

/-- unit suffix of a decimal number: none, `"`, `'`, `d`, `r`, `i`, `p`. -/
inductive Suffix | none | arcsec | arcmin | deg | rad | img | phys
deriving DecidableEq, Repr

/-- a numeric token. -/
inductive Num
  | dec (q : ℚ) (u : Suffix)                 -- `12.5`, `3"`, `0.2r`, `100i`
  | colon (neg : Bool) (a b : ℕ) (c : ℚ)     -- `±a:b:c`
  | hms (neg : Bool) (h m : ℕ) (s : ℚ)       -- `±12h30m15.5s`
  | dms (neg : Bool) (d m : ℕ) (s : ℚ)       -- `±12d30m15.5s`
deriving DecidableEq, Repr

/-- text delimiter of a property value. -/
inductive Delim | bare | brace | dquote | squote
deriving DecidableEq, Repr

/-- `key=value`; `key` is already case-folded by the lexer (`mkKV`), `val` is the text between
the delimiters, verbatim. -/
structure KV where
  key : String
  delim : Delim
  val : String
deriving DecidableEq, Repr

inductive Tok
  | nl | semi                 -- statement separators
  | lpar | rpar | comma       -- optional punctuation
  | plus | minus              -- include sign (directly before a shape keyword)
  | word (w : Word)
  | num (n : Num)
  | hash
  | bars                      -- `||`: the line belongs to a composite and the composite goes on
  | kv (p : KV)
  | note (s : String)         -- free comment text
deriving DecidableEq, Repr

/-! ### output -/

/-- a quantity: pixels, degrees (exact), or radians (symbolic: `rad q` is `q` radians). -/
inductive Val | pix (q : ℚ) | deg (q : ℚ) | rad (q : ℚ)
deriving DecidableEq, Repr

def Val.dbl : Val → Val
  | .pix q => .pix (2 * q)
  | .deg q => .deg (2 * q)
  | .rad q => .rad (2 * q)

/-- translate a pixel quantity (identity on angular ones). -/
def Val.shift (d : ℚ) : Val → Val
  | .pix q => .pix (q + d)
  | v => v

inductive Kind
  | circle | ellipse | rectangle | polygon | line | point | text
  | circleAnnulus | ellipseAnnulus | rectangleAnnulus
deriving DecidableEq, Repr

/-- geometry of one region.  `sizes`: circle `[r]`; ellipse/rectangle `[width, height]` (FULL
axes); circle annulus `[r_in, r_out]`; ellipse/rectangle annulus `[w_in, h_in, w_out, h_out]`. -/
structure Geom where
  kind : Kind
  pts : List (Val × Val)
  sizes : List Val
  angle : Option Val
deriving DecidableEq, Repr

structure Region where
  geom : Geom
  frame : Frame
  incl : Bool
  props : List KV          -- effective properties: local first, then non-overridden global
deriving DecidableEq, Repr

/-! ### numbers -/

/-- value of `±a:b:c` in its own unit (hours or degrees). -/
def sexa (neg : Bool) (a b : ℕ) (c : ℚ) : ℚ :=
  (if neg then -1 else 1) * ((a : ℚ) + (b : ℚ) / 60 + c / 3600)

/-- pixel position: 1-based in the file, 0-based in the region. -/
def pixPos : Num → Option Val
  | .dec q .none | .dec q .img => some (.pix (q - 1))
  | _ => none

/-- pixel size: NOT shifted. -/
def pixSize : Num → Option Val
  | .dec q .none | .dec q .img => some (.pix q)
  | _ => none

/-- sky position; `hrs` = "this is the first coordinate of a pair and the frame is equatorial". -/
def skyPos (hrs : Bool) : Num → Option Val
  | .dec q .none | .dec q .deg => some (.deg q)
  | .dec q .rad => some (.rad q)
  | .dec _ _ => none
  | .colon n a b c => some (.deg ((if hrs then 15 else 1) * sexa n a b c))
  | .hms n h m s => some (.deg (15 * sexa n h m s))
  | .dms n d m s => some (.deg (sexa n d m s))

/-- angular size. -/
def skySize : Num → Option Val
  | .dec q .none | .dec q .deg => some (.deg q)
  | .dec q .arcsec => some (.deg (q / 3600))
  | .dec q .arcmin => some (.deg (q / 60))
  | .dec q .rad => some (.rad q)
  | _ => none

/-- rotation angle (same in every frame): bare / `d` degrees, `r` radians. -/
def angVal : Num → Option Val
  | .dec q .none | .dec q .deg => some (.deg q)
  | .dec q .rad => some (.rad q)
  | _ => none

def posVal (f : Frame) (lon : Bool) (n : Num) : Option Val :=
  if f = .image then pixPos n else skyPos (lon && f.equatorial) n

def sizeVal (f : Frame) (n : Num) : Option Val :=
  if f = .image then pixSize n else skySize n

/-! ### list helpers -/

/-- all-or-nothing map. -/
def traverse {α β : Type} (g : α → Option β) : List α → Option (List β)
  | [] => some []
  | a :: r =>
    match g a, traverse g r with
    | some b, some bs => some (b :: bs)
    | _, _ => none

/-- `[a, b, c, d, …] ↦ [(a,b), (c,d), …]`; `none` for odd length. -/
def pairs {α : Type} : List α → Option (List (α × α))
  | [] => some []
  | [_] => none
  | x :: y :: r =>
    match pairs r with
    | some ps => some ((x, y) :: ps)
    | none => none

/-- `[a, b, c, …] ↦ [(a,b), (b,c), …]`. -/
def consecutive {α : Type} : List α → List (α × α)
  | a :: b :: r => (a, b) :: consecutive (b :: r)
  | _ => []

/-- `l ++ [a] ↦ (l, a)`. -/
def splitLast {α : Type} : List α → Option (List α × α)
  | [] => none
  | [a] => some ([], a)
  | a :: b :: r =>
    match splitLast (b :: r) with
    | some (i, l) => some (a :: i, l)
    | none => none

/-! ### one region line -/

/-- syntactic split of a parameter list by the shape's template. -/
structure Raw where
  pts : List (Num × Num)
  sizes : List (Num × Num) ⊕ List Num     -- (a,b) pairs for ellipse/box, single radii otherwise
  angle : Option Num

def splitArgs : Shape → List Num → Option Raw
  | .circle, [x, y, r] => some ⟨[(x, y)], .inr [r], none⟩
  | .point, [x, y] => some ⟨[(x, y)], .inr [], none⟩
  | .text, [x, y] => some ⟨[(x, y)], .inr [], none⟩
  | .line, [a, b, c, d] => some ⟨[(a, b), (c, d)], .inr [], none⟩
  | .polygon, l =>
    match pairs l with
    | some ps => if 3 ≤ ps.length then some ⟨ps, .inr [], none⟩ else none
    | none => none
  | .annulus, x :: y :: rs => if 2 ≤ rs.length then some ⟨[(x, y)], .inr rs, none⟩ else none
  | .ellipse, x :: y :: rest =>
    match splitLast rest with
    | some (sz, ang) =>
      match pairs sz with
      | some ps => if 1 ≤ ps.length then some ⟨[(x, y)], .inl ps, some ang⟩ else none
      | none => none
    | none => none
  | .box, x :: y :: rest =>
    match splitLast rest with
    | some (sz, ang) =>
      match pairs sz with
      | some ps => if 1 ≤ ps.length then some ⟨[(x, y)], .inl ps, some ang⟩ else none
      | none => none
    | none => none
  | _, _ => none

def evalPt (f : Frame) (p : Num × Num) : Option (Val × Val) :=
  match posVal f true p.1, posVal f false p.2 with
  | some a, some b => some (a, b)
  | _, _ => none

def evalPair (f : Frame) (p : Num × Num) : Option (Val × Val) :=
  match sizeVal f p.1, sizeVal f p.2 with
  | some a, some b => some (a, b)
  | _, _ => none

def evalAngle : Option Num → Option (Option Val)
  | none => some none
  | some n =>
    match angVal n with
    | some v => some (some v)
    | none => none

/-- the regions of one shape line, from evaluated parameters. -/
def build (s : Shape) (pts : List (Val × Val)) (radii : List Val) (axes : List (Val × Val))
    (ang : Option Val) : List Geom :=
  match s with
  | .circle => [⟨.circle, pts, radii, none⟩]
  | .point => [⟨.point, pts, [], none⟩]
  | .text => [⟨.text, pts, [], none⟩]
  | .line => [⟨.line, pts, [], none⟩]
  | .polygon => [⟨.polygon, pts, [], none⟩]
  | .annulus => (consecutive radii).map fun p => ⟨.circleAnnulus, pts, [p.1, p.2], none⟩
  | .ellipse =>
    match axes with
    | [a] => [⟨.ellipse, pts, [a.1.dbl, a.2.dbl], ang⟩]
    | _ => (consecutive axes).map fun p =>
        ⟨.ellipseAnnulus, pts, [p.1.1.dbl, p.1.2.dbl, p.2.1.dbl, p.2.2.dbl], ang⟩
  | .box =>
    match axes with
    | [a] => [⟨.rectangle, pts, [a.1, a.2], ang⟩]
    | _ => (consecutive axes).map fun p =>
        ⟨.rectangleAnnulus, pts, [p.1.1, p.1.2, p.2.1, p.2.2], ang⟩

/-- geometry from a split parameter list; `[]` when a number is not representable in `f`. -/
def geomsRaw (f : Frame) (s : Shape) (raw : Raw) : List Geom :=
  match traverse (evalPt f) raw.pts, evalAngle raw.angle with
  | some pts, some ang =>
    match raw.sizes with
    | .inr rs =>
      match traverse (sizeVal f) rs with
      | some radii => build s pts radii [] ang
      | none => []
    | .inl ps =>
      match traverse (evalPair f) ps with
      | some axes => build s pts [] axes ang
      | none => []
  | _, _ => []

/-- geometry of a region line in frame `f`; `[]` when the line is not representable. -/
def geoms (f : Frame) (s : Shape) (args : List Num) : List Geom :=
  match splitArgs s args with
  | none => []
  | some raw => geomsRaw f s raw

/-! ### properties -/

def lookup (k : String) (l : List KV) : Option KV := l.find? (fun p => p.key = k)

/-- local properties first, then the global ones whose key is not set locally. -/
def effective (loc glob : List KV) : List KV :=
  loc ++ glob.filter (fun g => (lookup g.key loc).isNone)

inductive Sign | none | plus | minus
deriving DecidableEq, Repr

/-- a flag value is "off" exactly when it is written `0`. -/
def KV.off (p : KV) : Bool := p.val = "0"

/-- include flag: local `include=`, else the sign, else the global `include=`, else `true`. -/
def includeOf (sg : Sign) (loc glob : List KV) : Bool :=
  match lookup "include" loc with
  | some p => !p.off
  | none =>
    match sg with
    | .minus => false
    | .plus => true
    | .none =>
      match lookup "include" glob with
      | some p => !p.off
      | none => true

/-! ### statements -/

inductive Stmt
  | blank | comment
  | frame (k : FrameKw) | badFrame
  | global (kvs : List KV)
  | region (sg : Sign) (s : Shape) (args : List Num) (kvs : List KV)   -- region line NOT followed by `||`
  | member (sg : Sign) (s : Shape) (args : List Num) (kvs : List KV)   -- region line followed by `||`
  | composite (kvs : List KV)                                         -- `# composite(x,y,θ) || composite=1 …`
  | badShape                                                          -- unsupported shape, no `||`
  | badMember                                                         -- unsupported shape followed by `||`
  | junk
deriving DecidableEq, Repr

/-- `comp`: the properties of the composite that is being read (`[]` outside a composite). -/
structure State where
  frame : Option Frame
  globals : List KV
  comp : List KV
deriving DecidableEq, Repr

def init : State := ⟨none, [], []⟩

/-- the properties a composite header hands to its members (`composite=1` itself is not one). -/
def compProps (kvs : List KV) : List KV := kvs.filter fun p => p.key ≠ "composite"

def regionsOf (f : Frame) (sg : Sign) (s : Shape) (args : List Num) (loc glob : List KV) :
    List Region :=
  (geoms f s args).map fun g => ⟨g, f, includeOf sg loc glob, effective loc glob⟩

/-- regions emitted by one statement in state `st`. -/
def emit (st : State) : Stmt → List Region
  | .region sg s args kvs =>
    match st.frame with
    | some f => regionsOf f sg s args kvs (effective st.comp st.globals)
    | none => []
  | .member sg s args kvs =>
    match st.frame with
    | some f => regionsOf f sg s args kvs (effective st.comp st.globals)
    | none => []
  | _ => []

/-- state after one statement. -/
def next (st : State) : Stmt → State
  | .frame k => { st with frame := some k.frame }
  | .badFrame => { st with frame := none }
  | .global kvs => { st with globals := kvs ++ st.globals }
  | .composite kvs => { st with comp := compProps kvs }
  -- a line that is not followed by `||` is the last member: the composite ends after it
  | .region _ _ _ _ => { st with comp := [] }
  | .badShape => { st with comp := [] }
  | _ => st

def run : State → List Stmt → List Region
  | _, [] => []
  | st, s :: r => emit st s ++ run (next st s) r

def final (st : State) (l : List Stmt) : State := l.foldl next st

/-! ### from tokens to statements -/

def isSep : Tok → Bool
  | .nl | .semi => true
  | _ => false

def isPunct : Tok → Bool
  | .lpar | .rpar | .comma => true
  | _ => false

def stripPunct (l : List Tok) : List Tok := l.filter (fun t => !isPunct t)

def consHead (t : Tok) : List (List Tok) → List (List Tok)
  | [] => [[t]]
  | h :: tl => (t :: h) :: tl

/-- split at every `nl` / `semi`. -/
def splitStmts : List Tok → List (List Tok)
  | [] => [[]]
  | t :: r => if isSep t then [] :: splitStmts r else consHead t (splitStmts r)

def kvsOf : List Tok → List KV
  | [] => []
  | .kv p :: r => p :: kvsOf r
  | _ :: r => kvsOf r

/-- the leading run of number tokens and what follows it. -/
def leadNums : List Tok → List Num × List Tok
  | .num n :: r => ((leadNums r).1.cons n, (leadNums r).2)
  | l => ([], l)

def parseBody (sg : Sign) : List Tok → Stmt
  | .word (.shape s) :: rest =>
    match (leadNums rest).2 with
    | [] => .region sg s (leadNums rest).1 []
    | .hash :: ps => .region sg s (leadNums rest).1 (kvsOf ps)
    | [.bars] => .member sg s (leadNums rest).1 []
    | .bars :: .hash :: ps => .member sg s (leadNums rest).1 (kvsOf ps)
    | _ => .junk
  | .word .badShape :: rest => if rest.contains .bars then .badMember else .badShape
  | _ => .junk

def parseStmt : List Tok → Stmt
  | [] => .blank
  | .hash :: .word .composite :: rest => .composite (kvsOf rest)
  | .word .composite :: rest => .composite (kvsOf rest)
  | .hash :: _ => .comment
  | .word (.frame k) :: _ => .frame k
  | .word .badFrame :: _ => .badFrame
  | .word .global :: rest => .global (kvsOf rest)
  | .plus :: rest => parseBody .plus rest
  | .minus :: rest => parseBody .minus rest
  | rest => parseBody .none rest

def stmtsOf (toks : List Tok) : List Stmt := (splitStmts (stripPunct toks)).map parseStmt

/-- THE reference interpretation of a tokenised DS9 file. -/
def interp (toks : List Tok) : List Region := run init (stmtsOf toks)

/-! ### word-level lexing (case folding); used by the driver -/

def frameKwTable : List (String × FrameKw) :=
  [("image", .image), ("fk4", .fk4), ("b1950", .b1950), ("fk5", .fk5), ("j2000", .j2000),
   ("icrs", .icrs), ("galactic", .galactic), ("ecliptic", .ecliptic)]

def shapeTable : List (String × Shape) :=
  [("circle", .circle), ("ellipse", .ellipse), ("box", .box), ("polygon", .polygon),
   ("line", .line), ("point", .point), ("text", .text), ("annulus", .annulus)]

def badFrameNames : List String :=
  ["physical", "detector", "amplifier", "linear", "tile", "wcs", "wcs0"] ++
  ("abcdefghijklmnopqrstuvwxyz".toList.map fun c => "wcs" ++ c.toString)

def badShapeNames : List String :=
  ["vector", "ruler", "compass", "projection", "panda", "epanda", "bpanda"]

/-- keywords are case-insensitive. -/
def classify (s : String) : Word :=
  let l := s.toLower
  if l = "global" then .global else
  if l = "composite" then .composite else
  match frameKwTable.lookup l with
  | some k => .frame k
  | none =>
    match shapeTable.lookup l with
    | some sh => .shape sh
    | none =>
      if badFrameNames.contains l then .badFrame
      else if badShapeNames.contains l then .badShape
      else .other

/-- property keys are case-insensitive, values are verbatim. -/
def mkKV (key : String) (d : Delim) (val : String) : KV := ⟨key.toLower, d, val⟩

/-! ### character-level lexer (executable; cross-checks the harness's tokenisation)

`lex` turns the characters of a DS9 file of the supported subset into the token stream that
`interp` reads.  It is total (fuel = number of characters) and written from the lexical
conventions of the format: blanks separate, `\n` and `;` end a statement, `(` `)` `,` are
punctuation, a `#` at the start of a statement opens a comment that runs to the end of the
physical line, any other `#` (and the keyword `global`) opens a property list of `key=value`
items whose value is a `{}`/`""`/`''`-delimited text (kept verbatim) or a bare word optionally
followed by numbers (`dashlist=8 3`, `point=diamond 12`); what follows the last item is free
text.  Numbers: `[+-]digits[.digits]` followed by `:`..`:`.., `h`..`m`..`s`, `d`..`m`..`s` or an
optional one-letter suffix.  There are no theorems about `lex`; the driver checks, for every
generated file, that `lex text` equals the token stream rendered by the harness. -/

def isBlank (c : Char) : Bool := c = ' ' || c = '\t' || c = '\r'

def trimChars (l : List Char) : List Char :=
  ((l.dropWhile isBlank).reverse.dropWhile isBlank).reverse

/-- digits → natural number. -/
def natOf (ds : List Char) : ℕ := ds.foldl (fun n c => 10 * n + (c.toNat - '0'.toNat)) 0

/-- an unsigned decimal `digits[.digits]` at the head of the input: value and rest. -/
def readDecimal (cs : List Char) : ℚ × List Char :=
  let ip := cs.takeWhile Char.isDigit
  let r := cs.dropWhile Char.isDigit
  match r with
  | '.' :: r' =>
    let fp := r'.takeWhile Char.isDigit
    (((natOf (ip ++ fp) : ℕ) : ℚ) / ((10 ^ fp.length : ℕ) : ℚ), r'.dropWhile Char.isDigit)
  | _ => (((natOf ip : ℕ) : ℚ), r)

/-- the one-letter unit suffixes; the letters are case-insensitive (`10D` = `10d`). -/
def suffixOfChar : Char → Option Suffix
  | '"' => some .arcsec
  | '\'' => some .arcmin
  | 'd' | 'D' => some .deg
  | 'r' | 'R' => some .rad
  | 'i' | 'I' => some .img
  | 'p' | 'P' => some .phys
  | _ => none

/-- `c` is the letter `l` (given in lower case) in either case. -/
def isLetter (l c : Char) : Bool := c = l || c = l.toUpper

def startsWithDigit : List Char → Bool
  | c :: _ => c.isDigit
  | [] => false

/-- a number (sign already removed) in any notation: token and rest. -/
def readNum (neg : Bool) (cs : List Char) : Num × List Char :=
  let sgn : ℚ := if neg then -1 else 1
  let (a, r) := readDecimal cs
  let ai := natOf (cs.takeWhile Char.isDigit)
  -- the letters h d m s of the sexagesimal forms are case-insensitive
  let minSec (mk : ℕ → ℚ → Num) (r1 : List Char) : Num × List Char :=
    let bi := natOf (r1.takeWhile Char.isDigit)
    match r1.dropWhile Char.isDigit with
    | m :: r2 =>
      if isLetter 'm' m then
        let (c, r3) := readDecimal r2
        (mk bi c, match r3 with | sc :: r4 => if isLetter 's' sc then r4 else r3 | [] => r3)
      else (mk bi 0, m :: r2)
    | [] => (mk bi 0, [])
  match r with
  | ':' :: r1 =>
    let bi := natOf (r1.takeWhile Char.isDigit)
    match r1.dropWhile Char.isDigit with
    | ':' :: r2 => let (c, r3) := readDecimal r2; (.colon neg ai bi c, r3)
    | r2 => (.colon neg ai bi 0, r2)
  | c :: r1 =>
    if isLetter 'h' c && startsWithDigit r1 then minSec (fun b s => .hms neg ai b s) r1
    else if isLetter 'd' c && startsWithDigit r1 then minSec (fun b s => .dms neg ai b s) r1
    else
      match suffixOfChar c with
      | some u => (.dec (sgn * a) u, r1)
      | none => (.dec (sgn * a) .none, r)
  | [] => (.dec (sgn * a) .none, [])

def startsWithAlpha : List Char → Bool
  | c :: _ => c.isAlpha
  | [] => false

def isNumWord (w : List Char) : Bool :=
  !w.isEmpty && w.all fun c => c.isDigit || c = '.' || c = '-' || c = '+'

/-- extend a bare property value with following all-numeric words (`8 3`, `diamond 12`). -/
def readBareTail : ℕ → List Char → List Char × List Char
  | 0, cs => ([], cs)
  | fuel + 1, cs =>
    let r := cs.dropWhile isBlank
    let w := r.takeWhile fun c => !(isBlank c || c = ';' || c = '\n')
    if isNumWord w then
      let (more, rest) := readBareTail fuel (r.drop w.length)
      (' ' :: w ++ more, rest)
    else ([], cs)

inductive LexMode | shape | props
deriving DecidableEq

/-- the lexer proper. `start` = "no token of the current statement has been produced yet". -/
def lexAux : ℕ → LexMode → Bool → List Char → List Tok
  | 0, _, _, _ => []
  | _, _, _, [] => []
  | fuel + 1, mode, start, c :: cs =>
    if c = '\n' then .nl :: lexAux fuel .shape true cs
    else if c = ';' then .semi :: lexAux fuel .shape true cs
    else if isBlank c then lexAux fuel mode start cs
    else if c = '#' then
      if start && classify (String.ofList ((cs.dropWhile isBlank).takeWhile Char.isAlpha)) = .composite then
        -- `# composite(...)`: DS9 writes the composite header behind a `#`
        .hash :: lexAux fuel .shape false cs
      else if start then
        -- comment: to the end of the physical line
        let body := cs.takeWhile (· ≠ '\n')
        let rest := cs.dropWhile (· ≠ '\n')
        .hash :: .note (String.ofList (trimChars (body.dropWhile fun x => x = '#' || isBlank x))) ::
          lexAux fuel .shape false rest
      else .hash :: lexAux fuel .props false cs
    else
      match mode with
      | .shape =>
        if c = '|' then
          match cs with
          | '|' :: r =>
            -- after `||` a composite header continues with its properties, a member line with `# …` or nothing
            .bars :: lexAux fuel (if startsWithAlpha (r.dropWhile isBlank) then .props else .shape) false r
          | _ => lexAux fuel .shape false cs
        else if c = '(' then .lpar :: lexAux fuel .shape false cs
        else if c = ')' then .rpar :: lexAux fuel .shape false cs
        else if c = ',' then .comma :: lexAux fuel .shape false cs
        else if c.isAlpha then
          let w := (c :: cs).takeWhile Char.isAlphanum
          let word := classify (String.ofList w)
          .word word :: lexAux fuel (if word = .global then .props else .shape) false (cs.drop (w.length - 1))
        else if (c = '+' || c = '-') && !startsWithDigit cs then
          (if c = '-' then Tok.minus else Tok.plus) :: lexAux fuel .shape false cs
        else
          let neg := c = '-'
          let body := if c = '+' || c = '-' then cs else c :: cs
          let (n, rest) := readNum neg body
          -- `rest` is a proper suffix of `c :: cs`; the fuel bounds the recursion anyway
          .num n :: lexAux fuel .shape false rest
      | .props =>
        if c.isAlpha then
          let key := (c :: cs).takeWhile Char.isAlpha
          let r := ((c :: cs).drop key.length).dropWhile isBlank
          match r with
          | '=' :: r1 =>
            let r2 := r1.dropWhile isBlank
            match r2 with
            | '{' :: r3 =>
              let v := r3.takeWhile (· ≠ '}')
              .kv (mkKV (String.ofList key) .brace (String.ofList v)) :: lexAux fuel .props false (r3.drop (v.length + 1))
            | '"' :: r3 =>
              let v := r3.takeWhile (· ≠ '"')
              .kv (mkKV (String.ofList key) .dquote (String.ofList v)) :: lexAux fuel .props false (r3.drop (v.length + 1))
            | '\'' :: r3 =>
              let v := r3.takeWhile (· ≠ '\'')
              .kv (mkKV (String.ofList key) .squote (String.ofList v)) :: lexAux fuel .props false (r3.drop (v.length + 1))
            | _ =>
              let w := r2.takeWhile fun x => !(isBlank x || x = ';' || x = '\n')
              let (more, rest) := readBareTail fuel (r2.drop w.length)
              .kv (mkKV (String.ofList key) .bare (String.ofList (w ++ more))) :: lexAux fuel .props false rest
          | _ =>
            -- free text: to the end of the statement
            let body := (c :: cs).takeWhile fun x => !(x = ';' || x = '\n')
            .note (String.ofList (trimChars body)) :: lexAux fuel .props false ((c :: cs).drop body.length)
        else
          let body := (c :: cs).takeWhile fun x => !(x = ';' || x = '\n')
          .note (String.ofList (trimChars body)) :: lexAux fuel .props false ((c :: cs).drop body.length)

def lex (text : String) : List Tok := lexAux (text.length + 1) .shape true text.toList

end RegionsVerif.Spec.Ds9
