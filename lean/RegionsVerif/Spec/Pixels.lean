/-
Spec layer: a bounding box *means* a set of integer pixels; an image of shape
`(ny, nx)` means the pixels `0 ≤ x < nx`, `0 ≤ y < ny`.  Pixel `i` covers the
real interval `[i - 1/2, i + 1/2]`.
-/
import RegionsVerif.Impl.BBox

namespace RegionsVerif.Spec
open RegionsVerif.Impl

/-- pixel `(x, y)` belongs to the box. -/
def inBox (b : BBox) (x y : Int) : Prop :=
  b.ixmin ≤ x ∧ x < b.ixmax ∧ b.iymin ≤ y ∧ y < b.iymax

instance (b : BBox) (x y : Int) : Decidable (inBox b x y) := by unfold inBox; infer_instance

/-- pixel `(x, y)` belongs to an image of shape `(ny, nx)`. -/
def inImage (ny nx : Int) (x y : Int) : Prop := 0 ≤ x ∧ x < nx ∧ 0 ≤ y ∧ y < ny

instance (ny nx x y : Int) : Decidable (inImage ny nx x y) := by unfold inImage; infer_instance

/-- the box has at least one pixel. -/
def nonEmpty (b : BBox) : Prop := b.ixmin < b.ixmax ∧ b.iymin < b.iymax

/-- corner order: `a` lies within `c` as a rectangle (also meaningful for empty boxes). -/
def cornerLe (a c : BBox) : Prop :=
  c.ixmin ≤ a.ixmin ∧ a.ixmax ≤ c.ixmax ∧ c.iymin ≤ a.iymin ∧ a.iymax ≤ c.iymax

/-- index `i` is selected by `slice(start, stop)` (non-negative bounds, step 1). -/
def inSlice (s : Slice) (i : Int) : Prop := s.start ≤ i ∧ i < s.stop

end RegionsVerif.Spec
