/-
What C09 *means*, written from the property text: which regions DS9 can express, what a region
looks like after one trip through DS9 text at precision `p`, the tolerances, and the input
classes on which the property is claimed.

Reading choices (stated here, used by the theorems of `Props/C09.lean`):
* "every coordinate, size and angle within half a unit of the requested precision": the unit is
  `10⁻ᵖ` in the written unit (pixels; degrees for every sky quantity and every angle).
  DS9 stores the *semi*-axes of ellipses, so a full ellipse axis is within one unit
  (half a unit on the stored semi-axis).  Longitudes are compared on the circle (mod 360).
* "same class": a regular polygon comes back as the polygon with its vertices.
* "label" is the DS9 label `text=`, i.e. `meta['text']`; for a text region it is the region's string.
* "include/exclude sense" is the truth value of `meta.get('include', True)`.
-/
import RegionsVerif.Impl.Ds9

namespace RegionsVerif.Spec.C09
open RegionsVerif.Impl.Ds9 RegionsVerif.Impl.Dec

/-- regions DS9 can express. -/
def Expressible (r : Region) : Prop := r.shape ≠ .compound ∧ r.frame.ds9Name ≠ none
instance (r : Region) : Decidable (Expressible r) := by unfold Expressible; infer_instance

/-- the class that comes back. -/
def ds9Class : Shape → Shape
  | .regularPolygon => .polygon
  | s => s

/-- how a size is rounded: the regions code's own printer for pixels, astropy's (`sky`) otherwise. -/
def rsz (sky : ℚ → ℚ) (p : ℕ) (pix : Bool) (x : ℚ) : ℚ := if pix then roundTo p x else sky x

/-- a position after the trip: pixel positions are printed 1-based; longitudes are kept in [0, 360). -/
def expCoord (sky : ℚ → ℚ) (p : ℕ) (pix : Bool) (c : ℚ × ℚ) : ℚ × ℚ :=
  if pix then (roundTo p (c.1 + 1) - 1, roundTo p (c.2 + 1) - 1) else (wrapLon (sky c.1), sky c.2)

/-- the remaining numbers after the trip (`_params` order; ellipse axes go through their halves;
angles are always printed by astropy). -/
def expNums (sky : ℚ → ℚ) (p : ℕ) (pix : Bool) : Shape → List ℚ → List ℚ
  | .circle, [r] => [rsz sky p pix r]
  | .ellipse, [w, h, a] => [rsz sky p pix (w / 2) * 2, rsz sky p pix (h / 2) * 2, sky a]
  | .rectangle, [w, h, a] => [rsz sky p pix w, rsz sky p pix h, sky a]
  | .circleAnnulus, [ri, ro] => [rsz sky p pix ri, rsz sky p pix ro]
  | .ellipseAnnulus, [iw, ow, ih, oh, a] =>
    [rsz sky p pix (iw / 2) * 2, rsz sky p pix (ow / 2) * 2, rsz sky p pix (ih / 2) * 2,
     rsz sky p pix (oh / 2) * 2, sky a]
  | .rectangleAnnulus, [iw, ow, ih, oh, a] =>
    [rsz sky p pix iw, rsz sky p pix ow, rsz sky p pix ih, rsz sky p pix oh, sky a]
  | _, _ => []

/-- F19: the *printed* sizes are what the reader validates — strictly positive, inner strictly
smaller than outer.  A size (or an annulus gap) below half a printed unit fails this. -/
def WellRounded (sky : ℚ → ℚ) (p : ℕ) (r : Region) : Prop :=
  let f := rsz sky p (decide (r.frame = .image))
  match r.shape, r.nums with
  | .circle, [x] => 0 < f x
  | .ellipse, [w, h, _] => 0 < f (w / 2) * 2 ∧ 0 < f (h / 2) * 2
  | .rectangle, [w, h, _] => 0 < f w ∧ 0 < f h
  | .circleAnnulus, [ri, ro] => (0 < f ri ∧ 0 < f ro) ∧ f ri < f ro
  | .ellipseAnnulus, [iw, ow, ih, oh, _] =>
    (0 < f (iw / 2) * 2 ∧ 0 < f (ow / 2) * 2 ∧ 0 < f (ih / 2) * 2 ∧ 0 < f (oh / 2) * 2) ∧
      f (iw / 2) * 2 < f (ow / 2) * 2 ∧ f (ih / 2) * 2 < f (oh / 2) * 2
  | .rectangleAnnulus, [iw, ow, ih, oh, _] =>
    (0 < f iw ∧ 0 < f ow ∧ 0 < f ih ∧ 0 < f oh) ∧ f iw < f ow ∧ f ih < f oh
  | _, _ => True

instance (sky : ℚ → ℚ) (p : ℕ) (r : Region) : Decidable (WellRounded sky p r) := by
  unfold WellRounded
  simp only
  split <;> infer_instance

/-- the reader's delimiter stripping leaves a `{…}`-wrapped string alone. -/
def braceSafe (s : Str) : Prop := s.head? ≠ some '{' ∧ s.getLast? ≠ some '}'
instance (s : Str) : Decidable (braceSafe s) := by unfold braceSafe; infer_instance

/-- `meta.get('include', True)` as a truth value. -/
def includeSense (r : Region) : Bool :=
  match AL.get r.mta .include with
  | some v => v.truthy
  | none => true

/-- type invariants of a region object: parameter arity of its class, `RegionVisual` has none of the
meta keys the property tracks, dictionaries have unique keys, a text region has a string and no
second label. -/
def WF (r : Region) : Prop :=
  (shapeParams r).toOption.isSome = true ∧
  (r.shape = .text ↔ r.text.isSome = true) ∧
  (r.shape = .text → AL.get r.mta .text = none) ∧
  AL.get r.vis .tag = none ∧ AL.get r.vis .text = none ∧ AL.get r.vis .include = none ∧
  (AL.keys r.mta).Nodup
instance (r : Region) : Decidable (WF r) := by unfold WF; infer_instance

end RegionsVerif.Spec.C09
