/-
What C09 *means*, written from the property text: which regions DS9 can express, what a region
looks like after one trip through DS9 text at precision `p`, the tolerances, and the input
classes on which the property is claimed.

Reading choices (stated here, used by the theorems of `Props/C09.lean`):
* "every coordinate, size and angle within half a unit of the requested precision": the unit is
  `10⁻ᵖ` in the written unit (pixels; degrees for every sky quantity and every angle).
  DS9 stores the *semi*-axes of ellipses, so a full ellipse axis is within one unit
  (half a unit on the stored semi-axis).  Longitudes are compared on the circle (mod 360).
* "same class": a regular polygon comes back as the polygon with its vertices.
* "label" is the DS9 label `text=`, i.e. `meta['text']`; for a text region it is the region's string.
* "include/exclude sense" is the truth value of `meta.get('include', True)`.
-/
import RegionsVerif.Impl.Ds9

namespace RegionsVerif.Spec.C09
open RegionsVerif.Impl.Ds9 RegionsVerif.Impl.Dec

/-- regions DS9 can express. -/
def Expressible (r : Region) : Prop := r.shape ≠ .compound ∧ r.frame.ds9Name ≠ none
instance (r : Region) : Decidable (Expressible r) := by unfold Expressible; infer_instance

/-- the class that comes back. -/
def ds9Class : Shape → Shape
  | .regularPolygon => .polygon
  | s => s

/-- how a size is rounded: the regions code's own printer for pixels, astropy's (`sky`) otherwise. -/
def rsz (sky : ℚ → ℚ) (p : ℕ) (pix : Bool) (x : ℚ) : ℚ := if pix then roundTo p x else sky x

/-- a position after the trip: pixel positions are printed 1-based; longitudes are kept in [0, 360). -/
def expCoord (sky : ℚ → ℚ) (p : ℕ) (pix : Bool) (c : ℚ × ℚ) : ℚ × ℚ :=
  if pix then (roundTo p (c.1 + 1) - 1, roundTo p (c.2 + 1) - 1) else (wrapLon (sky c.1), sky c.2)

/-- the remaining numbers after the trip (`_params` order; ellipse axes go through their halves;
angles are always printed by astropy). -/
def expNums (sky : ℚ → ℚ) (p : ℕ) (pix : Bool) : Shape → List ℚ → List ℚ
  | .circle, [r] => [rsz sky p pix r]
  | .ellipse, [w, h, a] => [rsz sky p pix (w / 2) * 2, rsz sky p pix (h / 2) * 2, sky a]
  | .rectangle, [w, h, a] => [rsz sky p pix w, rsz sky p pix h, sky a]
  | .circleAnnulus, [ri, ro] => [rsz sky p pix ri, rsz sky p pix ro]
  | .ellipseAnnulus, [iw, ow, ih, oh, a] =>
    [rsz sky p pix (iw / 2) * 2, rsz sky p pix (ow / 2) * 2, rsz sky p pix (ih / 2) * 2,
     rsz sky p pix (oh / 2) * 2, sky a]
  | .rectangleAnnulus, [iw, ow, ih, oh, a] =>
    [rsz sky p pix iw, rsz sky p pix ow, rsz sky p pix ih, rsz sky p pix oh, sky a]
  | _, _ => []

/-- the property's tolerance on the non-positional numbers: `h` = half a unit; the full axes of
ellipses (stored as semi-axes) get `2·h`. -/
def NumsWithin (h : ℚ) : Shape → List ℚ → List ℚ → Prop
  | .circle, [r], [r'] => |r' - r| ≤ h
  | .ellipse, [w, ht, a], [w', ht', a'] => |w' - w| ≤ 2 * h ∧ |ht' - ht| ≤ 2 * h ∧ |a' - a| ≤ h
  | .rectangle, [w, ht, a], [w', ht', a'] => |w' - w| ≤ h ∧ |ht' - ht| ≤ h ∧ |a' - a| ≤ h
  | .circleAnnulus, [ri, ro], [ri', ro'] => |ri' - ri| ≤ h ∧ |ro' - ro| ≤ h
  | .ellipseAnnulus, [iw, ow, ih, oh, a], [iw', ow', ih', oh', a'] =>
    |iw' - iw| ≤ 2 * h ∧ |ow' - ow| ≤ 2 * h ∧ |ih' - ih| ≤ 2 * h ∧ |oh' - oh| ≤ 2 * h ∧ |a' - a| ≤ h
  | .rectangleAnnulus, [iw, ow, ih, oh, a], [iw', ow', ih', oh', a'] =>
    |iw' - iw| ≤ h ∧ |ow' - ow| ≤ h ∧ |ih' - ih| ≤ h ∧ |oh' - oh| ≤ h ∧ |a' - a| ≤ h
  | _, [], [] => True
  | _, _, _ => False

/-- F19: the *printed* sizes are what the reader validates — strictly positive, inner strictly
smaller than outer.  A size (or an annulus gap) below half a printed unit fails this. -/
def WellRounded (sky : ℚ → ℚ) (p : ℕ) (r : Region) : Prop :=
  let f := rsz sky p (decide (r.frame = .image))
  match r.shape, r.nums with
  | .circle, [x] => 0 < f x
  | .ellipse, [w, h, _] => 0 < f (w / 2) * 2 ∧ 0 < f (h / 2) * 2
  | .rectangle, [w, h, _] => 0 < f w ∧ 0 < f h
  | .circleAnnulus, [ri, ro] => (0 < f ri ∧ 0 < f ro) ∧ f ri < f ro
  | .ellipseAnnulus, [iw, ow, ih, oh, _] =>
    (0 < f (iw / 2) * 2 ∧ 0 < f (ow / 2) * 2 ∧ 0 < f (ih / 2) * 2 ∧ 0 < f (oh / 2) * 2) ∧
      f (iw / 2) * 2 < f (ow / 2) * 2 ∧ f (ih / 2) * 2 < f (oh / 2) * 2
  | .rectangleAnnulus, [iw, ow, ih, oh, _] =>
    (0 < f iw ∧ 0 < f ow ∧ 0 < f ih ∧ 0 < f oh) ∧ f iw < f ow ∧ f ih < f oh
  | _, _ => True

instance (sky : ℚ → ℚ) (p : ℕ) (r : Region) : Decidable (WellRounded sky p r) := by
  unfold WellRounded
  simp only
  split <;> infer_instance

/-- `meta.get('include', True)` as a truth value. -/
def includeSense (r : Region) : Bool :=
  match AL.get r.mta .include with
  | some v => v.truthy
  | none => true

/-- type invariants of a region object: parameter arity of its class, `RegionVisual` has none of the
meta keys the property tracks, dictionaries have unique keys, a text region has a string and no
second label. -/
def WF (r : Region) : Prop :=
  (shapeParams r).toOption.isSome = true ∧
  (r.shape = .text ↔ r.text.isSome = true) ∧
  (r.shape = .text → AL.get r.mta .text = none) ∧
  AL.get r.vis .tag = none ∧ AL.get r.vis .text = none ∧ AL.get r.vis .include = none ∧
  (AL.keys r.mta).Nodup
instance (r : Region) : Decidable (WF r) := by unfold WF; infer_instance

/-! ### the reader's image (for the fixed-point clause)

`ReaderNormal p r`: `r` is a region as the reader produces it from a text written at precision
`p` — numbers are `p`-decimals (longitudes in `[0, 360)`; ellipse axes twice a `p`-decimal), the
class invariants on sizes hold, the metadata holds only DS9 meta keys with the reader's value types
(`include` present; binary keys `0`/`1`; a non-empty list of tags; a string label), and — the scope
of the *theorem* — the visual metadata is the reader's default (`default_style = 'ds9'` only).
Visual keys (colour, width, font, dash, point, fill, text angle) at the fixed point are compared by
the correspondence run, not proved. -/

def plainVisual : Dict := [(Key.default_style, PyVal.str "ds9".toList)]

def CoordNormal (p : ℕ) (pix : Bool) (c : ℚ × ℚ) : Prop :=
  IsDec p c.1 ∧ IsDec p c.2 ∧ (pix = false → 0 ≤ c.1 ∧ c.1 < 360)
instance (p : ℕ) (pix : Bool) (c : ℚ × ℚ) : Decidable (CoordNormal p pix c) := by
  unfold CoordNormal; infer_instance

def NumsNormal (p : ℕ) : Shape → List ℚ → Prop
  | .circle, [r] => IsDec p r
  | .ellipse, [w, h, a] => IsDec p (w / 2) ∧ IsDec p (h / 2) ∧ IsDec p a
  | .rectangle, [w, h, a] => IsDec p w ∧ IsDec p h ∧ IsDec p a
  | .circleAnnulus, [ri, ro] => IsDec p ri ∧ IsDec p ro
  | .ellipseAnnulus, [iw, ow, ih, oh, a] =>
    IsDec p (iw / 2) ∧ IsDec p (ow / 2) ∧ IsDec p (ih / 2) ∧ IsDec p (oh / 2) ∧ IsDec p a
  | .rectangleAnnulus, [iw, ow, ih, oh, a] => IsDec p iw ∧ IsDec p ow ∧ IsDec p ih ∧ IsDec p oh ∧ IsDec p a
  | _, _ => True
instance (p : ℕ) (s : Shape) (l : List ℚ) : Decidable (NumsNormal p s l) := by
  unfold NumsNormal; split <;> infer_instance

/-- the class invariants the constructors enforce (`PositiveScalar`, inner < outer). -/
def SizesValid : Shape → List ℚ → Prop
  | .circle, [r] => 0 < r
  | .ellipse, [w, h, _] => 0 < w ∧ 0 < h
  | .rectangle, [w, h, _] => 0 < w ∧ 0 < h
  | .circleAnnulus, [ri, ro] => (0 < ri ∧ 0 < ro) ∧ ri < ro
  | .ellipseAnnulus, [iw, ow, ih, oh, _] => (0 < iw ∧ 0 < ow ∧ 0 < ih ∧ 0 < oh) ∧ iw < ow ∧ ih < oh
  | .rectangleAnnulus, [iw, ow, ih, oh, _] => (0 < iw ∧ 0 < ow ∧ 0 < ih ∧ 0 < oh) ∧ iw < ow ∧ ih < oh
  | _, _ => True
instance (s : Shape) (l : List ℚ) : Decidable (SizesValid s l) := by
  unfold SizesValid; split <;> infer_instance

/-- DS9 meta keys whose values are `0`/`1`. -/
def binaryMeta : List Key :=
  [.background, .delete, .edit, .fixed, .highlite, .include, .move, .rotate, .select, .source]

/-- absent, or a string. -/
def StrOK : Option PyVal → Prop
  | none => True
  | some (.str _) => True
  | some _ => False

instance (v : Option PyVal) : Decidable (StrOK v) := by
  unfold StrOK; split <;> infer_instance

def MetaNormal (r : Region) : Prop :=
  r.vis = plainVisual ∧
  (∀ kv ∈ r.mta, kv.1 ∈ ds9MetaKeys) ∧
  (∀ k ∈ binaryMeta, match AL.get r.mta k with
    | none => True
    | some v => v = .int 0 ∨ v = .int 1) ∧
  (AL.get r.mta .include).isSome = true ∧
  (match AL.get r.mta .tag with
   | none => True
   | some (.strs l) => l ≠ []
   | some _ => False) ∧
  StrOK (AL.get r.mta .text) ∧ StrOK r.text

instance (r : Region) : Decidable (MetaNormal r) := by
  unfold MetaNormal
  refine @instDecidableAnd _ _ inferInstance (@instDecidableAnd _ _ inferInstance
    (@instDecidableAnd _ _ ?_ (@instDecidableAnd _ _ inferInstance (@instDecidableAnd _ _ ?_ inferInstance))))
  · refine @List.decidableBAll _ _ ?_ _
    intro k; simp only; split <;> infer_instance
  · split <;> infer_instance

def ReaderNormal (p : ℕ) (r : Region) : Prop :=
  WF r ∧ Expressible r ∧ r.shape ≠ .regularPolygon ∧
  (∀ c ∈ r.coords, CoordNormal p (decide (r.frame = .image)) c) ∧
  NumsNormal p r.shape r.nums ∧ SizesValid r.shape r.nums ∧ MetaNormal r

instance (p : ℕ) (r : Region) : Decidable (ReaderNormal p r) := by
  unfold ReaderNormal; infer_instance

/-- equality of regions as `Region.__eq__` sees it: dictionaries are compared as mappings. -/
def RegionEqv (r r' : Region) : Prop :=
  r'.shape = r.shape ∧ r'.frame = r.frame ∧ r'.coords = r.coords ∧ r'.nums = r.nums ∧ r'.text = r.text ∧
  (∀ k, AL.get r'.mta k = AL.get r.mta k) ∧ (∀ k, AL.get r'.vis k = AL.get r.vis k)

end RegionsVerif.Spec.C09
