/-
Dictionary algebra for the association lists of `Impl/Ds9.lean` (`AL.get/pop/set/update`).
-/
import RegionsVerif.Impl.Ds9

namespace RegionsVerif.Impl.Ds9
namespace AL
variable {β : Type}

@[simp] theorem get_nil (k : Key) : get ([] : List (Key × β)) k = none := rfl

theorem get_cons (k' k : Key) (v : β) (r : List (Key × β)) :
    get ((k', v) :: r) k = (get r k).orElse (fun _ => if k' = k then some v else none) := by
  simp only [get]
  cases get r k <;> rfl

theorem get_append (a b : List (Key × β)) (k : Key) :
    get (a ++ b) k = (get b k).orElse (fun _ => get a k) := by
  induction a with
  | nil => cases h : get b k <;> simp [h]
  | cons kv a ih =>
    obtain ⟨k', v⟩ := kv
    rw [List.cons_append, get_cons, ih, get_cons]
    cases get b k <;> simp

theorem get_singleton (k' k : Key) (v : β) : get [(k', v)] k = if k' = k then some v else none := by
  simp [get_cons]

theorem get_mem {d : List (Key × β)} {k : Key} {v : β} (h : get d k = some v) : (k, v) ∈ d := by
  induction d with
  | nil => simp at h
  | cons kv d ih =>
    obtain ⟨k', v'⟩ := kv
    rw [get_cons] at h
    cases hg : get d k with
    | some x =>
      rw [hg] at h
      simp only [Option.orElse_some, Option.some.injEq] at h
      subst h
      exact List.mem_cons_of_mem _ (ih hg)
    | none =>
      rw [hg] at h
      simp only [Option.orElse_none] at h
      split at h
      · rename_i hk
        simp only [Option.some.injEq] at h
        subst hk; subst h
        exact List.mem_cons_self
      · simp at h

theorem get_eq_none_iff {d : List (Key × β)} {k : Key} : get d k = none ↔ k ∉ keys d := by
  induction d with
  | nil => simp [keys]
  | cons kv d ih =>
    obtain ⟨k', v'⟩ := kv
    rw [get_cons]
    simp only [keys, List.map_cons, List.mem_cons, not_or] at ih ⊢
    cases hg : get d k with
    | some x =>
      simp only [Option.orElse_some]
      have : k ∈ List.map (fun x => x.1) d := by
        by_contra hc
        have := ih.mpr hc
        rw [hg] at this
        simp at this
      simp [this]
    | none =>
      simp only [Option.orElse_none]
      have hnot := ih.mp hg
      by_cases hk : k' = k
      · simp [hk]
      · simp only [if_neg hk, true_iff]
        exact ⟨fun h => hk h.symm, hnot⟩

theorem get_isSome_iff {d : List (Key × β)} {k : Key} : (get d k).isSome = true ↔ k ∈ keys d := by
  rw [← not_iff_not, Bool.not_eq_true, Option.isSome_eq_false_iff, Option.isNone_iff_eq_none]
  exact get_eq_none_iff

/-- on a dictionary without repeated keys, membership is lookup. -/
theorem get_of_mem {d : List (Key × β)} {k : Key} {v : β} (hn : (keys d).Nodup) (h : (k, v) ∈ d) :
    get d k = some v := by
  induction d with
  | nil => simp at h
  | cons kv d ih =>
    obtain ⟨k', v'⟩ := kv
    simp only [keys, List.map_cons, List.nodup_cons] at hn
    rw [get_cons]
    rcases List.mem_cons.mp h with h | h
    · simp only [Prod.mk.injEq] at h
      obtain ⟨rfl, rfl⟩ := h
      have : get d k = none := get_eq_none_iff.mpr hn.1
      simp [this]
    · have := ih hn.2 h
      simp [this]

theorem get_filter_key (P : Key → Bool) (d : List (Key × β)) (k : Key) :
    get (d.filter (fun kv => P kv.1)) k = if P k = true then get d k else none := by
  induction d with
  | nil => simp
  | cons kv d ih =>
    obtain ⟨k', v'⟩ := kv
    by_cases hp : P k' = true
    · rw [List.filter_cons_of_pos (by simpa using hp), get_cons, get_cons, ih]
      by_cases hk : P k = true
      · simp [hk]
      · simp only [hk]
        have : k' ≠ k := fun h => hk (h ▸ hp)
        simp [this]
    · rw [List.filter_cons_of_neg (by simpa using hp), ih, get_cons]
      by_cases hk : P k = true
      · have : k' ≠ k := fun h => hp (h ▸ hk)
        simp [hk, this]
      · simp [hk]

theorem get_pop (d : List (Key × β)) (k' k : Key) :
    get (pop d k') k = if k = k' then none else get d k := by
  unfold pop
  refine (get_filter_key (fun k => decide (k ≠ k')) d k).trans ?_
  by_cases h : k = k' <;> simp [h]

@[simp] theorem get_pop_self (d : List (Key × β)) (k : Key) : get (pop d k) k = none := by
  simp [get_pop]

theorem get_pop_ne (d : List (Key × β)) {k' k : Key} (h : k ≠ k') : get (pop d k') k = get d k := by
  simp [get_pop, h]

theorem get_map_replace (d : List (Key × β)) (k' k : Key) (v : β) :
    get (d.map (fun kv => if kv.1 = k' then (k', v) else kv)) k =
      if k = k' then (get d k').map (fun _ => v) else get d k := by
  induction d with
  | nil => simp
  | cons kv d ih =>
    obtain ⟨k0, v0⟩ := kv
    rw [List.map_cons]
    by_cases h0 : k0 = k'
    · subst h0
      rw [if_pos rfl, get_cons, ih]
      by_cases hk : k = k0
      · subst hk
        rw [if_pos rfl, if_pos rfl, if_pos rfl, get_cons, if_pos rfl]
        cases get d k <;> rfl
      · have hk' : k0 ≠ k := fun h => hk h.symm
        rw [if_neg hk, if_neg hk, if_neg hk', get_cons, if_neg hk']
    · rw [if_neg h0, get_cons, ih]
      by_cases hk : k = k'
      · subst hk
        rw [if_pos rfl, if_pos rfl, if_neg h0, get_cons, if_neg h0]
        cases get d k <;> rfl
      · rw [if_neg hk, if_neg hk, get_cons]

theorem get_set (d : List (Key × β)) (k' k : Key) (v : β) :
    get (set d k' v) k = if k = k' then some v else get d k := by
  unfold set
  by_cases hs : (get d k').isSome = true
  · rw [if_pos hs, get_map_replace]
    by_cases hk : k = k'
    · simp only [if_pos hk]
      obtain ⟨x, hx⟩ := Option.isSome_iff_exists.mp hs
      simp [hx]
    · simp [hk]
  · rw [if_neg hs, get_append, get_singleton]
    have hn : get d k' = none := by
      cases h : get d k' with
      | none => rfl
      | some x => simp [h] at hs
    by_cases hk : k = k'
    · subst hk; simp
    · have : k' ≠ k := fun h => hk h.symm
      simp [hk, this]

@[simp] theorem get_set_self (d : List (Key × β)) (k : Key) (v : β) : get (set d k v) k = some v := by
  simp [get_set]

theorem get_set_ne (d : List (Key × β)) {k' k : Key} (v : β) (h : k ≠ k') :
    get (set d k' v) k = get d k := by
  simp [get_set, h]

theorem get_update (d e : List (Key × β)) (k : Key) :
    get (update d e) k = (get e k).orElse (fun _ => get d k) := by
  unfold update
  induction e generalizing d with
  | nil => simp
  | cons kv e ih =>
    obtain ⟨k0, v0⟩ := kv
    rw [List.foldl_cons, ih, get_cons, get_set]
    cases get e k with
    | some x => simp
    | none =>
      by_cases hk : k = k0
      · subst hk; simp
      · have : k0 ≠ k := fun h => hk h.symm
        simp [hk, this]

/-! ### keys, no repeated keys -/

theorem keys_pop (d : List (Key × β)) (k : Key) : keys (pop d k) = (keys d).filter (fun k' => decide (k' ≠ k)) := by
  unfold keys pop
  rw [List.filter_map]
  rfl

theorem nodup_pop {d : List (Key × β)} (k : Key) (h : (keys d).Nodup) : (keys (pop d k)).Nodup := by
  rw [keys_pop]; exact h.filter _

theorem keys_set_of_has {d : List (Key × β)} {k : Key} (v : β) (h : (get d k).isSome = true) :
    keys (set d k v) = keys d := by
  unfold set
  rw [if_pos h]
  unfold keys
  rw [List.map_map]
  apply List.map_congr_left
  intro kv _
  by_cases hk : kv.1 = k <;> simp [hk]

theorem keys_set_of_not {d : List (Key × β)} {k : Key} (v : β) (h : ¬ (get d k).isSome = true) :
    keys (set d k v) = keys d ++ [k] := by
  unfold set
  rw [if_neg h]
  simp [keys]

theorem nodup_set {d : List (Key × β)} (k : Key) (v : β) (h : (keys d).Nodup) : (keys (set d k v)).Nodup := by
  by_cases hs : (get d k).isSome = true
  · rw [keys_set_of_has v hs]; exact h
  · rw [keys_set_of_not v hs]
    have : k ∉ keys d := fun hm => hs (get_isSome_iff.mpr hm)
    rw [List.nodup_append]
    refine ⟨h, by simp, ?_⟩
    intro a ha b hb
    simp only [List.mem_singleton] at hb
    subst hb
    exact fun hab => this (hab ▸ ha)

theorem nodup_update {d : List (Key × β)} (e : List (Key × β)) (h : (keys d).Nodup) :
    (keys (update d e)).Nodup := by
  unfold update
  induction e generalizing d with
  | nil => exact h
  | cons kv e ih => exact ih (nodup_set kv.1 kv.2 h)

theorem nodup_filter {d : List (Key × β)} (P : Key × β → Bool) (h : (keys d).Nodup) :
    (keys (d.filter P)).Nodup := by
  unfold keys at *
  exact (List.filter_sublist.map _).nodup h

theorem mem_keys_set {d : List (Key × β)} {k k' : Key} {v : β} :
    k ∈ keys (set d k' v) ↔ k = k' ∨ k ∈ keys d := by
  rw [← get_isSome_iff, get_set, ← get_isSome_iff]
  by_cases h : k = k' <;> simp [h]

theorem mem_keys_pop {d : List (Key × β)} {k k' : Key} :
    k ∈ keys (pop d k') ↔ k ≠ k' ∧ k ∈ keys d := by
  rw [← get_isSome_iff, get_pop, ← get_isSome_iff]
  by_cases h : k = k' <;> simp [h]

end AL
end RegionsVerif.Impl.Ds9
