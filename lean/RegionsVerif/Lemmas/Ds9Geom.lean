/-
Geometry of one region through the writer's templates and the reader's shape constructors,
and the decomposition of `makeRegion`.
-/
import RegionsVerif.Lemmas.Ds9Read
import RegionsVerif.Spec.C09

namespace RegionsVerif.Impl.Ds9
open AL RegionsVerif.Impl.Dec RegionsVerif.Spec.C09

/-- the rounding applied to one printed number. -/
def rnd (sky : ℚ → ℚ) (p : ℕ) (w : WParam) : ℚ := if w.astro then sky w.val else roundTo p w.val

theorem lineNums_eq (sky : ℚ → ℚ) (p : ℕ) (l : WLine) : lineNums sky p l = l.params.map (rnd sky p) := rfl

/-- the reader's shape word for each class. -/
def rshapeOf : Shape → RShape
  | .circle => .circle
  | .ellipse => .ellipse
  | .rectangle => .box
  | .polygon => .polygon
  | .regularPolygon => .polygon
  | .circleAnnulus => .annulus
  | .ellipseAnnulus => .ellipse_annulus
  | .rectangleAnnulus => .rectangle_annulus
  | .line => .line
  | .point => .point
  | .text => .text
  | .compound => .circle

theorem pairs_flat (f g : ℚ × ℚ → ℚ) (vs : List (ℚ × ℚ)) :
    pairs (vs.flatMap fun c => [f c, g c]) = some (vs.map fun c => (f c, g c)) := by
  induction vs with
  | nil => rfl
  | cons v vs ih =>
    simp only [List.flatMap_cons, List.cons_append, List.nil_append, pairs, ih, Option.map_some,
      List.map_cons]

/-- writer template ∘ rounding ∘ reader constructor, for every class: the reader accepts exactly
the well-rounded regions, and then returns the expected geometry. -/
theorem geometry_of_shapeParams (sky : ℚ → ℚ) (p : ℕ) (r : Region) (sh : DShape) (ps : List WParam)
    (h : shapeParams r = .ok (sh, ps)) :
    geometry (decide (r.frame = .image)) sh (ps.map (rnd sky p)) =
      if WellRounded sky p r then
        .ok (rshapeOf r.shape, ds9Class r.shape,
             r.coords.map (expCoord sky p (decide (r.frame = .image))),
             expNums sky p (decide (r.frame = .image)) r.shape r.nums)
      else .error "ValueError" := by
  unfold shapeParams at h
  simp only at h
  split at h
  case h_12 => simp at h
  all_goals
    simp only [Except.ok.injEq, Prod.mk.injEq] at h
    obtain ⟨rfl, rfl⟩ := h
    by_cases hpix : r.frame = .image
    · simp [*, rnd, geometry, WellRounded, rsz, expCoord, expNums, rshapeOf, ds9Class, List.map_flatMap,
        pairs_flat, Function.comp_def]
    · simp [*, rnd, geometry, WellRounded, rsz, expCoord, expNums, rshapeOf, ds9Class, List.map_flatMap,
        pairs_flat, Function.comp_def]

theorem ds9Name_image {f : Frame} {fn : FName} (h : f.ds9Name = some fn) :
    decide (fn = .image) = decide (f = .image) ∧ fn.frame = f := by
  cases f <;> simp [Frame.ds9Name] at h <;> subst h <;> simp [FName.frame]

/-- the shape word fixed by the arity is the one the geometry reports. -/
theorem finalShape_of_geometry {pix : Bool} {sh : DShape} {ps : List ℚ} {rs : RShape} {cls : Shape}
    {coords : List (ℚ × ℚ)} {nums : List ℚ} (h : geometry pix sh ps = .ok (rs, cls, coords, nums)) :
    finalShape sh ps = some rs := by
  unfold geometry at h
  simp only at h
  split at h
  all_goals first
    | (split at h
       · simp only [Except.ok.injEq, Prod.mk.injEq] at h
         obtain ⟨rfl, _⟩ := h
         rfl
       · simp at h)
    | (simp only [Except.ok.injEq, Prod.mk.injEq] at h
       obtain ⟨rfl, _⟩ := h
       rfl)
    | simp at h

/-- what a successful `makeRegion` returned. -/
theorem makeRegion_ok {fn : FName} {sh : DShape} {ps : List ℚ} {raw : Dict} {r' : Region}
    (h : makeRegion fn sh ps raw = .ok r') :
    ∃ rs cls coords nums vis,
      geometry (decide (fn = .image)) sh ps = .ok (rs, cls, coords, nums) ∧
      ds9ToVisual rs (splitRaw raw).2 = .ok vis ∧
      r'.shape = cls ∧ r'.frame = fn.frame ∧ r'.coords = coords ∧ r'.nums = nums ∧
      r'.text = (if rs = .text then some ((AL.get raw .text).getD (.str [])) else none) ∧
      r'.mta = (if rs = .text then AL.pop (splitRaw raw).1 .text else (splitRaw raw).1) ∧
      r'.vis = toRegionVisual vis := by
  unfold makeRegion at h
  split at h
  · split at h <;> simp at h
  · rename_i rs hfs
    split at h
    · simp at h
    · rename_i vis hv
      split at h
      · simp at h
      · rename_i rs' cls coords nums hg
        have hrs : rs' = rs := by
          have := finalShape_of_geometry hg
          rw [hfs] at this
          simpa using this.symm
        subst hrs
        simp only at h
        by_cases ht : rs' = RShape.text
        · simp only [if_pos ht] at h
          split at h
          · simp at h
          · split at h
            · simp at h
            · simp only [Except.ok.injEq] at h
              subst h
              exact ⟨rs', cls, coords, nums, vis, hg, hv, rfl, rfl, rfl, rfl, by simp [ht], by simp [ht], rfl⟩
        · simp only [if_neg ht] at h
          split at h
          · simp at h
          · split at h
            · simp at h
            · simp only [Except.ok.injEq] at h
              subst h
              exact ⟨rs', cls, coords, nums, vis, hg, hv, rfl, rfl, rfl, rfl, by simp [ht], by simp [ht], rfl⟩

/-- the meta part of `_split_raw_metadata` keeps every key that is neither visual nor unsupported. -/
theorem get_splitRaw_meta (raw : Dict) (k : Key) (h1 : k ∉ unsupportedMeta) (h2 : k ∉ readerVisualKeys) :
    get (splitRaw raw).1 k = get raw k := by
  unfold splitRaw
  simp only
  have e1 := get_filter_key (fun k => decide (k ∉ readerVisualKeys))
    (raw.filter fun kv => decide (kv.1 ∉ unsupportedMeta)) k
  have e2 := get_filter_key (fun k => decide (k ∉ unsupportedMeta)) raw k
  simp only [decide_eq_true_eq] at e1 e2
  rw [e1, if_pos h2, e2, if_pos h1]

end RegionsVerif.Impl.Ds9
