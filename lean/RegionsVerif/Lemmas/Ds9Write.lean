/-
Lemmas about the writer of `Impl/Ds9.lean`: what `_translate_metadata_to_ds9` does to the keys
the property tracks (`tag`, `text`, `include`), key uniqueness, `collect`, hoisting.
-/
import RegionsVerif.Lemmas.Ds9Dict

namespace RegionsVerif.Impl.Ds9
open AL RegionsVerif.Impl.Dec

/-- closes goals `(keys (… set/pop/update/filter … m)).Nodup` from `(keys m).Nodup`. -/
macro "nodup_tac" : tactic =>
  `(tactic| repeat (first
      | assumption
      | apply AL.nodup_set
      | apply AL.nodup_pop
      | apply AL.nodup_update
      | apply AL.nodup_filter))

/-! ### the translation steps leave other keys alone and keep keys unique -/

theorem tMerge_nodup (text : Option PyVal) (mta vis : Dict) (h : (keys mta).Nodup) :
    (keys (tMerge text mta vis)).Nodup := by
  unfold tMerge
  split
  · apply nodup_update
    simp [keys]
  · nodup_tac

theorem tMerge_get (text : Option PyVal) (mta vis : Dict) (k : Key) (hk : k ≠ .text) :
    get (tMerge text mta vis) k = (get vis k).orElse (fun _ => get mta k) := by
  unfold tMerge
  split
  · rw [get_update, get_update, get_singleton]
    have : Key.text ≠ k := fun h => hk h.symm
    cases get vis k <;> cases get mta k <;> simp [this]
  · rw [get_update]

theorem tMerge_get_text (text : Option PyVal) (mta vis : Dict) :
    get (tMerge text mta vis) .text =
      ((get vis .text).orElse (fun _ => get mta .text)).orElse (fun _ => text) := by
  unfold tMerge
  split
  · rw [get_update, get_update, get_singleton]
    cases get vis .text <;> cases get mta .text <;> simp
  · rw [get_update]
    cases get vis .text <;> cases get mta .text <;> simp

theorem tFill_get {shape : Shape} {m m' : Dict} (h : tFill shape m = .ok m') (k : Key) (hk : k ≠ .fill) :
    get m' k = get m k := by
  unfold tFill at h
  simp only at h
  split at h
  · split at h
    · simp only [Except.ok.injEq] at h
      subst h
      split <;> simp [get_set, get_pop, hk]
    · simp at h
  · simp only [Except.ok.injEq] at h
    subst h
    split <;> simp [get_pop, hk]

theorem tFill_nodup {shape : Shape} {m m' : Dict} (h : tFill shape m = .ok m') (hn : (keys m).Nodup) :
    (keys m').Nodup := by
  unfold tFill at h
  simp only at h
  split at h
  · split at h
    · simp only [Except.ok.injEq] at h
      subst h
      split <;> nodup_tac
    · simp at h
  · simp only [Except.ok.injEq] at h
    subst h
    split <;> nodup_tac

theorem tInclude_get {cfg : Cfg} {m m' : Dict} (h : tInclude cfg m = .ok m') (k : Key) (hk : k ≠ .include) :
    get m' k = get m k := by
  unfold tInclude at h
  split at h
  · split at h
    · split at h
      · simp only [Except.ok.injEq] at h
        subst h
        simp [get_set, hk]
      · simp at h
    · simp only [Except.ok.injEq] at h
      subst h; rfl
  · simp only [Except.ok.injEq] at h
    subst h; rfl

/-- what the (repaired) writer does to `include`: `int(include)`. -/
theorem tInclude_get_include {cfg : Cfg} {m m' : Dict} (h : tInclude cfg m = .ok m') :
    get m' .include =
      if cfg.includeInt = true then
        (get m .include).bind (fun v => match pyInt v with
          | .ok n => some (.int n)
          | .error _ => none)
      else get m .include := by
  unfold tInclude at h
  split at h
  · rename_i hc
    rw [if_pos hc]
    split at h
    · rename_i v hv
      split at h
      · rename_i n hn
        simp only [Except.ok.injEq] at h
        subst h
        simp [hv, hn]
      · simp at h
    · rename_i hv
      simp only [Except.ok.injEq] at h
      subst h
      simp [hv]
  · rename_i hc
    rw [if_neg hc]
    simp only [Except.ok.injEq] at h
    subst h; rfl

theorem tInclude_nodup {cfg : Cfg} {m m' : Dict} (h : tInclude cfg m = .ok m') (hn : (keys m).Nodup) :
    (keys m').Nodup := by
  unfold tInclude at h
  split at h
  · split at h
    · split at h
      · simp only [Except.ok.injEq] at h
        subst h
        nodup_tac
      · simp at h
    · simp only [Except.ok.injEq] at h
      subst h; exact hn
  · simp only [Except.ok.injEq] at h
    subst h; exact hn

theorem tText_get (m : Dict) (k : Key) (hk : k ≠ .text) : get (tText m) k = get m k := by
  unfold tText
  split <;> simp [get_set, hk]

theorem tText_get_text (m : Dict) :
    get (tText m) .text = (get m .text).map (fun t => PyVal.str ('{' :: pyStr t ++ ['}'])) := by
  unfold tText
  split
  · rename_i t ht; simp [ht]
  · rename_i ht; simp [ht]

theorem tText_nodup (m : Dict) (hn : (keys m).Nodup) : (keys (tText m)).Nodup := by
  unfold tText
  split <;> nodup_tac

theorem tColor_get (m : Dict) (k : Key) (hk : k ∉ [Key.edgecolor, .facecolor, .color]) :
    get (tColor m) k = get m k := by
  simp only [List.mem_cons, List.not_mem_nil, not_or, or_false] at hk
  unfold tColor
  simp only
  split <;> [skip; split] <;> simp [get_set, get_pop, hk]

theorem tColor_nodup (m : Dict) (hn : (keys m).Nodup) : (keys (tColor m)).Nodup := by
  unfold tColor
  simp only
  split <;> [skip; split] <;> nodup_tac

theorem tWidth_get (m : Dict) (k : Key) (hk : k ∉ [Key.linewidth, .markeredgewidth, .width]) :
    get (tWidth m) k = get m k := by
  simp only [List.mem_cons, List.not_mem_nil, not_or, or_false] at hk
  unfold tWidth
  simp only
  split <;> split <;> simp [get_set, get_pop, hk]

theorem tWidth_nodup (m : Dict) (hn : (keys m).Nodup) : (keys (tWidth m)).Nodup := by
  unfold tWidth
  simp only
  split <;> split <;> nodup_tac

theorem tMarker_get (m : Dict) (k : Key) (hk : k ∉ [Key.marker, .markersize, .point]) :
    get (tMarker m) k = get m k := by
  simp only [List.mem_cons, List.not_mem_nil, not_or, or_false] at hk
  unfold tMarker
  simp only
  split <;> [split; skip] <;> simp [get_set, get_pop, hk]

theorem tMarker_nodup (m : Dict) (hn : (keys m).Nodup) : (keys (tMarker m)).Nodup := by
  unfold tMarker
  simp only
  split <;> [split; skip] <;> nodup_tac

theorem tFont_get {m m' : Dict} (h : tFont m = .ok m') (k : Key)
    (hk : k ∉ [Key.fontname, .fontsize, .fontweight, .fontstyle, .font]) :
    get m' k = get m k := by
  simp only [List.mem_cons, List.not_mem_nil, not_or, or_false] at hk
  unfold tFont at h
  simp only at h
  split at h
  · split at h
    · simp only [Except.ok.injEq] at h
      subst h
      simp [get_set, get_pop, hk]
    · simp at h
  · simp only [Except.ok.injEq] at h
    subst h
    simp [get_pop, hk]

theorem tFont_nodup {m m' : Dict} (h : tFont m = .ok m') (hn : (keys m).Nodup) : (keys m').Nodup := by
  unfold tFont at h
  simp only at h
  split at h
  · split at h
    · simp only [Except.ok.injEq] at h
      subst h
      nodup_tac
    · simp at h
  · simp only [Except.ok.injEq] at h
    subst h
    nodup_tac

theorem tLinestyle_get {m m' : Dict} (h : tLinestyle m = .ok m') (k : Key)
    (hk : k ∉ [Key.linestyle, .dash, .dashlist]) :
    get m' k = get m k := by
  simp only [List.mem_cons, List.not_mem_nil, not_or, or_false] at hk
  unfold tLinestyle at h
  simp only at h
  split at h
  · split at h
    · simp only [Except.ok.injEq] at h
      subst h
      simp [get_set, get_pop, hk]
    · simp at h
  · simp only [Except.ok.injEq] at h
    subst h
    simp [get_set, get_pop, hk]
  · simp only [Except.ok.injEq] at h
    subst h
    simp [get_pop, hk]

theorem tLinestyle_nodup {m m' : Dict} (h : tLinestyle m = .ok m') (hn : (keys m).Nodup) :
    (keys m').Nodup := by
  unfold tLinestyle at h
  simp only at h
  split at h
  · split at h
    · simp only [Except.ok.injEq] at h
      subst h
      nodup_tac
    · simp at h
  · simp only [Except.ok.injEq] at h
    subst h
    nodup_tac
  · simp only [Except.ok.injEq] at h
    subst h
    nodup_tac

theorem tRotation_get (m : Dict) (k : Key) (hk : k ∉ [Key.rotation, .textangle]) :
    get (tRotation m) k = get m k := by
  simp only [List.mem_cons, List.not_mem_nil, not_or, or_false] at hk
  unfold tRotation
  split <;> simp [get_set, get_pop, hk]

theorem tRotation_nodup (m : Dict) (hn : (keys m).Nodup) : (keys (tRotation m)).Nodup := by
  unfold tRotation
  split <;> nodup_tac

theorem tFilter_get (m : Dict) (k : Key) :
    get (tFilter m) k = if k ∈ ds9MetaKeys ++ ds9VisualKeys then get m k else none := by
  unfold tFilter
  have := get_filter_key (fun k => decide (k ∈ ds9MetaKeys ++ ds9VisualKeys)) m k
  simpa using this

theorem tFilter_nodup (m : Dict) (hn : (keys m).Nodup) : (keys (tFilter m)).Nodup := by
  unfold tFilter; nodup_tac

theorem tFilter_keys (m : Dict) (k : Key) (hk : k ∈ keys (tFilter m)) :
    k ∈ ds9MetaKeys ++ ds9VisualKeys := by
  unfold tFilter keys at hk
  obtain ⟨kv, hkv, rfl⟩ := List.mem_map.mp hk
  have := (List.mem_filter.mp hkv).2
  simpa using this

/-! ### `_translate_metadata_to_ds9` as a whole -/

/-- the steps of a successful translation. -/
theorem translate_steps {cfg : Cfg} {shape : Shape} {text : Option PyVal} {mta vis m : Dict}
    (h : translateToDs9 cfg shape text mta vis = .ok m) :
    ∃ m1 m2 m3 m4, tFill shape (tMerge text mta vis) = .ok m1 ∧ tInclude cfg m1 = .ok m2 ∧
      tFont (tMarker (tWidth (tColor (tText m2)))) = .ok m3 ∧ tLinestyle m3 = .ok m4 ∧
      m = tFilter (tRotation m4) := by
  unfold translateToDs9 at h
  split at h
  · simp at h
  · rename_i m1 h1
    split at h
    · simp at h
    · rename_i m2 h2
      split at h
      · simp at h
      · rename_i m3 h3
        split at h
        · simp at h
        · rename_i m4 h4
          simp only [Except.ok.injEq] at h
          exact ⟨m1, m2, m3, m4, h1, h2, h3, h4, h.symm⟩

theorem translate_nodup {cfg : Cfg} {shape : Shape} {text : Option PyVal} {mta vis m : Dict}
    (h : translateToDs9 cfg shape text mta vis = .ok m) (hn : (keys mta).Nodup) : (keys m).Nodup := by
  obtain ⟨m1, m2, m3, m4, h1, h2, h3, h4, rfl⟩ := translate_steps h
  apply tFilter_nodup
  apply tRotation_nodup
  apply tLinestyle_nodup h4
  apply tFont_nodup h3
  apply tMarker_nodup
  apply tWidth_nodup
  apply tColor_nodup
  apply tText_nodup
  apply tInclude_nodup h2
  apply tFill_nodup h1
  exact tMerge_nodup text mta vis hn

theorem translate_keys {cfg : Cfg} {shape : Shape} {text : Option PyVal} {mta vis m : Dict}
    (h : translateToDs9 cfg shape text mta vis = .ok m) (k : Key) (hk : k ∈ keys m) :
    k ∈ ds9MetaKeys ++ ds9VisualKeys := by
  obtain ⟨m1, m2, m3, m4, h1, h2, h3, h4, rfl⟩ := translate_steps h
  exact tFilter_keys _ k hk

/-- a key none of the steps after the merge touches (`tag`, and `text`/`include` up to their own step). -/
theorem translate_get_untouched {cfg : Cfg} {shape : Shape} {text : Option PyVal} {mta vis m : Dict}
    (h : translateToDs9 cfg shape text mta vis = .ok m) (k : Key)
    (hin : k ∈ ds9MetaKeys ++ ds9VisualKeys)
    (hk : k ∉ [Key.fill, .include, .text, .edgecolor, .facecolor, .color, .linewidth, .markeredgewidth,
               .width, .marker, .markersize, .point, .fontname, .fontsize, .fontweight, .fontstyle, .font,
               .linestyle, .dash, .dashlist, .rotation, .textangle]) :
    get m k = get (tMerge text mta vis) k := by
  obtain ⟨m1, m2, m3, m4, h1, h2, h3, h4, rfl⟩ := translate_steps h
  simp only [List.mem_cons, List.not_mem_nil, not_or, or_false] at hk
  rw [tFilter_get, if_pos hin, tRotation_get _ _ (by simp [hk]), tLinestyle_get h4 _ (by simp [hk]),
    tFont_get h3 _ (by simp [hk]), tMarker_get _ _ (by simp [hk]), tWidth_get _ _ (by simp [hk]),
    tColor_get _ _ (by simp [hk]), tText_get _ _ hk.2.2.1, tInclude_get h2 _ hk.2.1, tFill_get h1 _ hk.1]

theorem translate_get_tag {cfg : Cfg} {shape : Shape} {text : Option PyVal} {mta vis m : Dict}
    (h : translateToDs9 cfg shape text mta vis = .ok m) :
    get m .tag = (get vis .tag).orElse (fun _ => get mta .tag) := by
  rw [translate_get_untouched h .tag (by decide) (by decide), tMerge_get _ _ _ _ (by decide)]

theorem translate_get_text {cfg : Cfg} {shape : Shape} {text : Option PyVal} {mta vis m : Dict}
    (h : translateToDs9 cfg shape text mta vis = .ok m) :
    get m .text = (((get vis .text).orElse (fun _ => get mta .text)).orElse (fun _ => text)).map
      (fun t => PyVal.str ('{' :: pyStr t ++ ['}'])) := by
  obtain ⟨m1, m2, m3, m4, h1, h2, h3, h4, rfl⟩ := translate_steps h
  rw [tFilter_get, if_pos (by decide), tRotation_get _ _ (by decide), tLinestyle_get h4 _ (by decide),
    tFont_get h3 _ (by decide), tMarker_get _ _ (by decide), tWidth_get _ _ (by decide),
    tColor_get _ _ (by decide), tText_get_text, tInclude_get h2 _ (by decide), tFill_get h1 _ (by decide),
    tMerge_get_text]

theorem translate_get_include {cfg : Cfg} {shape : Shape} {text : Option PyVal} {mta vis m : Dict}
    (h : translateToDs9 cfg shape text mta vis = .ok m) :
    get m .include =
      if cfg.includeInt = true then
        ((get vis .include).orElse (fun _ => get mta .include)).bind (fun v => match pyInt v with
          | .ok n => some (.int n)
          | .error _ => none)
      else (get vis .include).orElse (fun _ => get mta .include) := by
  obtain ⟨m1, m2, m3, m4, h1, h2, h3, h4, rfl⟩ := translate_steps h
  rw [tFilter_get, if_pos (by decide), tRotation_get _ _ (by decide), tLinestyle_get h4 _ (by decide),
    tFont_get h3 _ (by decide), tMarker_get _ _ (by decide), tWidth_get _ _ (by decide),
    tColor_get _ _ (by decide), tText_get _ _ (by decide), tInclude_get_include h2,
    tFill_get h1 _ (by decide), tMerge_get _ _ _ _ (by decide)]

/-! ### `collect` -/

/-- the regions that reach the output, in order. -/
def kept (f : Region → Except String (Option WLine)) (rs : List Region) : List Region :=
  rs.filter fun r => match f r with
    | .ok none => false
    | _ => true

theorem collect_forall₂ (f : Region → Except String (Option WLine)) (rs : List Region) (ds : List WLine)
    (h : collect f rs = .ok ds) : List.Forall₂ (fun r d => f r = .ok (some d)) (kept f rs) ds := by
  induction rs generalizing ds with
  | nil =>
    simp only [collect, Except.ok.injEq] at h
    subst h
    exact List.Forall₂.nil
  | cons r rs ih =>
    unfold collect at h
    split at h
    · simp at h
    · rename_i hf
      have : kept f (r :: rs) = kept f rs := by simp [kept, hf]
      rw [this]
      exact ih ds h
    · rename_i d hf
      split at h
      · simp at h
      · rename_i ds' hds
        simp only [Except.ok.injEq] at h
        subst h
        have : kept f (r :: rs) = r :: kept f rs := by simp [kept, hf]
        rw [this]
        exact List.Forall₂.cons hf (ih ds' hds)

theorem collect_append_skip (f : Region → Except String (Option WLine)) (l1 l2 : List Region) (r : Region)
    (h : f r = .ok none) : collect f (l1 ++ r :: l2) = collect f (l1 ++ l2) := by
  induction l1 with
  | nil => simp [collect, h]
  | cons a l1 ih =>
    simp only [List.cons_append]
    unfold collect
    rw [ih]

/-! ### Python `==` on values -/

theorem pyEq_str_left {s : Str} {v : PyVal} (h : pyEq (.str s) v = true) : v = .str s := by
  unfold pyEq at h
  cases v <;> simp [PyVal.num?] at h ⊢
  exact h.symm

theorem pyEq_str_right {s : Str} {v : PyVal} (h : pyEq v (.str s) = true) : v = .str s := by
  unfold pyEq at h
  cases v <;> simp [PyVal.num?] at h ⊢
  exact h

end RegionsVerif.Impl.Ds9
