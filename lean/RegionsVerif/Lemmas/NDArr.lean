/-
Lemmas about the numpy parameter of the `PixCoord` model (`Impl.NP`): list facts, broadcasting
(shape algebra, identity broadcast, result sizes, every read is in range, naturality), indexing
(result sizes, shape-only dependence, the integer index and the empty key evaluated symbolically),
and `zipWith` algebra.  Used by `Props/C20.lean`; nothing here mentions `PixCoord`.
-/
import RegionsVerif.Impl.PixCoord
import Mathlib.Tactic.Ring
import Mathlib.Tactic.Linarith
import Mathlib.Data.List.Forall2

namespace RegionsVerif.Lemmas.NDArr
open RegionsVerif.Impl RegionsVerif.Impl.NP

variable {α β γ : Type}

theorem sum_map_const (l : List Nat) (c : Nat) : (l.map fun _ => c).sum = l.length * c := by
  induction l with
  | nil => simp
  | cons a l ih => rw [List.map_cons, List.sum_cons, ih, List.length_cons, Nat.succ_mul, Nat.add_comm]

theorem prod_flatten (ls : List (List Nat)) : ls.flatten.prod = (ls.map List.prod).prod := by
  induction ls with
  | nil => simp
  | cons l ls ih => simp [List.prod_append, ih]

theorem range_flatMap (n m : Nat) :
    (List.range n).flatMap (fun i => (List.range m).map (i * m + ·)) = List.range (n * m) := by
  induction n with
  | zero => simp
  | succ n ih =>
    rw [List.range_succ, List.flatMap_append, ih, Nat.succ_mul, List.range_add]
    simp

theorem outerSum_length (ls : List (List Nat)) :
    (outerSum ls).length = (ls.map List.length).prod := by
  induction ls with
  | nil => simp [outerSum]
  | cons l ls ih =>
    simp only [outerSum, List.length_flatMap, List.length_map, ih, List.map_cons, List.prod_cons]
    exact sum_map_const _ _

theorem gather_length (d : α) (data : List α) (idx : List Nat) :
    (gather d data idx).length = idx.length := by simp [gather]

theorem gather_range (d : α) (data : List α) : gather d data (List.range data.length) = data := by
  apply List.ext_getElem
  · simp [gather]
  · intro i h1 h2
    simp [gather, List.getD_eq_getElem?_getD, h2]

/-- gathering from an array of pairs = pairing the gathers (unconditionally: the two defaults
pair up as well). -/
theorem gather_zip (dx dy : α) (xs ys : List α) (h : xs.length = ys.length) (idx : List Nat) :
    gather (dx, dy) (List.zip xs ys) idx = List.zip (gather dx xs idx) (gather dy ys idx) := by
  unfold gather
  rw [List.zip_map']
  apply List.map_congr_left
  intro i _
  by_cases hi : i < xs.length
  · have hi' : i < ys.length := h ▸ hi
    simp [List.getD_eq_getElem?_getD, hi, hi']
  · have hi' : ¬ i < ys.length := h ▸ hi
    have hz : ¬ i < (List.zip xs ys).length := by simp [List.length_zip]; omega
    simp only [List.getD_eq_getElem?_getD]
    rw [List.getElem?_eq_none (by omega), List.getElem?_eq_none (by omega),
      List.getElem?_eq_none (by omega)]
    rfl

/-- gathering commutes with mapping when every position is in range. -/
theorem gather_map (f : α → β) (d : α) (d' : β) (data : List α) (idx : List Nat)
    (h : ∀ i ∈ idx, i < data.length) :
    gather d' (data.map f) idx = (gather d data idx).map f := by
  unfold gather
  rw [List.map_map]
  apply List.map_congr_left
  intro i hi
  have := h i hi
  simp [List.getD_eq_getElem?_getD, this]

theorem pad_self (s : List Nat) : pad s.length s = s := by simp [pad]

theorem pad_length (n : Nat) (s : List Nat) (h : s.length ≤ n) : (pad n s).length = n := by
  simp [pad]; omega

theorem pad_prod (n : Nat) (s : List Nat) : (pad n s).prod = s.prod := by
  simp [pad, List.prod_append]

theorem pad_of_length_eq (n : Nat) (s : List Nat) (h : s.length = n) : pad n s = s := by
  subst h; exact pad_self s

/-- "`p` stretches to `t`": dimension-wise equal or 1. -/
def Stretch : List Nat → List Nat → Prop := List.Forall₂ fun p t => p = t ∨ p = 1

theorem Stretch.length {p t : List Nat} (h : Stretch p t) : p.length = t.length :=
  List.Forall₂.length_eq h

theorem stretch_refl (s : List Nat) : Stretch s s := by
  induction s with
  | nil => exact List.Forall₂.nil
  | cons a s ih => exact List.Forall₂.cons (Or.inl rfl) ih

theorem bdim_self (a : Nat) : bdim a a = some a := by simp [bdim]

theorem bdim_stretch {a b d : Nat} (h : bdim a b = some d) : (a = d ∨ a = 1) ∧ (b = d ∨ b = 1) := by
  unfold bdim at h
  split at h
  · simp_all
  · split at h
    · simp_all
    · split at h <;> simp_all

theorem bdim_of_stretch {p t : Nat} (h : p = t ∨ p = 1) : bdim p t = some t ∧ bdim t p = some t := by
  unfold bdim
  rcases h with h | h
  · subst h; simp
  · subst h
    by_cases h1 : (1 : Nat) = t
    · subst h1; simp
    · have h2 : ¬ t = 1 := fun h => h1 h.symm
      simp [h1, h2]

theorem bzip_stretch {a b s : List Nat} (h : bzip a b = some s) : Stretch a s ∧ Stretch b s := by
  induction a generalizing b s with
  | nil =>
    cases b with
    | nil => simp [bzip] at h; subst h; exact ⟨List.Forall₂.nil, List.Forall₂.nil⟩
    | cons _ _ => simp [bzip] at h
  | cons x a ih =>
    cases b with
    | nil => simp [bzip] at h
    | cons y b =>
      simp only [bzip] at h
      split at h
      · rename_i d r hd hr
        simp only [Option.some.injEq] at h; subst h
        obtain ⟨h1, h2⟩ := bdim_stretch hd
        obtain ⟨h3, h4⟩ := ih hr
        exact ⟨List.Forall₂.cons h1 h3, List.Forall₂.cons h2 h4⟩
      · simp at h

theorem bzip_of_stretch {p t : List Nat} (h : Stretch p t) : bzip p t = some t ∧ bzip t p = some t := by
  induction h with
  | nil => simp [bzip]
  | cons hd _ ih =>
    obtain ⟨h1, h2⟩ := bdim_of_stretch hd
    simp [bzip, h1, h2, ih.1, ih.2]

theorem bzip_self (s : List Nat) : bzip s s = some s := (bzip_of_stretch (stretch_refl s)).1

theorem bshape_self (s : List Nat) : bshape s s = some s := by
  simp [bshape, pad_self, bzip_self]

theorem bshape_nil_nil : bshape [] [] = some [] := bshape_self []

/-- the broadcast shape has the larger rank and both operands stretch to it. -/
theorem bshape_spec {a b s : List Nat} (h : bshape a b = some s) :
    s.length = max a.length b.length ∧ Stretch (pad s.length a) s ∧ Stretch (pad s.length b) s := by
  unfold bshape at h
  obtain ⟨h1, h2⟩ := bzip_stretch h
  have hl : s.length = max a.length b.length := by
    rw [← h1.length, pad_length _ _ (Nat.le_max_left _ _)]
  rw [hl]
  exact ⟨rfl, h1, h2⟩

/-- anything that stretches to `s` broadcasts with `s` to `s` (either order). -/
theorem bshape_of_stretch {a s : List Nat} (hl : a.length ≤ s.length) (h : Stretch (pad s.length a) s) :
    bshape a s = some s ∧ bshape s a = some s := by
  unfold bshape
  rw [Nat.max_eq_right hl, Nat.max_eq_left hl, pad_self]
  exact bzip_of_stretch h

/-- idempotence: re-broadcasting an operand against the result changes nothing. -/
theorem bshape_idem {a b s : List Nat} (h : bshape a b = some s) :
    bshape a s = some s ∧ bshape s a = some s ∧ bshape b s = some s ∧ bshape s b = some s := by
  obtain ⟨hl, h1, h2⟩ := bshape_spec h
  have ha : a.length ≤ s.length := by omega
  have hb : b.length ≤ s.length := by omega
  exact ⟨(bshape_of_stretch ha h1).1, (bshape_of_stretch ha h1).2,
         (bshape_of_stretch hb h2).1, (bshape_of_stretch hb h2).2⟩

theorem bdim_comm (a b : Nat) : bdim a b = bdim b a := by
  unfold bdim
  by_cases h : a = b
  · subst h; rfl
  · have h' : ¬ b = a := fun e => h e.symm
    by_cases ha : a = 1 <;> by_cases hb : b = 1 <;> simp_all

theorem bzip_comm (a b : List Nat) : bzip a b = bzip b a := by
  induction a generalizing b with
  | nil => cases b <;> simp [bzip]
  | cons x a ih =>
    cases b with
    | nil => simp [bzip]
    | cons y b => simp only [bzip, bdim_comm x y, ih b]

/-- the broadcast shape is symmetric. -/
theorem bshape_comm (a b : List Nat) : bshape a b = bshape b a := by
  unfold bshape; rw [Nat.max_comm, bzip_comm]

/-- source offsets of the identity broadcast / of a full slice per dimension. -/
def fullOffs : List Nat → List (List Nat)
  | [] => []
  | n :: ns => (List.range n).map (· * ns.prod) :: fullOffs ns

theorem bOffs_self (s : List Nat) : bOffs s s = fullOffs s := by
  induction s with
  | nil => rfl
  | cons n ns ih => simp [bOffs, fullOffs, ih]

/-- the row-major enumeration of all multi-indices is the identity on flat positions. -/
theorem outerSum_full (s : List Nat) : outerSum (fullOffs s) = List.range s.prod := by
  induction s with
  | nil => simp [fullOffs, outerSum]
  | cons n ns ih =>
    simp only [fullOffs, outerSum, ih, List.prod_cons]
    rw [List.flatMap_map]
    exact range_flatMap n ns.prod

theorem bOffs_lengths {ts ps : List Nat} (h : ts.length = ps.length) :
    (bOffs ts ps).map List.length = ts := by
  induction ts generalizing ps with
  | nil => cases ps <;> simp [bOffs]
  | cons t ts ih =>
    cases ps with
    | nil => simp at h
    | cons p ps =>
      simp only [List.length_cons, Nat.add_right_cancel_iff] at h
      simp only [bOffs, List.map_cons, ih h]
      split <;> simp

/-- every position a broadcast reads is inside the source. -/
theorem bOffs_in_range {ps ts : List Nat} (h : Stretch ps ts) :
    ∀ o ∈ outerSum (bOffs ts ps), o < ps.prod := by
  induction h with
  | nil => simp [bOffs, outerSum]
  | @cons p t ps ts hd _ ih =>
    intro o ho
    simp only [bOffs, outerSum, List.mem_flatMap, List.mem_map] at ho
    obtain ⟨a, ha, o', ho', rfl⟩ := ho
    have h' := ih o' ho'
    simp only [List.prod_cons]
    split at ha
    · rename_i hpt
      simp only [List.mem_map, List.mem_range] at ha
      obtain ⟨i, hi, rfl⟩ := ha
      subst hpt
      calc i * ps.prod + o' < i * ps.prod + ps.prod := by omega
        _ = (i + 1) * ps.prod := by ring
        _ ≤ p * ps.prod := Nat.mul_le_mul_right _ hi
    · rename_i hpt
      have hp1 : p = 1 := by rcases hd with h | h; exact absurd h hpt; exact h
      simp only [List.mem_replicate] at ha
      obtain ⟨_, rfl⟩ := ha
      subst hp1; simpa using h'

/-- broadcasting to the array's own shape is the identity. -/
theorem broadcastTo_self (d : α) (a : NDArr α) (h : a.WF) : broadcastTo d a a.shape = a := by
  unfold broadcastTo
  rw [pad_self, bOffs_self, outerSum_full, ← h, gather_range]

theorem broadcastTo_shape (d : α) (a : NDArr α) (t : List Nat) : (broadcastTo d a t).shape = t := rfl

/-- a broadcast result has exactly `prod(shape)` elements. -/
theorem broadcastTo_WF (d : α) (a : NDArr α) (t : List Nat) (h : a.shape.length ≤ t.length) :
    (broadcastTo d a t).WF := by
  unfold NDArr.WF broadcastTo
  simp only [gather_length, outerSum_length]
  rw [bOffs_lengths (pad_length _ _ h).symm]

theorem broadcastTo_length (d : α) (a : NDArr α) (t : List Nat) (h : a.shape.length ≤ t.length) :
    (broadcastTo d a t).data.length = t.prod := broadcastTo_WF d a t h

/-- the default element is never read by a legal broadcast. -/
theorem bcast_in_range (a : NDArr α) (t : List Nat) (hw : a.WF) (hs : Stretch (pad t.length a.shape) t) :
    ∀ o ∈ outerSum (bOffs t (pad t.length a.shape)), o < a.data.length := by
  intro o ho
  have := bOffs_in_range hs o ho
  rwa [pad_prod, ← hw] at this

/-- broadcasting commutes with mapping a function over the elements. -/
theorem broadcastTo_map (f : α → β) (d : α) (d' : β) (a : NDArr α) (t : List Nat) (hw : a.WF)
    (hs : Stretch (pad t.length a.shape) t) :
    broadcastTo d' (a.map f) t = (broadcastTo d a t).map f := by
  unfold broadcastTo NDArr.map
  simp only [NDArr.mk.injEq, true_and]
  exact gather_map f d d' a.data _ (bcast_in_range a t hw hs)

/-- a scalar broadcasts to the constant array. -/
theorem broadcastTo_scalar (d v : α) (t : List Nat) :
    broadcastTo d (NDArr.scalar v) t = ⟨t, List.replicate t.prod v⟩ := by
  have hs : Stretch (pad t.length ([] : List Nat)) t := by
    simp only [pad, List.length_nil, Nat.sub_zero, List.append_nil]
    induction t with
    | nil => exact List.Forall₂.nil
    | cons n ns ih => exact List.Forall₂.cons (Or.inr rfl) ih
  have hw : (NDArr.scalar v).WF := by simp [NDArr.WF, NDArr.scalar]
  have hr := bcast_in_range (NDArr.scalar v) t hw hs
  have hl := broadcastTo_length d (NDArr.scalar v) t (by simp [NDArr.scalar])
  unfold broadcastTo at hl ⊢
  simp only [NDArr.mk.injEq, true_and]
  apply List.ext_getElem
  · simpa using hl
  · intro i h1 h2
    simp only [gather, List.getElem_map, List.getElem_replicate]
    have := hr _ (List.getElem_mem (h := by simpa [gather] using h1))
    simp only [NDArr.scalar, List.length_singleton, Nat.lt_one_iff] at this
    simp [NDArr.scalar, this]

theorem basicOf_ok {s : Sel} {g : List Nat × List Nat} (h : basicOf s = some g) :
    g.2.length = g.1.prod := by
  cases s <;> simp [basicOf] at h
  subst h; simp

theorem filterMap_basicOf_ok (ss : List Sel) :
    ∀ g ∈ ss.filterMap basicOf, g.2.length = g.1.prod := by
  intro g hg
  simp only [List.mem_filterMap] at hg
  obtain ⟨s, _, hs⟩ := hg
  exact basicOf_ok hs

/-- every result group has as many offsets as its dimensions say. -/
theorem assemble_ok (ss : List Sel) (groups : List (List Nat × List Nat))
    (h : assemble ss = .ok groups) : ∀ g ∈ groups, g.2.length = g.1.prod := by
  unfold assemble at h
  simp only at h
  split at h
  · simp only [Except.ok.injEq] at h; subst h; exact filterMap_basicOf_ok ss
  · split at h
    · simp at h
    · rename_i B hB
      split at h
      · simp at h
      · rename_i cols hcols
        split at h
        · simp only [Except.ok.injEq] at h; subst h
          intro g hg
          simp only [List.mem_append, List.mem_cons] at hg
          rcases hg with hg | hg | hg
          · exact filterMap_basicOf_ok _ g hg
          · subst hg; simp
          · exact filterMap_basicOf_ok _ g hg
        · simp only [Except.ok.injEq] at h; subst h
          intro g hg
          simp only [List.mem_cons] at hg
          rcases hg with hg | hg
          · subst hg; simp
          · exact filterMap_basicOf_ok _ g hg

/-- **plan_size**: an index expression yields exactly `prod(result shape)` source positions. -/
theorem plan_size (shape : List Nat) (key : List Ix) (s idx : List Nat)
    (h : plan shape key = .ok (s, idx)) : idx.length = s.prod := by
  unfold plan at h
  split at h
  · simp at h
  · split at h
    · simp at h
    · split at h
      · simp at h
      · split at h
        · simp at h
        · rename_i groups hg
          simp only [Except.ok.injEq, Prod.mk.injEq] at h
          obtain ⟨rfl, rfl⟩ := h
          rw [outerSum_length, prod_flatten, List.map_map, List.map_map]
          congr 1
          apply List.map_congr_left
          intro g hgm
          exact assemble_ok _ _ hg g hgm

/-- indexing a well-formed array gives a well-formed array. -/
theorem getitem_WF (d : α) (a : NDArr α) (key : List Ix) (r : NDArr α)
    (h : NP.getitem d a key = .ok r) : r.WF := by
  unfold NP.getitem at h
  split at h
  · simp at h
  · rename_i s idx hp
    simp only [Except.ok.injEq] at h; subst h
    simp [NDArr.WF, gather_length, plan_size _ _ _ _ hp]

/-- the result shape and the exception depend on the shape and the key only, never on the data. -/
theorem getitem_shape_indep (d : α) (d' : β) (a : NDArr α) (b : NDArr β) (key : List Ix)
    (hs : a.shape = b.shape) :
    (∀ e, NP.getitem d a key = .error e ↔ NP.getitem d' b key = .error e) ∧
    (∀ r r', NP.getitem d a key = .ok r → NP.getitem d' b key = .ok r' → r.shape = r'.shape) := by
  unfold NP.getitem
  rw [hs]
  cases plan b.shape key with
  | error e => simp
  | ok v => obtain ⟨s, idx⟩ := v; simp

theorem sliceIdx_full (n : Nat) : sliceIdx n none none none = some (List.range n) := by
  unfold sliceIdx
  simp only [Option.getD_none]
  norm_num
  congr 1
  split <;> omega

theorem walk_full (s : List Nat) :
    walk s (List.replicate s.length fullSlice) = (fullOffs s).map fun o => .ok (.basic o) := by
  induction s with
  | nil => simp [walk, fullOffs]
  | cons n ns ih =>
    simp only [List.length_cons, List.replicate_succ, fullSlice, walk, fullOffs, List.map_cons]
    rw [sliceIdx_full]
    simp only [List.cons.injEq, true_and]
    exact ih

theorem boolsOk_full (s : List Nat) : boolsOk s (List.replicate s.length fullSlice) = true := by
  induction s with
  | nil => simp [boolsOk]
  | cons n ns ih =>
    simp only [List.length_cons, List.replicate_succ, fullSlice, boolsOk, Ix.consumes,
      List.drop_succ_cons, List.drop_zero]
    exact ih

theorem mapM_id_ok (l : List Sel) : (l.map fun s => (Except.ok s : Except PyErr Sel)).mapM id = .ok l := by
  induction l with
  | nil => rfl
  | cons a l ih => simp [List.mapM_cons, ih]; rfl

theorem filterMap_advOf_basic (l : List (List Nat)) : (l.map Sel.basic).filterMap advOf = [] := by
  induction l with
  | nil => rfl
  | cons a l ih => simp [List.filterMap_cons, advOf, ih]

theorem filterMap_basicOf_basic (l : List (List Nat)) :
    (l.map Sel.basic).filterMap basicOf = l.map fun o => ([o.length], o) := by
  induction l with
  | nil => rfl
  | cons a l ih => simp [basicOf, ih]

theorem filterMap_basicOf_basic' (l : List (List Nat)) :
    l.filterMap (basicOf ∘ Sel.basic) = l.map fun o => ([o.length], o) := by
  rw [← List.filterMap_map]; exact filterMap_basicOf_basic l

theorem dropWhile_isAdv_basic (l : List (List Nat)) :
    (l.map Sel.basic).dropWhile Sel.isAdv = l.map Sel.basic := by
  cases l <;> simp [Sel.isAdv]

theorem all_not_isAdv_basic (l : List (List Nat)) :
    (l.map Sel.basic).all (fun s => !s.isAdv) = true := by
  simp [Sel.isAdv]

theorem fullOffs_shape (s : List Nat) : ((fullOffs s).map fun o => [o.length]).flatten = s := by
  induction s with
  | nil => rfl
  | cons n ns ih => simp [fullOffs, ih]

theorem plan_int (n : Nat) (rest : List Nat) (j : Int) (h1 : -(n : Int) ≤ j) (h2 : j < n) :
    plan (n :: rest) [Ix.int j] = .ok (rest, (List.range rest.prod).map
        ((if j < 0 then j + n else j).toNat * rest.prod + ·)) := by
  have hexp : expandKey (n :: rest).length [Ix.int j]
      = .ok (Ix.int j :: List.replicate rest.length fullSlice) := by
    simp [expandKey, Ix.consumes, Ix.isEllipsis]
  have hany : boolsOk (n :: rest) (Ix.int j :: List.replicate rest.length fullSlice) = true := by
    simp only [boolsOk, Ix.consumes, List.drop_succ_cons, List.drop_zero]
    exact boolsOk_full rest
  have hwalk : walk (n :: rest) (Ix.int j :: List.replicate rest.length fullSlice)
      = .ok (.adv ⟨[], [j]⟩ n rest.prod) :: (fullOffs rest).map fun o => .ok (.basic o) := by
    simp only [walk, walk_full]
    simp [h1, h2]
  have hcol : (.ok (.adv ⟨[], [j]⟩ n rest.prod) :: (fullOffs rest).map fun o => (.ok (.basic o) : Except PyErr Sel)).mapM id
      = .ok (.adv ⟨[], [j]⟩ n rest.prod :: (fullOffs rest).map Sel.basic) := by
    have := mapM_id_ok (.adv ⟨[], [j]⟩ n rest.prod :: (fullOffs rest).map Sel.basic)
    simpa [List.map_map, Function.comp_def] using this
  have hadv : advCol [] ((⟨[], [j]⟩ : NDArr Int), n, rest.prod)
      = .ok [(if j < 0 then j + n else j).toNat * rest.prod] := by
    have hw : (NDArr.mk ([] : List Nat) [j]).WF := by simp [NDArr.WF]
    have hb := broadcastTo_self (0 : Int) ⟨[], [j]⟩ hw
    simp only at hb
    simp [advCol, hb, h1, h2]
  have hasm : assemble (.adv ⟨[], [j]⟩ n rest.prod :: (fullOffs rest).map Sel.basic)
      = .ok (([], [(if j < 0 then j + n else j).toNat * rest.prod]) ::
              (fullOffs rest).map fun o => ([o.length], o)) := by
    unfold assemble
    simp only [List.filterMap_cons, advOf, filterMap_advOf_basic, List.isEmpty_cons,
      Bool.false_eq_true, if_false, advShape, bshape_nil_nil, List.mapM_cons, List.mapM_nil, hadv]
    simp [List.takeWhile, List.dropWhile, Sel.isAdv, basicOf,
      dropWhile_isAdv_basic, pure, Except.pure, bind, Except.bind, filterMap_basicOf_basic']
  unfold plan
  rw [hexp]; simp only
  rw [hany, hwalk, hcol]; simp only [Bool.not_true, Bool.false_eq_true, if_false]
  rw [hasm]; simp only
  simp [List.map_map, Function.comp_def, fullOffs_shape, outerSum, outerSum_full]

theorem gather_chunk (d : α) (data : List α) (i m : Nat) (h : (i + 1) * m ≤ data.length) :
    gather d data ((List.range m).map (i * m + ·)) = (data.drop (i * m)).take m := by
  have h' : i * m + m ≤ data.length := by rw [Nat.succ_mul] at h; exact h
  apply List.ext_getElem
  · simp [gather]; omega
  · intro k h1 h2
    simp only [gather, List.length_map, List.length_range] at h1
    have hk : i * m + k < data.length := by omega
    simp [gather, List.getD_eq_getElem?_getD, hk]

theorem mapM_ok {ε β' γ' : Type} (f : β' → Except ε γ') (g : β' → γ') (l : List β')
    (h : ∀ a ∈ l, f a = .ok (g a)) : l.mapM f = .ok (l.map g) := by
  induction l with
  | nil => rfl
  | cons a l ih =>
    rw [List.mapM_cons, h a (by simp), ih (fun b hb => h b (by simp [hb]))]
    rfl

/-- `a[i]` for an in-range int is the `i`-th row. -/
theorem np_getitem_int (d : α) (a : NDArr α) (n : Nat) (rest : List Nat) (hs : a.shape = n :: rest)
    (hw : a.WF) (j : Int) (h1 : -(n : Int) ≤ j) (h2 : j < n) :
    NP.getitem d a [Ix.int j] =
      .ok ⟨rest, (a.data.drop ((if j < 0 then j + n else j).toNat * rest.prod)).take rest.prod⟩ := by
  unfold NP.getitem
  rw [hs, plan_int n rest j h1 h2]
  simp only [Except.ok.injEq, NDArr.mk.injEq, true_and]
  apply gather_chunk
  unfold NDArr.WF at hw
  rw [hw, hs, List.prod_cons]
  apply Nat.mul_le_mul_right
  split <;> omega

theorem rows_eq (a : NDArr α) (n : Nat) (rest : List Nat) (hs : a.shape = n :: rest) :
    rows a = (List.range n).map fun i => ⟨rest, (a.data.drop (i * rest.prod)).take rest.prod⟩ := by
  unfold rows; rw [hs]

/-- sanity of the indexing parameter: the empty key (`a[()]`, and likewise every key that only
consists of implied full slices) returns the array unchanged. -/
theorem np_getitem_nil (d : α) (a : NDArr α) (hw : a.WF) : NP.getitem d a [] = .ok a := by
  have hexp : expandKey a.shape.length [] = .ok (List.replicate a.shape.length fullSlice) := by
    simp [expandKey]
  have hany : boolsOk a.shape (List.replicate a.shape.length fullSlice) = true := boolsOk_full _
  have hcol : ((fullOffs a.shape).map fun o => (.ok (.basic o) : Except PyErr Sel)).mapM id
      = .ok ((fullOffs a.shape).map Sel.basic) := by
    have := mapM_id_ok ((fullOffs a.shape).map Sel.basic)
    simpa [List.map_map, Function.comp_def] using this
  have hasm : assemble ((fullOffs a.shape).map Sel.basic)
      = .ok ((fullOffs a.shape).map fun o => ([o.length], o)) := by
    unfold assemble
    simp only [filterMap_advOf_basic, List.isEmpty_nil, if_true, filterMap_basicOf_basic]
  unfold NP.getitem plan
  rw [hexp]; simp only
  rw [hany, walk_full, hcol]; simp only [Bool.not_true, Bool.false_eq_true, if_false]
  rw [hasm]; simp only
  simp only [List.map_map, Function.comp_def, fullOffs_shape, List.map_id', outerSum_full]
  rw [← hw, gather_range]

theorem zipWith_bcast_WF [Zero α] (f : α → α → α) (a b : NDArr α) (S : List Nat)
    (h : bshape a.shape b.shape = some S) :
    (NDArr.mk S (List.zipWith f (broadcastTo 0 a S).data (broadcastTo 0 b S).data)).WF := by
  obtain ⟨hl, -, -⟩ := bshape_spec h
  simp only [NDArr.WF, List.length_zipWith]
  rw [broadcastTo_length _ _ _ (by omega), broadcastTo_length _ _ _ (by omega), Nat.min_self]

theorem zip_zipWith (f : α → α → α) (A B C D : List α) (h1 : A.length = B.length)
    (h2 : C.length = D.length) (h3 : A.length = C.length) :
    List.zip (List.zipWith f A B) (List.zipWith f C D) =
      List.zipWith (fun u v => (f u.1 v.1, f u.2 v.2)) (List.zip A C) (List.zip B D) := by
  apply List.ext_getElem
  · simp [List.length_zip, List.length_zipWith]; omega
  · intro i _ _; simp

theorem zipWith_add_sub [Ring α] (A B : List α) (h : A.length = B.length) :
    List.zipWith (· - ·) (List.zipWith (· + ·) A B) B = A := by
  apply List.ext_getElem
  · simp [List.length_zipWith]; omega
  · intro i _ _; simp

theorem zipWith_sub_add [Ring α] (A B : List α) (h : A.length = B.length) :
    List.zipWith (· + ·) (List.zipWith (· - ·) A B) B = A := by
  apply List.ext_getElem
  · simp [List.length_zipWith]; omega
  · intro i _ _; simp

theorem broadcastTo_self' [Zero α] (a : NDArr α) (S : List Nat) (hs : a.shape = S) (hw : a.WF) :
    broadcastTo 0 a S = a := by subst hs; exact broadcastTo_self 0 a hw

theorem map_WF (f : α → α) (a : NDArr α) (h : a.WF) : (a.map f).WF := by
  simpa [NDArr.WF, NDArr.map] using h

/-! ### broadcast values, by multi-index -/

/-- flat (row-major) position of a multi-index in an array of the given shape. -/
def flatIdx : List Nat → List Nat → Nat
  | _ :: ns, i :: is => i * ns.prod + flatIdx ns is
  | _, _ => 0

/-- `mi` is a valid multi-index for `shape`. -/
def ValidIdx (mi shape : List Nat) : Prop := List.Forall₂ (· < ·) mi shape

/-- the source multi-index a broadcast reads: the same index where the (padded) source dimension
equals the target dimension, `0` where it is stretched. -/
def bproj : List Nat → List Nat → List Nat → List Nat
  | t :: ts, p :: ps, i :: is => (if p = t then i else 0) :: bproj ts ps is
  | _, _, _ => []

/-- the sum of the chosen offset of every group. -/
def pick : List (List Nat) → List Nat → Nat
  | l :: ls, i :: is => l.getD i 0 + pick ls is
  | _, _ => 0

theorem flatIdx_lt {mi shape : List Nat} (h : ValidIdx mi shape) : flatIdx shape mi < shape.prod := by
  induction h with
  | nil => simp [flatIdx]
  | @cons i n is ns hi _ ih =>
    simp only [flatIdx, List.prod_cons]
    calc i * ns.prod + flatIdx ns is < i * ns.prod + ns.prod := by omega
      _ = (i + 1) * ns.prod := by ring
      _ ≤ n * ns.prod := Nat.mul_le_mul_right _ hi

theorem flatMap_uniform_getElem? (l : List Nat) (g : Nat → List Nat) (M : Nat)
    (hg : ∀ a, (g a).length = M) (i j : Nat) (hi : i < l.length) (hj : j < M) :
    (l.flatMap g)[i * M + j]? = (g l[i])[j]? := by
  induction l generalizing i with
  | nil => simp at hi
  | cons a l ih =>
    rw [List.flatMap_cons]
    cases i with
    | zero =>
      simp only [Nat.zero_mul, Nat.zero_add, List.getElem_cons_zero]
      rw [List.getElem?_append_left (by rw [hg]; exact hj)]
    | succ i =>
      have : (i + 1) * M + j = (g a).length + (i * M + j) := by rw [hg]; ring
      rw [this, List.getElem?_append_right (by omega)]
      simp only [Nat.add_sub_cancel_left, List.getElem_cons_succ]
      exact ih i (by simpa using hi)

/-- the element of the row-major enumeration at a multi-index is the sum of the chosen offsets. -/
theorem outerSum_get (ls : List (List Nat)) (mi : List Nat)
    (hv : List.Forall₂ (fun i l => i < l.length) mi ls) :
    (outerSum ls)[flatIdx (ls.map List.length) mi]? = some (pick ls mi) := by
  induction hv with
  | nil => simp [outerSum, flatIdx, pick]
  | @cons i l is ls hi hrest ih =>
    have hvalid : ValidIdx is (ls.map List.length) := by
      unfold ValidIdx
      rw [List.forall₂_map_right_iff]
      exact hrest
    have hj := flatIdx_lt hvalid
    rw [← outerSum_length] at hj
    simp only [outerSum, List.map_cons, flatIdx, pick]
    rw [← outerSum_length]
    rw [flatMap_uniform_getElem? l _ (outerSum ls).length (by simp) i _ hi hj]
    rw [List.getElem?_map, ih]
    simp [List.getD_eq_getElem?_getD, hi]

theorem pick_bOffs {t p mi : List Nat} (hv : ValidIdx mi t) (hl : t.length = p.length) :
    pick (bOffs t p) mi = flatIdx p (bproj t p mi) := by
  induction hv generalizing p with
  | nil => cases p <;> simp [bOffs, pick, flatIdx, bproj]
  | @cons i n is ns hi _ ih =>
    cases p with
    | nil => simp at hl
    | cons q qs =>
      simp only [List.length_cons, Nat.add_right_cancel_iff] at hl
      simp only [bOffs, pick, bproj, flatIdx, ih hl]
      split <;> simp [List.getD_eq_getElem?_getD, hi]

/-- **the broadcast values**: the element of `np.broadcast_to(a, t)` at the multi-index `mi` is the
element of `a` at the same multi-index with the stretched positions set to 0 (in `a`'s shape
left-padded with 1s to the rank of `t`). -/
theorem broadcastTo_get (d : α) (a : NDArr α) (t mi : List Nat) (hv : ValidIdx mi t)
    (hr : a.shape.length ≤ t.length) :
    (broadcastTo d a t).data[flatIdx t mi]? =
      some (a.data.getD (flatIdx (pad t.length a.shape) (bproj t (pad t.length a.shape) mi)) d) := by
  have hl := (pad_length _ _ hr).symm
  have hlen := bOffs_lengths hl
  have hv' : List.Forall₂ (fun i l => i < l.length) mi (bOffs t (pad t.length a.shape)) := by
    have : ValidIdx mi ((bOffs t (pad t.length a.shape)).map List.length) := by rw [hlen]; exact hv
    unfold ValidIdx at this
    rwa [List.forall₂_map_right_iff] at this
  have := outerSum_get _ mi hv'
  rw [hlen] at this
  unfold broadcastTo gather
  simp only [List.getElem?_map, this, Option.map_some]
  rw [pick_bOffs hv hl]

end RegionsVerif.Lemmas.NDArr
