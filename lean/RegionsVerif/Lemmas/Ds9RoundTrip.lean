/-
One region through writer and reader: the per-region core of `Props/C09.ds9_roundtrip`.
-/
import RegionsVerif.Lemmas.Ds9Meta

namespace RegionsVerif.Impl.Ds9
open AL RegionsVerif.Impl.Dec RegionsVerif.Spec.C09

/-! ### decomposition of the writer -/

theorem serializeRegion_some {cfg : Cfg} {r : Region} {d : WLine} (h : serializeRegion cfg r = .ok (some d)) :
    r.shape ≠ .compound ∧ r.frame.ds9Name = some d.frame ∧ shapeParams r = .ok (d.shape, d.params) ∧
      translateToDs9 cfg r.shape r.text r.mta r.vis = .ok d.mta := by
  unfold serializeRegion at h
  split at h
  · split at h
    · simp at h
    · split at h <;> simp at h
  · rename_i hc
    split at h
    · split at h <;> simp at h
    · rename_i fn hfn
      split at h
      · simp at h
      · rename_i sh ps hsp
        split at h
        · simp at h
        · rename_i m hm
          simp only [Except.ok.injEq, Option.some.injEq] at h
          subst h
          exact ⟨hc, hfn, hsp, hm⟩

/-- a region is skipped exactly when DS9 cannot express it and the (repaired) writer skips. -/
theorem serializeRegion_none_iff (cfg : Cfg) (r : Region) :
    serializeRegion cfg r = .ok none ↔ cfg.skip = true ∧ ¬ Expressible r := by
  unfold serializeRegion Expressible
  by_cases hc : r.shape = .compound
  · simp only [if_pos hc]
    by_cases hs : cfg.skip = true
    · simp [hs, hc]
    · simp only [if_neg hs]
      split <;> simp [hs]
  · simp only [if_neg hc]
    cases hf : r.frame.ds9Name with
    | none =>
      by_cases hs : cfg.skip = true <;> simp [hs, hc]
    | some fn =>
      simp only
      constructor
      · intro h
        split at h
        · simp at h
        · split at h <;> simp at h
      · intro h
        exact absurd ⟨hc, by simp⟩ h.2

/-- an inexpressible region makes the unrepaired writer raise. -/
theorem serializeRegion_error_of_inexpressible (cfg : Cfg) (hs : cfg.skip = false) (r : Region)
    (h : ¬ Expressible r) : ∃ e, serializeRegion cfg r = .error e := by
  unfold serializeRegion
  unfold Expressible at h
  by_cases hc : r.shape = .compound
  · rw [if_pos hc]
    simp only [hs, Bool.false_eq_true, if_false]
    by_cases hf : r.frame = .image
    · exact ⟨_, by rw [if_pos hf]⟩
    · exact ⟨_, by rw [if_neg hf]⟩
  · simp only [if_neg hc]
    cases hf : r.frame.ds9Name with
    | none => simp [hs]
    | some fn => exact absurd ⟨hc, by simp [hf]⟩ h

theorem kept_eq_filter {cfg : Cfg} {rs : List Region} {ds : List WLine}
    (h : collect (serializeRegion cfg) rs = .ok ds) :
    kept (serializeRegion cfg) rs = rs.filter (fun r => decide (Expressible r)) := by
  induction rs generalizing ds with
  | nil => rfl
  | cons r rs ih =>
    unfold collect at h
    split at h
    · simp at h
    · rename_i hn
      have hx := (serializeRegion_none_iff cfg r).mp hn
      have : decide (Expressible r) = false := by simp [hx.2]
      rw [List.filter_cons_of_neg (by simp [this])]
      have hk : kept (serializeRegion cfg) (r :: rs) = kept (serializeRegion cfg) rs := by
        simp [kept, hn]
      rw [hk]
      exact ih h
    · rename_i d hd
      split at h
      · simp at h
      · rename_i ds' hds'
        have hx : Expressible r := by
          by_contra hne
          by_cases hs : cfg.skip = true
          · have := (serializeRegion_none_iff cfg r).mpr ⟨hs, hne⟩
            rw [this] at hd; simp at hd
          · obtain ⟨e, he⟩ := serializeRegion_error_of_inexpressible cfg (by simpa using hs) r hne
            rw [he] at hd; simp at hd
        rw [List.filter_cons_of_pos (by simp [hx])]
        have hk : kept (serializeRegion cfg) (r :: rs) = r :: kept (serializeRegion cfg) rs := by
          simp [kept, hd]
        rw [hk, ih hds']

/-- the pieces of a successful `serialize`. -/
theorem serialize_some {cfg : Cfg} {ord : List Key} {p : ℕ} {rs : List Region} {o : WOut}
    (h : serialize cfg ord p rs = .ok (some o)) :
    ∃ ds, collect (serializeRegion cfg) rs = .ok ds ∧ ds ≠ [] ∧
      o = ⟨p, hoist cfg ord (ds.map fun d => hoistable d.mta), commonFrame ds,
           ds.map (dropGlobal (hoist cfg ord (ds.map fun d => hoistable d.mta)))⟩ := by
  unfold serialize at h
  by_cases hrs : rs = []
  · simp [hrs] at h
  · rw [if_neg hrs] at h
    cases hc : collect (serializeRegion cfg) rs with
    | error e => simp [hc] at h
    | ok ds =>
      rw [hc] at h
      cases ds with
      | nil => simp at h
      | cons d ds' =>
        simp only [Except.ok.injEq, Option.some.injEq] at h
        exact ⟨d :: ds', rfl, by simp, h.symm⟩

theorem commonFrame_map (f : WLine → WLine) (hf : ∀ d, (f d).frame = d.frame) (ds : List WLine) :
    commonFrame (ds.map f) = commonFrame ds := by
  cases ds with
  | nil => rfl
  | cons d ds =>
    simp only [List.map_cons, commonFrame, hf, List.all_map, Function.comp_def]

/-! ### include / exclude -/

/-- `v` is not a bool. -/
def notBool : Option PyVal → Prop
  | some (.bool _) => False
  | _ => True
instance (v : Option PyVal) : Decidable (notBool v) := by unfold notBool; split <;> infer_instance

/-- the input classes on which the include sense survives (F4): the writer prints the flag with
`str()`, so a bool becomes `include=False` / `include=True`, which the reader drops as invalid
(⇒ included).  Hence: an `int` flag survives unless it is `0` and was hoisted into the `global`
line under the spelling of another region's `False` (`gInc` = the hoisted value); a bool flag
survives if it is `True`, or — with the repair `cfg.includeInt` — is written as `int`.
`gInc` must be an int or a bool (or absent). -/
def IncludeOK (cfg : Cfg) (gInc : Option PyVal) (r : Region) : Prop :=
  (match gInc with
   | none => True
   | some (.int _) => True
   | some (.bool _) => True
   | some _ => False) ∧
  match get r.mta .include with
  | none => True
  | some (.int n) => n ≠ 0 ∨ notBool gInc
  | some (.bool b) => (cfg.includeInt = true ∨ b = true) ∧ (b = true ∨ notBool gInc)
  | some _ => False

instance (cfg : Cfg) (gInc : Option PyVal) (r : Region) : Decidable (IncludeOK cfg gInc r) := by
  unfold IncludeOK
  refine @instDecidableAnd _ _ ?_ ?_
  · split <;> infer_instance
  · split <;> infer_instance

/-! ### one region -/

/-- what the property says about one region `r` and the region `r'` read back. -/
structure RoundTripped (cfg : Cfg) (gInc : Option PyVal) (sky : ℚ → ℚ) (p : ℕ) (r r' : Region) : Prop where
  /-- the reader accepted the printed sizes (F19) -/
  wellRounded : WellRounded sky p r
  shape : r'.shape = ds9Class r.shape
  frame : r'.frame = r.frame
  coords : r'.coords = r.coords.map (expCoord sky p (decide (r.frame = .image)))
  nums : r'.nums = expNums sky p (decide (r.frame = .image)) r.shape r.nums
  /-- the string of a text region -/
  text : ∀ s, r.text = some (.str s) → r'.text = some (.str s)
  text_none : r.text = none → r'.text = none
  /-- the DS9 label of any other region -/
  label : r.shape ≠ .text → ∀ s, get r.mta .text = some (.str s) → get r'.mta .text = some (.str s)
  label_none : get r.mta .text = none → get r'.mta .text = none
  tags : ∀ l, get r.mta .tag = some (.strs l) → get r'.mta .tag = if l = [] then none else some (.strs l)
  tags_none : get r.mta .tag = none → get r'.mta .tag = none
  incl : IncludeOK cfg gInc r → includeSense r' = includeSense r

section one
variable {g : Dict} {ms : List Dict} {dm : Dict} {raw : Dict}

theorem tag_not_global (hsound : HoistSound ms g) (hmem : hoistable dm ∈ ms) : Key.tag ∉ keys g :=
  fun hk => tag_not_hoistable dm (hoist_key_mem hsound hk hmem)

theorem raw_tag (hsound : HoistSound ms g) (hmem : hoistable dm ∈ ms) (hnd : (keys dm).Nodup)
    (h : defineRaw (gRead g) none (rawDict ((keys g).foldl AL.pop dm)) = .ok raw) :
    get raw .tag = ((get dm .tag).bind (rawItem .tag)).bind (rawConv .tag) := by
  rw [raw_get g dm raw hnd h, if_neg (tag_not_global hsound hmem)]
  cases (get dm .tag).bind (rawItem .tag) <;> simp

theorem raw_text (hsound : HoistSound ms g) (hmem : hoistable dm ∈ ms) (hnd : (keys dm).Nodup)
    (h : defineRaw (gRead g) none (rawDict ((keys g).foldl AL.pop dm)) = .ok raw)
    (s : Str) (hd : get dm .text = some (.str ('{' :: s ++ ['}']))) :
    get raw .text = some (.str s) := by
  rw [raw_get g dm raw hnd h]
  have hitem : rawItem .text (.str ('{' :: s ++ ['}'])) = some (RVal.str s) := by
    unfold rawItem
    rw [if_neg (by decide)]
    simp only [pyStr, stripVal_braced s]
  by_cases hk : Key.text ∈ keys g
  · rw [if_pos hk]
    obtain ⟨rv, hrv⟩ := gRead_isSome hk (by decide)
    obtain ⟨v, hv, hrv'⟩ := gRead_some hrv
    obtain ⟨v', hv', hs⟩ := hsound .text v hv _ hmem
    rw [get_hoistable dm .text (by decide), hd] at hv'
    simp only [Option.some.injEq] at hv'
    subst hv'
    have : v = .str ('{' :: s ++ ['}']) := PySame.str_left (PySame.symm hs)
    subst this
    rw [hitem] at hrv'
    simp only [Option.some.injEq] at hrv'
    subst hrv'
    rw [hrv]
    exact rawConv_text s
  · rw [if_neg hk, hd]
    simp only [Option.bind_some, hitem, Option.orElse_some]
    exact rawConv_text s

theorem raw_text_none (hsound : HoistSound ms g) (hmem : hoistable dm ∈ ms) (hnd : (keys dm).Nodup)
    (h : defineRaw (gRead g) none (rawDict ((keys g).foldl AL.pop dm)) = .ok raw)
    (hd : get dm .text = none) : get raw .text = none := by
  rw [raw_get g dm raw hnd h]
  have hk : Key.text ∉ keys g := by
    intro hk
    have := hoist_key_mem hsound hk hmem
    rw [← get_isSome_iff, get_hoistable dm .text (by decide), hd] at this
    simp at this
  rw [if_neg hk, hd]
  simp

/-- the reader's `include` of a region line: the hoisted value `v` (as the writer spelled it) when
the `global` line has one, else the line's own value, else the sign default `1`. -/
theorem raw_include (hnd : (keys dm).Nodup)
    (h : defineRaw (gRead g) none (rawDict ((keys g).foldl AL.pop dm)) = .ok raw) :
    get raw .include =
      if Key.include ∈ keys g then (get (gRead g) .include).bind (rawConv .include)
      else match get dm .include with
        | none => some (.int 1)
        | some v => rawConv .include (.str (stripVal (pyStr v))) := by
  rw [raw_get g dm raw hnd h]
  by_cases hk : Key.include ∈ keys g
  · simp only [if_pos hk]
  · simp only [if_neg hk, if_true]
    cases hd : get dm .include with
    | none => simp [rawConv_include_one]
    | some v => simp [rawItem]

end one

theorem includeSense_of_get {r : Region} : includeSense r =
    (match get r.mta .include with
     | some v => v.truthy
     | none => true) := rfl

/-- the per-region core of the round-trip theorem. -/
theorem region_roundtrip (cfg : Cfg) (sky : ℚ → ℚ) (p : ℕ) (g : Dict) (ms : List Dict)
    (r : Region) (d : WLine) (rd : RegionData) (r' : Region)
    (hwf : WF r) (hsound : HoistSound ms g) (hmem : hoistable d.mta ∈ ms)
    (hd : serializeRegion cfg r = .ok (some d))
    (hrd : rd.frame = d.frame ∧ rd.shape = d.shape ∧ rd.params = d.params.map (rnd sky p) ∧
      defineRaw (gRead g) none (rawDict ((keys g).foldl AL.pop d.mta)) = .ok rd.raw)
    (hmk : makeRegion rd.frame rd.shape rd.params rd.raw = .ok r') :
    RoundTripped cfg (get g .include) sky p r r' := by
  obtain ⟨hcomp, hfn, hsp, htr⟩ := serializeRegion_some hd
  obtain ⟨hfr, hsh, hps, hraw⟩ := hrd
  obtain ⟨_, hwt, hwl, hvt, hvx, hvi, hnm⟩ := hwf
  have hnd : (keys d.mta).Nodup := translate_nodup htr hnm
  obtain ⟨himg, hframe⟩ := ds9Name_image hfn
  obtain ⟨rs, cls, coords, nums, vis, hgeo, _, e1, e2, e3, e4, e5, e6, _⟩ := makeRegion_ok hmk
  rw [hfr, hsh, hps, himg, geometry_of_shapeParams sky p r d.shape d.params hsp] at hgeo
  have hwr : WellRounded sky p r := by
    by_contra hc
    rw [if_neg hc] at hgeo
    simp at hgeo
  rw [if_pos hwr] at hgeo
  simp only [Except.ok.injEq, Prod.mk.injEq] at hgeo
  obtain ⟨hrs, hcls, hco, hnu⟩ := hgeo
  -- lookups in the region read back
  have hmeta : ∀ k, k ∉ unsupportedMeta → k ∉ readerVisualKeys → (rs = .text → k ≠ .text) →
      get r'.mta k = get rd.raw k := by
    intro k h1 h2 h3
    rw [e6]
    by_cases ht : rs = RShape.text
    · rw [if_pos ht, get_pop_ne _ (h3 ht), get_splitRaw_meta _ _ h1 h2]
    · rw [if_neg ht, get_splitRaw_meta _ _ h1 h2]
  have hdtag : get d.mta .tag = get r.mta .tag := by
    rw [translate_get_tag htr, hvt]; rfl
  have hdtext : get d.mta .text =
      ((get r.mta .text).orElse (fun _ => r.text)).map (fun t => PyVal.str ('{' :: pyStr t ++ ['}'])) := by
    rw [translate_get_text htr, hvx]; rfl
  have hdinc : get d.mta .include =
      if cfg.includeInt = true then
        (get r.mta .include).bind (fun v => match pyInt v with
          | .ok n => some (.int n)
          | .error _ => none)
      else get r.mta .include := by
    rw [translate_get_include htr, hvi]; rfl
  have hrs_text : rs = .text ↔ r.shape = .text := by
    rw [← hrs]
    cases r.shape <;> simp [rshapeOf] at hcomp ⊢
  refine ⟨hwr, e1.trans hcls.symm, e2.trans (hfr ▸ hframe), e3.trans hco.symm, e4.trans hnu.symm,
    ?_, ?_, ?_, ?_, ?_, ?_, ?_⟩
  · -- text of a text region
    intro s hs
    have hshape : r.shape = .text := hwt.mpr (by simp [hs])
    have hdm : get d.mta .text = some (.str ('{' :: s ++ ['}'])) := by
      rw [hdtext, hwl hshape, hs]; rfl
    rw [e5, if_pos (hrs_text.mpr hshape), raw_text hsound hmem hnd hraw s hdm]
    rfl
  · -- no text for other regions
    intro hs
    have hshape : r.shape ≠ .text := fun h => by
      have := hwt.mp h
      rw [hs] at this; simp at this
    rw [e5, if_neg (fun h => hshape (hrs_text.mp h))]
  · -- label
    intro hshape s hs
    have hdm : get d.mta .text = some (.str ('{' :: s ++ ['}'])) := by
      rw [hdtext, hs]; rfl
    rw [hmeta .text (by decide) (by decide) (fun h => absurd (hrs_text.mp h) hshape)]
    exact raw_text hsound hmem hnd hraw s hdm
  · -- no label
    intro hs
    by_cases hshape : r.shape = .text
    · rw [e6, if_pos (hrs_text.mpr hshape)]
      simp
    · have hnone : r.text = none := by
        cases ht : r.text with
        | none => rfl
        | some t => exact absurd (hwt.mpr (by simp [ht])) hshape
      have hdm : get d.mta .text = none := by rw [hdtext, hs, hnone]; rfl
      rw [hmeta .text (by decide) (by decide) (fun h => absurd (hrs_text.mp h) hshape)]
      exact raw_text_none hsound hmem hnd hraw hdm
  · -- tags
    intro l hl
    rw [hmeta .tag (by decide) (by decide) (fun _ => by decide), raw_tag hsound hmem hnd hraw, hdtag, hl]
    simp only [Option.bind_some, rawItem, if_true, tagElems]
    cases l with
    | nil => simp
    | cons a t =>
      have hmap : (a :: t).map (fun s => stripVal ('{' :: s ++ ['}'])) = a :: t := by
        calc (a :: t).map (fun s => stripVal ('{' :: s ++ ['}'])) = (a :: t).map id :=
              List.map_congr_left (fun s _ => stripVal_braced s)
          _ = a :: t := List.map_id _
      simp only [hmap, Option.bind_some, rawConv_tags]
      simp
  · -- no tags
    intro hl
    rw [hmeta .tag (by decide) (by decide) (fun _ => by decide), raw_tag hsound hmem hnd hraw, hdtag, hl]
    rfl
  · -- include sense
    intro hok
    have hri : get r'.mta .include = get rd.raw .include :=
      hmeta .include (by decide) (by decide) (fun _ => by decide)
    rw [includeSense_of_get, includeSense_of_get, hri, raw_include hnd hraw]
    obtain ⟨hgok, hok⟩ := hok
    have hsense : ∀ n : Int, (match (if n = 0 ∨ n = 1 then some (PyVal.int n) else none) with
        | some v => v.truthy
        | none => true) = decide (n ≠ 0) := by
      intro n
      by_cases h0 : n = 0
      · subst h0; simp [PyVal.truthy]
      · by_cases h1 : n = 1
        · subst h1; simp [PyVal.truthy]
        · simp [h0, h1]
    by_cases hk : Key.include ∈ keys g
    · -- hoisted: the reader sees the spelling of the hoisted value `gv`
      rw [if_pos hk, get_gRead_of_ne_tag g .include (by decide)]
      obtain ⟨gv, hgv⟩ := Option.isSome_iff_exists.mp (get_isSome_iff.mpr hk)
      rw [hgv] at hgok hok ⊢
      simp only [Option.map_some, Option.bind_some]
      -- this region's written flag is Python-equal to it
      obtain ⟨w, hw, hs⟩ := hsound .include gv (get_mem hgv) _ hmem
      rw [get_hoistable d.mta .include (by decide), hdinc] at hw
      cases gv with
      | int m =>
        rw [rawConv_include_int, hsense]
        cases hown : get r.mta .include with
        | none => rw [hown] at hw; split at hw <;> simp at hw
        | some own =>
          rw [hown] at hw hok
          cases own with
          | int n =>
            have hwn : w = .int n := by
              split at hw
              · simpa [pyInt] using hw.symm
              · simpa using hw.symm
            subst hwn
            have := pySame_num_eq hs (x := (m : ℚ)) (y := (n : ℚ)) rfl rfl
            have hmn : m = n := by exact_mod_cast this
            subst hmn
            simp [PyVal.truthy]
          | bool b =>
            have hwn : w.num? = some (if b then 1 else 0) := by
              split at hw
              · have : w = .int (if b then 1 else 0) := by simpa [pyInt] using hw.symm
                subst this
                cases b <;> simp [PyVal.num?]
              · have : w = .bool b := by simpa using hw.symm
                subst this; rfl
            have := pySame_num_eq hs (x := (m : ℚ)) rfl hwn
            cases b
            · have hm : m = 0 := by
                simp only [Bool.false_eq_true, if_false] at this; exact_mod_cast this
              subst hm; simp [PyVal.truthy]
            · have hm : m = 1 := by
                simp only [if_true] at this; exact_mod_cast this
              subst hm; simp [PyVal.truthy]
          | _ => exact absurd hok (by simp)
      | bool b' =>
        rw [rawConv_include_bool]
        -- dropped as invalid ⇒ included: this region must be included
        cases hown : get r.mta .include with
        | none => rfl
        | some own =>
          rw [hown] at hok
          cases own with
          | int n =>
            rcases hok with h | h
            · simp [PyVal.truthy, h]
            · exact absurd h (by simp [notBool])
          | bool b =>
            rcases hok.2 with h | h
            · subst h; rfl
            · exact absurd h (by simp [notBool])
          | _ => exact absurd hok (by simp)
      | _ => exact absurd hgok (by simp)
    · -- not hoisted: the region's own written flag (or the sign default)
      rw [if_neg hk, hdinc]
      cases hown : get r.mta .include with
      | none =>
        simp only [Option.bind_none, ite_self]
        simp [PyVal.truthy]
      | some own =>
        rw [hown] at hok
        cases own with
        | int n =>
          have : (if cfg.includeInt = true then
              (some (PyVal.int n)).bind (fun v => match pyInt v with
                | .ok n => some (.int n)
                | .error _ => none) else some (PyVal.int n)) = some (.int n) := by
            split <;> rfl
          rw [this]
          simp only
          rw [rawConv_include_int, hsense]
          simp [PyVal.truthy]
        | bool b =>
          by_cases hci : cfg.includeInt = true
          · rw [if_pos hci]
            simp only [Option.bind_some, pyInt]
            rw [rawConv_include_int, hsense]
            cases b <;> simp [PyVal.truthy]
          · rw [if_neg hci]
            simp only
            rw [rawConv_include_bool]
            rcases hok.1 with h | h
            · exact absurd h hci
            · subst h; rfl
        | _ => exact absurd hok (by simp)

/-! ### list plumbing -/

theorem forall₂_chain {α β γ δ : Type} {R : α → β → Prop} {S : β → γ → Prop} {T : γ → δ → Prop}
    {Q : α → δ → Prop} (f : β → β) {as : List α} {bs : List β} {cs : List γ} {ds : List δ}
    (h1 : List.Forall₂ R as bs) (h2 : List.Forall₂ S (bs.map f) cs) (h3 : List.Forall₂ T cs ds)
    (hq : ∀ a b c d, a ∈ as → b ∈ bs → R a b → S (f b) c → T c d → Q a d) : List.Forall₂ Q as ds := by
  induction h1 generalizing cs ds with
  | nil =>
    simp only [List.map_nil, List.forall₂_nil_left_iff] at h2
    subst h2
    simp only [List.forall₂_nil_left_iff] at h3
    subst h3
    exact List.Forall₂.nil
  | @cons a b as bs hab _ ih =>
    rw [List.map_cons] at h2
    cases h2 with
    | cons hs h2' =>
      cases h3 with
      | cons ht h3' =>
        refine List.Forall₂.cons (hq a b _ _ List.mem_cons_self List.mem_cons_self hab hs ht) ?_
        exact ih h2' h3' (fun a' b' c' d' ha' hb' =>
          hq a' b' c' d' (List.mem_cons_of_mem _ ha') (List.mem_cons_of_mem _ hb'))

theorem forall₂_exists_left {α β : Type} {R : α → β → Prop} {as : List α} {bs : List β}
    (h : List.Forall₂ R as bs) {b : β} (hb : b ∈ bs) : ∃ a, a ∈ as ∧ R a b := by
  induction h with
  | nil => simp at hb
  | @cons a b' as bs hab _ ih =>
    rcases List.mem_cons.mp hb with rfl | hb'
    · exact ⟨a, List.mem_cons_self, hab⟩
    · obtain ⟨a0, ha0, h0⟩ := ih hb'
      exact ⟨a0, List.mem_cons_of_mem _ ha0, h0⟩

end RegionsVerif.Impl.Ds9
