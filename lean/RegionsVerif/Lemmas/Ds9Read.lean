/-
Lemmas about hoisting (writer) and the line / raw-metadata layer of the reader of
`Impl/Ds9.lean`.
-/
import RegionsVerif.Lemmas.Ds9Write

namespace RegionsVerif.Impl.Ds9
open AL RegionsVerif.Impl.Dec

/-! ### Python `==` is symmetric and transitive on metadata values -/

theorem pyEq_iff (a b : PyVal) :
    pyEq a b = true ↔
      (∃ x, a.num? = some x ∧ b.num? = some x) ∨
      (a.num? = none ∧ b.num? = none ∧ (∀ r, a ≠ .special r) ∧ a = b) := by
  unfold pyEq
  cases ha : a.num? with
  | some x =>
    cases hb : b.num? with
    | some y =>
      simp only [decide_eq_true_eq]
      constructor
      · intro h; subst h; exact Or.inl ⟨x, rfl, rfl⟩
      · rintro (⟨z, h1, h2⟩ | ⟨h1, _⟩)
        · simp only [Option.some.injEq] at h1 h2; rw [h1, h2]
        · simp at h1
    | none =>
      simp only [Bool.false_eq_true, false_iff, not_or, not_exists, not_and]
      exact ⟨fun z _ h => by simp at h, fun h => by simp at h⟩
  | none =>
    cases hb : b.num? with
    | some y =>
      simp only [Bool.false_eq_true, false_iff, not_or, not_exists, not_and]
      exact ⟨fun z h => by simp at h, fun _ h => by simp at h⟩
    | none =>
      constructor
      · intro h
        refine Or.inr ⟨rfl, rfl, ?_, ?_⟩
        · intro r hr; subst hr; simp at h
        · cases a <;> simp_all
      · rintro (⟨z, h1, _⟩ | ⟨_, _, h3, h4⟩)
        · simp at h1
        · subst h4
          cases a <;> simp_all

theorem pyEq_symm {a b : PyVal} (h : pyEq a b = true) : pyEq b a = true := by
  rw [pyEq_iff] at h ⊢
  rcases h with ⟨x, h1, h2⟩ | ⟨h1, h2, h3, h4⟩
  · exact Or.inl ⟨x, h2, h1⟩
  · subst h4; exact Or.inr ⟨h1, h1, h3, rfl⟩

theorem pyEq_trans {a b c : PyVal} (h1 : pyEq a b = true) (h2 : pyEq b c = true) : pyEq a c = true := by
  rw [pyEq_iff] at h1 h2 ⊢
  rcases h1 with ⟨x, ha, hb⟩ | ⟨ha, hb, hs, rfl⟩
  · rcases h2 with ⟨y, hb', hc⟩ | ⟨hb', _, _, _⟩
    · rw [hb] at hb'; simp only [Option.some.injEq] at hb'; subst hb'
      exact Or.inl ⟨x, ha, hc⟩
    · rw [hb] at hb'; simp at hb'
  · rcases h2 with ⟨y, hb', hc⟩ | ⟨_, hc, _, rfl⟩
    · rw [ha] at hb'; simp at hb'
    · exact Or.inr ⟨ha, hc, hs, rfl⟩

/-- equal as Python values (identical, or `==`). -/
def PySame (a b : PyVal) : Prop := a = b ∨ pyEq a b = true

theorem PySame.refl (a : PyVal) : PySame a a := Or.inl rfl

theorem PySame.symm {a b : PyVal} (h : PySame a b) : PySame b a := by
  rcases h with h | h
  · exact Or.inl h.symm
  · exact Or.inr (pyEq_symm h)

theorem PySame.trans {a b c : PyVal} (h1 : PySame a b) (h2 : PySame b c) : PySame a c := by
  rcases h1 with rfl | h1
  · exact h2
  · rcases h2 with rfl | h2
    · exact Or.inr h1
    · exact Or.inr (pyEq_trans h1 h2)

theorem pySame_num_eq {a b : PyVal} (h : PySame a b) {x y : ℚ} (ha : a.num? = some x) (hb : b.num? = some y) :
    x = y := by
  rcases h with rfl | h
  · rw [ha] at hb; simpa using hb
  · rw [pyEq_iff] at h
    rcases h with ⟨z, h1, h2⟩ | ⟨h1, _⟩
    · rw [ha] at h1; rw [hb] at h2
      simp only [Option.some.injEq] at h1 h2
      rw [h1, h2]
    · rw [ha] at h1; simp at h1

theorem PySame.str_left {s : Str} {v : PyVal} (h : PySame (.str s) v) : v = .str s := by
  rcases h with h | h
  · exact h.symm
  · exact pyEq_str_left h

/-! ### hoisting is sound: a `global` item is (Python-)equal to every region's own item -/

def HoistSound (ms : List Dict) (g : Dict) : Prop :=
  ∀ k v, (k, v) ∈ g → ∀ m ∈ ms, ∃ v', get m k = some v' ∧ PySame v v'

theorem itemEq_iff (a b : Key × PyVal) : itemEq a b = true ↔ a.1 = b.1 ∧ pyEq a.2 b.2 = true := by
  simp [itemEq]

/-- invariant of the running intersection: every item has a Python-equal partner in every set
processed so far. -/
def InterInv (P : List Dict) (R : Dict) : Prop :=
  ∀ kv ∈ R, ∀ m ∈ P, ∃ v', (kv.1, v') ∈ m ∧ PySame kv.2 v'

theorem interCur_inv (P : List Dict) (R S : Dict) (h : InterInv P R) : InterInv (S :: P) (interCur R S) := by
  intro kv hkv m hm
  unfold interCur at hkv
  split at hkv
  · -- items of R that have a partner in S
    obtain ⟨hR, hany⟩ := List.mem_filter.mp hkv
    rcases List.mem_cons.mp hm with rfl | hmP
    · obtain ⟨x, hx, hxe⟩ := List.any_eq_true.mp hany
      rw [itemEq_iff] at hxe
      exact ⟨x.2, by rw [hxe.1]; exact hx, Or.inr hxe.2⟩
    · exact h kv hR m hmP
  · -- items of S that have a partner in R
    obtain ⟨hS, hany⟩ := List.mem_filter.mp hkv
    rcases List.mem_cons.mp hm with rfl | hmP
    · exact ⟨kv.2, hS, PySame.refl _⟩
    · obtain ⟨x, hx, hxe⟩ := List.any_eq_true.mp hany
      rw [itemEq_iff] at hxe
      obtain ⟨v', hv', hs⟩ := h x hx m hmP
      exact ⟨v', by rw [hxe.1]; exact hv', PySame.trans (Or.inr hxe.2) hs⟩

theorem foldl_interCur_inv (rest : List Dict) (P : List Dict) (R : Dict) (h : InterInv P R) :
    ∀ kv ∈ rest.foldl interCur R, ∀ m, (m ∈ P ∨ m ∈ rest) → ∃ v', (kv.1, v') ∈ m ∧ PySame kv.2 v' := by
  induction rest generalizing P R with
  | nil =>
    intro kv hkv m hm
    rcases hm with hm | hm
    · exact h kv hkv m hm
    · simp at hm
  | cons S rest ih =>
    intro kv hkv m hm
    rw [List.foldl_cons] at hkv
    refine ih (S :: P) (interCur R S) (interCur_inv P R S h) kv hkv m ?_
    rcases hm with hm | hm
    · exact Or.inl (List.mem_cons_of_mem _ hm)
    · rcases List.mem_cons.mp hm with rfl | hm
      · exact Or.inl List.mem_cons_self
      · exact Or.inr hm

theorem mem_reorder {ord : List Key} {g : Dict} {kv : Key × PyVal} (h : kv ∈ reorder ord g) : kv ∈ g := by
  unfold reorder at h
  rcases List.mem_append.mp h with h | h
  · obtain ⟨k, _, hk⟩ := List.mem_filterMap.mp h
    cases hg : get g k with
    | none => simp [hg] at hk
    | some v =>
      simp only [hg, Option.map_some, Option.some.injEq] at hk
      subst hk
      exact get_mem hg
  · exact (List.mem_filter.mp h).1

theorem hoist_sound (cfg : Cfg) (ord : List Key) (ms : List Dict) (hn : ∀ m ∈ ms, (keys m).Nodup) :
    HoistSound ms (hoist cfg ord ms) := by
  cases ms with
  | nil => intro k v h; simp [hoist] at h
  | cons m0 rest =>
    intro k v hkv m hm
    simp only [hoist] at hkv
    by_cases hc : cfg.orderedGlobal = true
    · -- first region's order
      rw [if_pos hc] at hkv
      obtain ⟨hm0, hcond⟩ := List.mem_filter.mp hkv
      rcases List.mem_cons.mp hm with rfl | hmr
      · exact ⟨v, get_of_mem (hn _ List.mem_cons_self) hm0, PySame.refl _⟩
      · have := List.all_eq_true.mp hcond m hmr
        simp only at this
        split at this
        · rename_i v' hv'
          exact ⟨v', hv', PySame.symm (Or.inr this)⟩
        · simp at this
    · -- hash-set intersection
      rw [if_neg hc] at hkv
      have hkv' := mem_reorder hkv
      have hinv : InterInv [m0] m0 := by
        intro kv hkv m hm
        simp only [List.mem_singleton] at hm
        subst hm
        exact ⟨kv.2, hkv, PySame.refl _⟩
      obtain ⟨v', hv', hs⟩ := foldl_interCur_inv rest [m0] m0 hinv (k, v) hkv' m (by
        rcases List.mem_cons.mp hm with rfl | h
        · exact Or.inl (by simp)
        · exact Or.inr h)
      exact ⟨v', get_of_mem (hn m hm) hv', hs⟩

/-! ### the hash order only permutes the `global` line -/

theorem get_reorder_first (ord : List Key) (g : Dict) (k : Key) :
    get (ord.filterMap fun k' => (get g k').map fun v => (k', v)) k = if k ∈ ord then get g k else none := by
  induction ord with
  | nil => simp
  | cons k0 ord ih =>
    rw [List.filterMap_cons]
    cases hg0 : get g k0 with
    | none =>
      simp only [Option.map_none]
      rw [ih]
      by_cases hin : k ∈ ord
      · simp [hin]
      · by_cases h0 : k = k0
        · subst h0; simp [hg0, hin]
        · simp [hin, h0]
    | some v0 =>
      simp only [Option.map_some]
      rw [get_cons, ih]
      by_cases hin : k ∈ ord
      · simp only [if_pos hin, List.mem_cons, hin, or_true, if_true]
        cases hgk : get g k with
        | some x => simp
        | none =>
          simp only [Option.orElse_none]
          by_cases h0 : k0 = k
          · subst h0; rw [hg0] at hgk; simp at hgk
          · simp [h0]
      · simp only [if_neg hin, Option.orElse_none, List.mem_cons, hin, or_false]
        by_cases h0 : k0 = k
        · subst h0; simp [hg0]
        · have : ¬ k = k0 := fun h => h0 h.symm
          simp [h0, this]

theorem get_reorder (ord : List Key) (g : Dict) (k : Key) : get (reorder ord g) k = get g k := by
  unfold reorder
  rw [get_append, get_reorder_first]
  have hsecond := get_filter_key (fun k => decide (k ∉ ord)) g k
  simp only [decide_eq_true_eq] at hsecond
  rw [hsecond]
  by_cases hk : k ∈ ord
  · simp [hk]
  · simp only [hk, not_false_eq_true, if_true, if_false]
    cases get g k <;> rfl

theorem mem_keys_reorder (ord : List Key) (g : Dict) (k : Key) : k ∈ keys (reorder ord g) ↔ k ∈ keys g := by
  rw [← get_isSome_iff, ← get_isSome_iff, get_reorder]

theorem foldl_pop_eq_filter (ks : List Key) (d : Dict) :
    ks.foldl AL.pop d = d.filter (fun kv => decide (kv.1 ∉ ks)) := by
  induction ks generalizing d with
  | nil => simp
  | cons k ks ih =>
    rw [List.foldl_cons, ih]
    unfold AL.pop
    rw [List.filter_filter]
    congr 1
    funext kv
    simp only [List.mem_cons, not_or, Bool.decide_and, ne_eq]
    rw [Bool.and_comm]


/-- keys of the `global` line are keys of every region's hoistable metadata. -/
theorem hoist_key_mem {ms : List Dict} {g : Dict} (h : HoistSound ms g) {k : Key} (hk : k ∈ keys g)
    {m : Dict} (hm : m ∈ ms) : k ∈ keys m := by
  obtain ⟨kv, hkv, rfl⟩ := List.mem_map.mp hk
  obtain ⟨v', hv', _⟩ := h kv.1 kv.2 hkv m hm
  exact get_isSome_iff.mp (by simp [hv'])

theorem hoistable_nodup (m : Dict) (h : (keys m).Nodup) : (keys (hoistable m)).Nodup := by
  unfold hoistable
  nodup_tac

theorem tag_not_hoistable (m : Dict) : Key.tag ∉ keys (hoistable m) := by
  unfold hoistable
  simp [mem_keys_pop]

theorem get_hoistable (m : Dict) (k : Key) (h1 : k ≠ .tag) : get (hoistable m) k = get m k := by
  unfold hoistable
  simp [get_pop, h1]

theorem get_popKeys (ks : List Key) (d : Dict) (k : Key) :
    get (ks.foldl AL.pop d) k = if k ∈ ks then none else get d k := by
  induction ks generalizing d with
  | nil => simp
  | cons k0 ks ih =>
    rw [List.foldl_cons, ih, get_pop]
    by_cases h1 : k ∈ ks
    · simp [h1]
    · by_cases h2 : k = k0
      · simp [h2]
      · simp [h1, h2]

theorem nodup_popKeys (ks : List Key) (d : Dict) (h : (keys d).Nodup) : (keys (ks.foldl AL.pop d)).Nodup := by
  induction ks generalizing d with
  | nil => exact h
  | cons k0 ks ih => exact ih _ (nodup_pop k0 h)

/-! ### `_make_meta_str` + `_parse_metadata` item by item (`rawDict`) -/

/-- one item as the reader's regular expression delivers it. -/
def rawItem (k : Key) (v : PyVal) : Option RVal :=
  if k = .tag then
    (match tagElems v with
     | [] => none
     | l => some (RVal.tags (l.map fun s => stripVal ('{' :: s ++ ['}']))))
  else some (RVal.str (stripVal (pyStr v)))

theorem rawDict_eq (m : Dict) :
    rawDict m = m.filterMap (fun kv => (rawItem kv.1 kv.2).map (fun rv => (kv.1, rv))) := by
  unfold rawDict
  congr 1
  funext kv
  unfold rawItem
  by_cases h : kv.1 = .tag
  · simp only [if_pos h]
    cases tagElems kv.2 <;> simp [h]
  · simp [if_neg h]

section filterMap
variable {β γ : Type}

theorem keys_filterMap_sublist (f : Key → β → Option γ) (d : List (Key × β)) :
    (keys (d.filterMap (fun kv => (f kv.1 kv.2).map (fun x => (kv.1, x))))).Sublist (keys d) := by
  induction d with
  | nil => simp [keys]
  | cons kv d ih =>
    unfold keys at *
    rw [List.filterMap_cons]
    cases h : f kv.1 kv.2 with
    | none => simp only [Option.map_none, List.map_cons]; exact ih.cons _
    | some x => simp only [Option.map_some, List.map_cons]; exact ih.cons_cons _

theorem get_filterMap_key (f : Key → β → Option γ) (d : List (Key × β)) (hn : (keys d).Nodup) (k : Key) :
    get (d.filterMap (fun kv => (f kv.1 kv.2).map (fun x => (kv.1, x)))) k = (get d k).bind (f k) := by
  induction d with
  | nil => simp
  | cons kv d ih =>
    obtain ⟨k0, v0⟩ := kv
    have hn' : (keys d).Nodup ∧ k0 ∉ keys d := by
      simp only [keys, List.map_cons, List.nodup_cons] at hn
      exact ⟨hn.2, hn.1⟩
    rw [List.filterMap_cons, get_cons]
    by_cases hk : k0 = k
    · subst hk
      have hd : get d k0 = none := get_eq_none_iff.mpr hn'.2
      have hd' : get (d.filterMap (fun kv => (f kv.1 kv.2).map (fun x => (kv.1, x)))) k0 = none := by
        apply get_eq_none_iff.mpr
        intro hc
        exact hn'.2 ((keys_filterMap_sublist f d).subset hc)
      cases h : f k0 v0 with
      | none => simp [h, hd, hd']
      | some x => simp [h, hd, get_cons, hd']
    · cases h : f k0 v0 with
      | none => simp [h, ih hn'.1, hk]
      | some x =>
        simp only [h, Option.map_some]
        rw [get_cons, ih hn'.1]
        cases get d k <;> simp [hk]

end filterMap

theorem get_rawDict (m : Dict) (hn : (keys m).Nodup) (k : Key) :
    get (rawDict m) k = (get m k).bind (rawItem k) := by
  rw [rawDict_eq]; exact get_filterMap_key rawItem m hn k

theorem nodup_rawDict (m : Dict) (hn : (keys m).Nodup) : (keys (rawDict m)).Nodup := by
  rw [rawDict_eq]; exact (keys_filterMap_sublist rawItem m).nodup hn

/-! ### `_define_raw_metadata` -/

/-- what becomes of one raw item: `none` = dropped as invalid. -/
def rawConv (k : Key) (rv : RVal) : Option PyVal :=
  match invalidItem k (convertVal k rv) with
  | .ok false => some (convertVal k rv)
  | _ => none

theorem defineRawAux_spec (d : RDict) (raw : Dict) (hn : (keys d).Nodup)
    (h : defineRawAux d = .ok raw) :
    (∀ k, get raw k = (get d k).bind (rawConv k)) ∧ (keys raw).Sublist (keys d) := by
  induction d generalizing raw with
  | nil =>
    simp only [defineRawAux, Except.ok.injEq] at h
    subst h
    exact ⟨fun k => rfl, List.Sublist.refl _⟩
  | cons kv d ih =>
    obtain ⟨k0, rv0⟩ := kv
    have hn' : (keys d).Nodup ∧ k0 ∉ keys d := by
      simp only [keys, List.map_cons, List.nodup_cons] at hn
      exact ⟨hn.2, hn.1⟩
    unfold defineRawAux at h
    simp only at h
    split at h
    · simp at h
    · rename_i inv hinv
      split at h
      · simp at h
      · rename_i raw' hraw'
        simp only [Except.ok.injEq] at h
        obtain ⟨ihg, ihs⟩ := ih raw' hn'.1 hraw'
        have hnone : get d k0 = none := get_eq_none_iff.mpr hn'.2
        have hnone' : get raw' k0 = none := get_eq_none_iff.mpr (fun hc => hn'.2 (ihs.subset hc))
        subst h
        constructor
        · intro k
          rw [get_cons]
          by_cases hk : k0 = k
          · subst hk
            rw [hnone]
            cases inv with
            | true => simp [hnone', rawConv, hinv]
            | false => simp [get_cons, hnone', rawConv, hinv]
          · cases inv with
            | true =>
              simp only [if_true]
              rw [ihg k]
              cases get d k <;> simp [hk]
            | false =>
              simp only [Bool.false_eq_true, if_false]
              rw [get_cons, ihg k]
              cases get d k <;> simp [hk]
        · cases inv with
          | true => simp only [if_true]; exact ihs.cons _
          | false =>
            simp only [Bool.false_eq_true, if_false, keys, List.map_cons]
            exact List.Sublist.cons_cons _ ihs

/-- the dictionary `_define_raw_metadata` iterates over has no repeated key when the running
`global` dictionary has none. -/
theorem nodup_all (g : RDict) (inc : RDict) (loc : RDict) (hg : (keys g).Nodup) :
    (keys (AL.update (AL.update g inc) loc)).Nodup := by
  nodup_tac

theorem defineRaw_get (g : RDict) (sign : Option Bool) (loc : RDict) (raw : Dict)
    (hg : (keys g).Nodup) (h : defineRaw g sign loc = .ok raw) (k : Key) :
    get raw k =
      (((get loc k).orElse (fun _ =>
          (get (includeMeta g sign) k).orElse (fun _ => get g k)))).bind (rawConv k) := by
  unfold defineRaw at h
  rw [(defineRawAux_spec _ raw (nodup_all g _ loc hg) h).1 k, get_update, get_update]

/-! ### the line layer: `rawData` on `toRaw` -/

/-- the rounded numbers of one line. -/
def lineNums (sky : ℚ → ℚ) (p : ℕ) (l : WLine) : List ℚ :=
  l.params.map fun w => if w.astro then sky w.val else roundTo p w.val

/-- what `_parse_raw_data` makes of the writer's region lines, given the `global` dictionary. -/
def expectRaw (sky : ℚ → ℚ) (p : ℕ) (G : RDict) : List WLine → Except String (List RegionData)
  | [] => .ok []
  | l :: ls =>
    match defineRaw G none (rawDict l.mta) with
    | .error e => .error e
    | .ok raw =>
      match expectRaw sky p G ls with
      | .error e => .error e
      | .ok ds => .ok (⟨l.frame, l.shape, lineNums sky p l, raw⟩ :: ds)

theorem rawData_global_frame (sky : ℚ → ℚ) (p : ℕ) (G : RDict) (gf : FName)
    (ls : List WLine) (h : ∀ l ∈ ls, l.frame = gf) :
    rawData G (some gf)
      (ls.flatMap fun l => [RLine.shape none l.shape (lineNums sky p l) (rawDict l.mta)]) =
    expectRaw sky p G ls := by
  induction ls with
  | nil => simp [rawData, expectRaw]
  | cons l ls ih =>
    rw [List.flatMap_cons, List.singleton_append, rawData.eq_def]
    simp only
    rw [expectRaw, ih (fun l' hl' => h l' (List.mem_cons_of_mem _ hl')), h l List.mem_cons_self]
    cases defineRaw G none (rawDict l.mta) with
    | error e => rfl
    | ok raw => cases expectRaw sky p G ls <;> rfl

theorem rawData_line_frames (sky : ℚ → ℚ) (p : ℕ) (G : RDict) (f0 : Option FName)
    (ls : List WLine) :
    rawData G f0
      (ls.flatMap fun l =>
        [RLine.frame l.frame, RLine.shape none l.shape (lineNums sky p l) (rawDict l.mta)]) =
    expectRaw sky p G ls := by
  induction ls generalizing f0 with
  | nil => simp [rawData, expectRaw]
  | cons l ls ih =>
    rw [List.flatMap_cons]
    show rawData G f0 (RLine.frame l.frame :: RLine.shape none l.shape (lineNums sky p l) (rawDict l.mta)
      :: _) = _
    rw [rawData.eq_def]
    simp only
    rw [rawData.eq_def]
    simp only [List.append_eq, List.nil_append]
    rw [expectRaw, ih]
    cases defineRaw G none (rawDict l.mta) with
    | error e => rfl
    | ok raw => cases expectRaw sky p G ls <;> rfl

theorem commonFrame_some {ls : List WLine} {f : FName} (h : commonFrame ls = some f) :
    ∀ l ∈ ls, l.frame = f := by
  cases ls with
  | nil => simp [commonFrame] at h
  | cons l0 ls =>
    simp only [commonFrame] at h
    by_cases hall : (ls.all fun l' => decide (l'.frame = l0.frame)) = true
    · rw [if_pos hall] at h
      simp only [Option.some.injEq] at h
      subst h
      intro l hl
      rcases List.mem_cons.mp hl with rfl | hl
      · rfl
      · have := List.all_eq_true.mp hall l hl
        simpa using this
    · rw [if_neg hall] at h
      simp at h

/-- the `global` dictionary the reader holds after the header of `toRaw o`. -/
def readGlobal (o : WOut) : RDict := if o.global = [] then [] else AL.update [] (rawDict o.global)

theorem readGlobal_nodup (o : WOut) : (keys (readGlobal o)).Nodup := by
  unfold readGlobal
  split
  · simp [keys]
  · apply nodup_update; simp [keys]

theorem rawData_toRaw (sky : ℚ → ℚ) (o : WOut) (hf : o.gframe = commonFrame o.lines) :
    rawData [] none (toRaw sky o) = expectRaw sky o.prec (readGlobal o) o.lines := by
  unfold toRaw readGlobal
  cases hg : o.gframe with
  | none =>
    simp only [List.append_nil, List.nil_append]
    by_cases hgl : o.global = []
    · simp only [if_pos hgl, List.nil_append]
      exact rawData_line_frames sky o.prec [] none o.lines
    · simp only [if_neg hgl, List.singleton_append]
      rw [rawData.eq_def]
      simp only
      exact rawData_line_frames sky o.prec _ none o.lines
  | some gf =>
    have hall := commonFrame_some (hf ▸ hg).symm.symm
    simp only [List.nil_append]
    by_cases hgl : o.global = []
    · simp only [if_pos hgl, List.nil_append, List.singleton_append]
      rw [rawData.eq_def]
      simp only
      exact rawData_global_frame sky o.prec [] gf o.lines hall
    · simp only [if_neg hgl, List.singleton_append, List.cons_append, List.nil_append]
      rw [rawData.eq_def]
      simp only
      rw [rawData.eq_def]
      simp only
      exact rawData_global_frame sky o.prec _ gf o.lines hall

theorem expectRaw_forall₂ (sky : ℚ → ℚ) (p : ℕ) (G : RDict) (ls : List WLine)
    (rd : List RegionData) (h : expectRaw sky p G ls = .ok rd) :
    List.Forall₂ (fun l d => d.frame = l.frame ∧ d.shape = l.shape ∧ d.params = lineNums sky p l ∧
      defineRaw G none (rawDict l.mta) = .ok d.raw) ls rd := by
  induction ls generalizing rd with
  | nil =>
    simp only [expectRaw, Except.ok.injEq] at h
    subst h; exact List.Forall₂.nil
  | cons l ls ih =>
    unfold expectRaw at h
    split at h
    · simp at h
    · rename_i raw hraw
      split at h
      · simp at h
      · rename_i ds hds
        simp only [Except.ok.injEq] at h
        subst h
        exact List.Forall₂.cons ⟨rfl, rfl, rfl, hraw⟩ (ih ds hds)

theorem makeAll_forall₂ (rd : List RegionData) (out : List Region) (h : makeAll rd = .ok out) :
    List.Forall₂ (fun d r => makeRegion d.frame d.shape d.params d.raw = .ok r) rd out := by
  induction rd generalizing out with
  | nil =>
    simp only [makeAll, Except.ok.injEq] at h
    subst h; exact List.Forall₂.nil
  | cons d ds ih =>
    unfold makeAll at h
    split at h
    · simp at h
    · rename_i r hr
      split at h
      · simp at h
      · rename_i rs hrs
        simp only [Except.ok.injEq] at h
        subst h
        exact List.Forall₂.cons hr (ih rs hrs)

end RegionsVerif.Impl.Ds9
