/-
Lemmas about the decimal printer / reader of `Impl/Decimal.lean`:
`pyFloat (fmt p x) = some (fin (roundTo p x))`, `|roundTo p x − x| ≤ ½·10⁻ᵖ`,
`roundTo p x = x` on `p`-decimals.
-/
import RegionsVerif.Impl.Decimal
import Mathlib.Tactic.NormNum
import Mathlib.Tactic.Push

namespace RegionsVerif.Impl.Dec

/-! ### round half even -/

theorem rhe_err (y : ℚ) (hy : 0 ≤ y) : |(rhe y : ℚ) - y| ≤ 1 / 2 := by
  have hf0 : 0 ≤ ⌊y⌋ := Int.floor_nonneg.mpr hy
  have hcast : ((⌊y⌋.toNat : ℕ) : ℚ) = (⌊y⌋ : ℚ) := by
    have : ((⌊y⌋.toNat : ℕ) : ℤ) = ⌊y⌋ := Int.toNat_of_nonneg hf0
    exact_mod_cast congrArg (fun z : ℤ => (z : ℚ)) this
  have h1 : (⌊y⌋ : ℚ) ≤ y := Int.floor_le y
  have h2 : y < (⌊y⌋ : ℚ) + 1 := Int.lt_floor_add_one y
  unfold rhe
  simp only
  rw [hcast]
  split_ifs with ha hb hc
  · rw [hcast, abs_le]; constructor <;> linarith
  · push_cast; rw [hcast, abs_le]; constructor <;> linarith
  · rw [hcast, abs_le]; constructor <;> linarith
  · push_cast; rw [hcast, abs_le]; constructor <;> linarith

theorem rhe_nat (n : ℕ) : rhe (n : ℚ) = n := by
  unfold rhe
  simp only [Int.floor_natCast, Int.toNat_natCast, sub_self]
  norm_num

theorem pow10_pos (p : ℕ) : (0 : ℚ) < (10 : ℚ) ^ p := by positivity

theorem roundTo_err (p : ℕ) (x : ℚ) : |roundTo p x - x| ≤ 1 / 2 * (1 / (10 : ℚ) ^ p) := by
  have hp := pow10_pos p
  have hy : 0 ≤ |x| * (10 : ℚ) ^ p := by positivity
  have h := rhe_err (|x| * (10 : ℚ) ^ p) hy
  rw [abs_le] at h
  obtain ⟨h1, h2⟩ := h
  unfold roundTo units
  rw [abs_le]
  by_cases hx : x < 0
  · have hax : |x| = -x := abs_of_neg hx
    rw [hax] at h1 h2 ⊢
    simp only [if_pos hx]
    constructor
    · rw [show (-1 : ℚ) * ((rhe (-x * 10 ^ p) : ℚ) / 10 ^ p) - x
          = -(((rhe (-x * 10 ^ p) : ℚ) - (-x * 10 ^ p)) / 10 ^ p) by field_simp; ring]
      rw [neg_le_neg_iff, div_le_iff₀ hp]
      calc (rhe (-x * 10 ^ p) : ℚ) - -x * 10 ^ p ≤ 1 / 2 := h2
        _ = 1 / 2 * (1 / 10 ^ p) * 10 ^ p := by field_simp
    · rw [show (-1 : ℚ) * ((rhe (-x * 10 ^ p) : ℚ) / 10 ^ p) - x
          = -(((rhe (-x * 10 ^ p) : ℚ) - (-x * 10 ^ p)) / 10 ^ p) by field_simp; ring]
      rw [neg_le, le_div_iff₀ hp]
      calc -(1 / 2 * (1 / 10 ^ p)) * (10 : ℚ) ^ p = -(1 / 2) := by field_simp
        _ ≤ (rhe (-x * 10 ^ p) : ℚ) - -x * 10 ^ p := h1
  · have hax : |x| = x := abs_of_nonneg (not_lt.mp hx)
    rw [hax] at h1 h2 ⊢
    simp only [if_neg hx, one_mul]
    constructor
    · rw [show (rhe (x * 10 ^ p) : ℚ) / 10 ^ p - x
          = ((rhe (x * 10 ^ p) : ℚ) - x * 10 ^ p) / 10 ^ p by field_simp]
      rw [le_div_iff₀ hp]
      calc -(1 / 2 * (1 / 10 ^ p)) * (10 : ℚ) ^ p = -(1 / 2) := by field_simp
        _ ≤ (rhe (x * 10 ^ p) : ℚ) - x * 10 ^ p := h1
    · rw [show (rhe (x * 10 ^ p) : ℚ) / 10 ^ p - x
          = ((rhe (x * 10 ^ p) : ℚ) - x * 10 ^ p) / 10 ^ p by field_simp]
      rw [div_le_iff₀ hp]
      calc (rhe (x * 10 ^ p) : ℚ) - x * 10 ^ p ≤ 1 / 2 := h2
        _ = 1 / 2 * (1 / 10 ^ p) * 10 ^ p := by field_simp

/-- a `p`-decimal is printed exactly. -/
theorem roundTo_of_isDec (p : ℕ) (x : ℚ) (h : IsDec p x) : roundTo p x = x := by
  have hp := pow10_pos p
  unfold IsDec at h
  have habs : (|x| * (10 : ℚ) ^ p).den = 1 := by
    by_cases hx : x < 0
    · rw [abs_of_neg hx, neg_mul, Rat.neg_den]; exact h
    · rw [abs_of_nonneg (not_lt.mp hx)]; exact h
  have hnn : 0 ≤ |x| * (10 : ℚ) ^ p := by positivity
  -- |x|·10ᵖ is a natural number
  obtain ⟨n, hn⟩ : ∃ n : ℕ, |x| * (10 : ℚ) ^ p = (n : ℚ) := by
    have h1 : ((|x| * (10 : ℚ) ^ p).num : ℚ) = |x| * (10 : ℚ) ^ p := by
      have := Rat.num_div_den (|x| * (10 : ℚ) ^ p)
      rw [habs] at this
      simpa using this
    have h2 : 0 ≤ (|x| * (10 : ℚ) ^ p).num := Rat.num_nonneg.mpr hnn
    refine ⟨(|x| * (10 : ℚ) ^ p).num.toNat, ?_⟩
    rw [← h1]
    have : (((|x| * (10 : ℚ) ^ p).num.toNat : ℕ) : ℤ) = (|x| * (10 : ℚ) ^ p).num := Int.toNat_of_nonneg h2
    exact_mod_cast (congrArg (fun z : ℤ => (z : ℚ)) this).symm
  unfold roundTo units
  rw [hn, rhe_nat, ← hn]
  by_cases hx : x < 0
  · rw [if_pos hx, abs_of_neg hx]; field_simp
  · rw [if_neg hx, abs_of_nonneg (not_lt.mp hx)]; field_simp

/-! ### reading back what `fmt` printed -/

theorem dropWhile_noSpace (s : Str) (h : ∀ c ∈ s, isSpace c = false) : s.dropWhile isSpace = s := by
  cases s with
  | nil => rfl
  | cons c cs => simp [List.dropWhile, h c (by simp)]

theorem strip_noSpace (s : Str) (h : ∀ c ∈ s, isSpace c = false) : strip s = s := by
  unfold strip lstrip rstrip
  rw [dropWhile_noSpace s h, dropWhile_noSpace s.reverse (fun c hc => h c (List.mem_reverse.mp hc)),
    List.reverse_reverse]

/-- characters of a plain decimal literal. -/
def decChar (c : Char) : Prop := c.isDigit = true ∨ c = '-' ∨ c = '.'

theorem decChar_noSpace (c : Char) (h : decChar c) : isSpace c = false := by
  rcases h with h | h | h
  · exact digit_not_space c h
  · subst h; decide
  · subst h; decide

theorem decChar_not_e (c : Char) (h : decChar c) : (c = 'e' || c = 'E') = false := by
  rcases h with h | h | h
  · have := digit_toNat c h
    have h1 : c ≠ 'e' := digit_ne c 'e' h (by decide)
    have h2 : c ≠ 'E' := digit_ne c 'E' h (by decide)
    simp [h1, h2]
  · subst h; decide
  · subst h; decide

theorem digit_not_dot (c : Char) (h : c.isDigit = true) : decide (c = '.') = false := by
  have := digit_ne c '.' h (by decide)
  simp [this]

/-- the reader on `[-]D₁[.D₂]`. -/
theorem pyFloat_decimal (neg dot : Bool) (D1 D2 : Str) (h1 : D1 ≠ [])
    (hd1 : ∀ c ∈ D1, c.isDigit = true) (hd2 : ∀ c ∈ D2, c.isDigit = true) :
    pyFloat ((if neg then ['-'] else []) ++ D1 ++ (if dot then '.' :: D2 else [])) =
      some (.fin ((if neg then -1 else 1) *
        ((Nat.ofDigitChars 10 D1 0 : ℚ) +
          (if dot then (Nat.ofDigitChars 10 D2 0 : ℚ) / (10 : ℚ) ^ D2.length else 0)))) := by
  -- the body after the sign
  set body : Str := D1 ++ (if dot then '.' :: D2 else []) with hbody
  have hs : (if neg then ['-'] else []) ++ D1 ++ (if dot then '.' :: D2 else [])
      = (if neg then ['-'] else []) ++ body := by simp [hbody]
  rw [hs]
  have hbodyChars : ∀ c ∈ body, decChar c := by
    intro c hc
    rw [hbody] at hc
    rcases List.mem_append.mp hc with h | h
    · exact Or.inl (hd1 c h)
    · cases dot with
      | false => simp at h
      | true =>
        simp only [if_true, List.mem_cons] at h
        rcases h with h | h
        · exact Or.inr (Or.inr h)
        · exact Or.inl (hd2 c h)
  have hallChars : ∀ c ∈ (if neg then ['-'] else []) ++ body, decChar c := by
    intro c hc
    rcases List.mem_append.mp hc with h | h
    · cases neg with
      | false => simp at h
      | true => simp at h; exact Or.inr (Or.inl h)
    · exact hbodyChars c h
  obtain ⟨d, D1', hD1⟩ : ∃ d D1', D1 = d :: D1' := by
    cases D1 with
    | nil => exact absurd rfl h1
    | cons d t => exact ⟨d, t, rfl⟩
  have hdd : d.isDigit = true := hd1 d (by rw [hD1]; simp)
  have hdm : d ≠ '-' := digit_ne d '-' hdd (by decide)
  have hdp : d ≠ '+' := digit_ne d '+' hdd (by decide)
  have hbody_cons : body = d :: (D1' ++ (if dot then '.' :: D2 else [])) := by
    rw [hbody, hD1]; rfl
  -- strip, sign
  have hsign : splitSign ((if neg then ['-'] else []) ++ body) = (neg, body) := by
    cases neg with
    | true => simp [splitSign]
    | false =>
      simp only [Bool.false_eq_true, if_false, List.nil_append]
      rw [hbody_cons]
      simp [splitSign, hdm, hdp]
  unfold pyFloat
  simp only
  rw [strip_noSpace _ (fun c hc => decChar_noSpace c (hallChars c hc)), hsign]
  simp only
  -- not inf / nan
  have hlow : lower body = d :: lower (D1' ++ (if dot then '.' :: D2 else [])) := by
    rw [hbody_cons]; simp [lower, digit_lower d hdd]
  have hi : d ≠ 'i' := digit_ne d 'i' hdd (by decide)
  have hn : d ≠ 'n' := digit_ne d 'n' hdd (by decide)
  have hne1 : lower body ≠ "inf".toList := by rw [hlow]; intro h; injection h with h _; exact hi h
  have hne2 : lower body ≠ "infinity".toList := by rw [hlow]; intro h; injection h with h _; exact hi h
  have hne3 : lower body ≠ "nan".toList := by rw [hlow]; intro h; injection h with h _; exact hn h
  rw [if_neg (by intro h; rcases h with h | h; exact hne1 h; exact hne2 h), if_neg hne3]
  -- the body
  have hsplitE : splitOn1 (fun c => c = 'e' || c = 'E') body = (body, none) :=
    splitOn1_none _ body (fun c hc => decChar_not_e c (hbodyChars c hc))
  have hbodyVal : pyFloatBody body = some ((Nat.ofDigitChars 10 D1 0 : ℚ) +
      (if dot then (Nat.ofDigitChars 10 D2 0 : ℚ) / (10 : ℚ) ^ D2.length else 0)) := by
    unfold pyFloatBody
    simp only [hsplitE]
    cases dot with
    | false =>
      have hb : body = D1 := by simp [hbody]
      have hsp : splitOn1 (fun c => decide (c = '.')) D1 = (D1, none) :=
        splitOn1_none _ D1 (fun c hc => digit_not_dot c (hd1 c hc))
      rw [hb, hsp]
      simp only [Option.getD_none, and_true]
      rw [if_neg h1, dpVal_digits D1 h1 hd1]
      simp [dpVal, exVal]
    | true =>
      have hb : body = D1 ++ '.' :: D2 := by simp [hbody]
      have hsp : splitOn1 (fun c => decide (c = '.')) (D1 ++ '.' :: D2) = (D1, some D2) :=
        splitOn1_some _ D1 D2 '.' (by simp) (fun c hc => digit_not_dot c (hd1 c hc))
      rw [hb, hsp]
      simp only [Option.getD_some]
      rw [if_neg (by intro h; exact h1 h.1), dpVal_digits D1 h1 hd1]
      by_cases hD2 : D2 = []
      · subst hD2
        simp [dpVal, exVal]
      · rw [dpVal_digits D2 hD2 hd2]
        simp [exVal]
  rw [hbodyVal]
  cases neg <;> simp

theorem units_split (p : ℕ) (x : ℚ) :
    ((units p x / 10 ^ p : ℕ) : ℚ) + ((units p x % 10 ^ p : ℕ) : ℚ) / (10 : ℚ) ^ p
      = (units p x : ℚ) / (10 : ℚ) ^ p := by
  have hp := pow10_pos p
  have h := Nat.div_add_mod (units p x) (10 ^ p)
  have h' : ((10 ^ p * (units p x / 10 ^ p) + units p x % 10 ^ p : ℕ) : ℚ) = (units p x : ℚ) := by
    rw [h]
  push_cast at h'
  field_simp
  linarith

/-- reading back the text of `f'{x:.{p}f}'` gives `x` rounded to `p` decimals. -/
theorem pyFloat_fmt (p : ℕ) (x : ℚ) : pyFloat (fmt p x) = some (.fin (roundTo p x)) := by
  have hdig1 := isDigit_toDigits (units p x / 10 ^ p)
  have hne1 : Nat.toDigits 10 (units p x / 10 ^ p) ≠ [] := Nat.toDigits_ne_nil
  by_cases hp0 : p = 0
  · subst hp0
    have := pyFloat_decimal (decide (x < 0)) false (Nat.toDigits 10 (units 0 x / 10 ^ 0)) [] hne1 hdig1
      (by simp)
    unfold fmt
    simp only [if_true, List.append_nil] at this ⊢
    simp only [decide_eq_true_eq, Bool.false_eq_true, if_false, List.append_nil] at this
    rw [this, Nat.ofDigitChars_ten_toDigits]
    unfold roundTo
    simp
  · have hppos : 0 < p := Nat.pos_of_ne_zero hp0
    have hmod : units p x % 10 ^ p < 10 ^ p := Nat.mod_lt _ (by positivity)
    have := pyFloat_decimal (decide (x < 0)) true (Nat.toDigits 10 (units p x / 10 ^ p))
      (pad p (units p x % 10 ^ p)) hne1 hdig1 (isDigit_pad p _)
    unfold fmt
    simp only [if_neg hp0]
    simp only [decide_eq_true_eq, if_true] at this
    rw [this, Nat.ofDigitChars_ten_toDigits, pad_val, pad_length p _ hppos hmod, units_split]
    unfold roundTo
    rfl

end RegionsVerif.Impl.Dec
