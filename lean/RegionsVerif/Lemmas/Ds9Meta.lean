/-
The tracked metadata (`tag`, `text`, `include`) of one region, from the writer's translated
dictionary through hoisting, `rawDict`, `_define_raw_metadata`, to the reader's raw dictionary.
-/
import RegionsVerif.Lemmas.Ds9Geom
import RegionsVerif.Lemmas.Decimal

namespace RegionsVerif.Impl.Ds9
open AL RegionsVerif.Impl.Dec RegionsVerif.Spec.C09

/-! ### strings -/

theorem dropWhile_cons_false {p : Char → Bool} {c : Char} (l : Str) (h : p c = false) :
    (c :: l).dropWhile p = c :: l := by
  simp [List.dropWhile, h]

/-- stripping from the right. -/
theorem rdrop_snoc_false {p : Char → Bool} {c : Char} (l : Str) (h : p c = false) :
    ((l ++ [c]).reverse.dropWhile p).reverse = l ++ [c] := by
  rw [List.reverse_append, List.reverse_singleton, List.singleton_append, dropWhile_cons_false _ h]
  simp

theorem strip_ends (p : Char → Bool) (a b : Char) (s : Str) (ha : p a = false) (hb : p b = false) :
    (((a :: s ++ [b]).dropWhile p).reverse.dropWhile p).reverse = a :: s ++ [b] := by
  rw [List.cons_append, dropWhile_cons_false (s ++ [b]) ha]
  exact rdrop_snoc_false (a :: s) hb

/-- the reader removes exactly the braces the writer put around a text or a tag — whatever the
string is (even one that itself starts with `{` or ends with `}`). -/
theorem stripVal_braced (s : Str) : stripVal ('{' :: s ++ ['}']) = s := by
  have hstrip : strip ('{' :: s ++ ['}']) = '{' :: s ++ ['}'] := by
    unfold strip lstrip rstrip
    exact strip_ends isSpace '{' '}' s (by decide) (by decide)
  unfold stripVal
  simp only [hstrip]
  rw [List.cons_append]
  simp only [List.reverse_append, List.reverse_singleton, List.singleton_append]
  simp

/-- characters of `str(int)`. -/
theorem intStr_chars (n : Int) : ∀ c ∈ intStr n, c.isDigit = true ∨ c = '-' := by
  intro c hc
  unfold intStr at hc
  split at hc
  · rcases List.mem_cons.mp hc with h | h
    · exact Or.inr h
    · exact Or.inl (isDigit_toDigits _ c h)
  · exact Or.inl (isDigit_toDigits _ c hc)

theorem dropWhile_all_false {p : Char → Bool} (l : Str) (h : ∀ c ∈ l, p c = false) : l.dropWhile p = l := by
  cases l with
  | nil => rfl
  | cons c t => exact dropWhile_cons_false t (h c (by simp))

/-- a value whose first character is not a delimiter (and that has no surrounding white space) is
left alone. -/
theorem stripVal_of_plain (s : Str) (hs : ∀ c ∈ s, isSpace c = false)
    (h : ∀ a, s.head? = some a → a ≠ '{' ∧ a ≠ '\'' ∧ a ≠ '"') : stripVal s = s := by
  have hstrip : strip s = s := by
    unfold strip lstrip rstrip
    rw [dropWhile_all_false s hs, dropWhile_all_false s.reverse (fun c hc => hs c (List.mem_reverse.mp hc)),
      List.reverse_reverse]
  unfold stripVal
  simp only [hstrip]
  cases s with
  | nil => rfl
  | cons a rest =>
    obtain ⟨h1, h2, h3⟩ := h a rfl
    simp only
    split
    · simp [h1, h2, h3]
    · rfl

theorem stripVal_intStr (n : Int) : stripVal (intStr n) = intStr n := by
  apply stripVal_of_plain
  · intro c hc
    rcases intStr_chars n c hc with h | h
    · exact digit_not_space c h
    · subst h; decide
  · intro a ha
    have hmem : a ∈ intStr n := List.mem_of_mem_head? ha
    rcases intStr_chars n a hmem with h | h
    · exact ⟨digit_ne a _ h (by decide), digit_ne a _ h (by decide), digit_ne a _ h (by decide)⟩
    · subst h; decide

theorem pyFloat_intStr (n : Int) : pyFloat (intStr n) = some (.fin (n : ℚ)) := by
  have h := pyFloat_decimal (decide (n < 0)) false (Nat.toDigits 10 n.natAbs) [] Nat.toDigits_ne_nil
    (isDigit_toDigits _) (by simp)
  simp only [Bool.false_eq_true, if_false, List.append_nil, decide_eq_true_eq, add_zero] at h
  unfold intStr
  by_cases hn : n < 0
  · rw [if_pos hn]
    rw [if_pos hn, if_pos hn] at h
    rw [show ('-' :: Nat.toDigits 10 n.natAbs : Str) = ['-'] ++ Nat.toDigits 10 n.natAbs from rfl, h,
      Nat.ofDigitChars_ten_toDigits, Nat.cast_natAbs, abs_of_neg hn]
    push_cast
    simp
  · rw [if_neg hn]
    rw [if_neg hn, if_neg hn] at h
    simp only [List.nil_append] at h
    rw [h, Nat.ofDigitChars_ten_toDigits, Nat.cast_natAbs, abs_of_nonneg (not_lt.mp hn)]
    simp

/-! ### single items through `_define_raw_metadata` -/

theorem rawConv_tags (l : List Str) : rawConv .tag (.tags l) = some (.strs l) := by
  simp [rawConv, convertVal, invalidItem, binaryKeys, isZeroOne, PyVal.num?, pure, Except.pure, bind, Except.bind]

/-- a label stays the string it is (the reader keeps `text` verbatim). -/
theorem rawConv_text (u : Str) : rawConv .text (.str u) = some (.str u) := by
  have hc : convertVal .text (.str u) = .str u := by simp [convertVal]
  unfold rawConv
  rw [hc]
  simp [invalidItem, binaryKeys, pure, Except.pure, bind, Except.bind]

theorem rawConv_include_int (n : Int) :
    rawConv .include (.str (stripVal (pyStr (.int n)))) =
      if n = 0 ∨ n = 1 then some (.int n) else none := by
  have hc : convertVal .include (.str (stripVal (pyStr (.int n)))) = .int n := by
    simp only [convertVal, pyStr, stripVal_intStr, pyFloat_intStr]
    simp
  unfold rawConv
  rw [hc]
  by_cases h : n = 0 ∨ n = 1
  · rcases h with rfl | rfl <;>
      simp [invalidItem, binaryKeys, isZeroOne, PyVal.num?, pure, Except.pure, bind, Except.bind]
  · rw [if_neg h]
    have h' : ¬ ((n : ℚ) = 0 ∨ (n : ℚ) = 1) := by
      intro hh
      rcases hh with hh | hh
      · exact h (Or.inl (by exact_mod_cast hh))
      · exact h (Or.inr (by exact_mod_cast hh))
    have hz : isZeroOne (.int n) = false := by
      simp only [isZeroOne, PyVal.num?, decide_eq_false_iff_not]
      exact h'
    simp [invalidItem, binaryKeys, hz, pure, Except.pure, bind, Except.bind]

theorem rawConv_include_bool (b : Bool) :
    rawConv .include (.str (stripVal (pyStr (.bool b)))) = none := by
  have hs : stripVal (pyStr (.bool b)) = pyStr (.bool b) := by cases b <;> decide +kernel
  have hf : pyFloat (pyStr (.bool b)) = none := by cases b <;> decide +kernel
  have hc : convertVal .include (.str (stripVal (pyStr (.bool b)))) = .str (pyStr (.bool b)) := by
    simp only [convertVal, hs, hf]
    simp
  unfold rawConv
  rw [hc]
  simp [invalidItem, binaryKeys, isZeroOne, PyVal.num?, pure, Except.pure, bind, Except.bind]

theorem rawConv_include_one : rawConv .include (.str ['1']) = some (.int 1) := by
  have := rawConv_include_int 1
  have e : stripVal (pyStr (.int 1)) = ['1'] := by decide +kernel
  rw [e] at this
  simpa using this

/-! ### the `global` dictionary as the reader holds it -/

def gRead (g : Dict) : RDict := if g = [] then [] else AL.update [] (rawDict g)

theorem readGlobal_eq (o : WOut) : readGlobal o = gRead o.global := rfl

theorem gRead_nodup (g : Dict) : (keys (gRead g)).Nodup := by
  unfold gRead
  split
  · simp [keys]
  · apply nodup_update; simp [keys]

theorem get_gRead (g : Dict) (k : Key) : get (gRead g) k = get (rawDict g) k := by
  unfold gRead
  split
  · rename_i h; subst h; rfl
  · rw [get_update]; cases get (rawDict g) k <;> rfl

/-- a non-tag key of the `global` line, as the reader holds it (no uniqueness assumption). -/
theorem get_rawDict_of_ne_tag (g : Dict) (k : Key) (hk : k ≠ .tag) :
    get (rawDict g) k = (get g k).map (fun v => RVal.str (stripVal (pyStr v))) := by
  induction g with
  | nil => rfl
  | cons kv g ih =>
    obtain ⟨k0, v0⟩ := kv
    unfold rawDict at ih ⊢
    rw [List.filterMap_cons]
    by_cases h0 : k0 = .tag
    · subst h0
      have hne : Key.tag ≠ k := fun h => hk h.symm
      simp only [if_true]
      cases tagElems v0 with
      | nil =>
        simp only
        rw [ih, get_cons]
        cases get g k <;> simp [hne]
      | cons a t =>
        simp only
        rw [get_cons, ih, get_cons]
        cases get g k <;> simp [hne]
    · simp only [if_neg h0]
      rw [get_cons, ih, get_cons]
      cases get g k with
      | some x => simp
      | none =>
        by_cases hkk : k0 = k
        · simp [hkk]
        · simp [hkk]

theorem get_gRead_of_ne_tag (g : Dict) (k : Key) (hk : k ≠ .tag) :
    get (gRead g) k = (get g k).map (fun v => RVal.str (stripVal (pyStr v))) := by
  rw [get_gRead, get_rawDict_of_ne_tag g k hk]

theorem gRead_some {g : Dict} {k : Key} {rv : RVal} (h : get (gRead g) k = some rv) :
    ∃ v, (k, v) ∈ g ∧ rawItem k v = some rv := by
  rw [get_gRead, rawDict_eq] at h
  have hm := get_mem h
  obtain ⟨kv, hkv, he⟩ := List.mem_filterMap.mp hm
  cases hr : rawItem kv.1 kv.2 with
  | none => simp [hr] at he
  | some x =>
    simp only [hr, Option.map_some, Option.some.injEq, Prod.mk.injEq] at he
    obtain ⟨rfl, rfl⟩ := he
    exact ⟨kv.2, hkv, hr⟩

theorem gRead_none {g : Dict} {k : Key} (h : k ∉ keys g) : get (gRead g) k = none := by
  cases hg : get (gRead g) k with
  | none => rfl
  | some rv =>
    obtain ⟨v, hv, _⟩ := gRead_some hg
    exact absurd (List.mem_map.mpr ⟨(k, v), hv, rfl⟩) h

theorem gRead_isSome {g : Dict} {k : Key} (hk : k ∈ keys g) (ht : k ≠ .tag) :
    ∃ rv, get (gRead g) k = some rv := by
  obtain ⟨kv, hkv, rfl⟩ := List.mem_map.mp hk
  have hr : rawItem kv.1 kv.2 = some (RVal.str (stripVal (pyStr kv.2))) := by
    unfold rawItem; rw [if_neg ht]
  have hmem : (kv.1, RVal.str (stripVal (pyStr kv.2))) ∈ rawDict g := by
    rw [rawDict_eq]
    exact List.mem_filterMap.mpr ⟨kv, hkv, by simp [hr]⟩
  have : kv.1 ∈ keys (rawDict g) := List.mem_map.mpr ⟨_, hmem, rfl⟩
  have hs := get_isSome_iff.mpr this
  rw [← get_gRead] at hs
  exact Option.isSome_iff_exists.mp hs

/-- the reader's raw dictionary of one region line (written without a sign), key by key: a key on
the `global` line comes from there — `include` too: the sign default applies only when the
`global` line has no `include` — any other key from the line itself. -/
theorem raw_get (g dm : Dict) (raw : Dict) (hnd : (keys dm).Nodup)
    (h : defineRaw (gRead g) none (rawDict ((keys g).foldl AL.pop dm)) = .ok raw) (k : Key) :
    get raw k =
      (if k ∈ keys g then get (gRead g) k
       else ((get dm k).bind (rawItem k)).orElse
              (fun _ => if k = .include then some (RVal.str ['1']) else none)).bind (rawConv k) := by
  rw [defineRaw_get _ none _ raw (gRead_nodup g) h k,
    get_rawDict _ (nodup_popKeys _ _ hnd), get_popKeys]
  by_cases hk : k ∈ keys g
  · simp only [if_pos hk, Option.bind_none, Option.orElse_none]
    by_cases hi : k = .include
    · subst hi
      obtain ⟨rv, hrv⟩ := gRead_isSome hk (by decide)
      simp [includeMeta, hrv]
    · have hnone : get (includeMeta (gRead g) none) k = none := by
        unfold includeMeta
        simp only
        split
        · rfl
        · rw [get_singleton, if_neg (fun h => hi h.symm)]
      rw [hnone]; rfl
  · simp only [if_neg hk, gRead_none hk]
    by_cases hi : k = .include
    · subst hi
      have hinc : get (includeMeta (gRead g) none) .include = some (RVal.str ['1']) := by
        simp [includeMeta, gRead_none hk, get_singleton]
      rw [hinc]
      cases (get dm .include).bind (rawItem .include) <;> simp
    · have hnone : get (includeMeta (gRead g) none) k = none := by
        unfold includeMeta
        simp only
        split
        · rfl
        · rw [get_singleton, if_neg (fun h => hi h.symm)]
      rw [hnone]
      cases (get dm k).bind (rawItem k) <;> simp [hi]

end RegionsVerif.Impl.Ds9
