/-
The fixed-point clause: a list of regions in the reader's normal form goes through writer and
reader without an exception and comes back equal (dictionaries as mappings).
-/
import RegionsVerif.Lemmas.Ds9RoundTrip

namespace RegionsVerif.Impl.Ds9
open AL RegionsVerif.Impl.Dec RegionsVerif.Spec.C09

/-! ### translation steps whose trigger key is absent do nothing -/

theorem pop_eq_self {d : Dict} {k : Key} (h : get d k = none) : AL.pop d k = d := by
  unfold AL.pop
  rw [List.filter_eq_self]
  intro kv hkv
  have hk := get_eq_none_iff.mp h
  have : kv.1 ≠ k := fun he => hk (List.mem_map.mpr ⟨kv, hkv, he⟩)
  simpa using this

theorem tFill_of_none (shape : Shape) {m : Dict} (h : get m .fill = none) : tFill shape m = .ok m := by
  unfold tFill
  simp only [pop_eq_self h, ite_self, h]

theorem tColor_of_none {m : Dict} (h1 : get m .edgecolor = none) (h2 : get m .facecolor = none) :
    tColor m = m := by
  unfold tColor
  simp only [pop_eq_self h1, h1, h2, pop_eq_self h2]

theorem tWidth_of_none {m : Dict} (h1 : get m .linewidth = none) (h2 : get m .markeredgewidth = none) :
    tWidth m = m := by
  unfold tWidth
  simp only [pop_eq_self h1, h1, h2, pop_eq_self h2]

theorem tMarker_of_none {m : Dict} (h : get m .marker = none) : tMarker m = m := by
  unfold tMarker
  simp only [pop_eq_self h, h]

theorem tFont_of_none {m : Dict} (h : get m .fontname = none) : tFont m = .ok m := by
  unfold tFont
  simp only [pop_eq_self h, h]

theorem tLinestyle_of_none {m : Dict} (h : get m .linestyle = none) : tLinestyle m = .ok m := by
  unfold tLinestyle
  simp only [pop_eq_self h, h]

theorem tRotation_of_none {m : Dict} (h : get m .rotation = none) : tRotation m = m := by
  unfold tRotation
  simp only [h]

/-- a key that is neither a DS9 meta key nor `default_style` is absent from the merged dictionary of
a region whose metadata holds only DS9 meta keys and whose visual is the reader's default. -/
theorem tMerge_plain_none (text : Option PyVal) (mta : Dict) (hk : ∀ kv ∈ mta, kv.1 ∈ ds9MetaKeys) (k : Key)
    (h1 : k ∉ ds9MetaKeys) (h2 : k ≠ .default_style) : get (tMerge text mta plainVisual) k = none := by
  have htext : k ≠ .text := fun h => h1 (by rw [h]; decide)
  rw [tMerge_get _ _ _ _ htext]
  have hv : get plainVisual k = none := by
    unfold plainVisual
    rw [get_singleton, if_neg (fun h => h2 h.symm)]
  have hm : get mta k = none := by
    apply get_eq_none_iff.mpr
    intro hc
    obtain ⟨kv, hkv, rfl⟩ := List.mem_map.mp hc
    exact h1 (hk kv hkv)
  rw [hv, hm]; rfl

/-- the writer's translation of a region in the reader's normal form: only `include` and `text`
are touched, `default_style` is dropped. -/
theorem translate_plain (cfg : Cfg) (shape : Shape) (text : Option PyVal) (mta m2 : Dict)
    (hk : ∀ kv ∈ mta, kv.1 ∈ ds9MetaKeys)
    (h2 : tInclude cfg (tMerge text mta plainVisual) = .ok m2) :
    translateToDs9 cfg shape text mta plainVisual = .ok (tFilter (tText m2)) := by
  have hnone : ∀ k, k ∉ ds9MetaKeys → k ≠ .default_style → get (tText m2) k = none := by
    intro k h1 hd
    have htext : k ≠ .text := fun h => h1 (by rw [h]; decide)
    have hinc : k ≠ .include := fun h => h1 (by rw [h]; decide)
    rw [tText_get _ _ htext, tInclude_get h2 _ hinc]
    exact tMerge_plain_none text mta hk k h1 hd
  have hfill : get (tMerge text mta plainVisual) .fill = none :=
    tMerge_plain_none text mta hk .fill (by decide) (by decide)
  unfold translateToDs9
  rw [tFill_of_none shape hfill]
  simp only [h2]
  rw [tColor_of_none (hnone _ (by decide) (by decide)) (hnone _ (by decide) (by decide)),
    tWidth_of_none (hnone _ (by decide) (by decide)) (hnone _ (by decide) (by decide)),
    tMarker_of_none (hnone _ (by decide) (by decide)),
    tFont_of_none (hnone _ (by decide) (by decide))]
  simp only
  rw [tLinestyle_of_none (hnone _ (by decide) (by decide))]
  simp only
  rw [tRotation_of_none (hnone _ (by decide) (by decide))]

/-! ### where the items of the `global` line come from -/

theorem interCur_from (R S : Dict) (kv : Key × PyVal) (h : kv ∈ interCur R S) : kv ∈ R ∨ kv ∈ S := by
  unfold interCur at h
  split at h
  · exact Or.inl (List.mem_filter.mp h).1
  · exact Or.inr (List.mem_filter.mp h).1

theorem foldl_interCur_from (rest : List Dict) (R : Dict) (kv : Key × PyVal)
    (h : kv ∈ rest.foldl interCur R) : kv ∈ R ∨ ∃ m ∈ rest, kv ∈ m := by
  induction rest generalizing R with
  | nil => exact Or.inl h
  | cons S rest ih =>
    rw [List.foldl_cons] at h
    rcases ih _ h with h1 | ⟨m, hm, hkv⟩
    · rcases interCur_from R S kv h1 with h2 | h2
      · exact Or.inl h2
      · exact Or.inr ⟨S, List.mem_cons_self, h2⟩
    · exact Or.inr ⟨m, List.mem_cons_of_mem _ hm, hkv⟩

/-- every item of the `global` line is literally an item of some region. -/
theorem hoist_from (cfg : Cfg) (ord : List Key) (ms : List Dict) (kv : Key × PyVal)
    (h : kv ∈ hoist cfg ord ms) : ∃ m ∈ ms, kv ∈ m := by
  cases ms with
  | nil => simp [hoist] at h
  | cons m0 rest =>
    simp only [hoist] at h
    by_cases hc : cfg.orderedGlobal = true
    · rw [if_pos hc] at h
      exact ⟨m0, List.mem_cons_self, (List.mem_filter.mp h).1⟩
    · rw [if_neg hc] at h
      rcases foldl_interCur_from rest m0 kv (mem_reorder h) with h1 | ⟨m, hm, hkv⟩
      · exact ⟨m0, List.mem_cons_self, h1⟩
      · exact ⟨m, List.mem_cons_of_mem _ hm, hkv⟩

/-! ### keys -/

theorem mem_keys_update {β : Type} (d e : List (Key × β)) (k : Key) :
    k ∈ keys (AL.update d e) ↔ k ∈ keys d ∨ k ∈ keys e := by
  rw [← get_isSome_iff, ← get_isSome_iff, ← get_isSome_iff, get_update]
  cases get e k <;> cases get d k <;> simp

theorem mem_keys_gRead {g : Dict} {k : Key} (h : k ∈ keys (gRead g)) : k ∈ keys g := by
  by_contra hc
  have := gRead_none hc
  rw [← get_isSome_iff, this] at h
  simp at h

theorem mem_keys_rawDict {m : Dict} {k : Key} (h : k ∈ keys (rawDict m)) : k ∈ keys m := by
  rw [rawDict_eq] at h
  exact (keys_filterMap_sublist rawItem m).subset h

theorem mem_keys_popKeys {ks : List Key} {d : Dict} {k : Key} (h : k ∈ keys (ks.foldl AL.pop d)) : k ∈ keys d := by
  rw [← get_isSome_iff, get_popKeys] at h
  split at h
  · simp at h
  · exact get_isSome_iff.mp h

/-! ### `_define_raw_metadata` does not raise without a `point` item -/

theorem invalidItem_ok (k : Key) (v : PyVal) (hk : k ≠ .point) : ∃ b, invalidItem k v = .ok b := by
  unfold invalidItem
  simp [hk, bind, Except.bind, pure, Except.pure]

theorem defineRawAux_ok (d : RDict) (h : ∀ kv ∈ d, kv.1 ≠ .point) :
    ∃ raw, defineRawAux d = .ok raw := by
  induction d with
  | nil => exact ⟨[], rfl⟩
  | cons kv d ih =>
    obtain ⟨raw, hraw⟩ := ih (fun x hx => h x (List.mem_cons_of_mem _ hx))
    obtain ⟨b, hb⟩ := invalidItem_ok kv.1 (convertVal kv.1 kv.2) (h kv List.mem_cons_self)
    obtain ⟨k, rv⟩ := kv
    unfold defineRawAux
    simp only [hb, hraw]
    exact ⟨_, rfl⟩

/-! ### binary keys -/

theorem rawConv_binary_int (k : Key) (hk : k ∈ binaryMeta) (n : Int) (hn : n = 0 ∨ n = 1) :
    rawConv k (.str (stripVal (pyStr (.int n)))) = some (.int n) := by
  have hktext : k ≠ .text := by intro h; subst h; simp [binaryMeta] at hk
  have hc : convertVal k (.str (stripVal (pyStr (.int n)))) = .int n := by
    simp only [convertVal, pyStr, stripVal_intStr, pyFloat_intStr]
    simp [hktext]
  have hz : isZeroOne (.int n) = true := by
    rcases hn with rfl | rfl <;> simp [isZeroOne, PyVal.num?]
  unfold rawConv
  rw [hc]
  simp only [binaryMeta, List.mem_cons, List.not_mem_nil, or_false] at hk
  rcases hk with rfl | rfl | rfl | rfl | rfl | rfl | rfl | rfl | rfl | rfl <;>
    simp [invalidItem, binaryKeys, hz, pure, Except.pure, bind, Except.bind]

theorem pySame_int {a b : Int} (h : PySame (.int a) (.int b)) : a = b := by
  rcases h with h | h
  · simpa using h
  · rw [pyEq_iff] at h
    rcases h with ⟨x, h1, h2⟩ | ⟨h1, _⟩
    · simp only [PyVal.num?, Option.some.injEq] at h1 h2
      have : (a : ℚ) = b := by rw [h1, h2]
      exact_mod_cast this
    · simp [PyVal.num?] at h1

/-! ### rounding is the identity on the reader's numbers -/

/-- astropy prints a `p`-decimal as itself. -/
def SkyFix (sky : ℚ → ℚ) (p : ℕ) : Prop := ∀ x, IsDec p x → sky x = x

theorem skyFix_roundTo (p : ℕ) : SkyFix (roundTo p) p := fun x h => roundTo_of_isDec p x h

theorem isDec_add_one (p : ℕ) (x : ℚ) (h : IsDec p x) : IsDec p (x + 1) := by
  unfold IsDec at *
  have : (x + 1) * (10 : ℚ) ^ p = x * 10 ^ p + ((10 ^ p : ℕ) : ℚ) := by push_cast; ring
  rw [this]
  have hx : x * (10 : ℚ) ^ p = ((x * (10 : ℚ) ^ p).num : ℚ) := by
    have := Rat.num_div_den (x * (10 : ℚ) ^ p)
    rw [h] at this
    simpa using this.symm
  rw [hx]
  have : (((x * (10 : ℚ) ^ p).num : ℚ) + ((10 ^ p : ℕ) : ℚ)) = (((x * (10 : ℚ) ^ p).num + (10 ^ p : ℕ) : ℤ) : ℚ) := by
    push_cast; ring
  rw [this]
  exact Rat.den_intCast _

theorem wrapLon_id (x : ℚ) (h0 : 0 ≤ x) (h1 : x < 360) : wrapLon x = x := by
  unfold wrapLon
  have : ⌊x / 360⌋ = 0 := by
    rw [Int.floor_eq_iff]
    constructor
    · simp only [Int.cast_zero]; positivity
    · simp only [Int.cast_zero, zero_add]
      rw [div_lt_one (by norm_num)]
      exact h1
  rw [this]
  simp

theorem expCoord_normal (sky : ℚ → ℚ) (p : ℕ) (hsky : SkyFix sky p) (pix : Bool) (c : ℚ × ℚ)
    (h : CoordNormal p pix c) : expCoord sky p pix c = c := by
  obtain ⟨h1, h2, h3⟩ := h
  unfold expCoord
  cases pix with
  | true =>
    simp only [if_true]
    rw [roundTo_of_isDec p _ (isDec_add_one p _ h1), roundTo_of_isDec p _ (isDec_add_one p _ h2)]
    ext <;> simp
  | false =>
    simp only [Bool.false_eq_true, if_false]
    obtain ⟨h0, h360⟩ := h3 rfl
    rw [hsky _ h1, hsky _ h2, wrapLon_id _ h0 h360]

theorem rsz_normal (sky : ℚ → ℚ) (p : ℕ) (hsky : SkyFix sky p) (pix : Bool) (x : ℚ) (h : IsDec p x) :
    rsz sky p pix x = x := by
  unfold rsz
  split
  · exact roundTo_of_isDec p x h
  · exact hsky x h

theorem expNums_normal (sky : ℚ → ℚ) (p : ℕ) (hsky : SkyFix sky p) (pix : Bool) (r : Region)
    (sh : DShape) (ps : List WParam) (h : shapeParams r = .ok (sh, ps))
    (hn : NumsNormal p r.shape r.nums) : expNums sky p pix r.shape r.nums = r.nums := by
  have hr := rsz_normal sky p hsky pix
  unfold shapeParams at h
  simp only at h
  split at h
  case h_12 => simp at h
  case h_1 =>
    rename_i hshape _ hnums; rw [hshape, hnums] at hn ⊢
    simp only [NumsNormal] at hn
    simp only [expNums, hr _ hn]
  case h_2 =>
    rename_i hshape _ hnums; rw [hshape, hnums] at hn ⊢
    simp only [NumsNormal] at hn
    simp only [expNums, hr _ hn.1, hr _ hn.2.1, hsky _ hn.2.2]; simp
  case h_3 =>
    rename_i hshape _ hnums; rw [hshape, hnums] at hn ⊢
    simp only [NumsNormal] at hn
    simp only [expNums, hr _ hn.1, hr _ hn.2.1, hsky _ hn.2.2]
  case h_4 =>
    rename_i hshape _ hnums; rw [hshape, hnums] at hn ⊢
    simp only [NumsNormal] at hn
    simp only [expNums, hr _ hn.1, hr _ hn.2]
  case h_5 =>
    rename_i hshape _ hnums; rw [hshape, hnums] at hn ⊢
    simp only [NumsNormal] at hn
    simp only [expNums, hr _ hn.1, hr _ hn.2.1, hr _ hn.2.2.1, hr _ hn.2.2.2.1, hsky _ hn.2.2.2.2]; simp
  case h_6 =>
    rename_i hshape _ hnums; rw [hshape, hnums] at hn ⊢
    simp only [NumsNormal] at hn
    simp only [expNums, hr _ hn.1, hr _ hn.2.1, hr _ hn.2.2.1, hr _ hn.2.2.2.1, hsky _ hn.2.2.2.2]
  case h_7 => rename_i hshape hnums; rw [hshape, hnums]; rfl
  case h_8 => rename_i hshape hnums; rw [hshape, hnums]; rfl
  all_goals
    rename_i hshape _ hnums
    rw [hshape, hnums]
    rfl

/-- the class invariants make a normal-form region well rounded (nothing is rounded away). -/
theorem wellRounded_normal (sky : ℚ → ℚ) (p : ℕ) (hsky : SkyFix sky p) (r : Region)
    (hn : NumsNormal p r.shape r.nums) (hv : SizesValid r.shape r.nums) : WellRounded sky p r := by
  have hr := rsz_normal sky p hsky (decide (r.frame = .image))
  unfold WellRounded
  simp only
  unfold NumsNormal at hn
  unfold SizesValid at hv
  split
  · rename_i hs hnu
    rw [hs, hnu] at hn hv
    simp only at hn hv
    rw [hr _ hn]; exact hv
  · rename_i hs hnu
    rw [hs, hnu] at hn hv
    simp only at hn hv
    rw [hr _ hn.1, hr _ hn.2.1]
    constructor <;> linarith [hv.1, hv.2]
  · rename_i hs hnu
    rw [hs, hnu] at hn hv
    simp only at hn hv
    rw [hr _ hn.1, hr _ hn.2.1]; exact hv
  · rename_i hs hnu
    rw [hs, hnu] at hn hv
    simp only at hn hv
    rw [hr _ hn.1, hr _ hn.2]; exact hv
  · rename_i hs hnu
    rw [hs, hnu] at hn hv
    simp only at hn hv
    rw [hr _ hn.1, hr _ hn.2.1, hr _ hn.2.2.1, hr _ hn.2.2.2.1]
    obtain ⟨⟨a, b, c, d⟩, e, f⟩ := hv
    refine ⟨⟨?_, ?_, ?_, ?_⟩, ?_, ?_⟩ <;> linarith
  · rename_i hs hnu
    rw [hs, hnu] at hn hv
    simp only at hn hv
    rw [hr _ hn.1, hr _ hn.2.1, hr _ hn.2.2.1, hr _ hn.2.2.2.1]; exact hv
  · trivial

/-! ### a region in the reader's normal form through the writer -/

/-- the translated dictionary of a region in the reader's normal form. -/
structure NormalDict (m : Dict) : Prop where
  nodup : (keys m).Nodup
  keysOK : ∀ k ∈ keys m, k ∈ ds9MetaKeys
  binary : ∀ k ∈ binaryMeta, ∀ v, get m k = some v → v = .int 0 ∨ v = .int 1

theorem normalDict_hoistable {m : Dict} (h : NormalDict m) : NormalDict (hoistable m) := by
  refine ⟨hoistable_nodup m h.nodup, ?_, ?_⟩
  · intro k hk
    apply h.keysOK
    unfold hoistable at hk
    exact (mem_keys_pop.mp hk).2
  · intro k hk v hv
    apply h.binary k hk v
    unfold hoistable at hv
    rw [get_pop] at hv
    split at hv
    · simp at hv
    · exact hv

theorem binary_get {r : Region} (hm : MetaNormal r) {k : Key}
    (hk : k ∈ binaryMeta) {v : PyVal} (hv : get r.mta k = some v) : v = .int 0 ∨ v = .int 1 := by
  have := hm.2.2.1 k hk
  rw [hv] at this
  exact this

theorem plain_get_none (k : Key) (hk : k ≠ .default_style) : get plainVisual k = none := by
  unfold plainVisual
  rw [get_singleton, if_neg (fun h => hk h.symm)]

theorem normal_serialize (cfg : Cfg) (p : ℕ) (r : Region) (hn : ReaderNormal p r) :
    ∃ d, serializeRegion cfg r = .ok (some d) ∧ NormalDict d.mta ∧
      (∀ k ∈ binaryMeta, get d.mta k = get r.mta k) := by
  obtain ⟨hwf, hex, _, _, _, _, hmeta⟩ := hn
  obtain ⟨hvis, hkeys, hbin, hinc, _, _, _⟩ := hmeta
  obtain ⟨hsp, _, _, _, _, _, hnd⟩ := hwf
  obtain ⟨sp, hsp'⟩ : ∃ sp, shapeParams r = .ok sp := by
    cases h : shapeParams r with
    | ok sp => exact ⟨sp, rfl⟩
    | error e => rw [h] at hsp; simp [Except.toOption] at hsp
  obtain ⟨fn, hfn⟩ : ∃ fn, r.frame.ds9Name = some fn := by
    cases h : r.frame.ds9Name with
    | some fn => exact ⟨fn, rfl⟩
    | none => exact absurd h hex.2
  -- include is an int: the (repaired) writer's int() succeeds
  obtain ⟨iv, hiv⟩ := Option.isSome_iff_exists.mp hinc
  have hiv01 : iv = .int 0 ∨ iv = .int 1 := by
    have := hbin .include (by decide)
    rw [hiv] at this; exact this
  have hmerge_inc : get (tMerge r.text r.mta plainVisual) .include = some iv := by
    rw [tMerge_get _ _ _ _ (by decide), plain_get_none _ (by decide), hiv]; rfl
  obtain ⟨m2, hm2⟩ : ∃ m2, tInclude cfg (tMerge r.text r.mta plainVisual) = .ok m2 := by
    unfold tInclude
    by_cases hc : cfg.includeInt = true
    · rw [if_pos hc, hmerge_inc]
      rcases hiv01 with rfl | rfl <;> exact ⟨_, rfl⟩
    · rw [if_neg hc]; exact ⟨_, rfl⟩
  have htr : translateToDs9 cfg r.shape r.text r.mta r.vis = .ok (tFilter (tText m2)) := by
    rw [hvis]; exact translate_plain cfg r.shape r.text r.mta m2 hkeys hm2
  refine ⟨⟨fn, sp.1, sp.2, tFilter (tText m2)⟩, ?_, ?_, ?_⟩
  · unfold serializeRegion
    rw [if_neg hex.1, hfn]
    simp only [hsp', htr]
  · refine ⟨translate_nodup htr hnd, ?_, ?_⟩
    · intro k hk
      have hin := tFilter_keys _ k hk
      by_contra hnot
      have hds : k ≠ .default_style := by
        intro h; subst h; revert hin; decide
      have htext : k ≠ .text := fun h => hnot (by rw [h]; decide)
      have hinc' : k ≠ .include := fun h => hnot (by rw [h]; decide)
      have : get (tFilter (tText m2)) k = none := by
        rw [tFilter_get, if_pos hin, tText_get _ _ htext, tInclude_get hm2 _ hinc']
        exact tMerge_plain_none r.text r.mta hkeys k hnot hds
      rw [← get_isSome_iff, this] at hk
      simp at hk
    · intro k hk v hv
      by_cases hki : k = .include
      · subst hki
        rw [translate_get_include htr, hvis, plain_get_none _ (by decide)] at hv
        simp only [Option.orElse_none, hiv] at hv
        split at hv
        · rcases hiv01 with rfl | rfl <;> simp [pyInt] at hv <;> simp [← hv]
        · simp only [Option.some.injEq] at hv; rw [← hv]; exact hiv01
      · have hun : get (tFilter (tText m2)) k = get (tMerge r.text r.mta r.vis) k := by
          apply translate_get_untouched htr k
          · simp only [binaryMeta, List.mem_cons, List.not_mem_nil, or_false] at hk
            rcases hk with rfl | rfl | rfl | rfl | rfl | rfl | rfl | rfl | rfl | rfl <;> decide
          · simp only [binaryMeta, List.mem_cons, List.not_mem_nil, or_false] at hk
            rcases hk with rfl | rfl | rfl | rfl | rfl | rfl | rfl | rfl | rfl | rfl <;> first | decide | exact absurd rfl hki
        have hkt : k ≠ .text := by intro h; subst h; simp [binaryMeta] at hk
        have hkd : k ≠ .default_style := by intro h; subst h; simp [binaryMeta] at hk
        rw [hun, hvis, tMerge_get _ _ _ _ hkt, plain_get_none _ hkd] at hv
        have := hbin k hk
        simp only [Option.orElse_none] at hv
        rw [hv] at this
        exact this
  · intro k hk
    show get (tFilter (tText m2)) k = get r.mta k
    by_cases hki : k = .include
    · subst hki
      rw [translate_get_include htr, hvis, plain_get_none _ (by decide)]
      simp only [Option.orElse_none, hiv]
      split
      · rcases hiv01 with rfl | rfl <;> simp [pyInt]
      · rfl
    · have hun : get (tFilter (tText m2)) k = get (tMerge r.text r.mta r.vis) k := by
        apply translate_get_untouched htr k
        · simp only [binaryMeta, List.mem_cons, List.not_mem_nil, or_false] at hk
          rcases hk with rfl | rfl | rfl | rfl | rfl | rfl | rfl | rfl | rfl | rfl <;> decide
        · simp only [binaryMeta, List.mem_cons, List.not_mem_nil, or_false] at hk
          rcases hk with rfl | rfl | rfl | rfl | rfl | rfl | rfl | rfl | rfl | rfl <;> first | decide | exact absurd rfl hki
      have hkt : k ≠ .text := by intro h; subst h; simp [binaryMeta] at hk
      have hkd : k ≠ .default_style := by intro h; subst h; simp [binaryMeta] at hk
      rw [hun, hvis, tMerge_get _ _ _ _ hkt, plain_get_none _ hkd]
      rfl


/-! ### one line of a normal-form list through the reader -/

theorem ds9Meta_cases {k : Key} (h : k ∈ ds9MetaKeys) : k ∈ binaryMeta ∨ k = .tag ∨ k = .text := by
  simp only [ds9MetaKeys, List.mem_cons, List.not_mem_nil, or_false] at h
  rcases h with rfl | rfl | rfl | rfl | rfl | rfl | rfl | rfl | rfl | rfl | rfl | rfl <;> simp [binaryMeta]

theorem ds9ToVisual_plain (rs : RShape) : ds9ToVisual rs plainVisual = .ok plainVisual := by
  cases rs <;> decide +kernel

theorem toRegionVisual_plain : toRegionVisual plainVisual = plainVisual := by decide +kernel

/-- a raw dictionary with DS9 meta keys only splits into itself and the default visual. -/
theorem splitRaw_plain (raw : Dict) (h : ∀ k ∈ keys raw, k ∈ ds9MetaKeys) : splitRaw raw = (raw, plainVisual) := by
  have h1 : raw.filter (fun kv => decide (kv.1 ∉ unsupportedMeta)) = raw := by
    rw [List.filter_eq_self]
    intro kv hkv
    have := h kv.1 (List.mem_map.mpr ⟨kv, hkv, rfl⟩)
    have hno : kv.1 ∉ unsupportedMeta := by
      intro hc
      revert this
      simp only [unsupportedMeta, List.mem_cons, List.not_mem_nil, or_false] at hc
      rcases hc with hc | hc | hc | hc <;> rw [hc] <;> decide
    simpa using hno
  have hvis : ∀ kv ∈ raw, kv.1 ∉ readerVisualKeys := by
    intro kv hkv hc
    have := h kv.1 (List.mem_map.mpr ⟨kv, hkv, rfl⟩)
    revert this
    simp only [readerVisualKeys, List.mem_cons, List.not_mem_nil, or_false] at hc
    rcases hc with hc | hc | hc | hc | hc | hc | hc | hc | hc <;> rw [hc] <;> decide
  have h2 : raw.filter (fun kv => decide (kv.1 ∉ readerVisualKeys)) = raw := by
    rw [List.filter_eq_self]
    intro kv hkv
    simpa using hvis kv hkv
  have h3 : raw.filter (fun kv => decide (kv.1 ∈ readerVisualKeys)) = [] := by
    rw [List.filter_eq_nil_iff]
    intro kv hkv
    simpa using hvis kv hkv
  unfold splitRaw
  simp only [h1, h2, h3]
  rfl

theorem line_fixed (cfg : Cfg) (sky : ℚ → ℚ) (p : ℕ) (hsky : SkyFix sky p) (g : Dict) (ms : List Dict)
    (hsound : HoistSound ms g) (hfrom : ∀ kv ∈ g, ∃ m ∈ ms, kv ∈ m) (hms : ∀ m ∈ ms, NormalDict m)
    (r : Region) (d : WLine) (hn : ReaderNormal p r)
    (hd : serializeRegion cfg r = .ok (some d)) (hdn : NormalDict d.mta)
    (hdb : ∀ k ∈ binaryMeta, get d.mta k = get r.mta k)
    (hmem : hoistable d.mta ∈ ms) :
    ∃ raw r', defineRaw (gRead g) none (rawDict ((keys g).foldl AL.pop d.mta)) = .ok raw ∧
      makeRegion d.frame d.shape (d.params.map (rnd sky p)) raw = .ok r' ∧ RegionEqv r r' := by
  obtain ⟨hwf, hex, hnreg, hcoords, hnums, hvalid, hmeta⟩ := hn
  obtain ⟨hvis, hkeys, hbin, hincl, htag, hlabel, htext⟩ := hmeta
  obtain ⟨hcomp, hfn, hsp, htr⟩ := serializeRegion_some hd
  -- keys of `global` are DS9 meta keys
  have hgkeys : ∀ k ∈ keys g, k ∈ ds9MetaKeys := fun k hk =>
    (normalDict_hoistable hdn).keysOK k (hoist_key_mem hsound hk hmem)
  -- 1. the raw dictionary
  have hallkeys : ∀ k ∈ keys (AL.update (AL.update (gRead g) (includeMeta (gRead g) none))
      (rawDict ((keys g).foldl AL.pop d.mta))), k ∈ ds9MetaKeys := by
    intro k hk
    rcases (mem_keys_update _ _ k).mp hk with h1 | h1
    · rcases (mem_keys_update _ _ k).mp h1 with h2 | h2
      · exact hgkeys k (mem_keys_gRead h2)
      · unfold includeMeta at h2
        simp only at h2
        split at h2
        · simp [keys] at h2
        · simp only [keys, List.map_cons, List.map_nil, List.mem_singleton] at h2
          rw [h2]; decide
    · exact hdn.keysOK k (mem_keys_popKeys (mem_keys_rawDict h1))
  obtain ⟨raw, hraw⟩ : ∃ raw, defineRaw (gRead g) none (rawDict ((keys g).foldl AL.pop d.mta)) = .ok raw := by
    unfold defineRaw
    apply defineRawAux_ok
    intro kv hkv hc
    have := hallkeys kv.1 (List.mem_map.mpr ⟨kv, hkv, rfl⟩)
    rw [hc] at this
    revert this; decide
  have hrawkeys : ∀ k ∈ keys raw, k ∈ ds9MetaKeys := by
    intro k hk
    have hsub := (defineRawAux_spec _ raw (nodup_all (gRead g) _ _ (gRead_nodup g)) hraw).2
    exact hallkeys k (hsub.subset hk)
  -- 2. geometry
  have hwr : WellRounded sky p r := wellRounded_normal sky p hsky r hnums hvalid
  obtain ⟨himg, hframe⟩ := ds9Name_image hfn
  have hgeo : geometry (decide (d.frame = .image)) d.shape (d.params.map (rnd sky p)) =
      .ok (rshapeOf r.shape, r.shape, r.coords, r.nums) := by
    rw [himg, geometry_of_shapeParams sky p r d.shape d.params hsp, if_pos hwr,
      expNums_normal sky p hsky _ r d.shape d.params hsp hnums]
    have hc : r.coords.map (expCoord sky p (decide (r.frame = .image))) = r.coords := by
      calc r.coords.map (expCoord sky p (decide (r.frame = .image))) = r.coords.map id :=
            List.map_congr_left (fun c hc => expCoord_normal sky p hsky _ c (hcoords c hc))
        _ = r.coords := List.map_id _
    rw [hc]
    have : ds9Class r.shape = r.shape := by
      cases hs : r.shape <;> simp [ds9Class] <;> exact absurd hs hnreg
    rw [this]
  -- 3. the region
  have hsplit := splitRaw_plain raw hrawkeys
  have hvalidkeys : ∀ (m : Dict), (∀ k ∈ keys m, k ∈ ds9MetaKeys) →
      m.any (fun kv => decide (kv.1 ∉ regionMetaKeys)) = false := by
    intro m hm
    rw [List.any_eq_false]
    intro kv hkv
    have := hm kv.1 (List.mem_map.mpr ⟨kv, hkv, rfl⟩)
    have hin : kv.1 ∈ regionMetaKeys := by
      simp only [ds9MetaKeys, List.mem_cons, List.not_mem_nil, or_false] at this
      rcases this with h | h | h | h | h | h | h | h | h | h | h | h <;> rw [h] <;> decide
    simpa using hin
  have hpopkeys : ∀ k ∈ keys (AL.pop raw .text), k ∈ ds9MetaKeys := fun k hk =>
    hrawkeys k (mem_keys_pop.mp hk).2
  obtain ⟨r', hmk⟩ : ∃ r', makeRegion d.frame d.shape (d.params.map (rnd sky p)) raw = .ok r' := by
    unfold makeRegion
    rw [finalShape_of_geometry hgeo]
    simp only [hsplit, ds9ToVisual_plain, hgeo]
    by_cases ht : rshapeOf r.shape = .text
    · -- a text region: its string comes back as a string
      have hshape : r.shape = .text := by
        cases hs : r.shape <;> simp [hs, rshapeOf] at ht ⊢
      have hsome : r.text.isSome = true := hwf.2.1.mp hshape
      obtain ⟨t, ht'⟩ := Option.isSome_iff_exists.mp hsome
      rw [ht'] at htext
      cases t with
      | str s =>
        have hdm : get d.mta .text = some (.str ('{' :: s ++ ['}'])) := by
          rw [translate_get_text htr, hwf.2.2.2.2.1, hwf.2.2.1 hshape, ht']; rfl
        have hrawtext := raw_text hsound hmem hdn.nodup hraw s hdm
        simp only [if_pos ht, hrawtext, Option.getD_some, textIsStr, hvalidkeys _ hpopkeys]
        exact ⟨_, rfl⟩
      | _ => exact absurd htext (by simp [StrOK])
    · simp only [if_neg ht, textIsStr, hvalidkeys _ hrawkeys]
      exact ⟨_, rfl⟩
  refine ⟨raw, r', hraw, hmk, ?_⟩
  -- 4. equality
  have hrt := region_roundtrip cfg sky p g ms r d ⟨d.frame, d.shape, d.params.map (rnd sky p), raw⟩ r'
    hwf hsound hmem hd ⟨rfl, rfl, rfl, hraw⟩ hmk
  obtain ⟨rs, cls, coords, nums, vis, hgeo', hvis', e1, e2, e3, e4, e5, e6, e7⟩ := makeRegion_ok hmk
  rw [hgeo] at hgeo'
  simp only [Except.ok.injEq, Prod.mk.injEq] at hgeo'
  obtain ⟨hrs, hcls, hco, hnu⟩ := hgeo'
  rw [hsplit] at hvis' e6
  simp only at hvis' e6
  rw [ds9ToVisual_plain] at hvis'
  simp only [Except.ok.injEq] at hvis'
  have hrs_text : rs = .text ↔ r.shape = .text := by
    rw [← hrs]
    cases r.shape <;> simp [rshapeOf] at hcomp ⊢
  have hmn : MetaNormal r := ⟨hvis, hkeys, hbin, hincl, htag, hlabel, htext⟩
  refine ⟨e1.trans hcls.symm, e2.trans hframe, e3.trans hco.symm, e4.trans hnu.symm, ?_, ?_, ?_⟩
  · -- text
    cases ht : r.text with
    | none => exact hrt.text_none ht
    | some t =>
      rw [ht] at htext
      cases t with
      | str s => exact hrt.text s ht
      | _ => exact absurd htext (by simp [StrOK])
  · -- meta, key by key
    intro k
    by_cases hkin : k ∈ ds9MetaKeys
    · rcases ds9Meta_cases hkin with hb | rfl | rfl
      · -- binary keys (include among them)
        have hkt : k ≠ .text := by intro h; subst h; simp [binaryMeta] at hb
        have hktag : k ≠ .tag := by intro h; subst h; simp [binaryMeta] at hb
        have hr'k : get r'.mta k = get raw k := by
          rw [e6]; split
          · exact get_pop_ne _ hkt
          · rfl
        rw [hr'k, raw_get g d.mta raw hdn.nodup hraw, hdb _ hb]
        by_cases hk : k ∈ keys g
        · -- hoisted: the hoisted value is an int of a normal region, Python-equal to this one's
          rw [if_pos hk, get_gRead_of_ne_tag g k hktag]
          obtain ⟨v, hv⟩ := Option.isSome_iff_exists.mp (get_isSome_iff.mpr hk)
          obtain ⟨v', hv', hs⟩ := hsound k v (get_mem hv) _ hmem
          obtain ⟨m, hm, hvm⟩ := hfrom (k, v) (get_mem hv)
          have hvint := (hms m hm).binary k hb v (get_of_mem (hms m hm).nodup hvm)
          rw [get_hoistable d.mta k hktag, hdb _ hb] at hv'
          have hv'int := binary_get hmn hb hv'
          have hvv : v = v' := by
            rcases hvint with rfl | rfl <;> rcases hv'int with rfl | rfl
            · rfl
            · exact absurd (pySame_int hs) (by decide)
            · exact absurd (pySame_int hs) (by decide)
            · rfl
          subst hvv
          rw [hv, hv']
          simp only [Option.map_some, Option.bind_some]
          rcases hv'int with rfl | rfl
          · exact rawConv_binary_int k hb 0 (Or.inl rfl)
          · exact rawConv_binary_int k hb 1 (Or.inr rfl)
        · rw [if_neg hk]
          cases hv : get r.mta k with
          | none =>
            -- only `include` has a default, and a normal region always carries `include`
            by_cases hki : k = .include
            · subst hki; rw [hv] at hincl; simp at hincl
            · simp [hki]
          | some v =>
            have hvint := binary_get hmn hb hv
            simp only [Option.bind_some, rawItem, if_neg hktag, Option.orElse_some]
            rcases hvint with rfl | rfl
            · exact rawConv_binary_int k hb 0 (Or.inl rfl)
            · exact rawConv_binary_int k hb 1 (Or.inr rfl)
      · -- tag
        cases hg : get r.mta .tag with
        | none => exact hrt.tags_none hg
        | some t =>
          rw [hg] at htag
          cases t with
          | strs l => rw [hrt.tags l hg, if_neg htag]
          | _ => exact absurd htag (by simp)
      · -- text label
        by_cases hs : r.shape = .text
        · rw [hrt.label_none (hwf.2.2.1 hs), hwf.2.2.1 hs]
        · cases hl : get r.mta .text with
          | none => exact hrt.label_none hl
          | some t =>
            rw [hl] at hlabel
            cases t with
            | str s => exact hrt.label hs s hl
            | _ => exact absurd hlabel (by simp [StrOK])
    · -- other keys are absent on both sides
      have h1 : get r.mta k = none := by
        apply get_eq_none_iff.mpr
        intro hc
        obtain ⟨kv, hkv, rfl⟩ := List.mem_map.mp hc
        exact hkin (hkeys kv hkv)
      have h2 : get r'.mta k = none := by
        apply get_eq_none_iff.mpr
        intro hc
        rw [e6] at hc
        split at hc
        · exact hkin (hpopkeys k hc)
        · exact hkin (hrawkeys k hc)
      rw [h1, h2]
  · -- visual
    intro k
    rw [e7, ← hvis', toRegionVisual_plain, hvis]

/-! ### list plumbing for the total statement -/

theorem collect_ok (f : Region → Except String (Option WLine)) (rs : List Region)
    (h : ∀ r ∈ rs, ∃ d, f r = .ok (some d)) :
    ∃ ds, collect f rs = .ok ds ∧ List.Forall₂ (fun r d => f r = .ok (some d)) rs ds := by
  induction rs with
  | nil => exact ⟨[], rfl, List.Forall₂.nil⟩
  | cons r rs ih =>
    obtain ⟨d, hd⟩ := h r List.mem_cons_self
    obtain ⟨ds, hds, hf⟩ := ih (fun x hx => h x (List.mem_cons_of_mem _ hx))
    refine ⟨d :: ds, ?_, List.Forall₂.cons hd hf⟩
    unfold collect
    simp only [hd, hds]

theorem fixed_lines (sky : ℚ → ℚ) (p : ℕ) (G : RDict) (g : Dict) (Q : Region → Region → Prop)
    (rs : List Region) (ds : List WLine)
    (h : List.Forall₂ (fun r d => ∃ raw r',
      defineRaw G none (rawDict ((keys g).foldl AL.pop d.mta)) = .ok raw ∧
      makeRegion d.frame d.shape (d.params.map (rnd sky p)) raw = .ok r' ∧ Q r r') rs ds) :
    ∃ rd out, expectRaw sky p G (ds.map (dropGlobal g)) = .ok rd ∧ makeAll rd = .ok out ∧
      List.Forall₂ Q rs out := by
  induction h with
  | nil => exact ⟨[], [], rfl, rfl, List.Forall₂.nil⟩
  | @cons r d rs ds hrd _ ih =>
    obtain ⟨raw, r', hraw, hmk, hq⟩ := hrd
    obtain ⟨rd, out, hrd', hout, hf⟩ := ih
    refine ⟨⟨d.frame, d.shape, d.params.map (rnd sky p), raw⟩ :: rd, r' :: out, ?_, ?_, List.Forall₂.cons hq hf⟩
    · rw [List.map_cons, expectRaw]
      have e1 : (dropGlobal g d).mta = (keys g).foldl AL.pop d.mta := rfl
      rw [e1, hraw, hrd']
      rfl
    · rw [makeAll]
      simp only [hmk, hout]

theorem forall₂_imp_mem {α β : Type} {R S : α → β → Prop} {as : List α} {bs : List β}
    (h : List.Forall₂ R as bs) (hi : ∀ a b, a ∈ as → b ∈ bs → R a b → S a b) : List.Forall₂ S as bs := by
  induction h with
  | nil => exact List.Forall₂.nil
  | @cons a b as bs hab _ ih =>
    exact List.Forall₂.cons (hi a b List.mem_cons_self List.mem_cons_self hab)
      (ih (fun a' b' ha' hb' => hi a' b' (List.mem_cons_of_mem _ ha') (List.mem_cons_of_mem _ hb')))


theorem forall₂_exists_right {α β : Type} {R : α → β → Prop} {as : List α} {bs : List β}
    (h : List.Forall₂ R as bs) {a : α} (ha : a ∈ as) : ∃ b, b ∈ bs ∧ R a b := by
  induction h with
  | nil => simp at ha
  | @cons a' b as bs hab _ ih =>
    rcases List.mem_cons.mp ha with rfl | ha'
    · exact ⟨b, List.mem_cons_self, hab⟩
    · obtain ⟨b0, hb0, h0⟩ := ih ha'
      exact ⟨b0, List.mem_cons_of_mem _ hb0, h0⟩


/-! ### frame attributes (F35): plumbing -/

theorem serialize_none_filter {cfg : Cfg} {ord : List Key} {p : ℕ} {rs : List Region}
    (h : serialize cfg ord p rs = .ok none) : rs.filter (fun r => decide (Expressible r)) = [] := by
  unfold serialize at h
  by_cases hrs : rs = []
  · subst hrs; rfl
  · rw [if_neg hrs] at h
    cases hc : collect (serializeRegion cfg) rs with
    | error e => simp [hc] at h
    | ok ds =>
      rw [hc] at h
      cases ds with
      | nil =>
        have F1 := collect_forall₂ _ rs [] hc
        rw [kept_eq_filter hc] at F1
        exact List.forall₂_nil_right_iff.mp F1
      | cons d ds' => simp at h

/-- a successful structured round trip: either nothing was written, or writer and reader both
succeeded. -/
theorem roundTrip_ok {cfg : Cfg} {ord : List Key} {sky : ℚ → ℚ} {p : ℕ} {rs out : List Region}
    (h : roundTrip cfg ord sky p rs = .ok out) :
    (out = [] ∧ rs.filter (fun r => decide (Expressible r)) = []) ∨
      ∃ o, serialize cfg ord p rs = .ok (some o) ∧ parse (toRaw sky o) = .ok out := by
  unfold roundTrip at h
  cases hs : serialize cfg ord p rs with
  | error e => simp [hs] at h
  | ok oo =>
    cases oo with
    | none =>
      simp only [hs, Except.ok.injEq] at h
      exact Or.inl ⟨h.symm, serialize_none_filter hs⟩
    | some o =>
      simp only [hs] at h
      exact Or.inr ⟨o, rfl, h⟩

theorem stdRegion_of_default (T : AttrMap) (r : Region) (h : T r = r.coords) : stdRegion T r = r := by
  unfold stdRegion
  rw [h]

theorem standardize_eq_map (cfg : Cfg) (T : AttrMap) (rs : List Region)
    (h : cfg.stdAttrs = true ∨ ∀ r ∈ rs, T r = r.coords) : standardize cfg T rs = rs.map (stdRegion T) := by
  unfold standardize
  by_cases hc : cfg.stdAttrs = true
  · rw [if_pos hc]
  · rw [if_neg hc]
    rcases h with h | h
    · exact absurd h hc
    · calc rs = rs.map id := (List.map_id rs).symm
        _ = rs.map (stdRegion T) :=
          List.map_congr_left (fun r hr => (stdRegion_of_default T r (h r hr)).symm)

theorem filter_expressible_map_std (T : AttrMap) (rs : List Region) :
    (rs.map (stdRegion T)).filter (fun r => decide (Expressible r)) =
      (rs.filter (fun r => decide (Expressible r))).map (stdRegion T) := by
  rw [List.filter_map]
  rfl


end RegionsVerif.Impl.Ds9
