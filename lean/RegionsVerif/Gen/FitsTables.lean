/- GENERATED on every run by harness/c12.py from the live regions.io.fits sources. Do not edit. -/
namespace RegionsVerif.Gen.FitsTables
def shapeMap : List (String × String × List String) :=
  [("point", "PointPixelRegion", ["X0", "Y0"]), ("circle", "CirclePixelRegion", ["X0", "Y0", "R0"]), ("ellipse", "EllipsePixelRegion", ["X0", "Y0", "R0", "R1", "ROTANG0"]), ("annulus", "CircleAnnulusPixelRegion", ["X0", "Y0", "R0", "R1"]), ("elliptannulus", "EllipseAnnulusPixelRegion", ["X0", "Y0", "R0", "R1", "R2", "R3", "ROTANG0"]), ("box", "RectanglePixelRegion", ["X0", "Y0", "R0", "R1"]), ("rotbox", "RectanglePixelRegion", ["X0", "Y0", "R0", "R1", "ROTANG0"]), ("rectangle", "RectanglePixelRegion", ["X0", "X1", "Y0", "Y1"]), ("rotrectangle", "RectanglePixelRegion", ["X0", "X1", "Y0", "Y1", "ROTANG0"]), ("polygon", "PolygonPixelRegion", ["X", "Y"])]
def regionMap : List (String × String) :=
  [("circleannulus", "annulus"), ("ellipseannulus", "elliptannulus"), ("rectangle", "rotbox")]
def unsupportedRegions : List String := ["RectangleAnnulusPixelRegion", "LinePixelRegion", "TextPixelRegion", "CompoundPixelRegion"]
def unsupportedShapes : List String := ["pie", "sector", "diamond", "rhombus", "rotdiamond", "rotrhombus"]
def validColumns : List String := ["X", "Y", "SHAPE", "R", "ROTANG", "COMPONENT"]
end RegionsVerif.Gen.FitsTables
