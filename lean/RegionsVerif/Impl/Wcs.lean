/-
Impl model of the pixel <-> sky conversion code:

* `regions/_utils/wcs_helpers.py`  `pixel_scale_angle_at_skycoord`
* every `to_sky` / `to_pixel` in `regions/shapes/*.py`
* `regions/core/compound.py`       both constructors, `to_sky`, `to_pixel`, `CompoundSkyRegion.contains`
* `regions/core/core.py`           `SkyRegion.contains`

The WCS (astropy / wcslib) is a PARAMETER: a structure with the two coordinate maps and the
local quantities the helper returns at a sky position.  `Sky` is an abstract type (a
`SkyCoord`: position *and* frame).  Angular sizes are numbers of arcseconds, the pixel scale
is arcsec / pixel, rotation angles are unit vectors `(cos, sin)` (`Impl.Dir`) exactly as in
the other shape models; only the text region's `rotation` visual, which the code treats as a
bare number of degrees, is a number.

Everything in this file is generic over an ordered field: executed on `ℚ` by the driver,
reasoned about on `ℝ`.  `np.hypot` / `np.arctan2` do not exist in a field; the helper is
split into its subtraction part (`helperDelta`, here), a root-free characterisation of the
result (`IsHelperResult`, here) and the literal `sqrt` / `atan2` formulas over `ℝ`
(`Impl/WcsReal.lean`), which are proved to satisfy the characterisation.
-/
import RegionsVerif.Impl.Region

namespace RegionsVerif.Impl

/-! ### meta / visual dictionaries -/

/-- content of a `RegionMeta`: the `include` entry and the other entries (label, text, tag …)
as an insertion-ordered association list of opaque values. -/
structure Meta where
  inc : Include
  rest : List (String × String)
deriving DecidableEq, Repr

/-- `RegionMeta()`. -/
def Meta.empty : Meta := ⟨.absent, []⟩

/-- content of a `RegionVisual`: the `rotation` entry (a number of degrees, used by text
regions) and the other entries. -/
structure Visual (α : Type) where
  rotation : Option α
  rest : List (String × String)
deriving DecidableEq, Repr

/-- `RegionVisual()`. -/
def Visual.empty {α : Type} : Visual α := ⟨none, []⟩

/-- Python truth value of a dict: non-empty. -/
def Meta.truthy (m : Meta) : Bool := decide (m ≠ Meta.empty)

def Visual.truthy {α : Type} [DecidableEq α] (v : Visual α) : Bool := decide (v ≠ Visual.empty)

/-- `self.meta = meta or RegionMeta()` of every non-compound constructor
(`none` = the argument was `None`). -/
def metaOr : Option Meta → Meta
  | none => Meta.empty
  | some m => if m.truthy then m else Meta.empty

/-- `self.visual = visual or RegionVisual()`. -/
def visualOr {α : Type} [DecidableEq α] : Option (Visual α) → Visual α
  | none => Visual.empty
  | some v => if v.truthy then v else Visual.empty

/-! ### region records with their dictionaries -/

/-- what class an object is (pixel and sky classes correspond one to one). -/
inductive RClass
  | circle | ellipse | rectangle | polygon | circleAnnulus | ellipseAnnulus | rectangleAnnulus
  | point | line | text | compound
deriving DecidableEq, Repr

/-- the `operator` of a compound region: ANY callable is accepted by both constructors.  `std` are the three operators
the public `&`, `|`, `^` build (shared `Impl.BoolOp`); `table` is an arbitrary Boolean function of the two component
answers given by its truth table (`ff` = value at (False, False), `ft` at (False, True), …) — e.g. the set difference
`a & ~b` is `table false false true false`.  Not commutative in general: the ORDER of the two answers matters. -/
inductive ROp
  | std (o : BoolOp)
  | table (ff ft tf tt : Bool)
deriving DecidableEq, Repr

def ROp.apply : ROp → Bool → Bool → Bool
  | .std o, a, b => o.apply a b
  | .table ff _ _ _, false, false => ff
  | .table _ ft _ _, false, true => ft
  | .table _ _ tf _, true, false => tf
  | .table _ _ _ tt, true, true => tt

/-- pixel regions (`RegularPolygonPixelRegion` is a `PolygonPixelRegion` here: it inherits
`to_sky` and is represented by its vertices). -/
inductive PixR (α : Type) where
  | circle (c : Pt α) (r : α) (m : Meta) (v : Visual α)
  | ellipse (c : Pt α) (w h : α) (d : Dir α) (m : Meta) (v : Visual α)
  | rect (c : Pt α) (w h : α) (d : Dir α) (m : Meta) (v : Visual α)
  | polygon (vs : List (Pt α)) (m : Meta) (v : Visual α)
  | circleAnnulus (c : Pt α) (r1 r2 : α) (m : Meta) (v : Visual α)
  | ellipseAnnulus (c : Pt α) (w1 w2 h1 h2 : α) (d : Dir α) (m : Meta) (v : Visual α)
  | rectAnnulus (c : Pt α) (w1 w2 h1 h2 : α) (d : Dir α) (m : Meta) (v : Visual α)
  | point (c : Pt α) (m : Meta) (v : Visual α)
  | line (a b : Pt α) (m : Meta) (v : Visual α)
  | text (c : Pt α) (t : String) (m : Meta) (v : Visual α)
  | compound (op : ROp) (r1 r2 : PixR α) (m : Meta) (v : Visual α)

/-- sky regions; sizes in arcsec, angle `(cos, sin)` of the sky angle. -/
inductive SkyR (Sky : Type) (α : Type) where
  | circle (c : Sky) (r : α) (m : Meta) (v : Visual α)
  | ellipse (c : Sky) (w h : α) (d : Dir α) (m : Meta) (v : Visual α)
  | rect (c : Sky) (w h : α) (d : Dir α) (m : Meta) (v : Visual α)
  | polygon (vs : List Sky) (m : Meta) (v : Visual α)
  | circleAnnulus (c : Sky) (r1 r2 : α) (m : Meta) (v : Visual α)
  | ellipseAnnulus (c : Sky) (w1 w2 h1 h2 : α) (d : Dir α) (m : Meta) (v : Visual α)
  | rectAnnulus (c : Sky) (w1 w2 h1 h2 : α) (d : Dir α) (m : Meta) (v : Visual α)
  | point (c : Sky) (m : Meta) (v : Visual α)
  | line (a b : Sky) (m : Meta) (v : Visual α)
  | text (c : Sky) (t : String) (m : Meta) (v : Visual α)
  | compound (op : ROp) (r1 r2 : SkyR Sky α) (m : Meta) (v : Visual α)

section accessors
variable {Sky α : Type}

def PixR.metaD : PixR α → Meta
  | .circle _ _ m _ | .ellipse _ _ _ _ m _ | .rect _ _ _ _ m _ | .polygon _ m _
  | .circleAnnulus _ _ _ m _ | .ellipseAnnulus _ _ _ _ _ _ m _ | .rectAnnulus _ _ _ _ _ _ m _
  | .point _ m _ | .line _ _ m _ | .text _ _ m _ | .compound _ _ _ m _ => m

def PixR.visualD : PixR α → Visual α
  | .circle _ _ _ v | .ellipse _ _ _ _ _ v | .rect _ _ _ _ _ v | .polygon _ _ v
  | .circleAnnulus _ _ _ _ v | .ellipseAnnulus _ _ _ _ _ _ _ v | .rectAnnulus _ _ _ _ _ _ _ v
  | .point _ _ v | .line _ _ _ v | .text _ _ _ v | .compound _ _ _ _ v => v

def SkyR.metaD : SkyR Sky α → Meta
  | .circle _ _ m _ | .ellipse _ _ _ _ m _ | .rect _ _ _ _ m _ | .polygon _ m _
  | .circleAnnulus _ _ _ m _ | .ellipseAnnulus _ _ _ _ _ _ m _ | .rectAnnulus _ _ _ _ _ _ m _
  | .point _ m _ | .line _ _ m _ | .text _ _ m _ | .compound _ _ _ m _ => m

def SkyR.visualD : SkyR Sky α → Visual α
  | .circle _ _ _ v | .ellipse _ _ _ _ _ v | .rect _ _ _ _ _ v | .polygon _ _ v
  | .circleAnnulus _ _ _ _ v | .ellipseAnnulus _ _ _ _ _ _ _ v | .rectAnnulus _ _ _ _ _ _ _ v
  | .point _ _ v | .line _ _ _ v | .text _ _ _ v | .compound _ _ _ _ v => v

def PixR.cls : PixR α → RClass
  | .circle .. => .circle | .ellipse .. => .ellipse | .rect .. => .rectangle
  | .polygon .. => .polygon | .circleAnnulus .. => .circleAnnulus
  | .ellipseAnnulus .. => .ellipseAnnulus | .rectAnnulus .. => .rectangleAnnulus
  | .point .. => .point | .line .. => .line | .text .. => .text | .compound .. => .compound

def SkyR.cls : SkyR Sky α → RClass
  | .circle .. => .circle | .ellipse .. => .ellipse | .rect .. => .rectangle
  | .polygon .. => .polygon | .circleAnnulus .. => .circleAnnulus
  | .ellipseAnnulus .. => .ellipseAnnulus | .rectAnnulus .. => .rectangleAnnulus
  | .point .. => .point | .line .. => .line | .text .. => .text | .compound .. => .compound

/-- all `meta` dictionaries of an expression, root first (pre-order). -/
def PixR.metas : PixR α → List Meta
  | .compound _ a b m _ => m :: (a.metas ++ b.metas)
  | r => [r.metaD]

def PixR.visuals : PixR α → List (Visual α)
  | .compound _ a b _ v => v :: (a.visuals ++ b.visuals)
  | r => [r.visualD]

def SkyR.metas : SkyR Sky α → List Meta
  | .compound _ a b m _ => m :: (a.metas ++ b.metas)
  | r => [r.metaD]

def SkyR.visuals : SkyR Sky α → List (Visual α)
  | .compound _ a b _ v => v :: (a.visuals ++ b.visuals)
  | r => [r.visualD]

/-- the expression with every dictionary replaced by the empty one: class, operator,
text and all numeric parameters remain. -/
def PixR.geom : PixR α → PixR α
  | .circle c r _ _ => .circle c r Meta.empty Visual.empty
  | .ellipse c w h d _ _ => .ellipse c w h d Meta.empty Visual.empty
  | .rect c w h d _ _ => .rect c w h d Meta.empty Visual.empty
  | .polygon vs _ _ => .polygon vs Meta.empty Visual.empty
  | .circleAnnulus c r1 r2 _ _ => .circleAnnulus c r1 r2 Meta.empty Visual.empty
  | .ellipseAnnulus c w1 w2 h1 h2 d _ _ => .ellipseAnnulus c w1 w2 h1 h2 d Meta.empty Visual.empty
  | .rectAnnulus c w1 w2 h1 h2 d _ _ => .rectAnnulus c w1 w2 h1 h2 d Meta.empty Visual.empty
  | .point c _ _ => .point c Meta.empty Visual.empty
  | .line a b _ _ => .line a b Meta.empty Visual.empty
  | .text c t _ _ => .text c t Meta.empty Visual.empty
  | .compound op a b _ _ => .compound op a.geom b.geom Meta.empty Visual.empty

def SkyR.geom : SkyR Sky α → SkyR Sky α
  | .circle c r _ _ => .circle c r Meta.empty Visual.empty
  | .ellipse c w h d _ _ => .ellipse c w h d Meta.empty Visual.empty
  | .rect c w h d _ _ => .rect c w h d Meta.empty Visual.empty
  | .polygon vs _ _ => .polygon vs Meta.empty Visual.empty
  | .circleAnnulus c r1 r2 _ _ => .circleAnnulus c r1 r2 Meta.empty Visual.empty
  | .ellipseAnnulus c w1 w2 h1 h2 d _ _ => .ellipseAnnulus c w1 w2 h1 h2 d Meta.empty Visual.empty
  | .rectAnnulus c w1 w2 h1 h2 d _ _ => .rectAnnulus c w1 w2 h1 h2 d Meta.empty Visual.empty
  | .point c _ _ => .point c Meta.empty Visual.empty
  | .line a b _ _ => .line a b Meta.empty Visual.empty
  | .text c t _ _ => .text c t Meta.empty Visual.empty
  | .compound op a b _ _ => .compound op a.geom b.geom Meta.empty Visual.empty

end accessors

/-! ### the compound constructors (`regions/core/compound.py`) -/

section ctor
variable {Sky α : Type}

/-- `CompoundPixelRegion.__init__(region1, region2, operator, meta=None, visual=None)`:
`None` ⇒ region1's dictionary (the same object), otherwise the argument. -/
def PixR.mkCompound (r1 r2 : PixR α) (op : ROp) (metaArg : Option Meta) (visualArg : Option (Visual α)) :
    PixR α :=
  .compound op r1 r2
    (match metaArg with | none => r1.metaD | some m => m)
    (match visualArg with | none => r1.visualD | some v => v)

/-- `CompoundSkyRegion.__init__(region1, region2, operator, meta=None, visual=None)`:
`None` ⇒ region1's dictionary, otherwise the argument (as `CompoundPixelRegion.__init__`; F2 fixed). -/
def SkyR.mkCompound (r1 r2 : SkyR Sky α) (op : ROp) (metaArg : Option Meta) (visualArg : Option (Visual α)) :
    SkyR Sky α :=
  .compound op r1 r2
    (match metaArg with | none => r1.metaD | some m => m)
    (match visualArg with | none => r1.visualD | some v => v)

end ctor

section field
variable {Sky α : Type} [Field α] [LinearOrder α] [IsStrictOrderedRing α]

/-! ### angle arithmetic on unit vectors -/

/-- `a - b`. -/
def Dir.sub (a b : Dir α) : Dir α := a.add b.neg

/-- `90 * u.deg`. -/
def Dir.deg90 : Dir α := ⟨0, 1⟩

/-- `180 * u.deg`. -/
def Dir.deg180 : Dir α := ⟨-1, 0⟩

/-- `north_angle - 90 * u.deg`. -/
def northMinus90 (n : Dir α) : Dir α := n.sub Dir.deg90

/-! ### the WCS and `pixel_scale_angle_at_skycoord` -/

/-- the `(scale, angle)` part of the helper's result: pixel scale in arcsec / pixel, the angle
from the +x axis to local north as a unit vector and as a number of degrees. -/
structure Local (α : Type) where
  scale : α
  north : Dir α
  northDeg : α

/-- the WCS as seen by the conversion code. -/
structure Wcs (Sky : Type) (α : Type) where
  /-- `wcs.world_to_pixel(skycoord)` -/
  toPix : Sky → Pt α
  /-- `wcs.pixel_to_world(x, y)` -/
  toSky : Pt α → Sky
  /-- `pixel_scale_angle_at_skycoord(skycoord, wcs)[1:]` -/
  loc : Sky → Local α

/-- `pixel_scale_angle_at_skycoord(skycoord, wcs)` as the conversion code uses it:
`(pixcoord, scale, angle)`. -/
def Wcs.scaleAngle (w : Wcs Sky α) (q : Sky) : Pt α × α × Dir α :=
  (w.toPix q, (w.loc q).scale, (w.loc q).north)

/-- the subtraction part of the helper. -/
structure HelperDelta (α : Type) where
  pix : Pt α
  dx : α
  dy : α

/-- ```
x, y = wcs.world_to_pixel(skycoord)
skycoord_offset = skycoord.directional_offset_by(0.0, offset)      -- `northOf`
x_offset, y_offset = wcs.world_to_pixel(skycoord_offset)
dx = x_offset - x ; dy = y_offset - y
``` -/
def helperDelta (toPix : Sky → Pt α) (northOf : Sky → Sky) (q : Sky) : HelperDelta α :=
  let p := toPix q
  let po := toPix (northOf q)
  ⟨p, po.x - p.x, po.y - p.y⟩

/-- `np.hypot(dx, dy) ** 2`. -/
def HelperDelta.hypot2 (d : HelperDelta α) : α := d.dx ^ 2 + d.dy ^ 2

/-- root-free characterisation of
`scale = offset / hypot(dx, dy)`, `angle = arctan2(dy, dx)`:
with `h = hypot(dx, dy) > 0`, `scale = offset / h` and `(cos, sin)(angle) = (dx, dy) / h`.
(`WcsReal.helperReal_spec`: the literal formulas over `ℝ` satisfy it.) -/
def IsHelperResult (offset : α) (d : HelperDelta α) (l : Local α) : Prop :=
  ∃ h : α, 0 < h ∧ h ^ 2 = d.hypot2 ∧ l.scale = offset / h ∧ l.north.c = d.dx / h ∧ l.north.s = d.dy / h

/-! ### `to_sky` -/

/-- `PixelRegion.to_sky(wcs)` for every class.  `self.meta.copy()` has the content of `self.meta`;
each sky constructor then applies `meta or RegionMeta()`. -/
def PixR.toSky (w : Wcs Sky α) : PixR α → SkyR Sky α
  | .circle c r m v =>
      let center := w.toSky c
      let pixscale := (w.scaleAngle center).2.1
      .circle center (r * pixscale) (metaOr (some m)) (visualOr (some v))
  | .ellipse c wd h d m v =>
      let center := w.toSky c
      let (_, pixscale, north) := w.scaleAngle center
      let height := h * pixscale
      let width := wd * pixscale
      let angle := d.sub (northMinus90 north)
      .ellipse center width height angle (metaOr (some m)) (visualOr (some v))
  | .rect c wd h d m v =>
      let center := w.toSky c
      let (_, pixscale, north) := w.scaleAngle center
      let width := wd * pixscale
      let height := h * pixscale
      let angle := d.sub (northMinus90 north)
      .rect center width height angle (metaOr (some m)) (visualOr (some v))
  | .polygon vs m v => .polygon (vs.map w.toSky) (metaOr (some m)) (visualOr (some v))
  | .circleAnnulus c r1 r2 m v =>
      let center := w.toSky c
      let pixscale := (w.scaleAngle center).2.1
      .circleAnnulus center (r1 * pixscale) (r2 * pixscale) (metaOr (some m)) (visualOr (some v))
  | .ellipseAnnulus c w1 w2 h1 h2 d m v =>
      let center := w.toSky c
      let (_, pixscale, north) := w.scaleAngle center
      .ellipseAnnulus center (w1 * pixscale) (w2 * pixscale) (h1 * pixscale) (h2 * pixscale)
        (d.sub (northMinus90 north)) (metaOr (some m)) (visualOr (some v))
  | .rectAnnulus c w1 w2 h1 h2 d m v =>
      let center := w.toSky c
      let (_, pixscale, north) := w.scaleAngle center
      .rectAnnulus center (w1 * pixscale) (w2 * pixscale) (h1 * pixscale) (h2 * pixscale)
        (d.sub (northMinus90 north)) (metaOr (some m)) (visualOr (some v))
  | .point c m v => .point (w.toSky c) (metaOr (some m)) (visualOr (some v))
  | .line a b m v => .line (w.toSky a) (w.toSky b) (metaOr (some m)) (visualOr (some v))
  | .text c t m v =>
      let center := w.toSky c
      -- `if 'rotation' in self.visual: visual['rotation'] -= angle.to('deg').value - 90.`
      let visual : Visual α := match v.rotation with
        | some rot => ⟨some (rot - ((w.loc center).northDeg - 90)), v.rest⟩
        | none => v
      .text center t (metaOr (some m)) (visualOr (some visual))
  | .compound op r1 r2 m v =>
      SkyR.mkCompound (r1.toSky w) (r2.toSky w) op (some m) (some v)

/-! ### `to_pixel` -/

/-- `SkyRegion.to_pixel(wcs)` for every class. -/
def SkyR.toPixel (w : Wcs Sky α) : SkyR Sky α → PixR α
  | .circle c r m v =>
      let (center, pixscale, _) := w.scaleAngle c
      .circle center (r / pixscale) (metaOr (some m)) (visualOr (some v))
  | .ellipse c wd h d m v =>
      let (center, pixscale, north) := w.scaleAngle c
      let height := h / pixscale
      let width := wd / pixscale
      let angle := d.add (northMinus90 north)
      .ellipse center width height angle (metaOr (some m)) (visualOr (some v))
  | .rect c wd h d m v =>
      let (center, pixscale, north) := w.scaleAngle c
      let width := wd / pixscale
      let height := h / pixscale
      let angle := d.add (northMinus90 north)
      .rect center width height angle (metaOr (some m)) (visualOr (some v))
  | .polygon vs m v => .polygon (vs.map w.toPix) (metaOr (some m)) (visualOr (some v))
  | .circleAnnulus c r1 r2 m v =>
      let (center, pixscale, _) := w.scaleAngle c
      .circleAnnulus center (r1 / pixscale) (r2 / pixscale) (metaOr (some m)) (visualOr (some v))
  | .ellipseAnnulus c w1 w2 h1 h2 d m v =>
      let (center, pixscale, north) := w.scaleAngle c
      .ellipseAnnulus center (w1 / pixscale) (w2 / pixscale) (h1 / pixscale) (h2 / pixscale)
        (d.add (northMinus90 north)) (metaOr (some m)) (visualOr (some v))
  | .rectAnnulus c w1 w2 h1 h2 d m v =>
      let (center, pixscale, north) := w.scaleAngle c
      .rectAnnulus center (w1 / pixscale) (w2 / pixscale) (h1 / pixscale) (h2 / pixscale)
        (d.add (northMinus90 north)) (metaOr (some m)) (visualOr (some v))
  | .point c m v => .point (w.toPix c) (metaOr (some m)) (visualOr (some v))
  | .line a b m v => .line (w.toPix a) (w.toPix b) (metaOr (some m)) (visualOr (some v))
  | .text c t m v =>
      let center := w.toPix c
      -- `if 'rotation' in self.visual: visual['rotation'] += angle.to('deg').value - 90.`
      let visual : Visual α := match v.rotation with
        | some rot => ⟨some (rot + ((w.loc c).northDeg - 90)), v.rest⟩
        | none => v
      .text center t (metaOr (some m)) (visualOr (some visual))
  | .compound op r1 r2 m v =>
      PixR.mkCompound (r1.toPixel w) (r2.toPixel w) op (some m) (some v)

/-! ### membership -/

/-- the geometric content of a pixel region in the shared expression model of `Impl/Region.lean`
(the annulus helpers `_inner_region` / `_outer_region` are built with the annulus's own `meta`,
which is what `PReg.contains` implements for the annulus constructors).  `none` when a compound node carries an
operator outside `&`, `|`, `^` (the shared model has no such node). -/
def PixR.toPReg : PixR α → Option (PReg α)
  | .circle c r m _ => some (.circle ⟨c, r⟩ m.inc)
  | .ellipse c w h d m _ => some (.ellipse ⟨c, w, h, d⟩ m.inc)
  | .rect c w h d m _ => some (.rect ⟨c, w, h, d⟩ m.inc)
  | .polygon vs m _ => some (.polygon ⟨vs⟩ m.inc)
  | .circleAnnulus c r1 r2 m _ => some (.circleAnnulus c r1 r2 m.inc)
  | .ellipseAnnulus c w1 w2 h1 h2 d m _ => some (.ellipseAnnulus c w1 h1 w2 h2 d m.inc)
  | .rectAnnulus c w1 w2 h1 h2 d m _ => some (.rectAnnulus c w1 h1 w2 h2 d m.inc)
  | .point c m _ => some (.empty .point c c m.inc)
  | .line a b m _ => some (.empty .line a b m.inc)
  | .text c _ m _ => some (.empty .text c c m.inc)
  | .compound (.std o) a b m _ =>
    match a.toPReg, b.toPReg with
    | some ga, some gb => some (.compound o ga gb m.inc)
    | _, _ => none
  | .compound (.table ..) _ _ _ _ => none

/-- `PixelRegion.contains(pixcoord)`; `CompoundPixelRegion.contains`:
`operator(region1.contains(pixcoord), region2.contains(pixcoord))` — region1's answer FIRST — negated unless included. -/
def PixR.contains : PixR α → Pt α → Bool
  | .compound op a b m _, p => withInclude m.inc (op.apply (a.contains p) (b.contains p))
  | .circle c r m _, p => (PReg.circle ⟨c, r⟩ m.inc).contains p
  | .ellipse c w h d m _, p => (PReg.ellipse ⟨c, w, h, d⟩ m.inc).contains p
  | .rect c w h d m _, p => (PReg.rect ⟨c, w, h, d⟩ m.inc).contains p
  | .polygon vs m _, p => (PReg.polygon ⟨vs⟩ m.inc).contains p
  | .circleAnnulus c r1 r2 m _, p => (PReg.circleAnnulus c r1 r2 m.inc).contains p
  | .ellipseAnnulus c w1 w2 h1 h2 d m _, p => (PReg.ellipseAnnulus c w1 h1 w2 h2 d m.inc).contains p
  | .rectAnnulus c w1 w2 h1 h2 d m _, p => (PReg.rectAnnulus c w1 h1 w2 h2 d m.inc).contains p
  | .point c m _, p => (PReg.empty .point c c m.inc : PReg α).contains p
  | .line a b m _, p => (PReg.empty .line a b m.inc).contains p
  | .text c _ m _, p => (PReg.empty .text c c m.inc : PReg α).contains p

/-- `SkyRegion.contains(skycoord, wcs)`:
circle, ellipse, rectangle, polygon, the annuli (base class):
`x, y = wcs.world_to_pixel(skycoord); self.to_pixel(wcs).contains(PixCoord(x, y))` — region and positions through the same
`wcs.world_to_pixel` (`toPix`); before b44d15d (finding F205) the positions went through `PixCoord.from_sky`, which
exchanges the pixel axes of a latitude-first WCS;
`PointSkyRegion` / `LineSkyRegion` (and `TextSkyRegion`, a subclass of the point) override it without any
conversion: `in_reg = False` (or an array of `False`), returned as is or negated when excluded — per position
`not include`;
`CompoundSkyRegion.contains`: `operator(region1.contains(…), region2.contains(…))` — region1's answer FIRST —,
negated unless `self.meta.get('include', True)`. -/
def SkyR.contains (w : Wcs Sky α) : SkyR Sky α → Sky → Bool
  | .compound op a b m _, q => withInclude m.inc (op.apply (a.contains w q) (b.contains w q))
  | .circle c r m v, q => ((SkyR.circle c r m v).toPixel w).contains (w.toPix q)
  | .ellipse c wd h d m v, q => ((SkyR.ellipse c wd h d m v).toPixel w).contains (w.toPix q)
  | .rect c wd h d m v, q => ((SkyR.rect c wd h d m v).toPixel w).contains (w.toPix q)
  | .polygon vs m v, q => ((SkyR.polygon vs m v).toPixel w).contains (w.toPix q)
  | .circleAnnulus c r1 r2 m v, q => ((SkyR.circleAnnulus c r1 r2 m v).toPixel w).contains (w.toPix q)
  | .ellipseAnnulus c w1 w2 h1 h2 d m v, q =>
      ((SkyR.ellipseAnnulus c w1 w2 h1 h2 d m v).toPixel w).contains (w.toPix q)
  | .rectAnnulus c w1 w2 h1 h2 d m v, q =>
      ((SkyR.rectAnnulus c w1 w2 h1 h2 d m v).toPixel w).contains (w.toPix q)
  | .point _ m _, _ => !m.inc.truthy
  | .line _ _ m _, _ => !m.inc.truthy
  | .text _ _ m _, _ => !m.inc.truthy

end field

/-! ### shape of the answer of `contains` (scalar / array positions)

`none` = one scalar answer, `some dims` = an array of that shape (`Impl.QShape`).  The pixel classes
answer in the shape of the queried coordinates (`Impl.resultShape`, C01).  On the sky side the base
class answers through the pixel image, i.e. in the shape of the positions; the point / line / text
overrides answer `False if skycoord.isscalar else np.zeros(skycoord.shape, dtype=bool)` (negated when
excluded) — in the shape of the positions too, since the repair b532b53 (finding F203).  Before it they
returned ONE Python bool whatever was asked: the switch `emptyScalar = true` is that unrepaired variant,
kept so that the refutation of the shape clause stays a checked theorem.  The compound combines its
components' answers with a numpy-broadcasting operator (scalar ∘ scalar = scalar, anything with an array =
the array's shape; both arrays have the shape of the positions). -/

section shape
variable {Sky α : Type}

/-- does the expression contain a class that answers through the pixel image? -/
def SkyR.hasSized : SkyR Sky α → Bool
  | .point .. | .line .. | .text .. => false
  | .compound _ a b _ _ => a.hasSized || b.hasSized
  | _ => true

/-- shape of `SkyRegion.contains(skycoord, wcs)` for positions of shape `q`; `emptyScalar` selects the
unrepaired point / line / text overrides (`return not self.meta.get('include', True)`). -/
def SkyR.containsShapeV (emptyScalar : Bool) : SkyR Sky α → QShape → QShape
  | .point .., q | .line .., q | .text .., q => if emptyScalar then none else q
  | .compound _ a b _ _, q =>
    match a.containsShapeV emptyScalar q, b.containsShapeV emptyScalar q with
    | none, none => none
    | some d, _ => some d
    | none, some d => some d
  | _, q => q

/-- the current code. -/
def SkyR.containsShape (r : SkyR Sky α) (q : QShape) : QShape := r.containsShapeV false q

end shape

end RegionsVerif.Impl
