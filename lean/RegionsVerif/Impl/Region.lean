/-
Impl model of pixel-region *expressions*: the simple shapes, the three annuli (as the
code builds them: a `xor` compound of inner and outer sharing one meta), points/lines/text
and compound regions (`regions/core/compound.py`), with `contains` by structural recursion.
-/
import RegionsVerif.Impl.Shapes

namespace RegionsVerif.Impl

/-- the operators the public API builds (`&`, `|`, `^` → `operator.and_/or_/xor`). -/
inductive BoolOp | and | or | xor
deriving DecidableEq, Repr

def BoolOp.apply : BoolOp → Bool → Bool → Bool
  | .and, a, b => a && b
  | .or, a, b => a || b
  | .xor, a, b => Bool.xor a b

/-- what kind of empty (nothing-containing) region. -/
inductive EmptyKind | point | line | text
deriving DecidableEq, Repr

inductive PReg (α : Type) where
  | circle (r : Circle α) (i : Include)
  | ellipse (r : Ellipse α) (i : Include)
  | rect (r : Rect α) (i : Include)
  | polygon (r : Polygon α) (i : Include)
  | circleAnnulus (c : Pt α) (r1 r2 : α) (i : Include)
  | ellipseAnnulus (c : Pt α) (w1 h1 w2 h2 : α) (d : Dir α) (i : Include)
  | rectAnnulus (c : Pt α) (w1 h1 w2 h2 : α) (d : Dir α) (i : Include)
  | empty (k : EmptyKind) (a b : Pt α) (i : Include)   -- point: a = b = centre; line: start, end
  | compound (op : BoolOp) (r1 r2 : PReg α) (i : Include)

variable {α : Type} [Field α] [LinearOrder α] [IsStrictOrderedRing α]

/-- `contains(pixcoord)` for a scalar coordinate. -/
def PReg.contains : PReg α → Pt α → Bool
  | .circle r i, p => withInclude i (r.inRaw p)
  | .ellipse r i, p => withInclude i (r.inRaw p)
  | .rect r i, p => withInclude i (r.inRaw p)
  | .polygon r i, p => withInclude i (r.inRaw p)
  | .circleAnnulus c r1 r2 i, p =>
      annulusContains i ((Circle.mk c r1).inRaw p) ((Circle.mk c r2).inRaw p)
  | .ellipseAnnulus c w1 h1 w2 h2 d i, p =>
      annulusContains i ((Ellipse.mk c w1 h1 d).inRaw p) ((Ellipse.mk c w2 h2 d).inRaw p)
  | .rectAnnulus c w1 h1 w2 h2 d i, p =>
      annulusContains i ((Rect.mk c w1 h1 d).inRaw p) ((Rect.mk c w2 h2 d).inRaw p)
  | .empty _ _ _ i, p => withInclude i (emptyInRaw p)
  | .compound op r1 r2 i, p => withInclude i (op.apply (r1.contains p) (r2.contains p))

/-- `rotate(center, angle)`: every class rotates its position(s) about `center`; classes with
an `angle` parameter add the rotation angle; radii/sizes, the operator, meta and visual are
copied unchanged (`self.copy(**changes)`). -/
def PReg.rotate (o : Pt α) (d : Dir α) : PReg α → PReg α
  | .circle r i => .circle (r.rotate o d) i
  | .ellipse r i => .ellipse (r.rotate o d) i
  | .rect r i => .rect (r.rotate o d) i
  | .polygon r i => .polygon (r.rotate o d) i
  | .circleAnnulus c r1 r2 i => .circleAnnulus (c.rotate o d) r1 r2 i
  | .ellipseAnnulus c w1 h1 w2 h2 dd i => .ellipseAnnulus (c.rotate o d) w1 h1 w2 h2 (dd.add d) i
  | .rectAnnulus c w1 h1 w2 h2 dd i => .rectAnnulus (c.rotate o d) w1 h1 w2 h2 (dd.add d) i
  | .empty k a b i => .empty k (a.rotate o d) (b.rotate o d) i
  | .compound op r1 r2 i => .compound op (r1.rotate o d) (r2.rotate o d) i

/-- translation by a vector (used for the whole-pixel translation clause of C15). -/
def Pt.shift (p t : Pt α) : Pt α := ⟨p.x + t.x, p.y + t.y⟩

def PReg.shift (t : Pt α) : PReg α → PReg α
  | .circle r i => .circle ⟨r.center.shift t, r.radius⟩ i
  | .ellipse r i => .ellipse ⟨r.center.shift t, r.width, r.height, r.dir⟩ i
  | .rect r i => .rect ⟨r.center.shift t, r.width, r.height, r.dir⟩ i
  | .polygon r i => .polygon ⟨r.vertices.map (·.shift t)⟩ i
  | .circleAnnulus c r1 r2 i => .circleAnnulus (c.shift t) r1 r2 i
  | .ellipseAnnulus c w1 h1 w2 h2 dd i => .ellipseAnnulus (c.shift t) w1 h1 w2 h2 dd i
  | .rectAnnulus c w1 h1 w2 h2 dd i => .rectAnnulus (c.shift t) w1 h1 w2 h2 dd i
  | .empty k a b i => .empty k (a.shift t) (b.shift t) i
  | .compound op r1 r2 i => .compound op (r1.shift t) (r2.shift t) i

/-- twice the signed shoelace sum `Σ (x_i·y_{i+1} − y_i·x_{i+1})` over the cyclic vertex list
(`PolygonPixelRegion.area` is `0.5·|·|` of it, computed on mean-subtracted coordinates). -/
def shoelace2 (vs : List (Pt α)) : α :=
  ((cyclicPairs vs).map fun e => e.2.x * e.1.y - e.2.y * e.1.x).sum

/-- `area` as a pair `(coefficient of π, rational part)`; `none` = `NotImplementedError`. -/
def PReg.area : PReg α → Option (α × α)
  | .circle r _ => some (r.radius ^ 2, 0)
  | .ellipse r _ => some (r.width * r.height / 4, 0)
  | .rect r _ => some (0, r.width * r.height)
  | .polygon r _ => some (0, |shoelace2 r.vertices| / 2)
  | .circleAnnulus _ r1 r2 _ => some (r2 ^ 2 - r1 ^ 2, 0)
  | .ellipseAnnulus _ w1 h1 w2 h2 _ _ => some (w2 * h2 / 4 - w1 * h1 / 4, 0)
  | .rectAnnulus _ w1 h1 w2 h2 _ _ => some (0, w2 * h2 - w1 * h1)
  | .empty _ _ _ _ => some (0, 0)
  | .compound _ _ _ _ => none

end RegionsVerif.Impl
