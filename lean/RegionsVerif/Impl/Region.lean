/-
Impl model of pixel-region *expressions*: the simple shapes, the three annuli (as the
code builds them: a `xor` compound of inner and outer sharing one meta), points/lines/text
and compound regions (`regions/core/compound.py`), with `contains` by structural recursion.
-/
import RegionsVerif.Impl.Shapes

namespace RegionsVerif.Impl

/-- the operators the public API builds (`&`, `|`, `^` → `operator.and_/or_/xor`). -/
inductive BoolOp | and | or | xor
deriving DecidableEq, Repr

def BoolOp.apply : BoolOp → Bool → Bool → Bool
  | .and, a, b => a && b
  | .or, a, b => a || b
  | .xor, a, b => Bool.xor a b

/-- what kind of empty (nothing-containing) region. -/
inductive EmptyKind | point | line | text
deriving DecidableEq, Repr

inductive PReg (α : Type) where
  | circle (r : Circle α) (i : Include)
  | ellipse (r : Ellipse α) (i : Include)
  | rect (r : Rect α) (i : Include)
  | polygon (r : Polygon α) (i : Include)
  | circleAnnulus (c : Pt α) (r1 r2 : α) (i : Include)
  | ellipseAnnulus (c : Pt α) (w1 h1 w2 h2 : α) (d : Dir α) (i : Include)
  | rectAnnulus (c : Pt α) (w1 h1 w2 h2 : α) (d : Dir α) (i : Include)
  | empty (k : EmptyKind) (a b : Pt α) (i : Include)   -- point: a = b = centre; line: start, end
  | compound (op : BoolOp) (r1 r2 : PReg α) (i : Include)

variable {α : Type} [Field α] [LinearOrder α] [IsStrictOrderedRing α]

/-- `contains(pixcoord)` for a scalar coordinate. -/
def PReg.contains : PReg α → Pt α → Bool
  | .circle r i, p => withInclude i (r.inRaw p)
  | .ellipse r i, p => withInclude i (r.inRaw p)
  | .rect r i, p => withInclude i (r.inRaw p)
  | .polygon r i, p => withInclude i (r.inRaw p)
  | .circleAnnulus c r1 r2 i, p =>
      annulusContains i ((Circle.mk c r1).inRaw p) ((Circle.mk c r2).inRaw p)
  | .ellipseAnnulus c w1 h1 w2 h2 d i, p =>
      annulusContains i ((Ellipse.mk c w1 h1 d).inRaw p) ((Ellipse.mk c w2 h2 d).inRaw p)
  | .rectAnnulus c w1 h1 w2 h2 d i, p =>
      annulusContains i ((Rect.mk c w1 h1 d).inRaw p) ((Rect.mk c w2 h2 d).inRaw p)
  | .empty _ _ _ i, p => withInclude i (emptyInRaw p)
  | .compound op r1 r2 i, p => withInclude i (op.apply (r1.contains p) (r2.contains p))

end RegionsVerif.Impl
