/-
Impl model of the `bounding_box` properties of all pixel regions
(`regions/shapes/*.py`, `regions/core/compound.py`): the float rectangle each class hands
to `RegionBoundingBox.from_float`, and the resulting integer box.
-/
import RegionsVerif.Impl.Region
import RegionsVerif.Impl.BBox
import RegionsVerif.Impl.SqrtFloor
import Mathlib.Algebra.Order.Field.Rat
import Mathlib.Algebra.Field.Rat

namespace RegionsVerif.Impl

section generic
variable {α : Type} [Field α] [LinearOrder α] [IsStrictOrderedRing α] [FloorRing α]

/-- `RegionBoundingBox.from_float(xmin, xmax, ymin, ymax)` on an extent tuple. -/
def bboxOfExtent (e : α × α × α × α) : Except BBoxErr BBox :=
  BBox.fromFloat e.1 e.2.1 e.2.2.1 e.2.2.2

end generic

/-- `EllipsePixelRegion.bounding_box` executed exactly on `ℚ`:
`ixmin = ⌊cx − √dx² + ½⌋`, `ixmax = ⌈cx + √dx² + ½⌉`, … -/
def Ellipse.bboxQ (r : Ellipse ℚ) : Except BBoxErr BBox :=
  let h2 := r.halfExtent2
  BBox.mk? (floorSubSqrt (r.center.x + 1/2) h2.1) (ceilAddSqrt (r.center.x + 1/2) h2.1)
           (floorSubSqrt (r.center.y + 1/2) h2.2) (ceilAddSqrt (r.center.y + 1/2) h2.2)

/-- `bounding_box` of a region expression: annuli use the outer shape, compounds the union. -/
def PReg.bbox : PReg ℚ → Except BBoxErr BBox
  | .circle r _ => bboxOfExtent r.extent
  | .ellipse r _ => r.bboxQ
  | .rect r _ => bboxOfExtent r.extent
  | .polygon r _ =>
    match r.extent with
    | none => .error .valueError      -- empty vertex list: the constructor rejects it
    | some e => bboxOfExtent e
  | .circleAnnulus c _ r2 _ => bboxOfExtent (Circle.mk c r2).extent
  | .ellipseAnnulus c _ _ w2 h2 d _ => (Ellipse.mk c w2 h2 d).bboxQ
  | .rectAnnulus c _ _ w2 h2 d _ => bboxOfExtent (Rect.mk c w2 h2 d).extent
  | .empty .line a b _ => bboxOfExtent (lineExtent a b)
  | .empty _ a _ _ => bboxOfExtent (pointExtent a)
  | .compound _ r1 r2 _ => do
    let b1 ← r1.bbox
    let b2 ← r2.bbox
    BBox.union b1 b2

end RegionsVerif.Impl
