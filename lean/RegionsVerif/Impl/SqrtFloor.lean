/-
Exact evaluation of `⌊a − √D⌋` and `⌈a + √D⌉` for rationals `a`, `D ≥ 0`, used to
execute `EllipsePixelRegion.bounding_box` (`from_float(cx − sqrt(…), cx + sqrt(…), …)`)
exactly on `ℚ`.  Correctness against `Real.sqrt` is proved below, so the executable model
and the real-number statement in `Props/C04.lean` are the same function.
-/
import Mathlib.Analysis.SpecialFunctions.Sqrt
import Mathlib.Data.Rat.Floor
import Mathlib.Data.Real.Sqrt
import Mathlib.Algebra.Order.Archimedean.Real.Basic
import Mathlib.Tactic.Linarith

namespace RegionsVerif.Impl

/-- `⌊a − √D⌋`: with `t = ⌊√⌊D⌋⌋` we have `t ≤ √D < t + 1`, so the answer is `⌊a⌋ − t` or
`⌊a⌋ − t − 1`; the first iff `√D ≤ a − (⌊a⌋ − t)`, i.e. `D ≤ (a − ⌊a⌋ + t)²`. -/
def floorSubSqrt (a D : ℚ) : Int :=
  let t : Int := Nat.sqrt ⌊D⌋.toNat
  if D ≤ (a - ⌊a⌋ + t) ^ 2 then ⌊a⌋ - t else ⌊a⌋ - t - 1

/-- `⌈a + √D⌉ = −⌊(−a) − √D⌋`. -/
def ceilAddSqrt (a D : ℚ) : Int := - floorSubSqrt (-a) D

theorem natSqrt_bounds (D : ℚ) (hD : 0 ≤ D) :
    ((Nat.sqrt ⌊D⌋.toNat : ℕ) : ℝ) ≤ Real.sqrt D ∧ Real.sqrt D < (Nat.sqrt ⌊D⌋.toNat : ℕ) + 1 := by
  set n := ⌊D⌋.toNat with hn
  have hfl : (0 : Int) ≤ ⌊D⌋ := Int.floor_nonneg.mpr hD
  have hnD : (n : ℚ) ≤ D := by
    have : ((n : Int) : ℚ) = (⌊D⌋ : ℚ) := by rw [hn, Int.toNat_of_nonneg hfl]
    have h2 := Int.floor_le D
    calc (n : ℚ) = ((n : Int) : ℚ) := by simp
      _ = (⌊D⌋ : ℚ) := this
      _ ≤ D := h2
  have hDn : D < (n : ℚ) + 1 := by
    have : ((n : Int) : ℚ) = (⌊D⌋ : ℚ) := by rw [hn, Int.toNat_of_nonneg hfl]
    have h2 := Int.lt_floor_add_one D
    calc D < (⌊D⌋ : ℚ) + 1 := h2
      _ = ((n : Int) : ℚ) + 1 := by rw [this]
      _ = (n : ℚ) + 1 := by simp
  have h1 : Nat.sqrt n * Nat.sqrt n ≤ n := Nat.sqrt_le n
  have h2 : n < (Nat.sqrt n + 1) * (Nat.sqrt n + 1) := Nat.lt_succ_sqrt n
  have hnDr : (n : ℝ) ≤ (D : ℝ) := by exact_mod_cast hnD
  have hDnr : (D : ℝ) < (n : ℝ) + 1 := by exact_mod_cast hDn
  constructor
  · apply Real.le_sqrt_of_sq_le
    have : ((Nat.sqrt n : ℕ) : ℝ) ^ 2 ≤ (n : ℝ) := by
      have : ((Nat.sqrt n * Nat.sqrt n : ℕ) : ℝ) ≤ (n : ℝ) := by exact_mod_cast h1
      simpa [pow_two] using this
    linarith
  · rw [Real.sqrt_lt' (by positivity)]
    have : (n : ℝ) + 1 ≤ (((Nat.sqrt n : ℕ) : ℝ) + 1) ^ 2 := by
      have h3 : n + 1 ≤ (Nat.sqrt n + 1) * (Nat.sqrt n + 1) := h2
      have : ((n + 1 : ℕ) : ℝ) ≤ (((Nat.sqrt n + 1) * (Nat.sqrt n + 1) : ℕ) : ℝ) := by exact_mod_cast h3
      simpa [pow_two] using this
    linarith

/-- the executable function computes the real-number floor. -/
theorem floorSubSqrt_spec (a D : ℚ) (hD : 0 ≤ D) :
    floorSubSqrt a D = ⌊(a : ℝ) - Real.sqrt D⌋ := by
  obtain ⟨hlo, hhi⟩ := natSqrt_bounds D hD
  set t : ℕ := Nat.sqrt ⌊D⌋.toNat with ht
  have hfa : ((⌊a⌋ : Int) : ℝ) ≤ (a : ℝ) := by exact_mod_cast Int.floor_le a
  have hfa' : (a : ℝ) < ((⌊a⌋ : Int) : ℝ) + 1 := by exact_mod_cast Int.lt_floor_add_one a
  have hfrac : (0 : ℝ) ≤ (a : ℝ) - ⌊a⌋ + t := by
    have : (0 : ℝ) ≤ (t : ℝ) := Nat.cast_nonneg t
    linarith
  unfold floorSubSqrt
  simp only
  rw [← ht]
  symm
  by_cases hc : D ≤ (a - ⌊a⌋ + ((t : ℕ) : Int)) ^ 2
  · rw [if_pos hc]
    rw [Int.floor_eq_iff]
    have hcr : (D : ℝ) ≤ ((a : ℝ) - ⌊a⌋ + t) ^ 2 := by
      have : ((D : ℚ) : ℝ) ≤ (((a - ⌊a⌋ + ((t : ℕ) : Int)) ^ 2 : ℚ) : ℝ) := by exact_mod_cast hc
      push_cast at this; exact this
    have hs : Real.sqrt D ≤ (a : ℝ) - ⌊a⌋ + t := Real.sqrt_le_iff.mpr ⟨hfrac, hcr⟩
    constructor
    · push_cast; linarith
    · push_cast; linarith
  · rw [if_neg hc]
    rw [Int.floor_eq_iff]
    have hcr : ((a : ℝ) - ⌊a⌋ + t) ^ 2 < (D : ℝ) := by
      have hc' := not_le.mp hc
      have : (((a - ⌊a⌋ + ((t : ℕ) : Int)) ^ 2 : ℚ) : ℝ) < ((D : ℚ) : ℝ) := by exact_mod_cast hc'
      push_cast at this; exact this
    have hs : (a : ℝ) - ⌊a⌋ + t < Real.sqrt D := by
      apply Real.lt_sqrt_of_sq_lt hcr
    constructor
    · push_cast; linarith
    · push_cast; linarith

theorem ceilAddSqrt_spec (a D : ℚ) (hD : 0 ≤ D) :
    ceilAddSqrt a D = ⌈(a : ℝ) + Real.sqrt D⌉ := by
  unfold ceilAddSqrt
  rw [floorSubSqrt_spec (-a) D hD]
  rw [← Int.ceil_neg]
  congr 1
  push_cast; ring

end RegionsVerif.Impl
