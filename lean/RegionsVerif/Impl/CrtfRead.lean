/-
Impl model of the CRTF reader: `regions/io/crtf/read.py` (`_CRTFParser.parse_line`,
`parse_global_meta`, `_CRTFRegionParser.{convert_meta, set_coordsys, convert_coordinates,
make_shape}`, `_CRTFCoordinateParser`) and `regions/io/crtf/io_core.py`
(`_ShapeList.to_regions`, `_Shape.{convert_coords, to_region}`), on structured lines.

Two phases, as in the code: every line is turned into a `_Shape` first (errors:
`CRTFRegionParserError`), then every shape into a region (errors of the region
constructors / astropy: `ValueError`, `TypeError`).

Parameters (astropy's business): `qn` = `str(u.Quantity(s))` for the elements of `range`;
unit conversion between radians and degrees (only needed to *compare* two radii or to
range-check a latitude; a rational approximation of 180/π is used there and the boundary
exception applies).
-/
import RegionsVerif.Impl.CrtfWrite

namespace RegionsVerif.Impl.Crtf

/-- units of a parsed quantity; `none` = dimensionless. -/
inductive U | deg | rad | hour | arcmin | arcsec | none
deriving DecidableEq, Repr

/-- a parsed quantity: value, unit, and whether it is an astropy `Angle` (a coordinate)
rather than a plain `Quantity` (a length, a pixel coordinate). -/
structure Q where
  v : ℚ
  u : U
  ang : Bool
deriving DecidableEq, Repr

def sexa (neg : Bool) (a b : Nat) (s : Dec) : ℚ :=
  (if neg then -1 else 1) * ((a : ℚ) + (b : ℚ) / 60 + s.val / 3600)

/-- `_CRTFCoordinateParser.parse_coordinate`. -/
def Coord.toQ : Coord → Q
  | .dec d .pix => ⟨d.val, .none, false⟩          -- `'pix' in s`: dimensionless Quantity
  | .dec d .rad => ⟨d.val, .rad, true⟩            -- `'rad' in s`: `Angle(s)`
  | .dec d .deg => ⟨d.val, .deg, true⟩
  | .dec d .bare => ⟨d.val, .deg, true⟩           -- `Angle(s, u.deg)`
  | .hms n h m s _ => ⟨sexa n h m s, .hour, true⟩   -- `'h' in s`: `Angle(s)`
  | .dms n d m s _ => ⟨sexa n d m s, .deg, true⟩
  | .colon n h m s _ => ⟨sexa n h m s, .hour, true⟩ -- two colons: hours
  | .dots n d m s _ => ⟨sexa n d m s, .deg, true⟩   -- three or more dot-separated fields: degrees
  | .hm n h m _ => ⟨sexa n h m ⟨false, 0, 0⟩, .hour, true⟩
  | .dm n d m _ => ⟨sexa n d m ⟨false, 0, 0⟩, .deg, true⟩

/-- `_CRTFCoordinateParser.parse_angular_length_quantity`: a unit is REQUIRED; a unit
that is not in `unit_mapping` is dropped (dimensionless). -/
def Len.toQ (l : Len) : Except Err Q :=
  match l.u with
  | .none => .error .parserError                 -- 'Units must be specified for …'
  | .deg => .ok ⟨l.d.val, .deg, false⟩
  | .rad => .ok ⟨l.d.val, .rad, false⟩
  | .arcmin => .ok ⟨l.d.val, .arcmin, false⟩
  | .arcsec => .ok ⟨l.d.val, .arcsec, false⟩
  | .dq => .ok ⟨l.d.val, .arcsec, false⟩
  | .sq => .ok ⟨l.d.val, .arcmin, false⟩
  | .pix => .ok ⟨l.d.val, .none, false⟩
  | .other _ => .ok ⟨l.d.val, .none, false⟩

/-! ## metadata -/

/-- `_CRTFParser.valid_global_keys`. -/
def readerGlobalKey : Key → Bool
  | .coord | .frame | .corr | .veltype | .restfreq | .linewidth | .linestyle | .symsize
  | .symthick | .color | .font | .fontsize | .fontstyle | .usetex | .labelpos | .labelcolor
  | .labeloff | .range => true
  | _ => false

def isListKey : Key → Bool
  | .range | .corr | .labeloff => true
  | _ => false

/-! `regex_meta`, first alternative, on one `key=<raw>,` item whose raw text contains no comma,
bracket or `=` (so that nothing spills into the neighbouring items):
`(\w+)\s*=[\s'"]*([^,\[\]]+?)['",]+` — the run of blanks/quotes after `=` is skipped, the value
runs up to the NEXT quote character or comma, and is `strip()`ped.  Quotes are therefore not
delimiters that pair up: `label='beam 3.5"'` gives `beam 3.5`, `label='it's'` gives `it`. -/

def isQS (c : Char) : Bool := c == ' ' || c == '\t' || c == '\'' || c == '"'

def isTerm (c : Char) : Bool := c == '\'' || c == '"' || c == ','

def isBlank (c : Char) : Bool := c == ' ' || c == '\t'

/-- `str.strip()` (blanks and tabs). -/
def pyStrip (l : List Char) : List Char := ((l.dropWhile isBlank).reverse.dropWhile isBlank).reverse

/-- the value `regex_meta` extracts from `key=<raw>,`; `none`: the item is not matched at all. -/
def lexScalarChars (raw : List Char) : Option (List Char) :=
  match raw.dropWhile isQS with
  | [] =>
    -- only blanks/quotes before the comma: the regex backtracks and takes the last one as the value
    match (raw.takeWhile isQS).getLast? with
    | some c => some (pyStrip [c])
    | none => none
  | rest => some (pyStrip (rest.takeWhile fun c => !isTerm c))

def Quote.chars : Quote → List Char
  | .none => [] | .single => ['\''] | .double => ['"']

/-- what `regex_meta` sees of a token. -/
def MTok.lexed : MTok → Option MTok
  | .scalar s q =>
    (lexScalarChars (q.chars ++ s.toList ++ q.chars)).map fun v => .scalar (String.ofList v) .none
  | .list l => some (.list l)

/-- the value stored for `key = tok`. -/
def tokValue (isGlobal : Bool) (k : Key) (t : MTok) : MVal :=
  match t.lexed with
  | some (.scalar s _) => if isListKey k then .strs [s] else .str s
  | some (.list l) =>
    if isListKey k then
      -- `val2.split(',')`; global: `[x.strip() for x in val2 if x]`, inline: no filter
      .strs (if isGlobal then l.filter (· ≠ "") else if l.isEmpty then [""] else l)
    else .str (", ".intercalate l)
  | none => .str ""

/-- `regex_meta` needs a value: `key=` (nothing before the comma) is not an item. -/
def MTok.isEmptyScalar (t : MTok) : Bool := t.lexed.isNone

/-- the key of an item: global keys are lower-cased, inline keys are not. -/
def itemKey (isGlobal : Bool) (k : String) : Key := Key.ofString (if isGlobal then k.toLower else k)

/-- `valid_global_keys`, plus `label` inline. -/
def keyOk (isGlobal : Bool) (key : Key) : Bool := readerGlobalKey key || (!isGlobal && key = .label)

/-- one `key=value` item (`parse_global_meta` / `convert_meta` loop body). -/
def readItem (isGlobal : Bool) (m : AList) : MItem → Except Err AList
  | .empty => .ok m
  | .pair k t =>
    if t.isEmptyScalar then .ok m
    else if keyOk isGlobal (itemKey isGlobal k) then
      .ok (m.set (itemKey isGlobal k) (tokValue isGlobal (itemKey isGlobal k) t))
    else .error .parserError                      -- '… is not a valid (global) meta key'

def readItems (isGlobal : Bool) : AList → List MItem → Except Err AList
  | m, [] => .ok m
  | m, it :: r => do
    let m' ← readItem isGlobal m it
    readItems isGlobal m' r

/-- `set_coordsys`: `coordsys_mapping` on the lower-cased name. -/
def frameMap (s : String) : String :=
  if s = "j2000" then "fk5" else if s = "b1950" then "fk4"
  else if s = "supergal" then "supergalactic" else if s = "ecliptic" then "geocentrictrueecliptic"
  else s

/-- `core.valid_symbols`. -/
def validSymbols : List String :=
  [".", ",", "o", "v", "^", "<", ">", "1", "2", "3", "4", "s", "p", "*", "h", "H", "+", "x",
   "D", "d", "|", "_"]

/-! ## line -> shape -/

/-- `_Shape` on the reader side (kept structured instead of the flat `coord` list). -/
structure RShape where
  coordsys : String
  kind : Kind
  pts : List (Q × Q)
  sizes : List Q
  angle : Option Q
  mt : AList
  incl : Bool
deriving DecidableEq, Repr

def Q.scale (c : ℚ) (a : Q) : Q := { a with v := a.v * c }

def ptQ (p : Pt) : Q × Q := (p.1.toQ, p.2.toQ)

/-- corner form of `box`: `x = (c0 + c2) / 2`, `w = |Quantity(c0 - c2)|` (both corners in the
same unit in the modelled fragment). -/
def boxMid (a b : Q) : Except Err (Q × Q) :=
  if a.u = b.u ∧ a.ang = b.ang then
    .ok (⟨(a.v + b.v) / 2, a.u, a.ang⟩, ⟨|a.v - b.v|, a.u, false⟩)
  else .error (.unsupported "box corners in different notations")

def isQuoteUnit : LUnit → Bool
  | .dq | .sq => true
  | _ => false

/-- the bracketed pairs of lengths of a region (`'pl'` in `language_spec`). -/
def Body.lenPairs : Body → List (Len × Len)
  | .annulus _ a b => [(a, b)]
  | .ellipse _ a b _ => [(a, b)]
  | .centerbox _ a b => [(a, b)]
  | .rotbox _ a b _ => [(a, b)]
  | _ => []

/-- `convert_coordinates` + `make_shape` geometry: `(kind, points, sizes, angle)`. -/
def bodyGeom : Body → Except Err (Kind × List (Q × Q) × List Q × Option Q)
  | .circle c r => do pure (.circle, [ptQ c], [← r.toQ], none)
  | .annulus c r1 r2 => do pure (.circleannulus, [ptQ c], [← r1.toQ, ← r2.toQ], none)
  | .ellipse c a b ang => do
    -- `coord[2:] = [x * 2 …]`, swap `coord[2]`/`coord[3]`, `coord[-1] /= 2`
    let a' ← a.toQ; let b' ← b.toQ; let g ← ang.toQ
    pure (.ellipse, [ptQ c], [b'.scale 2, a'.scale 2], some ((g.scale 2).scale (1 / 2)))
  | .box c1 c2 => do
    let (x, w) ← boxMid c1.1.toQ c2.1.toQ
    let (y, h) ← boxMid c1.2.toQ c2.2.toQ
    pure (.rectangle, [(x, y)], [w, h], none)
  | .centerbox c w h => do pure (.rectangle, [ptQ c], [← w.toQ, ← h.toQ], none)
  | .rotbox c w h ang => do pure (.rectangle, [ptQ c], [← w.toQ, ← h.toQ], some (← ang.toQ))
  | .poly vs => if vs.length < 3 then .error .parserError else .ok (.polygon, vs.map ptQ, [], none)
  | .line p q => .ok (.line, [ptQ p, ptQ q], [], none)
  | .symbol c s => if validSymbols.contains s then .ok (.point, [ptQ c], [], none) else .error .parserError
  | .point c => .ok (.point, [ptQ c], [], none)
  | .text c _ => .ok (.text, [ptQ c], [], none)

/-- the string parameter stored into the meta by `convert_coordinates`. -/
def bodyMeta (m : AList) : Body → AList
  | .symbol _ s => m.set .symbol (.str s)
  | .text _ s => m.set .text (.str s)
  | _ => m

def isPointBody : Body → Bool
  | .point _ => true
  | _ => false

/-- `meta['range'] = [u.Quantity(x) for x in meta['range']]`. -/
def normRange (qn : String → String) (m : AList) : AList :=
  match m.get? .range with
  | some (.strs r) => m.set .range (.strs (r.map qn))
  | _ => m

/-- `convert_meta`: inline items over a copy of the global meta, then `include`, `range`
(elements through `u.Quantity`), `type`. -/
def lineMeta (qn : String → String) (gm : AList) (l : RLine) : Except Err AList := do
  let m1 ← readItems false gm l.items
  let m2 := m1.set .include (.bool (!l.excl))
  let m3 := normRange qn m2
  pure (m3.set .type (.str (if l.ann then "ann" else "reg")))

/-- `meta.get('coord', 'image').lower()` through `set_coordsys`. -/
def coordsysOf (m : AList) : String :=
  frameMap (match m.get? .coord with
    | some (.str s) => s.toLower
    | _ => "image")

/-- `parse_line` for a region line -> `_CRTFRegionParser(...).shape`. -/
def regionShape (q : Quirks) (qn : String → String) (gm : AList) (l : RLine) : Except Err RShape :=
  if isPointBody l.body && q.pointUnreadable then .error .parserError   -- 'Not a valid CRTF Region type'
  else if q.quotePairUnreadable && l.body.lenPairs.any (fun p => isQuoteUnit p.1.u || isQuoteUnit p.2.u) then
    .error .parserError                                               -- 'Does not contain expected number of parameters'
  else do
    let m ← lineMeta qn gm l
    let (kind, pts, sizes, angle) ← bodyGeom l.body
    pure { coordsys := coordsysOf m, kind := kind, pts := pts, sizes := sizes, angle := angle,
           mt := (bodyMeta m l.body).erase .coord, incl := !l.excl }

/-- `_CRTFParser.run`: fold over the lines with the accumulated global meta. -/
def phase1 (q : Quirks) (qn : String → String) : AList → List SrcLine → Except Err (List RShape)
  | _, [] => .ok []
  | g, .blank :: r => phase1 q qn g r
  | g, .comment _ :: r => phase1 q qn g r
  | g, .global items :: r => do
    let g' ← readItems true g items
    phase1 q qn g' r
  | g, .region l :: r => do
    let s ← regionShape q qn g l
    let ss ← phase1 q qn g r
    pure (s :: ss)

/-! ## shape -> region -/

/-- a region as the reader returns it. -/
structure RReg where
  kind : Kind
  frame : String               -- astropy frame name; `image`/`physical` = pixel region
  pts : List (Q × Q)
  sizes : List Q
  angle : Option Q
  text : Option String
  mt : AList
  vis : AList
deriving DecidableEq, Repr

/-- 180/π to 30 digits (only used to compare radii given in different units and to
range-check latitudes given in radians; boundary exception applies). -/
def radDeg : ℚ := 57295779513082320876798154814105 / 1000000000000000000000000000000

def Q.toDeg (a : Q) : ℚ :=
  match a.u with
  | .deg => a.v | .rad => a.v * radDeg | .hour => a.v * 15
  | .arcmin => a.v / 60 | .arcsec => a.v / 3600 | .none => a.v

def skyFrames : List String :=
  ["fk5", "fk4", "galactic", "geocentrictrueecliptic", "supergalactic", "icrs"]

/-- `viz_keywords` of `_Shape.to_region` restricted to the keys a parsed shape can carry. -/
def isViz : Key → Bool
  | .color | .font | .symsize | .symbol | .fontsize | .fontstyle | .usetex | .labelpos
  | .labeloff | .labelcolor | .linewidth | .linestyle | .symthick => true
  | _ => false

/-- `to_region`, metadata part: `label` from `text`/`label`, split into meta/visual, `include`. -/
def splitMeta (m : AList) (incl : Bool) : AList × AList :=
  let label := (m.get? .text).getD ((m.get? .label).getD (.str ""))
  let m0 : AList := if label ≠ .str "" then [(.label, label)] else []
  let mv := m.foldl (fun (acc : AList × AList) p =>
    if isViz p.1 then (acc.1, acc.2.set p.1 p.2) else (acc.1.set p.1 p.2, acc.2)) (m0, [])
  (mv.1.set .include (.bool incl), mv.2)

/-- size validation of the region constructors: angular unit (sky), strictly positive. -/
def sizeOk (sky : Bool) (a : Q) : Bool := (!sky || a.u ≠ .none) && decide (0 < a.v)

def angleOk (a : Q) : Bool := a.u ≠ .none

def dropUnit (a : Q) : Q := { a with u := .none }

/-- `outer_radius must be greater than inner_radius` (Quantities are compared after unit
conversion). -/
def annulusOk (pixel : Bool) : List Q → Bool
  | [r1, r2] => if pixel then decide (r1.v < r2.v) else decide (r1.toDeg < r2.toDeg)
  | _ => true

/-- `convert_coords`: the checks on the coordinates (in the order the code makes them). -/
def checkCoords (s : RShape) : Except Err Unit :=
  if isImage s.coordsys then
    -- polygon/line: `PixCoord([Quantity…], [Quantity…])` only works for dimensionless ones
    if (s.kind = .polygon ∨ s.kind = .line) ∧ s.pts.any (fun p => p.1.u ≠ .none || p.2.u ≠ .none) then
      .error .typeError
    else .ok ()
  else
    if (s.pts.filter fun p => p.1.ang && p.2.ang).isEmpty then .error .valueError   -- 'error parsing region'
    else if (s.pts.filter fun p => p.1.ang && p.2.ang).length ≠ s.pts.length then
      .error (.unsupported "mixed pixel/angle coordinates")
    else if s.pts.any (fun p => decide (90 < |p.2.toDeg|)) then .error .valueError   -- Latitude range
    else if !skyFrames.contains s.coordsys then .error .typeError                   -- `lookup_name` -> None
    else .ok ()

/-- the region constructors' validators on sizes and angle. -/
def checkSizes (s : RShape) : Except Err Unit :=
  if !s.sizes.all (sizeOk (!isImage s.coordsys)) then .error .valueError
  else if s.kind = .circleannulus && !annulusOk (isImage s.coordsys) s.sizes then .error .valueError
  else if !(match s.angle with | some a => angleOk a | none => true) then .error .valueError
  else .ok ()

/-- a full turn in the unit of a longitude. -/
def turn : U → ℚ
  | .deg => 360 | .hour => 24 | .rad => 360 / radDeg
  | _ => 0

/-- astropy's `Longitude` (what `SkyCoord` stores): the value is wrapped into `[0, 360°)`,
i.e. `v - turn · ⌊v / turn⌋` in the unit of the angle (`360deg -> 0deg`, `-1deg -> 359deg`). -/
def wrapLon (a : Q) : Q :=
  if turn a.u = 0 then a else { a with v := a.v - turn a.u * ⌊a.v / turn a.u⌋ }

/-- the coordinates of the region object: pixel coordinates are the bare values, sky
longitudes are wrapped. -/
def regionPts (coordsys : String) (pts : List (Q × Q)) : List (Q × Q) :=
  if isImage coordsys then pts.map (fun p => (dropUnit p.1, dropUnit p.2))
  else pts.map (fun p => (wrapLon p.1, p.2))

/-- the region object once the checks have passed. -/
def buildRegion (s : RShape) : RReg :=
  { kind := s.kind, frame := s.coordsys,
    pts := regionPts s.coordsys s.pts,
    sizes := if isImage s.coordsys then s.sizes.map dropUnit else s.sizes,
    angle := if s.kind = .ellipse ∨ s.kind = .rectangle then
               some (s.angle.getD ⟨0, .deg, false⟩)              -- default `angle=0 deg`
             else none,
    text := if s.kind = .text then
              (match s.mt.get? .text with | some (.str t) => some t | _ => some "")
            else none,
    mt := (splitMeta s.mt s.incl).1, vis := (splitMeta s.mt s.incl).2 }

/-- `_Shape.to_region` (with `convert_coords`). -/
def toRegion (s : RShape) : Except Err RReg :=
  match checkCoords s with
  | .error e => .error e
  | .ok () =>
    match checkSizes s with
    | .error e => .error e
    | .ok () => .ok (buildRegion s)

/-- `Regions.parse(text, format='crtf')` on structured lines. -/
def parse (q : Quirks) (qn : String → String) (ls : List SrcLine) : Except Err (List RReg) := do
  let shapes ← phase1 q qn [] ls
  shapes.mapM toRegion

/-! ## a parsed region as the input of the next serialisation -/

/-- the unit a length written with `radunit` is read back with. -/
def radU (radunit : String) : U :=
  if radunit = "deg" then .deg else if radunit = "arcsec" then .arcsec
  else if radunit = "arcmin" then .arcmin else if radunit = "rad" then .rad else .none

/-- the writer's view of a parsed region that is already expressed in the requested frame and
units (so that astropy's `transform_to` / `.to(radunit)` are identities): coordinates in
degrees, lengths in `radunit` (pixels: plain numbers), rotation angle in degrees. -/
def toW (o : Opts) (r : RReg) : Option WReg :=
  let pixel := isImage r.frame
  let cu : U := if pixel then .none else .deg
  let su : U := if pixel then .none else radU o.radunit
  if r.frame = o.coordsys ∧ r.pts.all (fun p => p.1.u = cu ∧ p.2.u = cu) ∧ r.sizes.all (fun a => a.u = su)
      ∧ (r.angle.all fun a => a.u = U.deg) then
    some { kind := r.kind, sky := !pixel, pts := r.pts.map fun p => (p.1.v, p.2.v),
           sizes := r.sizes.map (·.v), angle := r.angle.map (·.v), text := r.text.getD "",
           mt := r.mt, vis := r.vis, ptsKept := r.pts.map fun p => (p.1.v, p.2.v) }
  else none

end RegionsVerif.Impl.Crtf
