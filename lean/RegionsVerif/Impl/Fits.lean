/-
Impl model of the FITS region I/O of `regions`:

* writer  `regions/io/fits/write.py`  (`_serialize_fits`, `_serialize_region_fits`,
  `_make_column`, `_define_components`, `_make_table`),
* reader  `regions/io/fits/read.py`   (`parse_table`, `parse_row`, `get_shape`,
  `get_column_values`, `get_shape_params`) with the table `shape_map` of `core.py`,
* the constructor checks of the pixel shape classes that the reader calls
  (`PositiveScalar`, the annulus ordering tests).

Numbers are exact rationals (a Python float *is* a rational; the only arithmetic in this
code is `/ 2.0`, `* 2.`, `0.5 * (a + b)`, `b - a`).  A table cell may also hold `NaN`
(`none`), which only the padding of the `f10` variant produces.  Strings are `List Char`
(`Name`) so that `'!' + shape`, `shape[0] == '!'`, `shape[1:]`, `.lower()`,
`.replace('pixelregion', '')`, `'rectangle' in shape` and dictionary look-ups are the
literal operations and everything reduces by `decide`.

The astropy table is kept row-major: `Table.cols` are the column names (what
`row.colnames` returns for every row) and each `TRow` holds one cell per column; a cell of a
column that is not in `cols` is never looked at.  `_make_column` pads every array of a column
to the column's width, so row `i` of the table holds the `i`-th padded array.

The model is parameterised by a `Variant` (which of the repairs proposed in
`/verif/proposed_fixes/F8.diff, F9.diff, F10.diff, F121.diff, F122.diff` are present in the code).
`Variant.current` is the code as it is in `/repo` now (F8, F9, F121, F122 repaired; F10 open); the driver
and the property theorems about "the code" use `Variant.current`.
-/
import Mathlib.Data.Rat.Defs
import Mathlib.Algebra.Order.Field.Basic

namespace RegionsVerif.Impl.Fits

/-! ### which code is modelled -/

structure Variant where
  /-- F8 repaired: `'!'` is prefixed after the name map and the `'ellipse'` test. -/
  f8 : Bool
  /-- F9 repaired: the reader keeps `include` next to `component`. -/
  f9 : Bool
  /-- F10 repaired: X/Y are padded with NaN and the polygon reader drops NaN. -/
  f10 : Bool
  /-- F121 repaired: the filled COMPONENT array is cast to `int`. -/
  f121 : Bool
  /-- F122 repaired: ROTANG is always written in degrees. -/
  f122 : Bool
deriving DecidableEq, Repr

/-- the code in `/repo` now: F8 (d91a439), F9 (7c95242), F121 (bdc0d0d) and F122 (562b011) are repaired;
F10 (zero padding of polygons) is an open known finding.  Flag order: f8, f9, f10, f121, f122.
Should F10 be repaired as in `/verif/proposed_fixes/F10.diff`, set the third flag;
`fits_roundtrip_full_refuted` and `fits_file_roundtrip_full_refuted` in `Props/C12.lean` then stop
compiling and are replaced by `(roundTrip_iff _).mpr ⟨rfl, rfl, rfl⟩` /
`(fileRoundTrip_iff _).mpr ⟨rfl, rfl, rfl, rfl, rfl⟩`. -/
def Variant.current : Variant := ⟨true, true, false, true, true⟩

/-- the code with all proposed patches. -/
def Variant.fixed : Variant := ⟨true, true, true, true, true⟩

/-! ### strings -/

abbrev Name := List Char

/-- `str.lower()` -/
def lower (s : Name) : Name := s.map Char.toLower

/-- `s.startswith(p)` returning the remainder. -/
def stripPrefix? : Name → Name → Option Name
  | [], s => some s
  | _ :: _, [] => none
  | p :: ps, c :: cs => if p = c then stripPrefix? ps cs else none

def removeAllAux (p : Name) : Nat → Name → Name
  | 0, s => s
  | _ + 1, [] => []
  | n + 1, c :: cs =>
    match stripPrefix? p (c :: cs) with
    | some rest => removeAllAux p n rest
    | none => c :: removeAllAux p n cs

/-- `s.replace(p, '')` for a non-empty `p`. -/
def removeAll (p s : Name) : Name := removeAllAux p s.length s

/-- `p in s` -/
def isInfix (p : Name) : Name → Bool
  | [] => p.isEmpty
  | c :: cs => (stripPrefix? p (c :: cs)).isSome || isInfix p cs

/-! ### regions as the FITS code sees them -/

/-- the pixel region classes (`region.__class__.__name__`). -/
inductive Kind
  | point | circle | ellipse | circleAnnulus | ellipseAnnulus | rectangle | polygon
  | regularPolygon | rectangleAnnulus | line | text | compound
deriving DecidableEq, Repr

def Kind.className : Kind → Name
  | .point => "PointPixelRegion".toList
  | .circle => "CirclePixelRegion".toList
  | .ellipse => "EllipsePixelRegion".toList
  | .circleAnnulus => "CircleAnnulusPixelRegion".toList
  | .ellipseAnnulus => "EllipseAnnulusPixelRegion".toList
  | .rectangle => "RectanglePixelRegion".toList
  | .polygon => "PolygonPixelRegion".toList
  | .regularPolygon => "RegularPolygonPixelRegion".toList
  | .rectangleAnnulus => "RectangleAnnulusPixelRegion".toList
  | .line => "LinePixelRegion".toList
  | .text => "TextPixelRegion".toList
  | .compound => "CompoundPixelRegion".toList

/-- the value stored under `meta['include']`. -/
inductive Incl
  | absent
  | bool (b : Bool)
  | int (n : Int)
deriving DecidableEq, Repr

/-- `region.meta.get('include', None) == 0` (Python: `False == 0`, `None != 0`). -/
def Incl.eqZero : Incl → Bool
  | .absent => false
  | .bool b => !b
  | .int n => n == 0

/-- truth value of `region.meta.get('include', True)`: is the region an *included* one. -/
def Incl.truthy : Incl → Bool
  | .absent => true
  | .bool b => b
  | .int n => n != 0

/-- an angular unit as astropy knows it: its name, its scale (degrees per unit — an exact rational here,
a parameter of the model) and whether `astropy.io.fits` can store it as a TUNIT. -/
structure AUnit where
  name : Name
  deg : ℚ
  fits : Bool
deriving DecidableEq, Repr

def AUnit.degree : AUnit := ⟨"deg".toList, 1, true⟩

/-- `Quantity.to_value(unit)` between angular units (astropy; a parameter of the model):
the value is untouched when the unit is the same, otherwise scaled by the ratio of the scales. -/
def convAngle (src dst : AUnit) (x : ℚ) : ℚ := if src = dst then x else x * src.deg / dst.deg

/-- One region, reduced to what the FITS writer reads through `region._params`:
`xs, ys` = `.xy` of the `center` (one element each) or of the `vertices` (arrays);
`params` = the remaining non-angle parameters in `_params` order
(radius | width, height | inner_radius, outer_radius |
 inner_width, outer_width, inner_height, outer_height);
`angle` (a value in the unit `aunit`) for classes that have one.
For `regularPolygon` the record holds the `vertices` attribute in `xs, ys` (that is all
`to_polygon()` reads).  `sky` = `isinstance(region, SkyRegion)`. -/
structure Reg where
  kind : Kind
  sky : Bool
  xs : List ℚ
  ys : List ℚ
  params : List ℚ
  angle : Option ℚ
  incl : Incl
  comp : Option Int
  /-- the unit of `angle` (irrelevant when `angle = none`) -/
  aunit : AUnit
deriving DecidableEq, Repr

/-- `RegularPolygonPixelRegion.to_polygon()` -/
def Reg.toPolygon (r : Reg) : Reg := { r with kind := .polygon, params := [], angle := none }

/-! ### writer -/

/-- `_RegionData` -/
structure RegData where
  shape : Name
  x : List ℚ
  y : List ℚ
  r : List ℚ
  rotang : List ℚ
  component : Option Int
  /-- the unit of the `rotang` Quantity -/
  rotangUnit : AUnit
deriving DecidableEq, Repr

def unsupportedRegions : List Name :=
  ["RectangleAnnulusPixelRegion".toList, "LinePixelRegion".toList,
   "TextPixelRegion".toList, "CompoundPixelRegion".toList]

def regionMap : List (Name × Name) :=
  [("circleannulus".toList, "annulus".toList),
   ("ellipseannulus".toList, "elliptannulus".toList),
   ("rectangle".toList, "rotbox".toList)]

/-- the string part of `_serialize_region_fits`: the SHAPE value and whether the sizes are
halved (`shape == 'ellipse'` at the time of the test), from the class and
`excl` = (`region.meta.get('include', None) == 0`). -/
def shapeOf (f8 : Bool) (kind : Kind) (excl : Bool) : Name × Bool :=
  let shape := removeAll "pixelregion".toList (lower kind.className)
  -- current code: the '!' goes on first, so neither the map nor the 'ellipse' test sees
  -- the bare name of an excluded region
  let shape := if !f8 && excl then '!' :: shape else shape
  let shape := match regionMap.lookup shape with
    | some s => s
    | none => shape
  let halve := decide (shape = "ellipse".toList)
  let shape := if f8 && excl then '!' :: shape else shape
  (shape, halve)

/-- the `rotang` Quantity of `_serialize_region_fits`: the region's `angle` as it is (value and
unit), `u.Quantity(0, 'deg')` for a region without one.  With F122: converted to degrees. -/
def rotOf (v : Variant) (region : Reg) : ℚ × AUnit :=
  match region.angle with
  | some a => if v.f122 then (convAngle region.aunit AUnit.degree a, AUnit.degree) else (a, region.aunit)
  | none => (0, AUnit.degree)

/-- `_serialize_region_fits`; `none` = "cannot be serialized … skipping" (with a warning). -/
def serializeRegion (v : Variant) (region : Reg) : Option RegData :=
  let region := if region.kind = .regularPolygon then region.toPolygon else region
  if unsupportedRegions.contains region.kind.className then none
  else
    let (shape, halve) := shapeOf v.f8 region.kind region.incl.eqZero
    let shapeParams := if halve then region.params.map (· / 2) else region.params
    let shapeParams := if shapeParams.isEmpty then [0] else shapeParams
    let (rotang, runit) := rotOf v region
    some ⟨shape, region.xs, region.ys, shapeParams, [rotang], region.comp, runit⟩

/-- one number in a table cell; `none` is NaN. -/
abbrev Num := Option ℚ

/-- a cell of a numeric column: a scalar column (`TFORM 1D`) or a vector column. -/
inductive Cell
  | scalar (v : Num)
  | vec (l : List Num)
deriving DecidableEq, Repr

/-- `np.atleast_1d(row[colname])` -/
def Cell.atleast1d : Cell → List Num
  | .scalar v => [v]
  | .vec l => l

/-- `np.max([arr.size for arr in arrays])` -/
def colWidth (arrays : List (List ℚ)) : Nat := (arrays.map List.length).foldl max 0

/-- the body of the loop of `_make_column` for one array (`w` = the column's width). -/
def padCell (fill : Num) (w : Nat) (arr : List ℚ) : Cell :=
  let padWidth := w - arr.length
  let arr' : List Num :=
    if padWidth != 0 then arr.map some ++ List.replicate padWidth fill else arr.map some
  if w == 1 && padWidth == 0 then .scalar (arr'.headD fill) else .vec arr'

/-- `_make_column` -/
def makeColumn (fill : Num) (arrays : List (List ℚ)) : List Cell :=
  arrays.map (padCell fill (colWidth arrays))

/-- `components[none_idx] = np.arange(len(none_idx)) + start_component` -/
def fillComponents (start : Int) : Nat → List (Option Int) → List Int
  | _, [] => []
  | k, some c :: cs => c :: fillComponents start k cs
  | k, none :: cs => (start + k) :: fillComponents start (k + 1) cs

/-- `_define_components`: `none` = no COMPONENT column; otherwise the column and whether its
dtype is `object` (a numpy array built from a list that contains `None`). -/
def defineComponents (v : Variant) (cs : List (Option Int)) : Option (List Int × Bool) :=
  if cs.all Option.isSome then some (cs.filterMap id, false)
  else
    match cs.filterMap id with
    | [] => none
    | c :: rest => some (fillComponents (rest.foldl max c + 1) 0 cs, !v.f121)

def cSHAPE : Name := "SHAPE".toList
def cX : Name := "X".toList
def cY : Name := "Y".toList
def cR : Name := "R".toList
def cROTANG : Name := "ROTANG".toList
def cCOMPONENT : Name := "COMPONENT".toList

/-- one table row.  A field whose column is not in `Table.cols` is junk and never read. -/
structure TRow where
  shape : Name
  x : Cell
  y : Cell
  r : Cell
  rotang : Cell
  component : Int
deriving DecidableEq, Repr

structure Table where
  cols : List Name
  rows : List TRow
  /-- the COMPONENT column has dtype `object` -/
  compObject : Bool
  /-- the unit of the ROTANG column -/
  rotangUnit : AUnit
deriving DecidableEq, Repr

/-- `QTable()` -/
def emptyTable : Table := ⟨[], [], false, AUnit.degree⟩

/-- the padding value of the X and Y columns. -/
def fillXY (v : Variant) : Num := if v.f10 then none else some 0

/-- `u.Quantity(data)` on a list of Quantities converts every element to the unit of the FIRST one. -/
def columnUnit (rd : List RegData) : AUnit :=
  match rd with
  | d :: _ => d.rotangUnit
  | [] => AUnit.degree

def mkRow (v : Variant) (wx wy wr wa : Nat) (u0 : AUnit) (d : RegData) (c : Int) : TRow :=
  ⟨d.shape, padCell (fillXY v) wx d.x, padCell (fillXY v) wy d.y, padCell (some 0) wr d.r,
   padCell (some 0) wa (d.rotang.map (convAngle d.rotangUnit u0)), c⟩

/-- `_make_table` -/
def makeTable (v : Variant) (rd : List RegData) : Table :=
  let wx := colWidth (rd.map (·.x))
  let wy := colWidth (rd.map (·.y))
  let wr := colWidth (rd.map (·.r))
  let wa := colWidth (rd.map (·.rotang))
  let u0 := columnUnit rd
  match defineComponents v (rd.map (·.component)) with
  | none =>
    ⟨[cSHAPE, cX, cY, cR, cROTANG], rd.map (fun d => mkRow v wx wy wr wa u0 d 0), false, u0⟩
  | some (cs, obj) =>
    ⟨[cSHAPE, cX, cY, cR, cROTANG, cCOMPONENT],
     List.zipWith (fun d c => mkRow v wx wy wr wa u0 d c) rd cs, obj, u0⟩

inductive Warn
  | skySkipped
  | unsupportedSkipped (k : Kind)
deriving DecidableEq, Repr

/-- one pass of the loop of `_serialize_fits`: what is appended to `region_data` … -/
def dataOpt (v : Variant) (region : Reg) : Option RegData :=
  if region.sky then none else serializeRegion v region

/-- … and the `AstropyUserWarning` it issues. -/
def warnOpt (v : Variant) (region : Reg) : Option Warn :=
  if region.sky then some .skySkipped
  else match serializeRegion v region with
    | none => some (.unsupportedSkipped region.kind)
    | some _ => none

/-- the `region_data` list built by the loop of `_serialize_fits`. -/
def regionData (v : Variant) (regions : List Reg) : List RegData := regions.filterMap (dataOpt v)

/-- the warnings issued by the same loop, in order. -/
def warnings (v : Variant) (regions : List Reg) : List Warn := regions.filterMap (warnOpt v)

/-- `_serialize_fits` -/
def serialize (v : Variant) (regions : List Reg) : Table :=
  let rd := regionData v regions
  if rd.isEmpty then emptyTable else makeTable v rd

/-! ### reader -/

inductive Err
  | fitsParserError
  | valueError
  | indexError
  | typeError
  | keyError
  | unitScaleError
  /-- a NaN was about to become a region parameter: outside what this model describes -/
  | nanParameter
deriving DecidableEq, Repr

/-- the numeric columns -/
inductive Col | X | Y | R | ROTANG
deriving DecidableEq, Repr

def Col.name : Col → Name
  | .X => cX
  | .Y => cY
  | .R => cR
  | .ROTANG => cROTANG

/-- a column spec of `shape_map`: `'X0'` = `⟨X, some 0⟩`, `'X'` = `⟨X, none⟩`. -/
structure ColRef where
  col : Col
  idx : Option Nat
deriving DecidableEq, Repr

/-- `shape_map` of `regions/io/fits/core.py` (compared with the live table on every run). -/
def shapeMap : List (Name × (Kind × List ColRef)) :=
  [("point".toList, (.point, [⟨.X, some 0⟩, ⟨.Y, some 0⟩])),
   ("circle".toList, (.circle, [⟨.X, some 0⟩, ⟨.Y, some 0⟩, ⟨.R, some 0⟩])),
   ("ellipse".toList, (.ellipse, [⟨.X, some 0⟩, ⟨.Y, some 0⟩, ⟨.R, some 0⟩, ⟨.R, some 1⟩,
                                  ⟨.ROTANG, some 0⟩])),
   ("annulus".toList, (.circleAnnulus, [⟨.X, some 0⟩, ⟨.Y, some 0⟩, ⟨.R, some 0⟩, ⟨.R, some 1⟩])),
   ("elliptannulus".toList, (.ellipseAnnulus, [⟨.X, some 0⟩, ⟨.Y, some 0⟩, ⟨.R, some 0⟩,
                                  ⟨.R, some 1⟩, ⟨.R, some 2⟩, ⟨.R, some 3⟩, ⟨.ROTANG, some 0⟩])),
   ("box".toList, (.rectangle, [⟨.X, some 0⟩, ⟨.Y, some 0⟩, ⟨.R, some 0⟩, ⟨.R, some 1⟩])),
   ("rotbox".toList, (.rectangle, [⟨.X, some 0⟩, ⟨.Y, some 0⟩, ⟨.R, some 0⟩, ⟨.R, some 1⟩,
                                   ⟨.ROTANG, some 0⟩])),
   ("rectangle".toList, (.rectangle, [⟨.X, some 0⟩, ⟨.X, some 1⟩, ⟨.Y, some 0⟩, ⟨.Y, some 1⟩])),
   ("rotrectangle".toList, (.rectangle, [⟨.X, some 0⟩, ⟨.X, some 1⟩, ⟨.Y, some 0⟩, ⟨.Y, some 1⟩,
                                         ⟨.ROTANG, some 0⟩])),
   ("polygon".toList, (.polygon, [⟨.X, none⟩, ⟨.Y, none⟩]))]

def supportedShapes : List Name := shapeMap.map (·.1)

def unsupportedShapes : List Name :=
  ["pie".toList, "sector".toList, "diamond".toList, "rhombus".toList, "rotdiamond".toList,
   "rotrhombus".toList]

/-- `get_shape` once the SHAPE value is in hand: `(shape | None, include == 1)`. -/
def readShape (s : Name) : Except Err (Option Name × Bool) :=
  match lower s with
  | [] => .error .indexError                       -- `shape[0]` of an empty string
  | c :: rest =>
    let incl1 := !(c == '!')
    let shape := if c == '!' then rest else c :: rest
    if !(supportedShapes ++ unsupportedShapes).contains shape then .error .fitsParserError
    else if !supportedShapes.contains shape then .ok (none, incl1)
    else .ok (some shape, incl1)

/-- `get_shape` -/
def getShape (cols : List Name) (row : TRow) : Except Err (Option Name × Bool) :=
  if !cols.contains cSHAPE then .ok (some "point".toList, true) else readShape row.shape

def TRow.cell (row : TRow) : Col → Cell
  | .X => row.x
  | .Y => row.y
  | .R => row.r
  | .ROTANG => row.rotang

/-- `get_column_values` (pixel units stripped, `IndexError` → `FITSParserError`).
With `f10` the polygon branch ("uses all values") drops the NaN padding. -/
def getColumnValues (v : Variant) (row : TRow) (ref : ColRef) : Except Err (List Num) :=
  let value := (row.cell ref.col).atleast1d
  match ref.idx with
  | none => .ok (if v.f10 then value.filter Option.isSome else value)
  | some i =>
    match value[i]? with
    | some x => .ok [x]
    | none => .error .fitsParserError

/-- numbers that become region parameters must not be NaN in this model. -/
def nums : List Num → Except Err (List ℚ)
  | [] => .ok []
  | none :: _ => .error .nanParameter
  | some q :: rest => do
    let qs ← nums rest
    pure (q :: qs)

/-- `get_shape_params`: the positional arguments of the region class as
`(center/vertices x, center/vertices y, remaining arguments)`. -/
def getShapeParams (v : Variant) (shape : Name) (row : TRow) (refs : List ColRef) :
    Except Err (List ℚ × List ℚ × List ℚ) := do
  let values ← refs.mapM (getColumnValues v row)
  if isInfix "rectangle".toList shape then
    match values with
    | a :: b :: c :: d :: tail => do
      let l ← nums (a ++ b ++ c ++ d)
      match l with
      | [xmin, xmax, ymin, ymax] =>
        let xcenter := 1 / 2 * (xmin + xmax)
        let ycenter := 1 / 2 * (ymin + ymax)
        let xsize := xmax - xmin
        let ysize := ymax - ymin
        if shape = "rotrectangle".toList then do
          let ang ← nums (tail.getLastD [])
          pure ([xcenter], [ycenter], [xsize, ysize] ++ ang)
        else pure ([xcenter], [ycenter], [xsize, ysize])
      | _ => .error .typeError
    | _ => .error .typeError
  else
    match values with
    | vx :: vy :: tail => do
      let xs ← nums vx
      let ys ← nums vy
      let rest ← nums tail.flatten
      -- `values[2:-1] = list(np.array(values[2:-1]) * 2.)`
      let rest := if shape = "ellipse".toList then rest.dropLast.map (· * 2) ++ rest.drop (rest.length - 1)
                  else rest
      pure (xs, ys, rest)
    | _ => .error .typeError

/-- `region_cls(*shape_params)`: the constructors with their validation
(`PositiveScalar`: `value <= 0` ⇒ `ValueError`; annuli: `inner >= outer` ⇒ `ValueError`;
`PixCoord(x, y)` with arrays that do not broadcast ⇒ `ValueError`).  Meta is set later.
`au` is the unit of the ROTANG column: an angle read from it is a Quantity in that unit; a rectangle
built without an angle gets the default `0 deg`. -/
def construct (au : AUnit) : Kind → List ℚ → List ℚ → List ℚ → Except Err Reg
  | .point, [x], [y], [] => .ok ⟨.point, false, [x], [y], [], none, .absent, none, AUnit.degree⟩
  | .circle, [x], [y], [r] =>
    if r ≤ 0 then .error .valueError else .ok ⟨.circle, false, [x], [y], [r], none, .absent, none, AUnit.degree⟩
  | .ellipse, [x], [y], [w, h, a] =>
    if w ≤ 0 ∨ h ≤ 0 then .error .valueError
    else .ok ⟨.ellipse, false, [x], [y], [w, h], some a, .absent, none, au⟩
  | .circleAnnulus, [x], [y], [ri, ro] =>
    if ri ≤ 0 ∨ ro ≤ 0 ∨ ri ≥ ro then .error .valueError
    else .ok ⟨.circleAnnulus, false, [x], [y], [ri, ro], none, .absent, none, AUnit.degree⟩
  | .ellipseAnnulus, [x], [y], [iw, ow, ih, oh, a] =>
    if iw ≤ 0 ∨ ow ≤ 0 ∨ ih ≤ 0 ∨ oh ≤ 0 ∨ iw ≥ ow ∨ ih ≥ oh then .error .valueError
    else .ok ⟨.ellipseAnnulus, false, [x], [y], [iw, ow, ih, oh], some a, .absent, none, au⟩
  | .rectangle, [x], [y], [w, h] =>
    if w ≤ 0 ∨ h ≤ 0 then .error .valueError
    else .ok ⟨.rectangle, false, [x], [y], [w, h], some 0, .absent, none, AUnit.degree⟩
  | .rectangle, [x], [y], [w, h, a] =>
    if w ≤ 0 ∨ h ≤ 0 then .error .valueError
    else .ok ⟨.rectangle, false, [x], [y], [w, h], some a, .absent, none, au⟩
  | .polygon, xs, ys, [] =>
    if xs.length = ys.length ∨ xs.length = 1 ∨ ys.length = 1 then
      -- numpy broadcasting of a length-1 array against the other one
      let n := max xs.length ys.length
      let xs := if xs.length = n then xs else List.replicate n (xs.headD 0)
      let ys := if ys.length = n then ys else List.replicate n (ys.headD 0)
      .ok ⟨.polygon, false, xs, ys, [], none, .absent, none, AUnit.degree⟩
    else .error .valueError
  | _, _, _, _ => .error .typeError

/-- the meta assembly at the end of `parse_row` (`incl1` = (`include == 1`)). -/
def setMeta (v : Variant) (cols : List Name) (incl1 : Bool) (component : Int) (region : Reg) : Reg :=
  let incl := if incl1 then Incl.absent else Incl.int 0
  if cols.contains cCOMPONENT then
    -- current code: `meta = {'component': component}` REPLACES `{'include': 0}`
    { region with incl := if v.f9 then incl else .absent, comp := some component }
  else
    { region with incl := incl }

/-- `parse_row`; `none` = the row is skipped (with a warning). -/
def parseRow (v : Variant) (cols : List Name) (au : AUnit) (row : TRow) : Except Err (Option Reg) := do
  let (shape?, incl1) ← getShape cols row
  match shape? with
  | none => pure none
  | some shape =>
    match shapeMap.lookup shape with
    | none => .error .keyError
    | some (kind, refs) =>
      if refs.any (fun ref => !cols.contains ref.col.name) then pure none
      else do
        let (xs, ys, rest) ← getShapeParams v shape row refs
        let region ← construct au kind xs ys rest
        pure (some (setMeta v cols incl1 row.component region))

def validColumns : List Name := [cX, cY, cSHAPE, cR, cROTANG, cCOMPONENT]

def parseRows (v : Variant) (cols : List Name) (au : AUnit) : List TRow → Except Err (List Reg)
  | [] => .ok []
  | row :: rest => do
    let r ← parseRow v cols au row
    let rs ← parseRows v cols au rest
    pure (match r with
      | some x => x :: rs
      | none => rs)

/-- `parse_table` -/
def parseTable (v : Variant) (t : Table) : Except Err (List Reg) :=
  if t.cols.any (fun c => !validColumns.contains c) then .error .fitsParserError
  else parseRows v t.cols t.rotangUnit t.rows

/-! ### the file layer (astropy `BinTableHDU.writeto` / `fits.open` + `QTable.read`)

A parameter of the model.  Its assumed law (exercised for real by the correspondence run):
a table without object-dtype columns whose ROTANG unit FITS knows comes back unchanged; a table with an
object-dtype column cannot be written (`TypeError`); nor can a table whose ROTANG unit FITS does not
know (`hourangle`: `UnitScaleError`). -/

structure FileLayer (F : Type) where
  write : Table → Except Err F
  read : F → Table

/-- the ROTANG unit can be stored (a table without rows has no ROTANG column). -/
def Table.unitStorable (t : Table) : Bool := t.rows.isEmpty || t.rotangUnit.fits

def FileLayer.Lawful {F : Type} (fl : FileLayer F) : Prop :=
  (∀ t, t.compObject = true → fl.write t = .error .typeError) ∧
  (∀ t, t.compObject = false → t.unitStorable = false → fl.write t = .error .unitScaleError) ∧
  (∀ t, t.compObject = false → t.unitStorable = true → ∃ f, fl.write t = .ok f ∧ fl.read f = t)

/-- `Regions.write(file, format='fits')` then `Regions.read(file, format='fits')`. -/
def throughFile {F : Type} (fl : FileLayer F) (v : Variant) (regions : List Reg) :
    Except Err (List Reg) := do
  let f ← fl.write (serialize v regions)
  parseTable v (fl.read f)

/-- the executable instance used by the driver: files are tables. -/
def idFileLayer : FileLayer Table :=
  ⟨fun t => if t.compObject then .error .typeError
            else if !t.unitStorable then .error .unitScaleError else .ok t, fun t => t⟩

end RegionsVerif.Impl.Fits
