/-
Impl model of the CRTF writer: `regions/io/crtf/io_core.py` `_to_shape_list` (region ->
intermediate shape, include extraction, meta merge) and `_ShapeList.to_crtf` (templates,
options `coordsys`/`fmt`/`radunit`, ellipse swap and halving, meta filtering, prefixes).

What astropy does is a parameter: the coordinates arrive already transformed to the
requested frame and in degrees, the sizes already converted to `radunit`, the rotation
angle already in degrees (the harness obtains them with the same astropy calls the code
makes).

`Quirks` records the behaviours of the CURRENT code that DESIGN §6 lists as defects; every
function takes the record, `Quirks.current` is the tree as it is, and flipping one field is
how the model follows a `fix:` commit (see the header of `Props/C11.lean`).
-/
import RegionsVerif.Impl.Crtf

namespace RegionsVerif.Impl.Crtf

/-- behaviours of the current code that are candidate defects (`true` = present). -/
structure Quirks where
  /-- F6 (fixed, 90d029a): `_to_shape_list` did `region.meta.pop('include', True)` on the caller's region. -/
  popInclude : Bool
  /-- F7: a text region's string is taken from `meta['text']`/`meta['label']`, not `region.text`. -/
  textFromMeta : Bool
  /-- F20: the reader does not know the `point` keyword the writer emits for a point without symbol. -/
  pointUnreadable : Bool
  /-- F21: pixel coordinates are written with the unit `deg`. -/
  pixAsDeg : Bool
  /-- F31: `labelcolor` is not in the writer's vocabulary (dropped on write). -/
  dropLabelcolor : Bool
  /-- F32: `labeloff` is written as `str(list)` (elements `repr`ed: quotes accumulate). -/
  labeloffRepr : Bool
  /-- F33: inside a bracketed PAIR of lengths the reader's coordinate regex `[\w.+-:]` does not
  accept the quote units `"` / `'` (what `radunit='arcsec'` writes). -/
  quotePairUnreadable : Bool
  /-- F34: `val.transform_to(FrameClass)` lets the SOURCE coordinate's frame attributes (equinox,
  obstime) override the defaults of the target frame: FK5 at equinox J1975 is written unchanged
  under `coord=J2000`. -/
  keepSourceAttrs : Bool
deriving DecidableEq, Repr

/-- the tree as it is now. -/
def Quirks.current : Quirks :=
  { popInclude := false,        -- F6 fixed in /repo by 90d029a (`region.meta.get('include', True)`)
    textFromMeta := false, pointUnreadable := false, pixAsDeg := false,
    dropLabelcolor := true, labeloffRepr := false, quotePairUnreadable := false,
    keepSourceAttrs := false }

/-- all candidate defects repaired as in `/verif/proposed_fixes/`. -/
def Quirks.fixed : Quirks :=
  { popInclude := false, textFromMeta := false, pointUnreadable := false, pixAsDeg := false,
    dropLabelcolor := false, labeloffRepr := false, quotePairUnreadable := false,
    keepSourceAttrs := false }

/-- a region as the writer sees it. -/
structure WReg where
  kind : Kind
  sky : Bool                    -- `isinstance(region, SkyRegion)`
  pts : List (ℚ × ℚ)            -- centre | vertices | start, end — in the requested frame WITH ITS DEFAULT
                                --   attributes (J2000 = FK5 at equinox J2000, …), degrees; or pixels
  sizes : List ℚ                -- in `radunit` (sky) or pixels
  angle : Option ℚ              -- degrees
  text : String                 -- `region.text` (text regions)
  mt : AList
  vis : AList
  /-- the same points when the source coordinate's own equinox / obstime are carried into the
  target frame (what `transform_to(FrameClass)` returns; equal to `pts` for default attributes). -/
  ptsKept : List (ℚ × ℚ) := pts
deriving DecidableEq, Repr

/-- serialiser options; `prec` is `fmt = '.{prec}f'`. -/
structure Opts where
  coordsys : String
  prec : Nat
  radunit : String
deriving DecidableEq, Repr

/-- `_Shape` on the writer side. -/
structure WShape where
  coordsys : String
  kind : Kind
  sky : Bool
  coord : List ℚ
  mt : AList
  incl : Option MVal            -- `region.meta.pop('include', True)`; `none` = the default `True`
deriving DecidableEq, Repr

/-- `valid_coordsys['CRTF']` with `coordsys_mapping['CRTF']`. -/
def coordsysTable : List (String × String) :=
  [("image", "IMAGE"), ("fk5", "J2000"), ("fk4", "B1950"), ("galactic", "GALACTIC"),
   ("geocentrictrueecliptic", "ECLIPTIC"), ("supergalactic", "SUPERGAL"), ("icrs", "ICRS")]

def isImage (coordsys : String) : Bool := coordsys == "image" || coordsys == "physical"

def flatten : List (ℚ × ℚ) → List ℚ
  | [] => []
  | (x, y) :: r => x :: y :: flatten r

/-- `meta = dict(region.meta); meta.update(region.visual)`. -/
def mergedMeta (r : WReg) : AList := AList.update r.mt r.vis

/-- the shape's meta: the merged meta, and for a text region the string under `text`. -/
def shapeMeta (q : Quirks) (r : WReg) : AList :=
  if r.kind = .text then
    if q.textFromMeta then
      -- `meta['text'] = meta.get('text', meta.pop('label', ''))` (the pop always happens)
      ((mergedMeta r).erase .label).set .text
        ((((mergedMeta r).erase .label).get? .text).getD (((mergedMeta r).get? .label).getD (.str "")))
    else
      -- fixed: the string is `region.text`; a label that merely repeats it is dropped
      (if (mergedMeta r).get? .label = some (.str r.text) then (mergedMeta r).erase .label
       else mergedMeta r).set .text (.str r.text)
  else mergedMeta r

/-- the coordinates `_to_shape_list` obtains from astropy. -/
def srcPts (q : Quirks) (r : WReg) : List (ℚ × ℚ) := if q.keepSourceAttrs then r.ptsKept else r.pts

/-- `_to_shape_list`, one region. -/
def toShape (q : Quirks) (coordsys : String) (r : WReg) : Except Err WShape :=
  if r.kind = .compound then .error .keyError            -- `regions_attributes['compound']`
  else if r.sky && (isImage coordsys || (coordsysTable.lookup coordsys).isNone) then
    .error .valueError                                   -- `transform_to(None)`
  else
    .ok { coordsys := coordsys, kind := r.kind, sky := r.sky,
          coord := flatten (srcPts q r) ++ r.sizes ++ r.angle.toList,
          mt := shapeMeta q r, incl := r.mt.get? .include }

/-- the caller's region after `_to_shape_list` (F6). -/
def afterShape (q : Quirks) (r : WReg) : WReg :=
  if q.popInclude then { r with mt := r.mt.erase .include } else r

/-- `valid_keys` of `_to_crtf_meta` (`width` cannot occur: `RegionVisual` stores it as `linewidth`). -/
def writerValid (q : Quirks) : Key → Bool
  | .label | .include | .frame | .range | .veltype | .restfreq | .coord | .type | .text | .corr
  | .color | .font | .symthick | .symsize | .fontsize | .fontstyle | .usetex | .labelpos
  | .labeloff | .linewidth | .linestyle | .symbol => true
  | .labelcolor => !q.dropLabelcolor
  | _ => false

/-- `keylist` of `to_crtf`: keys that are not written as `key=value` pairs. -/
def writerSkip (q : Quirks) : Key → Bool
  | .include | .comment | .symbol | .coord | .text | .range | .corr | .type => true
  | .labeloff => !q.labeloffRepr
  | _ => false

def rmSpaces (s : String) : String := String.ofList (s.toList.filter (· ≠ ' '))

/-- `RAD` in the templates. -/
def radUnit (radunit : String) : LUnit :=
  if radunit = "arcsec" then .dq
  else if radunit = "deg" then .deg
  else if radunit = "rad" then .rad
  else if radunit = "arcmin" then .arcmin
  else if radunit = "pix" then .pix
  else if radunit = "" then .none
  else .other radunit

/-- the value of a `key=value` pair (`label` has been quoted before). -/
def pairTok (k : Key) (v : MVal) : MTok :=
  if k = .label ∧ v ≠ .str "" then .scalar v.pyStr .single
  else match v with
    | .strs l => .list (l.map pyRepr)        -- `str(list)`: the reader sees a bracketed list
    | .ints l => .list (l.map toString)
    | _ => .scalar v.pyStr .none

/-- list values written as `[a, b]` (`str(list).replace("'", '')`). -/
def listTok (spaces : Bool) : MVal → Except Err MTok
  | .strs l => .ok (.list (if spaces then l.map rmSpaces else l))
  | .ints l => .ok (.list (l.map toString))
  | _ => .error (.unsupported "range/corr/labeloff must be a list")

/-- `key=value` pairs for the keys that are not in `keylist`, in dictionary order. -/
def pairItems (q : Quirks) (m : AList) : List MItem :=
  (m.filter fun p => !writerSkip q p.1).map fun p => MItem.pair p.1.toString (pairTok p.1 p.2)

/-- `coord=…` first when the shape's frame differs from the requested one. -/
def headItems (q : Quirks) (coordDiffers : Option String) (m : AList) : List MItem :=
  match coordDiffers with
  | some c => MItem.pair "coord" (.scalar c .none) :: pairItems q m
  | none => pairItems q m

/-- one appended list item `, name=[…]`. -/
def listItem (name : String) (spaces : Bool) : Option MVal → Except Err (List MItem)
  | some v =>
    match listTok spaces v with
    | .ok t => .ok [MItem.pair name t]
    | .error e => .error e
  | none => .ok []

/-- the items appended after the pairs: (`labeloff` once F32 is repaired,) `range`, `corr`. -/
def tailItems (q : Quirks) (m : AList) : Except Err (List MItem) :=
  match listItem "labeloff" false (if q.labeloffRepr then none else m.get? .labeloff),
        listItem "range" true (m.get? .range), listItem "corr" false (m.get? .corr) with
  | .ok t1, .ok t2, .ok t3 => .ok (t1 ++ t2 ++ t3)
  | .error e, _, _ => .error e
  | _, .error e, _ => .error e
  | _, _, .error e => .error e

/-- `meta_str`: with no pair at all the appended items still start with `, ` (an empty item). -/
def assemble (head tail : List MItem) : List MItem :=
  if head.isEmpty && !tail.isEmpty then MItem.empty :: tail else head ++ tail

/-- the comma-separated items after the region. -/
def writeItems (q : Quirks) (coordDiffers : Option String) (m : AList) : Except Err (List MItem) :=
  match tailItems q m with
  | .ok tail => .ok (assemble (headItems q coordDiffers m) tail)
  | .error e => .error e

def pairsOf : List ℚ → List (ℚ × ℚ)
  | x :: y :: r => (x, y) :: pairsOf r
  | _ => []

/-- the region keyword and parameters from the `coord` list (the templates). -/
def writeBody (q : Quirks) (o : Opts) (s : WShape) (m : AList) : Except Err Body :=
  let cu : CUnit := if !q.pixAsDeg && isImage o.coordsys then .pix else .deg
  let c (x : ℚ) : Coord := .dec (fmtDec o.prec x) cu
  let l (x : ℚ) : Len := ⟨fmtDec o.prec x, radUnit o.radunit⟩
  let a (x : ℚ) : Len := ⟨fmtDec o.prec x, .deg⟩
  match s.kind, s.coord with
  | .circle, [x, y, r] => .ok (.circle (c x, c y) (l r))
  | .circleannulus, [x, y, r1, r2] => .ok (.annulus (c x, c y) (l r1) (l r2))
  -- `coord[2:] = [x / 2 …]; coord[-1] *= 2`; template `[{4}, {3}], {5}`
  | .ellipse, [x, y, w, h, ang] => .ok (.ellipse (c x, c y) (l (h / 2)) (l (w / 2)) (a (ang / 2 * 2)))
  | .rectangle, [x, y, w, h, ang] => .ok (.rotbox (c x, c y) (l w) (l h) (a ang))
  | .polygon, cs => .ok (.poly ((pairsOf cs).map fun p => (c p.1, c p.2)))
  | .line, [x1, y1, x2, y2] => .ok (.line (c x1, c y1) (c x2, c y2))
  | .point, [x, y] =>
    match m.get? .symbol with
    | some v => .ok (.symbol (c x, c y) v.pyStr)
    | none => .ok (.point (c x, c y))
  | .text, [x, y] =>
    match m.get? .text with
    | some v => .ok (.text (c x, c y) v.pyStr)
    | none => .error .keyError
  | .ellipseannulus, _ => .error .keyError          -- no template
  | .rectangleannulus, _ => .error .keyError
  | _, _ => .error (.unsupported "coordinate list does not fit the template")

/-- `_to_crtf_meta`: the shape's meta filtered to the writer's vocabulary. -/
def writerMeta (q : Quirks) (s : WShape) : AList := s.mt.filter fun p => writerValid q p.1

/-- `shape.include in (False, '-')`. -/
def shapeExcl (s : WShape) : Bool :=
  match s.incl with
  | some v => v.isExcl
  | none => false

/-- `coord=` is written when the shape's own frame is not the requested one. -/
def coordDiffers (o : Opts) (s : WShape) : Option String :=
  if s.coordsys.toLower ≠ o.coordsys.toLower
  then some ((coordsysTable.lookup o.coordsys.toLower).getD "") else none

/-- one shape -> one line (`to_crtf`, loop body). -/
def writeLine (q : Quirks) (o : Opts) (s : WShape) : Except Err RLine :=
  -- `check_crtf`: the shape's frame must be one of `valid_coordsys` (exact spelling)
  if (coordsysTable.lookup s.coordsys).isNone then .error .valueError else
  match writeItems q (coordDiffers o s) (writerMeta q s) with
  | .error e => .error e
  | .ok items =>
    if !isImage o.coordsys && !s.sky && o.radunit ≠ "" then
      .error .unitConversionError                              -- `dimensionless.to(radunit)`
    else
      match writeBody q o s (writerMeta q s) with
      | .error e => .error e
      | .ok body =>
        .ok { excl := shapeExcl s, ann := (writerMeta q s).get? .type = some (.str "ann"),
              body := body, items := items }

/-- `to_crtf` on a shape list. -/
def toCrtf (q : Quirks) (o : Opts) (shapes : List WShape) : Except Err (List SrcLine) :=
  if o.radunit = "arcsec" ∧ o.coordsys.toLower = "image" then .error .valueError
  else
    match coordsysTable.lookup o.coordsys.toLower with
    | none => .error .keyError
    | some g => do
      let ls ← shapes.mapM (writeLine q o)
      pure (.comment "CRTFv0" :: .global [.pair "coord" (.scalar g .none)] :: ls.map .region)

/-- `Regions(rs).serialize(format='crtf', coordsys=, fmt=, radunit=)`. -/
def serialize (q : Quirks) (o : Opts) (rs : List WReg) : Except Err (List SrcLine) := do
  let shapes ← rs.mapM (toShape q o.coordsys)
  toCrtf q o shapes

/-- the caller's regions after a serialisation. -/
def afterSerialize (q : Quirks) (rs : List WReg) : List WReg := rs.map (afterShape q)

end RegionsVerif.Impl.Crtf
