/-
Model of the places where the CURRENT DS9 reader (`regions/io/ds9/read.py`) is known to deviate
from the reference interpreter `Spec.Ds9.interp` — nothing else of the reader is modelled (its
conformance is decided by the differential run of C10).  The deviations are switches:

* `lowerCompositeValues` (finding F105): the properties of a composite header are parsed from
  the lower-cased line, so their VALUES are lower-cased (`color=Red` → `red`, `text={Hi}` → `hi`);
* `badLastMemberKeepsComposite` (finding F106): an unsupported shape that is the last member of a
  composite (no `||`) is skipped before the composite properties are reset, so they stay in force
  for the next region line.

`currentCode` says which of them the code under test has.  FLIP IT when a fix is committed.
-/
import RegionsVerif.Spec.Ds9

namespace RegionsVerif.Impl.Ds9Read
open RegionsVerif.Spec.Ds9

structure Quirks where
  lowerCompositeValues : Bool          -- F105
  badLastMemberKeepsComposite : Bool   -- F106
deriving DecidableEq, Repr

/-- no deviation: the reference. -/
def Quirks.none : Quirks := ⟨false, false⟩

/-- `/repo` at b51f440 (and before). -/
def Quirks.b51f440 : Quirks := ⟨true, true⟩

/-- THE SWITCH: the deviations of the code under test.  After F105 / F106 are fixed in /repo set
the corresponding field to `false` (both fixed: `Quirks.none`). -/
def currentCode : Quirks := Quirks.none

def lowerKV (p : KV) : KV := ⟨p.key, p.delim, p.val.toLower⟩

def nextQ (q : Quirks) (st : State) : Stmt → State
  | .composite kvs =>
    -- (the reader skips every shape line, the composite header included, while no frame is active; the
    -- reference reads the header all the same, which cannot be observed unless F106 is on)
    if q.badLastMemberKeepsComposite && st.frame.isNone then st
    else { st with comp := compProps (if q.lowerCompositeValues then kvs.map lowerKV else kvs) }
  | .badShape => if q.badLastMemberKeepsComposite then st else { st with comp := [] }
  | s => next st s

def runQ (q : Quirks) : State → List Stmt → List Region
  | _, [] => []
  | st, s :: r => emit st s ++ runQ q (nextQ q st s) r

def interpQ (q : Quirks) (toks : List Tok) : List Region := runQ q init (stmtsOf toks)

/-- the inputs on which the deviations cannot show: every composite header has lower-case values
already (when F105 is on) and no unsupported shape without `||` stands inside an open composite,
nor a composite header where no frame is active (when F106 is on).  Decidable, evaluated along the reference's own state. -/
def quirkFree (q : Quirks) : State → List Stmt → Bool
  | _, [] => true
  | st, s :: r =>
    (match s with
     | .composite kvs => (!q.lowerCompositeValues || decide (kvs.map lowerKV = kvs)) &&
                         (!q.badLastMemberKeepsComposite || st.frame.isSome)
     | .badShape => !q.badLastMemberKeepsComposite || decide (st.comp = [])
     | _ => true) && quirkFree q (next st s) r

end RegionsVerif.Impl.Ds9Read
