/-
Impl model of the CRTF (CASA Region Text Format) I/O of `regions/io/crtf` — common part:
decimal literals and the `fmt` formatter, metadata keys/values, insertion-ordered
dictionaries, the *structured* form of a CRTF file (lines made of tokens) and its
rendering to text.

Two levels (DESIGN §5 C09/C11):

* structured level — `SrcLine`/`RLine`/`Body`/`Coord`/`Len`/`MItem`: what a line of a CRTF
  file *says*, token by token.  The writer (`Impl/CrtfWrite.lean`) produces it, the reader
  (`Impl/CrtfRead.lean`) consumes it, and all theorems of `Props/C11.lean` are about it.
* character level — `render` turns the structured form into the exact text.  The writer's
  text is compared with the real serialiser's text as a *string*; the reader model is tied
  to the real parser through `render` (real `parse (render L)` against model `parse L`).
  The real reader's regular-expression tokenisation itself is NOT modelled (said in the
  evidence file).

Numbers are exact rationals: a Python float *is* a rational, `f'{x:.6f}'` is the correctly
rounded (round-half-even on the exact value) decimal of it, and reading a decimal literal
gives that decimal exactly up to the code's own final rounding to a double.
-/
import Mathlib.Data.Rat.Floor
import Mathlib.Algebra.Order.Floor.Ring
import Mathlib.Algebra.Order.Field.Basic

namespace RegionsVerif.Impl.Crtf

/-! ## decimal literals and `fmt` -/

/-- a decimal literal `[-]ddd.ddd` with `scale` digits after the point; value
`± mant / 10^scale`.  `neg` with `mant = 0` is Python's `-0.000`. -/
structure Dec where
  neg : Bool
  mant : Nat
  scale : Nat
deriving DecidableEq, Repr

def Dec.val (d : Dec) : ℚ :=
  (if d.neg then -(d.mant : ℚ) else (d.mant : ℚ)) / (10 : ℚ) ^ d.scale

/-- round to the nearest integer, ties to even (what `'%.nf'` does with the exact value). -/
def roundHalfEven (x : ℚ) : Int :=
  if x - ⌊x⌋ < 1 / 2 then ⌊x⌋
  else if 1 / 2 < x - ⌊x⌋ then ⌊x⌋ + 1
  else if ⌊x⌋ % 2 = 0 then ⌊x⌋ else ⌊x⌋ + 1

/-- `f'{x:.{p}f}'` as a literal: sign of `x` (also when the digits round to zero) and
round-half-even of `|x|·10^p`. -/
def fmtDec (p : Nat) (x : ℚ) : Dec :=
  ⟨decide (x < 0), (roundHalfEven (|x| * (10 : ℚ) ^ p)).toNat, p⟩

/-- the `fmt` option: only the fixed-point forms `'.Nf'` are modelled. -/
def parseFmt (s : String) : Option Nat :=
  match s.toList with
  | '.' :: rest =>
    match rest.reverse with
    | 'f' :: ds => if ds.isEmpty then none else (String.ofList ds.reverse).toNat?
    | _ => none
  | _ => none

def padLeft (s : String) (w : Nat) : String := "".pushn '0' (w - s.length) ++ s

def Dec.render (d : Dec) : String :=
  (if d.neg then "-" else "") ++ toString (d.mant / 10 ^ d.scale) ++
    (if d.scale = 0 then "" else "." ++ padLeft (toString (d.mant % 10 ^ d.scale)) d.scale)

/-! ## metadata keys and values -/

/-- the keys that matter to the CRTF code; every other key is `other`. -/
inductive Key
  | label | include | frame | range | veltype | restfreq | coord | type | text | corr
  | color | font | symthick | symsize | fontsize | fontstyle | usetex | labelpos | labeloff
  | linewidth | linestyle | symbol | labelcolor | comment
  | other (s : String)
deriving DecidableEq, Repr

def Key.ofString : String → Key
  | "label" => .label | "include" => .include | "frame" => .frame | "range" => .range
  | "veltype" => .veltype | "restfreq" => .restfreq | "coord" => .coord | "type" => .type
  | "text" => .text | "corr" => .corr | "color" => .color | "font" => .font
  | "symthick" => .symthick | "symsize" => .symsize | "fontsize" => .fontsize
  | "fontstyle" => .fontstyle | "usetex" => .usetex | "labelpos" => .labelpos
  | "labeloff" => .labeloff | "linewidth" => .linewidth | "linestyle" => .linestyle
  | "symbol" => .symbol | "labelcolor" => .labelcolor | "comment" => .comment
  | s => .other s

def Key.toString : Key → String
  | .label => "label" | .include => "include" | .frame => "frame" | .range => "range"
  | .veltype => "veltype" | .restfreq => "restfreq" | .coord => "coord" | .type => "type"
  | .text => "text" | .corr => "corr" | .color => "color" | .font => "font"
  | .symthick => "symthick" | .symsize => "symsize" | .fontsize => "fontsize"
  | .fontstyle => "fontstyle" | .usetex => "usetex" | .labelpos => "labelpos"
  | .labeloff => "labeloff" | .linewidth => "linewidth" | .linestyle => "linestyle"
  | .symbol => "symbol" | .labelcolor => "labelcolor" | .comment => "comment"
  | .other s => s

/-- a metadata value as far as its `str()` matters. -/
inductive MVal
  | str (s : String)
  | int (n : Int)
  | bool (b : Bool)
  | strs (l : List String)
  | ints (l : List Int)
deriving DecidableEq, Repr

/-- `repr` of a `str` without backslashes or non-printable characters: single quotes, unless
the string contains a single quote and no double quote. -/
def pyRepr (s : String) : String :=
  if s.contains '\'' then
    if s.contains '"' then "'" ++ s.replace "'" "\\'" ++ "'" else "\"" ++ s ++ "\""
  else "'" ++ s ++ "'"

def bracket (l : List String) : String := "[" ++ ", ".intercalate l ++ "]"

/-- Python `str(value)`. -/
def MVal.pyStr : MVal → String
  | .str s => s
  | .int n => toString n
  | .bool b => if b then "True" else "False"
  | .strs l => bracket (l.map pyRepr)
  | .ints l => bracket (l.map toString)

/-- `value in (False, '-')` (note `0 == False`). -/
def MVal.isExcl : MVal → Bool
  | .bool b => !b
  | .int n => n == 0
  | .str s => s == "-"
  | _ => false

/-! ## insertion-ordered dictionaries (Python `dict`) -/

abbrev AList := List (Key × MVal)

/-- `d.get(k)`: first entry with that key. -/
def AList.get? : AList → Key → Option MVal
  | [], _ => none
  | (k', v) :: m, k => if k' = k then some v else AList.get? m k

def AList.has (m : AList) (k : Key) : Bool := (m.get? k).isSome

/-- `d[k] = v`: replace in place, else append. -/
def AList.set : AList → Key → MVal → AList
  | [], k, v => [(k, v)]
  | (k', v') :: m, k, v => if k' = k then (k, v) :: m else (k', v') :: AList.set m k v

def AList.erase (m : AList) (k : Key) : AList := m.filter (fun p => p.1 ≠ k)

/-- `d.update(other)`. -/
def AList.update (m other : AList) : AList := other.foldl (fun acc p => acc.set p.1 p.2) m

/-! ## structured CRTF lines -/

/-- suffix of a plain decimal coordinate. -/
inductive CUnit | deg | rad | pix | bare
deriving DecidableEq, Repr

/-- one coordinate token in one of the CASA notations. -/
inductive Coord
  | dec (d : Dec) (u : CUnit)                   -- `12.5deg`, `1.5rad`, `3pix`, `12.5`
  | hms (neg : Bool) (h m : Nat) (s : Dec) (plus : Bool := false)      -- `12h30m15.5s`
  | dms (neg : Bool) (d m : Nat) (s : Dec) (plus : Bool := false)      -- `-12d30m15.5s`
  | colon (neg : Bool) (h m : Nat) (s : Dec) (plus : Bool := false)    -- `12:30:15.5`   (hours)
  | dots (neg : Bool) (d m : Nat) (s : Dec) (plus : Bool := false)     -- `-012.30.15.5` (degrees)
  | hm (neg : Bool) (h m : Nat) (plus : Bool := false)                 -- `-0h30m`  (no seconds field)
  | dm (neg : Bool) (d m : Nat) (plus : Bool := false)                 -- `-0d30m`
deriving DecidableEq, Repr

/-- unit suffix of a length. -/
inductive LUnit | deg | rad | arcmin | arcsec | pix | dq | sq | other (s : String) | none
deriving DecidableEq, Repr

structure Len where
  d : Dec
  u : LUnit
deriving DecidableEq, Repr

abbrev Pt := Coord × Coord

/-- region keyword with its parameters. -/
inductive Body
  | circle (c : Pt) (r : Len)
  | annulus (c : Pt) (r1 r2 : Len)
  | ellipse (c : Pt) (a b : Len) (ang : Len)
  | box (c1 c2 : Pt)
  | centerbox (c : Pt) (w h : Len)
  | rotbox (c : Pt) (w h : Len) (ang : Len)
  | poly (vs : List Pt)
  | line (p q : Pt)
  | symbol (c : Pt) (sym : String)
  | point (c : Pt)
  | text (c : Pt) (s : String)
deriving DecidableEq, Repr

inductive Quote | none | single | double
deriving DecidableEq, Repr

/-- right-hand side of `key=…`. -/
inductive MTok
  | scalar (s : String) (q : Quote)
  | list (l : List String)
deriving DecidableEq, Repr

/-- one comma-separated item after the region; `empty` is the empty item the writer
produces in `circle[…], , range=[…]`. -/
inductive MItem
  | pair (k : String) (t : MTok)
  | empty
deriving DecidableEq, Repr

structure RLine where
  excl : Bool              -- leading `-`
  plus : Bool := false     -- leading `+` (surface only)
  ann : Bool               -- `ann ` prefix
  body : Body
  items : List MItem
  comma : Bool := true     -- `, ` (else ` `) between the region and its parameters (surface only)
  space : Bool := false    -- a space after the region keyword (surface only)
deriving DecidableEq, Repr

inductive SrcLine
  | blank
  | comment (s : String)            -- `#…`
  | global (items : List MItem)
  | region (l : RLine)
deriving DecidableEq, Repr

/-! ## rendering -/

def CUnit.render : CUnit → String
  | .deg => "deg" | .rad => "rad" | .pix => "pix" | .bare => ""

def nat2 (n : Nat) : String := padLeft (toString n) 2

/-- the sign character: `-`, an explicit `+`, or nothing (the sign of a sexagesimal token is this
character, whatever the leading field is: `-00.30.00.0` is minus half a degree). -/
def sgn (neg : Bool) (plus : Bool := false) : String := if neg then "-" else if plus then "+" else ""

def Coord.render : Coord → String
  | .dec d u => d.render ++ u.render
  | .hms n h m s p => sgn n p ++ nat2 h ++ "h" ++ nat2 m ++ "m" ++ s.render ++ "s"
  | .dms n d m s p => sgn n p ++ nat2 d ++ "d" ++ nat2 m ++ "m" ++ s.render ++ "s"
  | .colon n h m s p => sgn n p ++ nat2 h ++ ":" ++ nat2 m ++ ":" ++ s.render
  | .dots n d m s p => sgn n p ++ padLeft (toString d) 3 ++ "." ++ nat2 m ++ "." ++ s.render
  | .hm n h m p => sgn n p ++ toString h ++ "h" ++ toString m ++ "m"
  | .dm n d m p => sgn n p ++ toString d ++ "d" ++ toString m ++ "m"

def LUnit.render : LUnit → String
  | .deg => "deg" | .rad => "rad" | .arcmin => "arcmin" | .arcsec => "arcsec" | .pix => "pix"
  | .dq => "\"" | .sq => "'" | .other s => s | .none => ""

def Len.render (l : Len) : String := l.d.render ++ l.u.render

def renderPt (p : Pt) : String := "[" ++ p.1.render ++ ", " ++ p.2.render ++ "]"

def renderPair (a b : Len) : String := "[" ++ a.render ++ ", " ++ b.render ++ "]"

def Body.name : Body → String
  | .circle .. => "circle" | .annulus .. => "annulus" | .ellipse .. => "ellipse"
  | .box .. => "box" | .centerbox .. => "centerbox" | .rotbox .. => "rotbox"
  | .poly .. => "poly" | .line .. => "line" | .symbol .. => "symbol" | .point .. => "point"
  | .text .. => "text"

def Body.inner : Body → String
  | .circle c r => renderPt c ++ ", " ++ r.render
  | .annulus c r1 r2 => renderPt c ++ ", " ++ renderPair r1 r2
  | .ellipse c a b ang => renderPt c ++ ", " ++ renderPair a b ++ ", " ++ ang.render
  | .box c1 c2 => renderPt c1 ++ ", " ++ renderPt c2
  | .centerbox c w h => renderPt c ++ ", " ++ renderPair w h
  | .rotbox c w h ang => renderPt c ++ ", " ++ renderPair w h ++ ", " ++ ang.render
  | .poly vs => ", ".intercalate (vs.map renderPt)
  | .line p q => renderPt p ++ ", " ++ renderPt q
  | .symbol c s => renderPt c ++ ", " ++ s
  | .point c => renderPt c
  | .text c s => renderPt c ++ ", '" ++ s ++ "'"

def MTok.render : MTok → String
  | .scalar s .none => s
  | .scalar s .single => "'" ++ s ++ "'"
  | .scalar s .double => "\"" ++ s ++ "\""
  | .list l => bracket l

def MItem.render : MItem → String
  | .pair k t => k ++ "=" ++ t.render
  | .empty => ""

def renderItems (items : List MItem) : String := ", ".intercalate (items.map MItem.render)

def RLine.render (l : RLine) : String :=
  (if l.excl then "-" else if l.plus then "+" else "") ++ (if l.ann then "ann " else "") ++
    l.body.name ++ (if l.space then " " else "") ++ "[" ++ l.body.inner ++ "]" ++
    (if l.items.isEmpty then "" else (if l.comma then ", " else " ") ++ renderItems l.items)

def SrcLine.render : SrcLine → String
  | .blank => ""
  | .comment s => "#" ++ s
  | .global items => "global " ++ renderItems items
  | .region l => l.render

/-- the text of a file: every line terminated by a newline (as the writer does). -/
def renderFile (ls : List SrcLine) : String := String.join (ls.map fun l => l.render ++ "\n")

/-! ## errors -/

/-- exception classes (the correspondence compares class names). -/
inductive Err
  | valueError | typeError | keyError | unitConversionError | parserError
  | unsupported (what : String)       -- outside the modelled fragment (never generated)
deriving DecidableEq, Repr

def Err.name : Err → String
  | .valueError => "ValueError" | .typeError => "TypeError" | .keyError => "KeyError"
  | .unitConversionError => "UnitConversionError" | .parserError => "CRTFRegionParserError"
  | .unsupported w => "unsupported: " ++ w

/-- region classes as the CRTF code names them (`reg_type`). -/
inductive Kind
  | circle | circleannulus | ellipse | rectangle | polygon | line | point | text
  | ellipseannulus | rectangleannulus | compound
deriving DecidableEq, Repr

end RegionsVerif.Impl.Crtf
