/-
Heap-effect semantics for property C13 (operations never mutate their inputs nor depend on
call history).

* A heap maps object ids to objects: a `dict` (association list in insertion order, like a Python
  dict), a `list`, a scalar `cell`, or an `opaque` external object that may refer to others.
  `next` is the next unused id: `alloc` hands out `next`, ids `≥ next` are unallocated.
* A program is a list of effects `alloc`, `copyDeep`, `copyShallow`, `read`, and the WRITES
  `write` (replace the content), `setItem`, `pop`, `update`, `append`; every write carries the
  receiver class that the extractor (`tools/c13_effects.py`) assigned to the site it came from.
* Targets are references: `.old i` — an object that existed when the program started — or
  `.new k` — the k-th id handed out since the program started (`base + k`, `base` = the heap's
  `next` at program start).  "Fresh" means operationally: the id is `≥ base`.
* `inputReachable h roots i` is the reflexive-transitive closure of "refers to" from the roots.

The tables generated from the source (`Gen.Effects`) use the `Site` / `ModEntry` records
defined at the end; module-level iterators are described by `IterExpr` with a stream semantics.
-/

namespace RegionsVerif.Impl.Effects

/-! ### heap -/

/-- object ids are natural numbers (written `Nat` below so that `omega` sees them). -/
abbrev Id := Nat

/-- a value held by a container: a reference or an immediate (immutable) scalar, kept as text. -/
inductive Val
  | ref (i : Nat)
  | imm (s : String)
  deriving DecidableEq, Repr, Inhabited

inductive Obj
  | dict (items : List (String × Val))
  | list (items : List Val)
  | cell (v : String)
  | opaque (tag : String) (refs : List Nat)
  deriving DecidableEq, Repr, Inhabited

def Val.refs : Val → List Nat
  | .ref i => [i]
  | .imm _ => []

def Obj.refs : Obj → List Nat
  | .dict items => items.flatMap (fun kv => kv.2.refs)
  | .list items => items.flatMap Val.refs
  | .cell _ => []
  | .opaque _ r => r

structure Heap where
  cells : Nat → Option Obj
  next : Nat

def Heap.empty : Heap := ⟨fun _ => none, 0⟩

/-- heap from a finite list of objects: ids `0 … n-1`. -/
def Heap.ofList (l : List Obj) : Heap := ⟨fun i => l[i]?, l.length⟩

def Heap.set (h : Heap) (i : Nat) (o : Obj) : Heap :=
  { h with cells := fun j => if j = i then some o else h.cells j }

def Heap.alloc (h : Heap) (o : Obj) : Heap :=
  { cells := fun j => if j = h.next then some o else h.cells j, next := h.next + 1 }

/-- `i` refers to `j` in `h`. -/
def refersTo (h : Heap) (i j : Nat) : Prop := ∃ o, h.cells i = some o ∧ j ∈ o.refs

/-- reflexive-transitive closure of "refers to", started at the roots. -/
inductive inputReachable (h : Heap) (roots : List Nat) : Nat → Prop
  | root {i} : i ∈ roots → inputReachable h roots i
  | step {i j} : inputReachable h roots i → refersTo h i j → inputReachable h roots j

/-- allocated ids are below `next`, and allocated objects refer to allocated ids only. -/
structure Heap.WF (h : Heap) : Prop where
  bound : ∀ i, h.next ≤ i → h.cells i = none
  closed : ∀ i o, h.cells i = some o → ∀ j ∈ o.refs, j < h.next

/-! ### executable reachability (driver, deep copy) -/

def succs (h : Heap) (i : Nat) : List Nat :=
  match h.cells i with
  | some o => o.refs
  | none => []

/-- ids reachable from `s` (breadth-first, duplicates removed, `fuel` rounds). -/
def closure (h : Heap) : Nat → List Nat → List Nat
  | 0, s => s
  | n + 1, s =>
    let new := ((s.flatMap (succs h)).filter (fun j => !s.contains j)).eraseDups
    if new.isEmpty then s else closure h n (s ++ new)

def reachList (h : Heap) (roots : List Nat) : List Nat := closure h h.next roots.eraseDups

/-! ### effects -/

/-- receiver class of a mutating site (assigned by the extractor). -/
inductive RecvClass
  | fresh | selfInit | immutableScalar | input | moduleState | unknown
  deriving DecidableEq, Repr, Inhabited

inductive Ref
  | old (i : Nat)
  | new (k : Nat)
  deriving DecidableEq, Repr, Inhabited

def Ref.resolve (base : Nat) : Ref → Nat
  | .old i => i
  | .new k => base + k

/-- a value mentioned by an effect: a reference (old / new) or an immediate. -/
inductive RVal
  | ref (r : Ref)
  | imm (s : String)
  deriving DecidableEq, Repr, Inhabited

def RVal.resolve (base : Nat) : RVal → Val
  | .ref r => .ref (r.resolve base)
  | .imm s => .imm s

/-- object literal of an `alloc` / `write` -/
inductive RObj
  | dict (items : List (String × RVal))
  | list (items : List RVal)
  | cell (v : String)
  | opaque (tag : String) (refs : List Ref)
  deriving Repr, Inhabited

def RObj.resolve (base : Nat) : RObj → Obj
  | .dict items => .dict (items.map fun kv => (kv.1, kv.2.resolve base))
  | .list items => .list (items.map (RVal.resolve base))
  | .cell v => .cell v
  | .opaque t r => .opaque t (r.map (Ref.resolve base))

inductive Effect
  | alloc (o : RObj)
  | copyDeep (src : Ref)
  | copyShallow (src : Ref)
  | read (src : Ref)
  | write (cls : RecvClass) (tgt : Ref) (o : RObj)
  | setItem (cls : RecvClass) (tgt : Ref) (key : String) (v : RVal)
  | pop (cls : RecvClass) (tgt : Ref) (key : String)
  | update (cls : RecvClass) (tgt : Ref) (items : List (String × RVal))
  | append (cls : RecvClass) (tgt : Ref) (v : RVal)
  deriving Repr, Inhabited

abbrev Program := List Effect

/-- the reference an effect writes through, with its receiver class (`none`: not a write). -/
def Effect.target : Effect → Option (RecvClass × Ref)
  | .write c t _ => some (c, t)
  | .setItem c t _ _ => some (c, t)
  | .pop c t _ => some (c, t)
  | .update c t _ => some (c, t)
  | .append c t _ => some (c, t)
  | _ => none

/-- an effect is LOCAL when it does not write, or writes through a reference to an object
allocated since the program started. -/
def Effect.isLocal (e : Effect) : Bool :=
  match e.target with
  | none => true
  | some (_, .new _) => true
  | some (_, .old _) => false

/-- the classes under which a site may write: the receiver was allocated by the library during the
operation (`fresh`), is the object under construction / the receiver of a contract mutator
(`selfInit`), or the "write" is the rebinding of a number / str (`immutableScalar`). -/
def RecvClass.harmless : RecvClass → Bool
  | .fresh | .selfInit | .immutableScalar => true
  | .input | .moduleState | .unknown => false

def Effect.classOK (e : Effect) : Bool :=
  match e.target with
  | none => true
  | some (c, _) => c.harmless

/-- what the extractor's classification is TRUSTED to mean (validated dynamically, not proved):
a write through a reference to a pre-existing object is never labelled harmless. -/
def Effect.classSound (e : Effect) : Prop :=
  match e.target with
  | some (c, .old _) => c.harmless = false
  | _ => True

/-! ### dict operations (Python semantics: insertion order, update in place keeps the position) -/

def dictSet : List (String × Val) → String → Val → List (String × Val)
  | [], k, v => [(k, v)]
  | (k', v') :: r, k, v => if k' = k then (k, v) :: r else (k', v') :: dictSet r k v

def dictPop (l : List (String × Val)) (k : String) : List (String × Val) :=
  l.filter (fun kv => kv.1 ≠ k)

def dictUpdate (l : List (String × Val)) (items : List (String × Val)) : List (String × Val) :=
  items.foldl (fun acc kv => dictSet acc kv.1 kv.2) l

def objSetItem (o : Obj) (k : String) (v : Val) : Obj :=
  match o with
  | .dict items => .dict (dictSet items k v)
  | o => o

def objPop (o : Obj) (k : String) : Obj :=
  match o with
  | .dict items => .dict (dictPop items k)
  | o => o

def objUpdate (o : Obj) (items : List (String × Val)) : Obj :=
  match o with
  | .dict l => .dict (dictUpdate l items)
  | o => o

def objAppend (o : Obj) (v : Val) : Obj :=
  match o with
  | .list l => .list (l ++ [v])
  | o => o

/-- apply `f` to the object at `i` (nothing happens when `i` is not allocated). -/
def Heap.modify (h : Heap) (i : Nat) (f : Obj → Obj) : Heap :=
  match h.cells i with
  | some o => h.set i (f o)
  | none => h

/-! ### copies -/

def renameVal (m : List (Nat × Nat)) : Val → Val
  | .ref i => .ref ((m.lookup i).getD i)
  | .imm s => .imm s

def renameObj (m : List (Nat × Nat)) : Obj → Obj
  | .dict items => .dict (items.map fun kv => (kv.1, renameVal m kv.2))
  | .list items => .list (items.map (renameVal m))
  | .cell v => .cell v
  | .opaque t r => .opaque t (r.map fun i => (m.lookup i).getD i)

/-- allocate the given objects one after the other. -/
def Heap.allocMany (h : Heap) : List Obj → Heap
  | [] => h
  | o :: r => (h.alloc o).allocMany r

/-- `copy.deepcopy(src)`: every object reachable from `src` is cloned (sharing and cycles are
preserved, like Python's memo); the clone of `src` gets id `h.next`. -/
def Heap.copyDeep (h : Heap) (src : Nat) : Heap :=
  let ids := reachList h [src]
  let m := ids.zipIdx.map (fun p => (p.1, h.next + p.2))
  let objs := ids.map (fun i => renameObj m ((h.cells i).getD (.cell "")))
  h.allocMany objs

/-- `dict(src)` / `list(src)` / `src.copy()`: one new object with the same content. -/
def Heap.copyShallow (h : Heap) (src : Nat) : Heap :=
  h.alloc ((h.cells src).getD (.cell ""))

/-! ### run -/

def step (base : Nat) (h : Heap) : Effect → Heap
  | .alloc o => h.alloc (o.resolve base)
  | .copyDeep s => h.copyDeep (s.resolve base)
  | .copyShallow s => h.copyShallow (s.resolve base)
  | .read _ => h
  | .write _ t o => h.modify (t.resolve base) (fun _ => o.resolve base)
  | .setItem _ t k v => h.modify (t.resolve base) (fun o => objSetItem o k (v.resolve base))
  | .pop _ t k => h.modify (t.resolve base) (fun o => objPop o k)
  | .update _ t items =>
      h.modify (t.resolve base) (fun o => objUpdate o (items.map fun kv => (kv.1, kv.2.resolve base)))
  | .append _ t v => h.modify (t.resolve base) (fun o => objAppend o (v.resolve base))

def runFrom (base : Nat) : Heap → Program → Heap
  | h, [] => h
  | h, e :: p => runFrom base (step base h e) p

/-- run a program: `.new k` denotes the k-th id allocated since the start. -/
def run (h : Heap) (p : Program) : Heap := runFrom h.next h p

/-- the input-reachable ids whose content differs after the run (executable; for the driver). -/
def changedIds (h : Heap) (roots : List Nat) (p : Program) : List Nat :=
  let h' := run h p
  (reachList h roots).filter (fun i => h'.cells i ≠ h.cells i)

/-- bounded unfolding of the object graph at `i` into a tree (ids erased): the canonical dump
compared with the real object's dump by the correspondence run. -/
inductive Tree
  | node (kind : String) (children : List (String × Tree))
  | leaf (s : String)
  | cut
  deriving Repr, Inhabited

def unfoldVal (unf : Nat → Tree) : Val → Tree
  | .imm s => .leaf s
  | .ref i => unf i

def unfold (h : Heap) : Nat → Nat → Tree
  | 0, _ => .cut
  | n + 1, i =>
    match h.cells i with
    | none => .leaf "<unallocated>"
    | some (.cell v) => .leaf v
    | some (.dict items) =>
        .node "dict" (items.map fun kv => (kv.1, unfoldVal (unfold h n) kv.2))
    | some (.list items) => .node "list" (items.map fun v => ("", unfoldVal (unfold h n) v))
    | some (.opaque t r) => .node t (r.map fun j => ("", unfold h n j))

/-! ### the tables generated from the source -/

inductive SiteOp
  | pop | update | append | extend | insert | remove | clear | setdefault | sort | reverse | popitem
  | delItem | delAttr | storeItem | storeAttr | augName | augStore | augElem | otherCall
  deriving DecidableEq, Repr, Inhabited

structure Site where
  file : String
  line : Nat
  func : String
  op : SiteOp
  recv : String
  cls : RecvClass
  note : String
  deriving DecidableEq, Repr, Inhabited

/-- structure of an iterator-valued expression found at module / class level. -/
inductive IterExpr
  | cycle (items : List String)
  | tuple (items : List String)
  | chain (parts : List IterExpr)
  | count
  | repeat (x : String)
  | other (src : String)
  deriving Repr, Inhabited

structure Loc where
  file : String
  line : Nat
  func : String
  deriving DecidableEq, Repr, Inhabited

inductive ModKind
  | iterator (e : IterExpr)
  | container
  deriving Repr, Inhabited

structure ModEntry where
  file : String
  line : Nat
  name : String
  kind : ModKind
  /-- run-time reads (for an iterator: places that may consume it) -/
  readers : List Loc
  /-- writes; the flag says "every call site found runs at import time" -/
  writers : List (Loc × Bool)
  deriving Repr, Inhabited

/-! ### stream semantics of the iterator expressions -/

mutual
/-- number of elements (`none`: infinite or unknown). -/
def IterExpr.len : IterExpr → Option Nat
  | .cycle items => if items.isEmpty then some 0 else none
  | .tuple items => some items.length
  | .chain parts => IterExpr.lenList parts
  | .count => none
  | .repeat _ => none
  | .other _ => none
def IterExpr.lenList : List IterExpr → Option Nat
  | [] => some 0
  | p :: ps =>
    match p.len, IterExpr.lenList ps with
    | some a, some b => some (a + b)
    | _, _ => none
end

mutual
/-- the `n`-th element the iterator yields (`none`: exhausted / not modelled). -/
def IterExpr.stream : IterExpr → Nat → Option String
  | .cycle items, n => if items.length = 0 then none else items[n % items.length]?
  | .tuple items, n => items[n]?
  | .chain parts, n => IterExpr.streamList parts n
  | .count, n => some (toString n)
  | .repeat x, _ => some x
  | .other _, _ => none
def IterExpr.streamList : List IterExpr → Nat → Option String
  | [], _ => none
  | p :: ps, n =>
    match p.len with
    | some k => if n < k then p.stream n else IterExpr.streamList ps (n - k)
    | none => p.stream n
end

/-- what a call that takes `m` elements sees when the iterator has already yielded `pos`. -/
def IterExpr.take (e : IterExpr) (pos m : Nat) : List (Option String) :=
  (List.range m).map fun j => e.stream (pos + j)

/-- decidable sufficient condition for "consuming it does not change what comes next". -/
def IterExpr.statelessB : IterExpr → Bool
  | .cycle items =>
    match items with
    | [] => true
    | x :: r => r.all (· == x)
  | .repeat _ => true
  | .tuple items => items.isEmpty
  | _ => false

end RegionsVerif.Impl.Effects
