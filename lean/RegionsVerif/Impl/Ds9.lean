/-
Impl model of the DS9 writer and reader of `regions/io/ds9/{write,read,meta,core}.py`,
structured level.

  serialize : Cfg → (hash order) → (astropy rounder) → precision → List Region → Except _ (Option WOut)
  toRaw     : (astropy rounder) → WOut → ROut        what the reader's line/regex layer sees
  parse     : Cfg → ROut → Except _ (List Region)

The character level (`render : WOut → text`, `lex : text → ROut`) is in `Impl/Ds9Text.lean`.

Conventions
* Python dicts are insertion-ordered association lists (`AL`), with Python's `pop`, `d[k] = v`
  (in place when the key exists, appended otherwise) and `update`.
* Python values that occur in `region.meta` / `region.visual` are `PyVal`s.  A float carries the
  text of its Python `repr` (the shortest-repr algorithm is Python's business).
* Numbers: pixel positions/sizes are printed by the regions code itself (`f'{x:.{p}f}'` =
  `Dec.fmt`/`Dec.roundTo`); every sky number and every angle is printed by astropy
  (`SkyCoord.to_string`, `Quantity.to_string`, `Angle.to_string`), which is a parameter
  `sky : ℚ → ℚ` of the model (law used by the theorems: `|sky x − x| ≤ ½·10⁻ᵖ`; the driver
  instantiates it with `Dec.roundTo p`).
* `Cfg` records which of the writer defects found by C09 (known_findings/C09.json: F3, F4, F5) are
  repaired in the code being modelled; `codeCfg` is the tree as it is now (all three repaired:
  d58a058, 80f2f4f, 193fdcf).  A reverted fix shows up as a correspondence disagreement.
-/
import RegionsVerif.Impl.Decimal

namespace RegionsVerif.Impl.Ds9
open RegionsVerif.Impl.Dec

/-! ### configuration -/

structure Cfg where
  /-- F3 repaired: compound regions / frames without a DS9 name are skipped (else: exception). -/
  skip : Bool
  /-- F4 repaired: `include` is written as `int(include)` (else: `include=False` / `include=True`). -/
  includeInt : Bool
  /-- F5 repaired: the `global` line keeps the first region's key order (else: `set` order). -/
  orderedGlobal : Bool
  /-- F35 repaired: a sky position is brought to the default attributes (equinox, obstime) of the frame
  whose DS9 word it is written under (else: its own numbers are written unchanged). -/
  stdAttrs : Bool
deriving DecidableEq, Repr

/-- F3 = d58a058, F4 = 80f2f4f, F5 = 193fdcf are applied in /repo; F35 (proposed_fixes/F35.diff) is not:
when it is, set the fourth field to `true` (the ONE line to change) and mark F35 fixed in
known_findings/C09.json. -/
def Cfg.current : Cfg := ⟨true, true, true, true⟩
/-- the writer before those commits (kept for the regression witnesses of `Props/C09`). -/
def Cfg.unrepaired : Cfg := ⟨false, false, false, false⟩
def Cfg.repaired : Cfg := ⟨true, true, true, true⟩

/-- the code in /repo as of this check. -/
def codeCfg : Cfg := Cfg.current

/-! ### keys, values, dictionaries -/

inductive Key
  -- DS9 meta keys
  | background | delete | edit | fixed | highlite | include | move | rotate | select | source
  | tag | text
  -- DS9 visual keys
  | color | dash | dashlist | fill | font | point | textangle | textrotate | width
  -- DS9 keys the reader does not support / treats specially
  | line | vector | ruler | compass | composite
  -- matplotlib-side keys of RegionVisual
  | facecolor | edgecolor | linewidth | markeredgewidth | marker | markersize
  | fontname | fontsize | fontweight | fontstyle | linestyle | rotation | default_style
  | other (s : String)
deriving DecidableEq, Repr

def Key.named : List (String × Key) := [
  ("background", .background), ("delete", .delete), ("edit", .edit), ("fixed", .fixed),
  ("highlite", .highlite), ("include", .include), ("move", .move), ("rotate", .rotate),
  ("select", .select), ("source", .source), ("tag", .tag), ("text", .text),
  ("color", .color), ("dash", .dash), ("dashlist", .dashlist), ("fill", .fill), ("font", .font),
  ("point", .point), ("textangle", .textangle), ("textrotate", .textrotate), ("width", .width),
  ("line", .line), ("vector", .vector), ("ruler", .ruler), ("compass", .compass),
  ("composite", .composite),
  ("facecolor", .facecolor), ("edgecolor", .edgecolor), ("linewidth", .linewidth),
  ("markeredgewidth", .markeredgewidth), ("marker", .marker), ("markersize", .markersize),
  ("fontname", .fontname), ("fontsize", .fontsize), ("fontweight", .fontweight),
  ("fontstyle", .fontstyle), ("linestyle", .linestyle), ("rotation", .rotation),
  ("default_style", .default_style)]

def Key.ofString (s : String) : Key := (Key.named.lookup s).getD (.other s)
def Key.toString (k : Key) : String :=
  match k with
  | .other s => s
  | k => ((Key.named.find? (fun p => p.2 = k)).map (·.1)).getD ""

/-- Python values occurring in region metadata. -/
inductive PyVal
  | int (n : Int)
  | bool (b : Bool)
  | flt (q : ℚ) (repr : Str)       -- finite float and its Python `repr`
  | special (repr : Str)             -- `nan`, `inf`, `-inf`
  | str (s : Str)
  | strs (l : List Str)              -- list of strings (`tag`)
  | dashes (off : Int) (l : List Int)  -- matplotlib `(offset, (on, off, …))`
  | marker (sym : Str)               -- a matplotlib `Path` marker known to DS9 by that name
deriving DecidableEq, Repr

/-! insertion-ordered dictionaries -/
namespace AL
variable {β : Type}

/-- `d.get(k)`.  On a list with a repeated key (never the case for a Python dict) the *last*
entry counts; together with `set` replacing every entry this makes the dictionary algebra
(`get_set`, `get_pop`, `get_update`) hold without a no-duplicates side condition. -/
def get : List (Key × β) → Key → Option β
  | [], _ => none
  | (k', v) :: r, k =>
    match get r k with
    | some x => some x
    | none => if k' = k then some v else none

def has (d : List (Key × β)) (k : Key) : Bool := (get d k).isSome

def pop (d : List (Key × β)) (k : Key) : List (Key × β) := d.filter (fun kv => decide (kv.1 ≠ k))

/-- `d[k] = v`: in place when the key exists, appended otherwise. -/
def set (d : List (Key × β)) (k : Key) (v : β) : List (Key × β) :=
  if (get d k).isSome then d.map (fun kv => if kv.1 = k then (k, v) else kv) else d ++ [(k, v)]

/-- `d.update(e)` -/
def update (d e : List (Key × β)) : List (Key × β) := e.foldl (fun acc kv => set acc kv.1 kv.2) d

def keys (d : List (Key × β)) : List Key := d.map (·.1)

end AL

abbrev Dict := List (Key × PyVal)

/-! ### Python value semantics -/

def PyVal.num? : PyVal → Option ℚ
  | .int n => some n
  | .bool b => some (if b then 1 else 0)
  | .flt q _ => some q
  | _ => none

/-- Python `==` on the values above (`True == 1 == 1.0`; `nan` equals nothing). -/
def pyEq (a b : PyVal) : Bool :=
  match a.num?, b.num? with
  | some x, some y => decide (x = y)
  | none, none =>
    (match a with
     | .special _ => false
     | _ => decide (a = b))
  | _, _ => false

/-- Python truth value. -/
def PyVal.truthy : PyVal → Bool
  | .int n => decide (n ≠ 0)
  | .bool b => b
  | .flt q _ => decide (q ≠ 0)
  | .special _ => true
  | .str s => decide (s ≠ [])
  | .strs l => decide (l ≠ [])
  | .dashes _ _ => true
  | .marker _ => true

def joinWith (sep : Str) : List Str → Str
  | [] => []
  | [a] => a
  | a :: b :: r => a ++ sep ++ joinWith sep (b :: r)

/-- Python `str(v)` / `f'{v}'`. -/
def pyStr : PyVal → Str
  | .int n => intStr n
  | .bool b => if b then "True".toList else "False".toList
  | .flt _ r => r
  | .special r => r
  | .str s => s
  | .strs l => '[' :: joinWith ", ".toList (l.map fun s => '\'' :: s ++ ['\'']) ++ [']']
  | .dashes off l =>
    '(' :: intStr off ++ ", (".toList ++ joinWith ", ".toList (l.map intStr) ++ "))".toList
  | .marker s => s

/-- Python `int(v)`; errors are exception class names. -/
def pyInt : PyVal → Except String Int
  | .int n => .ok n
  | .bool b => .ok (if b then 1 else 0)
  | .flt q _ => .ok (if 0 ≤ q then ⌊q⌋ else -⌊-q⌋)
  | .special r => .error (if r = "nan".toList then "ValueError" else "OverflowError")
  | .str s => match pyIntOfStr s with
    | some n => .ok n
    | none => .error "ValueError"
  | _ => .error "TypeError"

/-- `s.replace(pat, rep)` (non-empty `pat`), by fuel = length. -/
def replaceAux (pat rep : Str) : Nat → Str → Str
  | 0, s => s
  | _ + 1, [] => []
  | fuel + 1, c :: cs =>
    if pat.isPrefixOf (c :: cs) then rep ++ replaceAux pat rep fuel ((c :: cs).drop pat.length)
    else c :: replaceAux pat rep fuel cs
def replaceStr (pat rep s : Str) : Str := replaceAux pat rep (s.length + 1) s

/-! ### regions -/

inductive Frame
  | image | icrs | fk5 | fk4 | galactic | ecliptic
  | other (name : String)       -- a celestial frame without a DS9 name
deriving DecidableEq, Repr

/-- DS9 coordinate-system words the writer emits / the reader supports. -/
inductive FName
  | image | icrs | fk5 | j2000 | fk4 | b1950 | galactic | ecliptic
deriving DecidableEq, Repr

/-- writer: inverse of `ds9_frame_map` (later entries win: fk5 ↦ j2000, fk4 ↦ b1950). -/
def Frame.ds9Name : Frame → Option FName
  | .image => some .image
  | .icrs => some .icrs
  | .fk5 => some .j2000
  | .fk4 => some .b1950
  | .galactic => some .galactic
  | .ecliptic => some .ecliptic
  | .other _ => none

/-- reader: `ds9_frame_map`. -/
def FName.frame : FName → Frame
  | .image => .image
  | .icrs => .icrs
  | .fk5 => .fk5
  | .j2000 => .fk5
  | .fk4 => .fk4
  | .b1950 => .fk4
  | .galactic => .galactic
  | .ecliptic => .ecliptic

inductive Shape
  | circle | ellipse | rectangle | polygon | regularPolygon
  | circleAnnulus | ellipseAnnulus | rectangleAnnulus | line | point | text
  | compound
deriving DecidableEq, Repr

/-- DS9 shape words. -/
inductive DShape
  | circle | ellipse | box | polygon | annulus | line | point | text
deriving DecidableEq, Repr

/-- a region object.  `coords`: centre | vertices | start,end (0-based pixels, or degrees);
`nums`: the remaining numeric parameters in `_params` order, sizes then angle (pixels or
degrees; angles always degrees).  A regular polygon is given by its computed `vertices`
(`to_polygon()` is outside the DS9 code). -/
structure Region where
  shape : Shape
  frame : Frame
  coords : List (ℚ × ℚ)
  nums : List ℚ
  text : Option PyVal
  mta : Dict
  vis : Dict
deriving DecidableEq, Repr

def Shape.isAnnulus : Shape → Bool
  | .circleAnnulus | .ellipseAnnulus | .rectangleAnnulus => true
  | _ => false

/-! ### writer: metadata (`meta.py:_translate_metadata_to_ds9`) -/

/-- inverse of `ds9_valid_symbols`. -/
def symbolOfMarker : PyVal → Option Str
  | .str s =>
    if s = "o".toList then some "circle".toList
    else if s = "s".toList then some "box".toList
    else if s = "D".toList then some "diamond".toList
    else if s = "x".toList then some "x".toList
    else if s = "+".toList then some "cross".toList
    else none
  | .marker s =>
    if s = "arrow".toList ∨ s = "boxcircle".toList then some s else none
  | _ => none

def ds9MetaKeys : List Key :=
  [.background, .delete, .edit, .fixed, .highlite, .include, .move, .rotate, .select, .source,
   .tag, .text]
def ds9VisualKeys : List Key :=
  [.color, .dash, .dashlist, .fill, .font, .point, .textangle, .textrotate, .width]

/-- `meta = {**region.meta, **region.visual}`; for text regions `{'text': region.text, **meta}`. -/
def tMerge (text : Option PyVal) (mta vis : Dict) : Dict :=
  match text with
  | some t => AL.update [(Key.text, t)] (AL.update mta vis)
  | none => AL.update mta vis

/-- annulus: `meta.pop('fill')`; `fill = meta.pop('fill', None)`; `meta['fill'] = int(fill)`. -/
def tFill (shape : Shape) (m0 : Dict) : Except String Dict :=
  let m := if shape.isAnnulus then AL.pop m0 .fill else m0
  match AL.get m .fill with
  | some f =>
    (match pyInt f with
     | .ok n => .ok (AL.set (AL.pop m .fill) .fill (.int n))
     | .error e => .error e)
  | none => .ok m

/-- (F4 repair) `if 'include' in meta: meta['include'] = int(meta['include'])`. -/
def tInclude (cfg : Cfg) (m : Dict) : Except String Dict :=
  if cfg.includeInt then
    (match AL.get m .include with
     | some v =>
       (match pyInt v with
        | .ok n => .ok (AL.set m .include (.int n))
        | .error e => .error e)
     | none => .ok m)
  else .ok m

/-- `if 'text' in meta: meta['text'] = f'{{{meta["text"]}}}'` -/
def tText (m : Dict) : Dict :=
  match AL.get m .text with
  | some t => AL.set m .text (.str ('{' :: pyStr t ++ ['}']))
  | none => m

/-- edgecolor / facecolor → color (edgecolor wins; a warning when they differ). -/
def tColor (m0 : Dict) : Dict :=
  let edgecolor := AL.get m0 .edgecolor
  let m1 := AL.pop m0 .edgecolor
  let facecolor := AL.get m1 .facecolor
  let m := AL.pop m1 .facecolor
  match edgecolor with
  | some e => AL.set m .color e
  | none =>
    match facecolor with
    | some f => AL.set m .color f
    | none => m

/-- linewidth → width, then markeredgewidth → width. -/
def tWidth (m0 : Dict) : Dict :=
  let linewidth := AL.get m0 .linewidth
  let m1 := AL.pop m0 .linewidth
  let m2 := match linewidth with
    | some w => AL.set m1 .width w
    | none => m1
  let mew := AL.get m2 .markeredgewidth
  let m3 := AL.pop m2 .markeredgewidth
  match mew with
  | some w => AL.set m3 .width w
  | none => m3

/-- marker (+ markersize) → point; an unknown marker is dropped with a warning. -/
def tMarker (m0 : Dict) : Dict :=
  let marker := AL.get m0 .marker
  let m := AL.pop m0 .marker
  match marker with
  | some mk =>
    (match symbolOfMarker mk with
     | some sym =>
       let msize : Str := match AL.get m .markersize with
         | some v => ' ' :: pyStr v
         | none => []
       AL.set (AL.pop m .markersize) .point (.str (sym ++ msize))
     | none => m)
  | none => m

/-- fontname (+ fontsize, fontweight, fontstyle) → font. -/
def tFont (m0 : Dict) : Except String Dict :=
  let fontname := AL.get m0 .fontname
  let m1 := AL.pop m0 .fontname
  match fontname with
  | some fnm =>
    let fontsize := (AL.get m1 .fontsize).getD (.int 10)
    let m2 := AL.pop m1 .fontsize
    let fontweight := (AL.get m2 .fontweight).getD (.str "normal".toList)
    let m3 := AL.pop m2 .fontweight
    let fontstyle0 := (AL.get m3 .fontstyle).getD (.str "roman".toList)
    let m4 := AL.pop m3 .fontstyle
    (match fontstyle0 with
     | .str st =>
       .ok (AL.set m4 .font (.str ('"' :: pyStr fnm ++ ' ' :: pyStr fontsize ++ ' ' :: pyStr fontweight
              ++ ' ' :: replaceStr "normal".toList "roman".toList st ++ ['"'])))
     | _ => .error "AttributeError")
  | none => .ok m1

/-- linestyle → dash (+ dashlist for a dash tuple). -/
def tLinestyle (m0 : Dict) : Except String Dict :=
  let linestyle := AL.get m0 .linestyle
  let m := AL.pop m0 .linestyle
  match linestyle with
  | some (.dashes _ l) =>
    (match l with
     | a :: b :: _ => .ok (AL.set (AL.set m .dash (.int 1)) .dashlist (.str (intStr a ++ ' ' :: intStr b)))
     | _ => .error "IndexError")
  | some _ => .ok (AL.set m .dash (.int 1))
  | none => .ok m

/-- rotation → textangle. -/
def tRotation (m0 : Dict) : Dict :=
  match AL.get m0 .rotation with
  | some r => AL.set (AL.pop m0 .rotation) .textangle r
  | none => m0

/-- `_remove_invalid_keys` -/
def tFilter (m : Dict) : Dict := m.filter fun kv => decide (kv.1 ∈ ds9MetaKeys ++ ds9VisualKeys)

def translateToDs9 (cfg : Cfg) (shape : Shape) (text : Option PyVal) (mta vis : Dict) :
    Except String Dict :=
  match tFill shape (tMerge text mta vis) with
  | .error e => .error e
  | .ok m1 =>
    match tInclude cfg m1 with
    | .error e => .error e
    | .ok m2 =>
      match tFont (tMarker (tWidth (tColor (tText m2)))) with
      | .error e => .error e
      | .ok m3 =>
        match tLinestyle m3 with
        | .error e => .error e
        | .ok m4 => .ok (tFilter (tRotation m4))

/-! ### writer: shape parameters (`write.py:_get_region_params`, `core.py:ds9_shape_templates`) -/

/-- a printed number: `astro = true` when astropy formats it (sky numbers, all angles). -/
structure WParam where
  astro : Bool
  val : ℚ
deriving DecidableEq, Repr

structure WLine where
  frame : FName
  shape : DShape
  params : List WParam
  mta : Dict
deriving DecidableEq, Repr

def shapeParams (r : Region) : Except String (DShape × List WParam) :=
  let sky := decide (r.frame ≠ .image)
  -- pixels: ds9's origin is (1, 1) — positions only
  let co := fun (c : ℚ × ℚ) =>
    if sky then [WParam.mk true c.1, WParam.mk true c.2]
    else [WParam.mk false (c.1 + 1), WParam.mk false (c.2 + 1)]
  let sz := fun (x : ℚ) => WParam.mk sky x
  let ang := fun (x : ℚ) => WParam.mk true x
  match r.shape, r.coords, r.nums with
  | .circle, [c], [rad] => .ok (.circle, co c ++ [sz rad])
  | .ellipse, [c], [w, h, a] => .ok (.ellipse, co c ++ [sz (w / 2), sz (h / 2), ang a])
  | .rectangle, [c], [w, h, a] => .ok (.box, co c ++ [sz w, sz h, ang a])
  | .circleAnnulus, [c], [ri, ro] => .ok (.annulus, co c ++ [sz ri, sz ro])
  | .ellipseAnnulus, [c], [iw, ow, ih, oh, a] =>
    .ok (.ellipse, co c ++ [sz (iw / 2), sz (ih / 2), sz (ow / 2), sz (oh / 2), ang a])
  | .rectangleAnnulus, [c], [iw, ow, ih, oh, a] =>
    .ok (.box, co c ++ [sz iw, sz ih, sz ow, sz oh, ang a])
  | .polygon, vs, [] => .ok (.polygon, vs.flatMap co)
  | .regularPolygon, vs, [] => .ok (.polygon, vs.flatMap co)
  | .line, [s, e], [] => .ok (.line, co s ++ co e)
  | .point, [c], [] => .ok (.point, co c)
  | .text, [c], [] => .ok (.text, co c)
  | _, _, _ => .error "Malformed"

/-- `_serialize_region_ds9`; `ok none` = skipped with a warning. -/
def serializeRegion (cfg : Cfg) (r : Region) : Except String (Option WLine) :=
  if r.shape = .compound then
    -- warning 'Cannot serialize a compound region, skipping'
    if cfg.skip then .ok none
    else if r.frame = .image then .error "KeyError"   -- ds9_shape_templates['compound']
    else .error "ValueError"                          -- _get_frame_name: no center/vertices/start
  else
    match r.frame.ds9Name with
    | none =>
      -- warning 'Cannot serialize region with frame=…, skipping'
      if cfg.skip then .ok none else .error "KeyError"
    | some fn =>
      match shapeParams r with
      | .error e => .error e
      | .ok (sh, ps) =>
        match translateToDs9 cfg r.shape r.text r.mta r.vis with
        | .error e => .error e
        | .ok m => .ok (some ⟨fn, sh, ps, m⟩)

def collect (f : Region → Except String (Option WLine)) : List Region → Except String (List WLine)
  | [] => .ok []
  | r :: rs =>
    match f r with
    | .error e => .error e
    | .ok none => collect f rs
    | .ok (some d) =>
      match collect f rs with
      | .error e => .error e
      | .ok ds => .ok (d :: ds)

/-! ### writer: hoisting (`write.py:_serialize_ds9`) -/

def itemEq (a b : Key × PyVal) : Bool := decide (a.1 = b.1) && pyEq a.2 b.2

/-- CPython `set.intersection` of two sets of items: iterates the smaller set (the second one
on a tie) and keeps its elements that are in the other. -/
def interCur (R S : Dict) : Dict :=
  if S.length > R.length then R.filter (fun kv => S.any (itemEq kv))
  else S.filter (fun kv => R.any (itemEq kv))

/-- put the keys listed in `ord` first, in that order (iteration order of the hash set). -/
def reorder (ord : List Key) (g : Dict) : Dict :=
  ord.filterMap (fun k => (AL.get g k).map (fun v => (k, v))) ++
    g.filter (fun kv => decide (kv.1 ∉ ord))

/-- what may go to the `global` line: everything but `tag`. -/
def hoistable (m : Dict) : Dict := AL.pop m .tag

def hoist (cfg : Cfg) (ord : List Key) : List Dict → Dict
  | [] => []
  | m :: rest =>
    if cfg.orderedGlobal then
      m.filter fun kv => rest.all fun m' =>
        match AL.get m' kv.1 with
        | some v => pyEq v kv.2
        | none => false
    else reorder ord (rest.foldl interCur m)

structure WOut where
  prec : Nat
  global : Dict
  gframe : Option FName
  lines : List WLine
deriving DecidableEq, Repr

def commonFrame : List WLine → Option FName
  | [] => none
  | l :: ls => if ls.all (fun l' => decide (l'.frame = l.frame)) then some l.frame else none

/-- a region line without the items that went to the `global` line. -/
def dropGlobal (g : Dict) (d : WLine) : WLine := { d with mta := (AL.keys g).foldl AL.pop d.mta }

/-- `_serialize_ds9`.  `ok none` is the empty string. -/
def serialize (cfg : Cfg) (ord : List Key) (p : Nat) (rs : List Region) : Except String (Option WOut) :=
  if rs = [] then .ok none
  else match collect (serializeRegion cfg) rs with
    | .error e => .error e
    | .ok [] => .ok none
    | .ok ds =>
      let g := hoist cfg ord (ds.map fun d => hoistable d.mta)
      .ok (some ⟨p, g, commonFrame ds, ds.map (dropGlobal g)⟩)

/-- number of regions skipped with a warning. -/
def skipped (cfg : Cfg) (rs : List Region) : Nat :=
  (rs.filter fun r => match serializeRegion cfg r with
    | .ok none => true
    | _ => false).length

/-! ### what the reader's line layer sees -/

inductive RVal
  | str (s : Str)
  | tags (l : List Str)
deriving DecidableEq, Repr

abbrev RDict := List (Key × RVal)

inductive RLine
  | global (mta : RDict)
  | frame (f : FName)
  | noframe                      -- a frame DS9 knows and regions does not: following shapes are skipped
  | shape (sign : Option Bool) (shape : DShape) (params : List ℚ) (mta : RDict)   -- sign: some true = '-'
deriving DecidableEq, Repr

abbrev ROut := List RLine

def lstripC (c : Char) (s : Str) : Str := s.dropWhile (· == c)
def rstripC (c : Char) (s : Str) : Str := (s.reverse.dropWhile (· == c)).reverse
def stripC (c : Char) (s : Str) : Str := rstripC c (lstripC c s)

/-- `val = val.strip()`, then the one enclosing pair of text delimiters `{}`, `''`, `""` is removed
(`read.py:_parse_metadata`). -/
def stripVal (s : Str) : Str :=
  let v := strip s
  match v with
  | a :: rest =>
    (match rest.reverse with
     | b :: inner =>
       if (a = '{' ∧ b = '}') ∨ (a = '\'' ∧ b = '\'') ∨ (a = '"' ∧ b = '"') then inner.reverse else v
     | [] => v)
  | [] => v

/-- the `tag` entry as the writer spells it: one `tag={…}` per element (a `str` is iterated
character by character, as Python does). -/
def tagElems : PyVal → List Str
  | .strs l => l
  | .str s => s.map fun c => [c]
  | _ => []

/-- `_make_meta_str` then `_parse_metadata`, item by item. -/
def rawDict (m : Dict) : RDict :=
  m.filterMap fun kv =>
    if kv.1 = .tag then
      (match tagElems kv.2 with
       | [] => none
       | l => some (Key.tag, RVal.tags (l.map fun s => stripVal ('{' :: s ++ ['}']))))
    else some (kv.1, RVal.str (stripVal (pyStr kv.2)))

def toRaw (sky : ℚ → ℚ) (o : WOut) : ROut :=
  (if o.global = [] then [] else [RLine.global (rawDict o.global)]) ++
  (match o.gframe with
   | some f => [RLine.frame f]
   | none => []) ++
  o.lines.flatMap fun l =>
    (match o.gframe with
     | some _ => []
     | none => [RLine.frame l.frame]) ++
    [RLine.shape none l.shape
      (l.params.map fun w => if w.astro then sky w.val else roundTo o.prec w.val)
      (rawDict l.mta)]

/-! ### reader: raw metadata (`read.py:_define_raw_metadata`) -/

def validPoints : List Str :=
  ["circle".toList, "box".toList, "diamond".toList, "cross".toList, "x".toList, "arrow".toList,
   "boxcircle".toList]
def validLines : List Str := ["0 0".toList, "0 1".toList, "1 0".toList, "1 1".toList]
def binaryKeys : List Key :=
  [.dash, .select, .highlite, .fixed, .edit, .move, .rotate, .delete, .include, .source,
   .background, .fill, .vector, .textrotate]

/-- `float(value)`, then `int(value)` when integral; a list (tag) passes through. -/
def convertVal (k : Key) : RVal → PyVal
  | .tags l => .strs l
  | .str s =>
    if k = .text then .str s        -- text is kept verbatim (e.g. text={007})
    else match pyFloat s with
      | some (.fin q) => if q.den = 1 then .int q.num else .flt q (pyReprQ q)
      | some .inf => .special "inf".toList
      | some .ninf => .special "-inf".toList
      | some .nan => .special "nan".toList
      | none => .str s

def isZeroOne (v : PyVal) : Bool :=
  match v.num? with
  | some x => decide (x = 0 ∨ x = 1)
  | none => false

/-- is the item invalid (dropped with a warning)?  errors = exceptions raised by the checks. -/
def invalidItem (k : Key) (v : PyVal) : Except String Bool := do
  let inv1 ← if k = .point then
      (match v with
       | .str s =>
         (match splitWs s with
          | [] => throw "IndexError"
          | [a] => pure (decide (a ∉ validPoints))
          | [a, b] =>
            (match pyFloat b with
             | some (.fin q) => pure (decide (a ∉ validPoints) || decide (q.den ≠ 1))
             | some _ => pure true
             | none => throw "ValueError")
          | a :: _ => pure (decide (a ∉ validPoints)))
       | _ => throw "AttributeError")
    else pure false
  let inv2 := decide (k = .line) && !(match v with
    | .str s => decide (s ∈ validLines)
    | _ => false)
  let inv3 := decide (k ∈ binaryKeys) && !isZeroOne v
  pure (inv1 || inv2 || inv3)

def defineRawAux : RDict → Except String Dict
  | [] => .ok []
  | (k, rv) :: rest =>
    let v := convertVal k rv
    match invalidItem k v with
    | .error e => .error e
    | .ok inv =>
      match defineRawAux rest with
      | .error e => .error e
      | .ok d => .ok (if inv then d else (k, v) :: d)

/-- the `include_meta` of a region line: `-` ⇒ 0; `+`, or no sign and no `include` in the global
metadata ⇒ 1; no sign and a global `include` ⇒ nothing (the global value applies). -/
def includeMeta (g : RDict) (sign : Option Bool) : RDict :=
  match sign with
  | some true => [(Key.include, RVal.str ['0'])]
  | some false => [(Key.include, RVal.str ['1'])]
  | none => if (AL.get g .include).isSome then [] else [(Key.include, RVal.str ['1'])]

/-- `_define_raw_metadata(global_meta, composite_meta='', include_meta, region_meta)`. -/
def defineRaw (g : RDict) (sign : Option Bool) (loc : RDict) : Except String Dict :=
  defineRawAux (AL.update (AL.update g (includeMeta g sign)) loc)

/-! ### reader: split and translate (`meta.py:_split_raw_metadata`, `_translate_ds9_to_visual`) -/

def unsupportedMeta : List Key := [.line, .vector, .ruler, .compass]
def readerVisualKeys : List Key :=
  [.color, .dash, .dashlist, .fill, .font, .point, .textangle, .textrotate, .width]

def splitRaw (raw : Dict) : Dict × Dict :=
  let kept := raw.filter fun kv => decide (kv.1 ∉ unsupportedMeta)
  (kept.filter fun kv => decide (kv.1 ∉ readerVisualKeys),
   AL.set (kept.filter fun kv => decide (kv.1 ∈ readerVisualKeys)) .default_style (.str "ds9".toList))

/-- `ds9_valid_symbols` -/
def markerOfSymbol (s : Str) : Option PyVal :=
  if s = "circle".toList then some (.str "o".toList)
  else if s = "box".toList then some (.str "s".toList)
  else if s = "diamond".toList then some (.str "D".toList)
  else if s = "x".toList then some (.str "x".toList)
  else if s = "cross".toList then some (.str "+".toList)
  else if s = "arrow".toList then some (.marker "arrow".toList)
  else if s = "boxcircle".toList then some (.marker "boxcircle".toList)
  else none

/-- the reader's final shape names. -/
inductive RShape
  | circle | ellipse | box | polygon | annulus | ellipse_annulus | rectangle_annulus
  | line | point | text
deriving DecidableEq, Repr

def mapMInts : List Str → Except String (List Int)
  | [] => .ok []
  | s :: r =>
    match pyIntOfStr s with
    | none => .error "ValueError"
    | some n =>
      match mapMInts r with
      | .error e => .error e
      | .ok l => .ok (n :: l)

/-- `fill = meta.pop('fill', 0)`; `fill == 1` and a fillable shape ⇒ `meta['fill'] = True`. -/
def vFill (shape : RShape) (m0 : Dict) : Dict :=
  let fill := (AL.get m0 .fill).getD (.int 0)
  let m := AL.pop m0 .fill
  if pyEq fill (.int 1) ∧ shape ∈ [RShape.circle, .ellipse, .box, .polygon]
  then AL.set m .fill (.bool true) else m

/-- dash / dashlist → linestyle (ignored for points). -/
def vDash (shape : RShape) (m0 : Dict) : Except String Dict :=
  let dash := (AL.get m0 .dash).getD (.int 0)
  let m1 := AL.pop m0 .dash
  let dashlist := AL.get m1 .dashlist
  let m := AL.pop m1 .dashlist
  match pyInt dash with
  | .error e => .error e
  | .ok dashN =>
    if dashN = 1 then
      (match dashlist with
       | some (.str ds) =>
         (match mapMInts (splitWs ds) with
          | .error e => .error e
          | .ok l =>
            .ok (if shape = .point then AL.pop (AL.set m .linestyle (.dashes 0 l)) .linestyle
                 else AL.set m .linestyle (.dashes 0 l)))
       | some _ => .error "AttributeError"
       | none =>
         .ok (if shape = .point then AL.pop (AL.set m .linestyle (.str "dashed".toList)) .linestyle
              else AL.set m .linestyle (.str "dashed".toList)))
    else .ok m

/-- `point = "symbol [size]"` → marker (+ markersize). -/
def vPoint (m0 : Dict) : Except String Dict :=
  let point := AL.get m0 .point
  let m := AL.pop m0 .point
  match point with
  | some (.str s) =>
    (match splitWs s with
     | [a] =>
       (match markerOfSymbol a with
        | some mk => .ok (AL.set m .marker mk)
        | none => .error "KeyError")
     | [a, b] =>
       (match markerOfSymbol a with
        | some mk => .ok (AL.set (AL.set m .markersize (.str b)) .marker mk)
        | none => .error "KeyError")
     | _ => .error "ValueError")
  | some _ => .error "AttributeError"
  | none => .ok m

/-- font → fontname, fontsize (int), fontweight, fontstyle with the DS9 defaults. -/
def vFont (m0 : Dict) : Except String Dict :=
  let font := AL.get m0 .font
  let m1 := AL.pop m0 .font
  match font with
  | some (.str s) =>
    let m2 := match splitWs s with
      | [a] => AL.set m1 .fontname (.str a)
      | [a, b] => AL.set (AL.set m1 .fontname (.str a)) .fontsize (.str b)
      | [a, b, c] => AL.set (AL.set (AL.set m1 .fontname (.str a)) .fontsize (.str b)) .fontweight (.str c)
      | [a, b, c, d] =>
        AL.set (AL.set (AL.set (AL.set m1 .fontname (.str a)) .fontsize (.str b)) .fontweight (.str c))
          .fontstyle (.str d)
      | _ => m1
    let m3 := if AL.has m2 .fontsize then m2 else AL.set m2 .fontsize (.str "10".toList)
    let m4 := if AL.has m3 .fontweight then m3 else AL.set m3 .fontweight (.str "normal".toList)
    let m5 := if AL.has m4 .fontstyle then m4 else AL.set m4 .fontstyle (.str "normal".toList)
    -- int(meta['fontsize'])
    (match AL.get m5 .fontsize with
     | some v =>
       (match pyInt v with
        | .ok n =>
          let m6 := AL.set m5 .fontsize (.int n)
          (match AL.get m6 .fontstyle with
           | some (.str st) => .ok (AL.set m6 .fontstyle (.str (replaceStr "roman".toList "normal".toList st)))
           | _ => .error "AttributeError")
        | .error e => .error (if e = "ValueError" then "DS9ParserError" else e))
     | none => .error "KeyError")
  | some _ => .error "AttributeError"
  | none => .ok m1

/-- point: width → markeredgewidth; other shapes: drop marker, markersize. -/
def vWidth (shape : RShape) (m : Dict) : Dict :=
  if shape = .point then
    (match AL.get m .width with
     | some w => AL.set (AL.pop m .width) .markeredgewidth w
     | none => m)
  else AL.pop (AL.pop m .marker) .markersize

/-- text: textangle (unless textrotate = 0) → rotation, drop linestyle/linewidth/fill;
other shapes: drop textangle, textrotate. -/
def vText (shape : RShape) (m : Dict) : Dict :=
  if shape = .text then
    let m1 := (match AL.get m .textangle with
      | some ta =>
        let m' := AL.pop (AL.pop m .textangle) .textrotate
        (match AL.get (AL.pop m .textangle) .textrotate with
         | some v => if pyEq v (.int 0) then m' else AL.set m' .rotation ta
         | none => AL.set m' .rotation ta)
      | none => m)
    AL.pop (AL.pop (AL.pop m1 .linestyle) .linewidth) .fill
  else AL.pop (AL.pop m .textangle) .textrotate

/-- color → facecolor, edgecolor (not for point, line, text). -/
def vColor (shape : RShape) (m : Dict) : Dict :=
  if shape ∉ [RShape.point, .line, .text] then
    (match AL.get m .color with
     | some c => AL.set (AL.set (AL.pop m .color) .facecolor c) .edgecolor c
     | none => m)
  else m

def ds9ToVisual (shape : RShape) (vis : Dict) : Except String Dict :=
  match vDash shape (vFill shape vis) with
  | .error e => .error e
  | .ok m1 =>
    match vPoint m1 with
    | .error e => .error e
    | .ok m2 =>
      match vFont m2 with
      | .error e => .error e
      | .ok m3 => .ok (vColor shape (vText shape (vWidth shape m3)))

/-! ### reader: shapes (`read.py:_parse_shape_params`, `_define_region_params`, shape classes) -/

def regionMetaKeys : List Key :=
  [.background, .composite, .delete, .edit, .fixed, .highlite, .include, .line, .move, .rotate,
   .select, .source, .tag, .text, .textrotate,
   .other "comment", .other "component", .other "corr", .other "frame", .other "label",
   .other "name", .other "range", .other "restfreq", .other "type", .other "veltype"]

/-- `RegionVisual.key_mapping` (`point` ↦ `symbol`, `width` ↦ `linewidth`). -/
def visualKey : Key → Key
  | .width => .linewidth
  | .point => .other "symbol"
  | k => k

/-- `SkyCoord` keeps longitudes in `[0, 360)`. -/
def wrapLon (x : ℚ) : ℚ := x - 360 * (⌊x / 360⌋ : ℚ)

def pairs : List ℚ → Option (List (ℚ × ℚ))
  | [] => some []
  | [_] => none
  | x :: y :: r => (pairs r).map fun l => (x, y) :: l

/-- geometry of one region line: final shape, coordinates, remaining numbers.
Multi-annulus lines (`annulus` with more than 4, `ellipse`/`box` with more than 7 numbers) are
outside this model (`OutOfModel`); the writer never produces them. -/
def geometry (pix : Bool) (shape : DShape) (ps : List ℚ) :
    Except String (RShape × Shape × List (ℚ × ℚ) × List ℚ) :=
  let co := fun (x y : ℚ) => if pix then (x - 1, y - 1) else (wrapLon x, y)
  let pos := fun (l : List ℚ) => l.all fun x => decide (0 < x)
  match shape, ps with
  | .circle, [x, y, r] =>
    if pos [r] then .ok (.circle, .circle, [co x y], [r]) else .error "ValueError"
  | .ellipse, [x, y, a, b, t] =>
    if pos [a * 2, b * 2] then .ok (.ellipse, .ellipse, [co x y], [a * 2, b * 2, t])
    else .error "ValueError"
  | .box, [x, y, w, h, t] =>
    if pos [w, h] then .ok (.box, .rectangle, [co x y], [w, h, t]) else .error "ValueError"
  | .annulus, [x, y, ri, ro] =>
    if pos [ri, ro] ∧ ri < ro then .ok (.annulus, .circleAnnulus, [co x y], [ri, ro])
    else .error "ValueError"
  | .ellipse, [x, y, a, b, c, d, t] =>
    if pos [a * 2, c * 2, b * 2, d * 2] ∧ a * 2 < c * 2 ∧ b * 2 < d * 2 then
      .ok (.ellipse_annulus, .ellipseAnnulus, [co x y], [a * 2, c * 2, b * 2, d * 2, t])
    else .error "ValueError"
  | .box, [x, y, a, b, c, d, t] =>
    if pos [a, c, b, d] ∧ a < c ∧ b < d then
      .ok (.rectangle_annulus, .rectangleAnnulus, [co x y], [a, c, b, d, t])
    else .error "ValueError"
  | .polygon, l =>
    (match pairs l with
     | some vs => .ok (.polygon, .polygon, vs.map fun v => co v.1 v.2, [])
     | none => .error "ValueError")
  | .line, [a, b, c, d] => .ok (.line, .line, [co a b, co c d], [])
  | .point, [x, y] => .ok (.point, .point, [co x y], [])
  | .text, [x, y] => .ok (.text, .text, [co x y], [])
  | _, _ => .error "OutOfModel"

/-- `RegionVisual(visual)`: keys go through `key_mapping`. -/
def toRegionVisual (vis : Dict) : Dict :=
  vis.foldl (fun acc kv => AL.set acc (visualKey kv.1) kv.2) []

/-- the `TextString` validator of the text region classes. -/
def textIsStr : Option PyVal → Bool
  | none => true
  | some (.str _) => true
  | some _ => false

/-- the reader's final shape word, known from the shape word and the number of parameters
(`_parse_shape_params`) before any region object is built. -/
def finalShape : DShape → List ℚ → Option RShape
  | .circle, [_, _, _] => some .circle
  | .ellipse, [_, _, _, _, _] => some .ellipse
  | .box, [_, _, _, _, _] => some .box
  | .annulus, [_, _, _, _] => some .annulus
  | .ellipse, [_, _, _, _, _, _, _] => some .ellipse_annulus
  | .box, [_, _, _, _, _, _, _] => some .rectangle_annulus
  | .polygon, _ => some .polygon
  | .line, [_, _, _, _] => some .line
  | .point, [_, _] => some .point
  | .text, [_, _] => some .text
  | _, _ => none

/-- `_make_region` for one (single-region) line: shape parameters, then the visual translation,
then the region constructor (size validation, `TextString`), then `RegionMeta`. -/
def makeRegion (fn : FName) (shape : DShape) (ps : List ℚ) (raw : Dict) : Except String Region :=
  match finalShape shape ps with
  | none =>
    (match geometry (decide (fn = .image)) shape ps with
     | .error e => .error e
     | .ok _ => .error "OutOfModel")
  | some rs =>
    match ds9ToVisual rs (splitRaw raw).2 with
    | .error e => .error e
    | .ok vis =>
      match geometry (decide (fn = .image)) shape ps with
      | .error e => .error e
      | .ok (_, cls, coords, nums) =>
        -- text regions: the string is raw_meta.get('text', ''), and leaves the meta
        let text : Option PyVal :=
          if rs = .text then some ((AL.get raw .text).getD (.str [])) else none
        let mta := if rs = .text then AL.pop (splitRaw raw).1 .text else (splitRaw raw).1
        -- Text…Region(center, text): `text` must be a `str` (`TextString` descriptor)
        if textIsStr text = false then .error "ValueError"
        -- RegionMeta(meta): unknown keys raise KeyError
        else if mta.any (fun kv => decide (kv.1 ∉ regionMetaKeys)) then .error "KeyError"
        else .ok ⟨cls, fn.frame, coords, nums, text, mta, toRegionVisual vis⟩

/-! ### reader: lines (`read.py:_parse_raw_data`, `_parse_ds9`) -/

structure RegionData where
  frame : FName
  shape : DShape
  params : List ℚ
  raw : Dict
deriving DecidableEq, Repr

/-- `_parse_raw_data`: frame persistence, successive `global` lines, a shape before any frame
is skipped with a warning. -/
def rawData : RDict → Option FName → ROut → Except String (List RegionData)
  | _, _, [] => .ok []
  | g, f, .global m :: ls => rawData (AL.update g m) f ls
  | g, _, .frame fr :: ls => rawData g (some fr) ls
  | g, _, .noframe :: ls => rawData g none ls
  | g, none, .shape _ _ _ _ :: ls => rawData g none ls
  | g, some fr, .shape sign sh ps m :: ls =>
    match defineRaw g sign m with
    | .error e => .error e
    | .ok raw =>
      match rawData g (some fr) ls with
      | .error e => .error e
      | .ok ds => .ok (⟨fr, sh, ps, raw⟩ :: ds)

def makeAll : List RegionData → Except String (List Region)
  | [] => .ok []
  | d :: ds =>
    match makeRegion d.frame d.shape d.params d.raw with
    | .error e => .error e
    | .ok r =>
      match makeAll ds with
      | .error e => .error e
      | .ok rs => .ok (r :: rs)

/-- `_parse_ds9` -/
def parse (o : ROut) : Except String (List Region) :=
  match rawData [] none o with
  | .error e => .error e
  | .ok ds => makeAll ds

/-! ### frame attributes (F35)

A sky coordinate lives in a frame *instance*: FK5 at some equinox, FK4 at some equinox/obstime, the
mean ecliptic of some equinox.  A DS9 frame word (`j2000`, `b1950`, `ecliptic`) names the frame with
its default attributes.  astropy's `coord.transform_to(FrameClass(), merge_attributes=False)` is a
parameter `T` of the model: `T r` = the positions of `r` in the default-attribute frame (`= r.coords`
for pixel regions and for frames that already have the default attributes). -/

abbrev AttrMap := Region → List (ℚ × ℚ)

def stdRegion (T : AttrMap) (r : Region) : Region := { r with coords := T r }

/-- what `_get_region_params` formats: the repaired writer transforms first. -/
def standardize (cfg : Cfg) (T : AttrMap) (rs : List Region) : List Region :=
  if cfg.stdAttrs then rs.map (stdRegion T) else rs

/-- `Regions.serialize(format='ds9')` on regions whose frames may carry any attributes. -/
def writeDs9 (cfg : Cfg) (T : AttrMap) (ord : List Key) (p : Nat) (rs : List Region) :
    Except String (Option WOut) :=
  serialize cfg ord p (standardize cfg T rs)

/-- the reader applied to the writer's output (structured level). -/
def roundTrip (cfg : Cfg) (ord : List Key) (sky : ℚ → ℚ) (p : Nat) (rs : List Region) :
    Except String (List Region) :=
  match serialize cfg ord p rs with
  | .error e => .error e
  | .ok none => .ok []
  | .ok (some o) => parse (toRaw sky o)

/-- the same, for regions whose frames may carry any attributes. -/
def tripDs9 (cfg : Cfg) (T : AttrMap) (ord : List Key) (sky : ℚ → ℚ) (p : Nat) (rs : List Region) :
    Except String (List Region) :=
  roundTrip cfg ord sky p (standardize cfg T rs)

end RegionsVerif.Impl.Ds9
