/-
Impl model of the geometric part of `regions/shapes/*.py` and `regions/core/pixcoord.py`:
`contains`, `area`, bounding-box extents, `rotate`, the rectangle's lower-left corner.

Generic over an ordered field so that the same definitions are executed on `ℚ` by the
driver and reasoned about on `ℝ`.  A rotation angle enters only through the pair
`(c, s) = (cos θ, sin θ)`; theorems assume `c² + s² = 1`.  Square roots (`np.hypot`,
`np.sqrt`) do not exist in a generic field: the model carries the *squared* quantity and
`Props/C01.lean`, `Props/C04.lean` prove over `ℝ` that comparing squares is the same as
what the code does with the root.
-/
import Mathlib.Algebra.Order.Field.Basic
import Mathlib.Algebra.Order.Ring.Abs

namespace RegionsVerif.Impl

/-- a point / `PixCoord` scalar pair. -/
structure Pt (α : Type) where
  x : α
  y : α
deriving DecidableEq, Repr

/-- `(cos θ, sin θ)`. -/
structure Dir (α : Type) where
  c : α
  s : α
deriving DecidableEq, Repr

/-- the values the `include` entry of `meta` takes in the property's quantifier. -/
inductive Include | absent | pyTrue | pyFalse | one | zero
deriving DecidableEq, Repr

/-- `self.meta.get('include', True)` as a Python truth value. -/
def Include.truthy : Include → Bool
  | .absent => true
  | .pyTrue => true
  | .pyFalse => false
  | .one => true
  | .zero => false

/-- `if self.meta.get('include', True): return in_reg else: return np.logical_not(in_reg)`. -/
def withInclude (i : Include) (inReg : Bool) : Bool := if i.truthy then inReg else !inReg

section field
variable {α : Type} [Field α] [LinearOrder α] [IsStrictOrderedRing α]

/-! ### PixCoord -/

/-- squared `PixCoord.separation` (`np.hypot(dx, dy)` squared). -/
def sep2 (p q : Pt α) : α := (q.x - p.x) ^ 2 + (q.y - p.y) ^ 2

/-- `PixCoord.rotate(center, angle)`: `center + R(θ)·(self − center)` with
`R = [[cos, −sin], [sin, cos]]`, applied element-wise as the code does:
`x = center.x + (cosa*dx − sina*dy)`, `y = center.y + (sina*dx + cosa*dy)`. -/
def Pt.rotate (p center : Pt α) (d : Dir α) : Pt α :=
  let dx := p.x - center.x
  let dy := p.y - center.y
  ⟨center.x + (d.c * dx - d.s * dy), center.y + (d.s * dx + d.c * dy)⟩

/-- `angle + other` on the level of `(cos, sin)`: the angle-addition formulas. -/
def Dir.add (a b : Dir α) : Dir α := ⟨a.c * b.c - a.s * b.s, a.s * b.c + a.c * b.s⟩

/-- `-angle`. -/
def Dir.neg (a : Dir α) : Dir α := ⟨a.c, -a.s⟩

def Dir.zero : Dir α := ⟨1, 0⟩

def Dir.IsUnit (d : Dir α) : Prop := d.c ^ 2 + d.s ^ 2 = 1

/-! ### circle -/

structure Circle (α : Type) where
  center : Pt α
  radius : α

/-- `CirclePixelRegion.contains` before the include flag:
`center.separation(p) < radius`, stated on squares (valid for `radius > 0`, which the
`PositiveScalar` validator guarantees; equivalence with the `hypot` form: `C01.circle_hypot_iff`). -/
def Circle.inRaw (r : Circle α) (p : Pt α) : Bool := decide (sep2 r.center p < r.radius ^ 2)

/-- extents `(xmin, xmax, ymin, ymax)` passed to `from_float`. -/
def Circle.extent (r : Circle α) : α × α × α × α :=
  (r.center.x - r.radius, r.center.x + r.radius, r.center.y - r.radius, r.center.y + r.radius)

def Circle.rotate (r : Circle α) (center : Pt α) (d : Dir α) : Circle α :=
  ⟨r.center.rotate center d, r.radius⟩

/-! ### ellipse -/

structure Ellipse (α : Type) where
  center : Pt α
  width : α
  height : α
  dir : Dir α

/-- `EllipsePixelRegion.contains` before the include flag. -/
def Ellipse.inRaw (r : Ellipse α) (p : Pt α) : Bool :=
  let dx := p.x - r.center.x
  let dy := p.y - r.center.y
  decide ((2 * (r.dir.c * dx + r.dir.s * dy) / r.width) ^ 2
          + (2 * (r.dir.s * dx - r.dir.c * dy) / r.height) ^ 2 ≤ 1)

/-- squared half-extents `(dx², dy²)` of `EllipsePixelRegion.bounding_box`
(`dx = sqrt(width_x**2 + height_x**2)`, `dy = sqrt(width_y**2 + height_y**2)`). -/
def Ellipse.halfExtent2 (r : Ellipse α) : α × α :=
  let widthX := (1/2) * r.width * r.dir.c
  let widthY := (1/2) * r.width * r.dir.s
  let heightX := (1/2) * r.height * -r.dir.s
  let heightY := (1/2) * r.height * r.dir.c
  (widthX ^ 2 + heightX ^ 2, widthY ^ 2 + heightY ^ 2)

def Ellipse.rotate (r : Ellipse α) (center : Pt α) (d : Dir α) : Ellipse α :=
  ⟨r.center.rotate center d, r.width, r.height, r.dir.add d⟩

/-! ### rectangle -/

structure Rect (α : Type) where
  center : Pt α
  width : α
  height : α
  dir : Dir α

/-- `RectanglePixelRegion.contains` before the include flag. -/
def Rect.inRaw (r : Rect α) (p : Pt α) : Bool :=
  let dx := p.x - r.center.x
  let dy := p.y - r.center.y
  let dxRot := r.dir.c * dx + r.dir.s * dy
  let dyRot := r.dir.s * dx - r.dir.c * dy
  decide (|dxRot| < r.width * (1/2)) && decide (|dyRot| < r.height * (1/2))

/-- half-extents `(dx, dy)` of `RectanglePixelRegion.bounding_box`. -/
def Rect.halfExtent (r : Rect α) : α × α :=
  let w2 := r.width / 2
  let h2 := r.height / 2
  let dx1 := |w2 * r.dir.c - h2 * r.dir.s|
  let dy1 := |w2 * r.dir.s + h2 * r.dir.c|
  let dx2 := |w2 * r.dir.c + h2 * r.dir.s|
  let dy2 := |w2 * r.dir.s - h2 * r.dir.c|
  (max dx1 dx2, max dy1 dy2)

def Rect.extent (r : Rect α) : α × α × α × α :=
  let h := r.halfExtent
  (r.center.x - h.1, r.center.x + h.1, r.center.y - h.2, r.center.y + h.2)

def Rect.rotate (r : Rect α) (center : Pt α) (d : Dir α) : Rect α :=
  ⟨r.center.rotate center d, r.width, r.height, r.dir.add d⟩

/-- `RectanglePixelRegion._lower_left_xy`:
`xmin = cx − (w/2·cos − h/2·sin)`, `ymin = cy − (w/2·sin + h/2·cos)`. -/
def Rect.lowerLeft (r : Rect α) : Pt α :=
  let w2 := r.width / 2
  let h2 := r.height / 2
  ⟨r.center.x - (w2 * r.dir.c - h2 * r.dir.s), r.center.y - (w2 * r.dir.s + h2 * r.dir.c)⟩

/-- the four `corners` property, in the code's order. -/
def Rect.corners (r : Rect α) : List (Pt α) :=
  let w2 := r.width / 2
  let h2 := r.height / 2
  [(-w2, -h2), (w2, -h2), (w2, h2), (-w2, h2)].map fun (q : α × α) =>
    ⟨r.center.x + (r.dir.c * q.1 - r.dir.s * q.2), r.center.y + (r.dir.s * q.1 + r.dir.c * q.2)⟩

/-! ### polygon (even-odd rule of `_geometry/pnpoly.pyx`) -/

/-- the test applied to the edge from vertex `j` (previous) to vertex `i`:
`((vy[i] > y) != (vy[j] > y)) and (x < (vx[j]-vx[i]) * (y-vy[i]) / (vy[j]-vy[i]) + vx[i])`. -/
def edgeCross (p vi vj : Pt α) : Bool :=
  (decide (vi.y > p.y) != decide (vj.y > p.y)) &&
    decide (p.x < (vj.x - vi.x) * (p.y - vi.y) / (vj.y - vi.y) + vi.x)

/-- the cyclic list of `(v[i], v[(i+n-1) % n])` pairs, `i = 0 … n-1`. -/
def cyclicPairs (vs : List (Pt α)) : List (Pt α × Pt α) :=
  match vs.getLast? with
  | none => []
  | some l => vs.zip (l :: vs.dropLast)

/-- `point_in_polygon`: count the edges whose test succeeds, return `count % 2`. -/
def pnpolyCount (vs : List (Pt α)) (p : Pt α) : Nat :=
  ((cyclicPairs vs).filter fun e => edgeCross p e.1 e.2).length

def pnpoly (vs : List (Pt α)) (p : Pt α) : Bool := pnpolyCount vs p % 2 == 1

structure Polygon (α : Type) where
  vertices : List (Pt α)

def Polygon.inRaw (r : Polygon α) (p : Pt α) : Bool := pnpoly r.vertices p

def Polygon.rotate (r : Polygon α) (center : Pt α) (d : Dir α) : Polygon α :=
  ⟨r.vertices.map fun v => v.rotate center d⟩

/-- `vertices.x.min()` etc.; `none` for an empty vertex list (the constructor rejects it). -/
def Polygon.extent (r : Polygon α) : Option (α × α × α × α) :=
  match r.vertices with
  | [] => none
  | v :: vs => some (vs.foldl (fun m q => min m q.x) v.x, vs.foldl (fun m q => max m q.x) v.x,
                     vs.foldl (fun m q => min m q.y) v.y, vs.foldl (fun m q => max m q.y) v.y)

/-! ### line, point, text: contain nothing -/

def emptyInRaw (_p : Pt α) : Bool := false

def lineExtent (a b : Pt α) : α × α × α × α := (min a.x b.x, max a.x b.x, min a.y b.y, max a.y b.y)

def pointExtent (c : Pt α) : α × α × α × α := (c.x, c.x, c.y, c.y)

/-! ### annuli: `CompoundPixelRegion(inner, outer, xor, self.meta, self.visual)`
where inner and outer are built with the *same* meta, hence the same include flag. -/

/-- `AnnulusPixelRegion.contains`, given the raw (flag-free) answers of inner and outer:
both components apply the flag, `xor` combines them, the compound applies the flag again. -/
def annulusContains (i : Include) (inInner inOuter : Bool) : Bool :=
  withInclude i (xor (withInclude i inInner) (withInclude i inOuter))

end field

/-! ### shape of the answer (`contains` on scalar / array coordinates)

A `PixCoord` is either scalar (`x.shape == ()` is unpacked with `.item()` by the
constructor) or an array with `ndim ≥ 1`.  numpy element-wise operations keep the shape
(parameter of the model). -/

/-- `none` = scalar coordinate, `some dims` = array coordinate. -/
abbrev QShape := Option (List Nat)

inductive ShapeClass
  | circle | ellipse | rectangle | polygon | regularPolygon
  | circleAnnulus | ellipseAnnulus | rectangleAnnulus | point | line | text
deriving DecidableEq, Repr

/-- `np.atleast_1d(np.asarray(pixcoord.x))`. -/
def atleast1d : QShape → List Nat
  | none => [1]
  | some d => d

/-- steps of `PolygonPixelRegion.contains`: `atleast_1d`, `flatten`, kernel (one answer per
point), `reshape(shape)`, then `[0]` for a scalar coordinate. -/
def polygonResultShape (q : QShape) : Option QShape :=
  let shape := atleast1d q
  let flatLen := shape.prod            -- x.flatten()
  let kernelLen := flatLen             -- points_in_polygon returns one entry per point
  if kernelLen = shape.prod then       -- reshape succeeds
    (match q with
     | none => some none               -- in_poly[0]
     | some _ => some (some shape))
  else none

/-- `False if pixcoord.isscalar else np.zeros(pixcoord.x.shape, dtype=bool)`. -/
def emptyResultShape (q : QShape) : QShape :=
  match q with
  | none => none
  | some d => some d

/-- result shape of `contains` per class (`none` = would raise). -/
def resultShape (k : ShapeClass) (q : QShape) : Option QShape :=
  match k with
  | .polygon | .regularPolygon => polygonResultShape q
  | .point | .line | .text => some (emptyResultShape q)
  | _ => some q                        -- numpy element-wise comparison / logical ops

end RegionsVerif.Impl
