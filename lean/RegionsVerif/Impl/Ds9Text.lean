/-
Character level of the DS9 model.

  render : WOut → Str          `write.py:_serialize_ds9` / `_make_meta_str` string assembly
  lex    : Str → Except _ ROut `read.py:_split_lines`, `_split_semicolon`, `_find_text_delim_idx`,
                               the line classification of `_parse_raw_data`, `_parse_shape_line`,
                               and the `findall` of the metadata regular expression of
                               `_parse_metadata`, on the sub-language the writer can produce.

`lex` answers `OutOfModel` for DS9 syntax the writer never emits (composite, `# text(`,
unit suffixes, sexagesimal, unsupported frames/shapes) — reading those is property C10.
Text is ASCII in the sense of `Dec.isSpace`/`Dec.lowerChar`.
-/
import RegionsVerif.Impl.Ds9

namespace RegionsVerif.Impl.Ds9
open RegionsVerif.Impl.Dec

/-! ### render -/

def FName.name : FName → Str
  | .image => "image".toList
  | .icrs => "icrs".toList
  | .fk5 => "fk5".toList
  | .j2000 => "j2000".toList
  | .fk4 => "fk4".toList
  | .b1950 => "b1950".toList
  | .galactic => "galactic".toList
  | .ecliptic => "ecliptic".toList

def DShape.name : DShape → Str
  | .circle => "circle".toList
  | .ellipse => "ellipse".toList
  | .box => "box".toList
  | .polygon => "polygon".toList
  | .annulus => "annulus".toList
  | .line => "line".toList
  | .point => "point".toList
  | .text => "text".toList

/-- `_make_meta_str` -/
def metaStr (m : Dict) : Str :=
  joinWith [' '] (m.map fun kv =>
    if kv.1 = .tag then
      joinWith [' '] ((tagElems kv.2).map fun s => "tag={".toList ++ s ++ ['}'])
    else kv.1.toString.toList ++ '=' :: pyStr kv.2)

def header : Str := "# Region file format: DS9 astropy/regions\n".toList

def renderLine (p : Nat) (gframe : Option FName) (l : WLine) : Str :=
  (match gframe with
   | some _ => []
   | none => l.frame.name ++ "; ".toList) ++
  l.shape.name ++ '(' :: joinWith [','] (l.params.map fun w => fmt p w.val) ++ [')'] ++
  (let ms := metaStr l.mta
   if ms = [] then [] else " # ".toList ++ ms) ++ ['\n']

def render (o : WOut) : Str :=
  header ++
  (if o.global = [] then [] else "global ".toList ++ metaStr o.global ++ ['\n']) ++
  (match o.gframe with
   | some f => f.name ++ ['\n']
   | none => []) ++
  (o.lines.map (renderLine o.prec o.gframe)).flatten

/-- `Regions.serialize(format='ds9')` as text. -/
def renderOpt : Option WOut → Str
  | none => []
  | some o => render o

/-! ### lex: lines -/

def splitOnChar (c : Char) : Str → List Str
  | [] => [[]]
  | d :: ds =>
    if d = c then [] :: splitOnChar c ds
    else match splitOnChar c ds with
      | [] => [[d]]
      | h :: t => (d :: h) :: t

/-- index of the first `c` at position ≥ `from` (Python `str.find`), `none` = −1. -/
def findFrom (c : Char) (s : Str) (start : Nat) : Option Nat :=
  let rec go : Str → Nat → Option Nat
    | [], _ => none
    | d :: ds, i => if start ≤ i ∧ d = c then some i else go ds (i + 1)
  go s 0

def isAlpha (c : Char) : Bool := ('a' ≤ c && c ≤ 'z') || ('A' ≤ c && c ≤ 'Z')

/-- try to match `[a-zA-Z]+\s*=\s*[{'"]` at the head; returns (length of match, closing delimiter). -/
def matchTextDelim (s : Str) : Option (Nat × Char) :=
  if (s.takeWhile isAlpha) ≠ [] then
    let r1 := s.dropWhile isAlpha
    let r2 := r1.dropWhile isSpace
    match r2 with
    | '=' :: r3 =>
      let r4 := r3.dropWhile isSpace
      (match r4 with
       | d :: _ =>
         if d = '{' then some (s.length - r4.length + 1, '}')
         else if d = '\'' ∨ d = '"' then some (s.length - r4.length + 1, d)
         else none
       | [] => none)
    | _ => none
  else none

/-- `_find_text_delim_idx`: list of (start of match, end of match, closing delimiter), the
matches being non-overlapping, left to right. -/
def textDelims : Nat → Nat → Str → List (Nat × Nat × Char)
  | 0, _, _ => []
  | _ + 1, _, [] => []
  | fuel + 1, i, c :: cs =>
    match matchTextDelim (c :: cs) with
    | some (len, d) => (i, i + len, d) :: textDelims fuel (i + len) ((c :: cs).drop len)
    | none => textDelims fuel (i + 1) cs

/-- `_split_semicolon` -/
def splitSemicolon (s : Str) : List Str :=
  let ranges : List (Nat × Option Nat) :=
    (textDelims (s.length + 1) 0 s).map fun (i0, e, d) => (i0, findFrom d s e)
  let protectedAt := fun (i : Nat) => ranges.any fun (i0, i1) =>
    match i1 with
    | some j => decide (i0 ≤ i ∧ i ≤ j)
    | none => false
  -- pieces end just after each unprotected ';'
  let rec go : Str → Nat → Str → List Str
    | [], _, cur => [cur.reverse]
    | c :: cs, i, cur =>
      if c = ';' ∧ ¬ protectedAt i then (c :: cur).reverse :: go cs (i + 1) []
      else go cs (i + 1) (c :: cur)
  (go s 0 []).map (rstripC ';')

/-- `_split_lines` -/
def splitLines (s : Str) : List Str :=
  (splitOnChar '\n' s).flatMap fun l => (splitSemicolon l).map strip

/-! ### lex: metadata regular expression -/

def isAlnum (c : Char) : Bool := isAlpha c || c.isDigit

/-- `[-?\d+\.?\d*]` -/
def inC4 (c : Char) : Bool := c = '-' || c = '?' || c.isDigit || c = '+' || c = '.' || c = '*'
/-- `[-?\d+\.?\d*\s]` -/
def inC3 (c : Char) : Bool := inC4 c || isSpace c

/-- `X.*?X'`: the shortest delimited value at the head; returns (value incl. delimiters, rest). -/
def matchDelimited (openC closeC : Char) : Str → Option (Str × Str)
  | [] => none
  | c :: cs =>
    if c = openC then
      match splitOn1 (fun d => d = closeC) cs with
      | (inner, some rest) => some (c :: inner ++ [closeC], rest)
      | (_, none) => none
    else none

/-- the value alternatives of the metadata regex at the head of `s` (after `=\s*`). -/
def matchValue (s : Str) : Option (Str × Str) :=
  match matchDelimited '{' '}' s with
  | some r => some r
  | none =>
  match matchDelimited '\'' '\'' s with
  | some r => some r
  | none =>
  match matchDelimited '"' '"' s with
  | some r => some r
  | none =>
  match s with
  | [] => none
  | c :: _ =>
    if inC3 c then some (s.takeWhile inC3, s.dropWhile inC3)
    else if c ≠ '=' ∧ ¬ isSpace c then
      let run1 := s.takeWhile (fun d => d ≠ '=' && !isSpace d)
      let r1 := s.dropWhile (fun d => d ≠ '=' && !isSpace d)
      let ws := r1.takeWhile isSpace
      let r2 := r1.dropWhile isSpace
      some (run1 ++ ws ++ r2.takeWhile inC4, r2.dropWhile inC4)
    else none

/-- one attempt of `([a-zA-Z]+)\s*=\s*(…)` at the head: (key, raw value, rest). -/
def matchItem (s : Str) : Option (Str × Str × Str) :=
  let key := s.takeWhile isAlpha
  if key = [] then none
  else
    let r1 := (s.dropWhile isAlpha).dropWhile isSpace
    match r1 with
    | '=' :: r2 =>
      let sp := r2.takeWhile isSpace
      let r3 := r2.dropWhile isSpace
      (match matchValue r3 with
       | some (v, rest) => some (key, v, rest)
       | none => if sp = [] then none else some (key, [' '], r3))   -- `\s*` gives one space back
    | _ => none

/-- `findall` -/
def findItems : Nat → Str → List (Str × Str)
  | 0, _ => []
  | _ + 1, [] => []
  | fuel + 1, c :: cs =>
    match matchItem (c :: cs) with
    | some (k, v, rest) => (k, v) :: findItems fuel rest
    | none => findItems fuel cs

def stringOfStr (s : Str) : String := String.ofList s

/-- `_parse_metadata` -/
def parseMetadata (s : Str) : RDict :=
  (findItems (s.length + 1) s).foldl (fun (acc : RDict) (kv : Str × Str) =>
    let k := Key.ofString (stringOfStr (lower kv.1))
    let v := stripVal kv.2
    match AL.get acc k with
    | none => acc ++ [(k, if k = .tag then RVal.tags [v] else RVal.str v)]
    | some (RVal.tags l) => if k = .tag then AL.set acc k (RVal.tags (l ++ [v])) else acc
    | some _ => acc) []      -- duplicate: warning, skipped

/-! ### lex: line classification -/

def fnameOfWord (w : Str) : Option FName :=
  if w = "image".toList then some .image
  else if w = "icrs".toList then some .icrs
  else if w = "fk5".toList then some .fk5
  else if w = "j2000".toList then some .j2000
  else if w = "fk4".toList then some .fk4
  else if w = "b1950".toList then some .b1950
  else if w = "galactic".toList then some .galactic
  else if w = "ecliptic".toList then some .ecliptic
  else none

def dshapeOfWord (w : Str) : Option DShape :=
  if w = "circle".toList then some .circle
  else if w = "ellipse".toList then some .ellipse
  else if w = "box".toList then some .box
  else if w = "polygon".toList then some .polygon
  else if w = "annulus".toList then some .annulus
  else if w = "line".toList then some .line
  else if w = "point".toList then some .point
  else if w = "text".toList then some .text
  else none

/-- frames DS9 knows and regions does not (`linear`, `physical`, `wcs`, `wcsa` … `wcsz`, …). -/
def isUnsupportedFrame (w : Str) : Bool :=
  w ∈ ["linear".toList, "amplifier".toList, "detector".toList, "physical".toList, "tile".toList,
       "wcs".toList, "wcs0".toList] ||
  (match w with
   | ['w', 'c', 's', c] => 'a' ≤ c && c ≤ 'z'
   | _ => false)

def isUnsupportedShape (w : Str) : Bool :=
  w ∈ ["vector".toList, "ruler".toList, "compass".toList, "projection".toList, "panda".toList,
       "epanda".toList, "bpanda".toList]

def readParams : List Str → Except String (List ℚ)
  | [] => .ok []
  | t :: ts =>
    match pyFloat t with
    | some (.fin q) =>
      (match readParams ts with
       | .ok l => .ok (q :: l)
       | .error e => .error e)
    | _ => .error "OutOfModel"

/-- split on white space or commas, dropping empty pieces (`re.split(r'\s|\,', …)`). -/
def splitParams (s : Str) : List Str :=
  splitWs (s.map fun c => if c = ',' then ' ' else c)

/-- one stripped, non-empty line → at most one `RLine`. -/
def lexLine (orig : Str) : Except String (Option RLine) :=
  let line := lower orig
  if "#".toList.isPrefixOf line then
    if "# text(".toList.isPrefixOf line ∨ "# composite(".toList.isPrefixOf line then .error "OutOfModel"
    else .ok none                                  -- comment
  else if "global".toList.isPrefixOf line then
    .ok (some (.global (parseMetadata (orig.drop 7))))
  else
    -- ^#? *([+-]?)([a-zA-Z0-9]+)
    let r0 := line.dropWhile (· == ' ')
    let (sign, r1) := match r0 with
      | '+' :: r => (some false, r)
      | '-' :: r => (some true, r)
      | r => (none, r)
    let word := r1.takeWhile isAlnum
    if word = [] then .error "ValueError"
    else
      let spanEnd := line.length - (r1.dropWhile isAlnum).length
      match fnameOfWord word with
      | some f => .ok (some (.frame f))
      | none =>
        match dshapeOfWord word with
        | none =>
          if isUnsupportedFrame word then .ok (some .noframe)      -- warning, frame reset
          else if isUnsupportedShape word then .ok none             -- warning, skipped
          else if word = "composite".toList then .error "OutOfModel"
          else .ok none                                             -- not a frame or shape: warning, skipped
        | some sh =>
          -- _parse_shape_line
          let rest := orig.drop spanEnd
          let (ps, ms) := match splitOn1 (fun c => c = '#') rest with
            | (a, some b) => (a, b)
            | (a, none) => (a, [])
          -- shape_params_str.strip(' |'), drop parentheses, lower
          let isSB := fun (c : Char) => c == ' ' || c == '|'
          let ps := ((ps.dropWhile isSB).reverse.dropWhile isSB).reverse
          let ps := lower (ps.filter fun c => c ≠ '(' ∧ c ≠ ')')
          match readParams (splitParams ps) with
          | .error e => .error e
          | .ok nums => .ok (some (.shape sign sh nums (parseMetadata (strip ms))))

def lexLines : List Str → Except String ROut
  | [] => .ok []
  | l :: ls =>
    if l = [] then lexLines ls
    else match lexLine l with
      | .error e => .error e
      | .ok r =>
        match lexLines ls with
        | .error e => .error e
        | .ok rs => .ok (match r with
          | some x => x :: rs
          | none => rs)

def lex (s : Str) : Except String ROut := lexLines (splitLines s)

/-! ### the side condition of `lex (render o) = toRaw o`

`valueSafe v`: the rendered value `v` (as in `key=v`, followed by a space and the next key, or by
the end of the line) is matched as a whole by the metadata regular expression, and contains
nothing that splits the line. -/

def noBreak (s : Str) : Bool := s.all fun c => c ≠ ';' && c ≠ '\n'

def delimited (o c : Char) (v : Str) : Bool :=
  match v with
  | d :: rest =>
    d = o && (match rest.reverse with
      | e :: inner => e = c && inner.all (fun x => x ≠ c)
      | [] => false)
  | [] => false

/-- a bare word: no white space, no `=`, does not start like a number or a delimiter. -/
def bareWord (w : Str) : Bool :=
  match w with
  | c :: _ => !inC3 c && c ≠ '{' && c ≠ '"' && c ≠ '\'' && w.all (fun d => d ≠ '=' && !isSpace d)
  | [] => false

def valueSafe (isText : Bool) (v : Str) : Bool :=
  v.all (fun c => c ≠ '\n') &&
  (delimited '{' '}' v ||
   (!isText && (
     delimited '"' '"' v || delimited '\'' '\'' v ||
     (noBreak v &&
      ((match v with
        | c :: _ => inC3 c && !isSpace c && v.all inC3
        | [] => false) ||
       bareWord v ||
       (match splitOn1 isSpace v with
        | (w, some d) => bareWord w && d ≠ [] && d.all inC4
        | _ => false))))))

def dictSafe (m : Dict) : Bool :=
  m.all fun kv =>
    if kv.1 = .tag then (tagElems kv.2).all fun s => s.all (fun c => c ≠ '}' && c ≠ '\n')
    else valueSafe (decide (kv.1 = .text)) (pyStr kv.2) &&
      (match kv.1 with
       | .other _ => false
       | _ => true)

def renderSafe (o : WOut) : Bool := dictSafe o.global && o.lines.all fun l => dictSafe l.mta

end RegionsVerif.Impl.Ds9
