/-
Decimal text: the printer behind Python's `f'{x:.{p}f}'` on an exact rational
(round-half-even to `p` decimals, sign kept for negative values that round to zero) and the
reader behind Python's `float(text)` (optional surrounding white space, sign, `inf`/`nan`,
digit groups with single underscores, fraction, exponent), both on `List Char`, so that the
kernel can evaluate them and proofs go by structural induction.

Used by the DS9 model (`Impl/Ds9*.lean`): `fmt` is what `regions/io/ds9/write.py` does for
pixel positions and sizes (`f'{value.x + 1:0.{precision}f}'`, `f'{value:.{precision}f}'`),
`pyFloat` is what `regions/io/ds9/read.py` does for every number (`float(param_str)`,
`float(value)` in `_define_raw_metadata`).

The double rounding of `float(text)` itself is not modelled: `pyFloat` returns the exact value
of the decimal text (DESIGN §3).
-/
import Mathlib.Data.Rat.Floor
import Mathlib.Algebra.Order.Floor.Ring
import Mathlib.Algebra.Order.Field.Power
import Mathlib.Tactic.Linarith
import Mathlib.Tactic.Ring
import Mathlib.Tactic.FieldSimp
import Mathlib.Tactic.Positivity

namespace RegionsVerif.Impl.Dec

abbrev Str := List Char

/-! ### characters -/

/-- Python `str.isspace()` / regex `\s` / the characters removed by `str.strip()`. -/
def isSpace (c : Char) : Bool :=
  let n := c.toNat
  (9 ≤ n && n ≤ 13) || (28 ≤ n && n ≤ 32) || n == 0x85 || n == 0xa0 || n == 0x1680 ||
  (0x2000 ≤ n && n ≤ 0x200a) || n == 0x2028 || n == 0x2029 || n == 0x202f || n == 0x205f ||
  n == 0x3000

def lstrip (s : Str) : Str := s.dropWhile isSpace
def rstrip (s : Str) : Str := (s.reverse.dropWhile isSpace).reverse
/-- `str.strip()` -/
def strip (s : Str) : Str := rstrip (lstrip s)

/-- ASCII `str.lower()` (the model is stated for ASCII text). -/
def lowerChar (c : Char) : Char :=
  if 'A' ≤ c ∧ c ≤ 'Z' then Char.ofNat (c.toNat + 32) else c
def lower (s : Str) : Str := s.map lowerChar

/-- `str.split()` with no argument: runs of non-space characters. -/
def splitWsAux : Str → Str → List Str
  | cur, [] => if cur = [] then [] else [cur.reverse]
  | cur, c :: cs =>
    if isSpace c then (if cur = [] then splitWsAux [] cs else cur.reverse :: splitWsAux [] cs)
    else splitWsAux (c :: cur) cs
def splitWs (s : Str) : List Str := splitWsAux [] s

/-- split at the first character satisfying `p` (that character is dropped). -/
def splitOn1 (p : Char → Bool) : Str → Str × Option Str
  | [] => ([], none)
  | c :: cs => if p c then ([], some cs) else ((splitOn1 p cs).1.cons c, (splitOn1 p cs).2)

/-! ### numbers -/

/-- result of Python `float(text)` (exact value of the text; double rounding not modelled). -/
inductive PyNum
  | fin (q : ℚ)
  | inf
  | ninf
  | nan
deriving DecidableEq

/-- digit group with optional single underscores between digits (PEP 515): must start and end
with a digit. `prev` = the previous character was a digit. -/
def okDigits : Bool → Str → Bool
  | prev, [] => prev
  | prev, c :: cs =>
    if c.isDigit then okDigits true cs
    else if c = '_' ∧ prev = true then okDigits false cs
    else false

/-- value and number of digits of a digit group (the empty group is `(0, 0)`). -/
def dpVal (l : Str) : Option (Nat × Nat) :=
  if l = [] then some (0, 0)
  else if okDigits false l then
    some (Nat.ofDigitChars 10 (l.filter Char.isDigit) 0, (l.filter Char.isDigit).length)
  else none

/-- leading sign of a numeric literal: (is negative, rest). -/
def splitSign (t : Str) : Bool × Str :=
  match t with
  | [] => (false, [])
  | c :: r => if c = '-' then (true, r) else if c = '+' then (false, r) else (false, c :: r)

/-- exponent part: optional sign and a non-empty digit group. -/
def exVal : Option Str → Option Int
  | none => some 0
  | some s =>
    let ds := (splitSign s).2
    if ds = [] then none
    else match dpVal ds with
      | some (v, _) => some (if (splitSign s).1 then -(v : Int) else (v : Int))
      | none => none

/-- unsigned decimal literal `digits[.digits][(e|E)[+-]digits]`. -/
def pyFloatBody (body : Str) : Option ℚ :=
  let me := splitOn1 (fun c => c = 'e' || c = 'E') body
  let ifp := splitOn1 (fun c => c = '.') me.1
  let fp := ifp.2.getD []
  if ifp.1 = [] ∧ fp = [] then none
  else match dpVal ifp.1, dpVal fp, exVal me.2 with
    | some (iv, _), some (fv, fl), some e => some (((iv : ℚ) + (fv : ℚ) / (10 : ℚ) ^ fl) * (10 : ℚ) ^ e)
    | _, _, _ => none

/-- Python `float(s)`; `none` = `ValueError`. -/
def pyFloat (s : Str) : Option PyNum :=
  let t := strip s
  let neg := (splitSign t).1
  let body := (splitSign t).2
  let lb := lower body
  if lb = "inf".toList ∨ lb = "infinity".toList then some (if neg then .ninf else .inf)
  else if lb = "nan".toList then some .nan
  else match pyFloatBody body with
    | some q => some (.fin (if neg then -q else q))
    | none => none

/-- Python `int(s)` for a string: optional white space, sign, digit group. -/
def pyIntOfStr (s : Str) : Option Int :=
  let t := strip s
  let body := (splitSign t).2
  if body = [] then none
  else match dpVal body with
    | some (v, _) => some (if (splitSign t).1 then -(v : Int) else (v : Int))
    | none => none

/-- Python `str(n)` for an `int`. -/
def intStr (n : Int) : Str :=
  if n < 0 then '-' :: Nat.toDigits 10 n.natAbs else Nat.toDigits 10 n.natAbs

/-! ### the fixed-notation printer -/

/-- round-half-even of a non-negative rational. -/
def rhe (y : ℚ) : Nat :=
  let f := ⌊y⌋.toNat
  let r := y - (f : ℚ)
  if r < 1 / 2 then f else if 1 / 2 < r then f + 1 else if f % 2 = 0 then f else f + 1

/-- `m` printed with at least `p` digits (leading zeros). -/
def pad (p m : Nat) : Str :=
  List.replicate (p - (Nat.toDigits 10 m).length) '0' ++ Nat.toDigits 10 m

/-- the `p`-decimal rounding of `x` as an integer count of units `10⁻ᵖ` of `|x|`. -/
def units (p : Nat) (x : ℚ) : Nat := rhe (|x| * (10 : ℚ) ^ p)

/-- Python `f'{x:.{p}f}'` on the exact rational `x`. -/
def fmt (p : Nat) (x : ℚ) : Str :=
  (if x < 0 then ['-'] else []) ++ Nat.toDigits 10 (units p x / 10 ^ p) ++
    (if p = 0 then [] else '.' :: pad p (units p x % 10 ^ p))

/-- the value printed by `fmt p x`: `x` rounded half-even to `p` decimals. -/
def roundTo (p : Nat) (x : ℚ) : ℚ :=
  (if x < 0 then -1 else 1) * ((units p x : ℚ) / (10 : ℚ) ^ p)

/-- `x` is a decimal with at most `p` fractional digits. -/
def IsDec (p : Nat) (x : ℚ) : Prop := (x * (10 : ℚ) ^ p).den = 1
instance (p : Nat) (x : ℚ) : Decidable (IsDec p x) := by unfold IsDec; infer_instance

/-! ### Python `repr(float)` for short decimals

`repr` of a double is the shortest decimal that reads back to it; for a decimal with at most
15 significant digits that is the decimal itself, normalised.  `pyReprQ` prints a terminating
decimal that way (fixed notation for `1e-4 ≤ |x| < 1e16`, else scientific); it is *only* the
Python `repr` under that side condition, which the harness checks on every value it sends. -/

/-- strip trailing zeros of a natural number: `(m, k)` with `n = m·10ᵏ`, `10 ∤ m` (or `n = 0`). -/
def stripZeros : Nat → Nat → Nat → Nat × Nat
  | 0, n, k => (n, k)
  | fuel + 1, n, k => if n ≠ 0 ∧ n % 10 = 0 then stripZeros fuel (n / 10) (k + 1) else (n, k)

/-- smallest `k ≤ fuel` with `x·10ᵏ` an integer, if any. -/
def decExp : Nat → Nat → ℚ → Option Nat
  | 0, k, x => if (x * (10 : ℚ) ^ k).den = 1 then some k else none
  | fuel + 1, k, x => if (x * (10 : ℚ) ^ k).den = 1 then some k else decExp fuel (k + 1) x

def pyReprQ (x : ℚ) : Str :=
  if x = 0 then "0.0".toList else
  match decExp 400 0 |x| with
  | none => "?".toList
  | some k =>
    let n := (|x| * (10 : ℚ) ^ k).num.natAbs          -- |x| = n / 10^k
    let (m, z) := stripZeros 400 n 0                    -- |x| = m · 10^z / 10^k
    let ds := Nat.toDigits 10 m
    let nd := ds.length
    let decpt : Int := (nd : Int) + (z : Int) - (k : Int)   -- |x| = 0.ds × 10^decpt
    let sign := if x < 0 then ['-'] else []
    if -4 < decpt ∧ decpt ≤ 16 then
      if decpt ≤ 0 then sign ++ '0' :: '.' :: (List.replicate (-decpt).toNat '0' ++ ds)
      else if (nd : Int) ≤ decpt then sign ++ ds ++ List.replicate (decpt - nd).toNat '0' ++ ".0".toList
      else sign ++ ds.take decpt.toNat ++ '.' :: ds.drop decpt.toNat
    else
      let e := decpt - 1
      let es := (if e < 0 then '-' else '+') :: pad 2 e.natAbs
      match ds with
      | [] => "?".toList
      | [d] => sign ++ d :: 'e' :: es
      | d :: rest => sign ++ d :: '.' :: rest ++ 'e' :: es

/-! ### lemmas -/

theorem okDigits_true_of_digits (l : Str) (h : ∀ c ∈ l, c.isDigit = true) : okDigits true l = true := by
  induction l with
  | nil => rfl
  | cons c cs ih =>
    have hc := h c (by simp)
    simp only [okDigits, hc, if_true]
    exact ih (fun d hd => h d (by simp [hd]))

theorem okDigits_false_of_digits (l : Str) (hne : l ≠ []) (h : ∀ c ∈ l, c.isDigit = true) :
    okDigits false l = true := by
  cases l with
  | nil => exact absurd rfl hne
  | cons c cs =>
    have hc := h c (by simp)
    simp only [okDigits, hc, if_true]
    exact okDigits_true_of_digits cs (fun d hd => h d (by simp [hd]))

theorem filter_digits (l : Str) (h : ∀ c ∈ l, c.isDigit = true) : l.filter Char.isDigit = l := by
  rw [List.filter_eq_self]; exact h

theorem dpVal_digits (l : Str) (hne : l ≠ []) (h : ∀ c ∈ l, c.isDigit = true) :
    dpVal l = some (Nat.ofDigitChars 10 l 0, l.length) := by
  unfold dpVal
  rw [if_neg hne, if_pos (okDigits_false_of_digits l hne h), filter_digits l h]

theorem splitOn1_none (p : Char → Bool) (l : Str) (h : ∀ c ∈ l, p c = false) :
    splitOn1 p l = (l, none) := by
  induction l with
  | nil => rfl
  | cons c cs ih =>
    have hc := h c (by simp)
    have := ih (fun d hd => h d (by simp [hd]))
    simp [splitOn1, hc, this]

theorem splitOn1_some (p : Char → Bool) (a b : Str) (c : Char) (hc : p c = true)
    (h : ∀ d ∈ a, p d = false) : splitOn1 p (a ++ c :: b) = (a, some b) := by
  induction a with
  | nil => simp [splitOn1, hc]
  | cons d ds ih =>
    have hd := h d (by simp)
    have := ih (fun e he => h e (by simp [he]))
    simp [splitOn1, hd, this]

theorem isDigit_toDigits (n : Nat) : ∀ c ∈ Nat.toDigits 10 n, c.isDigit = true :=
  fun _ hc => Nat.isDigit_of_mem_toDigits (by decide) (by decide) hc

theorem isDigit_pad (p m : Nat) : ∀ c ∈ pad p m, c.isDigit = true := by
  intro c hc
  unfold pad at hc
  rcases List.mem_append.mp hc with h | h
  · rw [(List.mem_replicate.mp h).2]; rfl
  · exact isDigit_toDigits m c h

theorem pad_val (p m : Nat) : Nat.ofDigitChars 10 (pad p m) 0 = m := by
  unfold pad
  rw [Nat.ofDigitChars_append, Nat.ofDigitChars_replicate_zero, Nat.mul_zero,
    Nat.ofDigitChars_ten_toDigits]

theorem pad_length (p m : Nat) (hp : 0 < p) (hm : m < 10 ^ p) : (pad p m).length = p := by
  unfold pad
  have := (Nat.length_toDigits_le_iff (b := 10) (n := m) (k := p) (by decide) hp).mpr hm
  simp only [List.length_append, List.length_replicate]
  omega

/-- facts about a digit character used to steer the reader. -/
theorem digit_toNat (c : Char) (h : c.isDigit = true) : 48 ≤ c.toNat ∧ c.toNat ≤ 57 := by
  have := Char.isDigit_iff_toNat.mp h
  simpa using this

theorem digit_ne (c d : Char) (h : c.isDigit = true) (hd : d.toNat < 48 ∨ 57 < d.toNat) : c ≠ d := by
  intro hc; subst hc
  have := digit_toNat c h
  omega

theorem digit_not_space (c : Char) (h : c.isDigit = true) : isSpace c = false := by
  have h1 := digit_toNat c h
  simp only [isSpace, Bool.or_eq_false_iff, Bool.and_eq_false_iff, decide_eq_false_iff_not,
    beq_eq_false_iff_ne]
  omega

theorem digit_lower (c : Char) (h : c.isDigit = true) : lowerChar c = c := by
  have h1 := digit_toNat c h
  unfold lowerChar
  rw [if_neg]
  intro hh
  have h2 := hh.1
  rw [Char.le_def, UInt32.le_iff_toNat_le] at h2
  have : (65 : Nat) ≤ c.toNat := h2
  omega

end RegionsVerif.Impl.Dec
