/-
Impl model of `regions/core/mask.py` (class `RegionMask`): `to_image`, `cutout`,
`multiply`, `get_values`.

A 2-D numpy array is modelled as its shape `(ny, nx)` plus an element function
`Int → Int → α` (row `y`, column `x`); only in-range indices are ever looked at.
numpy basic slicing is a *parameter* of the model with this assumed law (trusted base):
for in-range, equal-shaped windows, `a[s0:e0, s1:e1] = b[t0:t1, u0:u1]` sets
`a[y][x] := b[y - s0 + t0][x - s1 + u0]` for `s0 ≤ y < e0`, `s1 ≤ x < e1` and leaves
the other elements alone; `a[s0:e0, s1:e1]` as a value is the array
`(j, i) ↦ a[s0 + j][s1 + i]` of shape `(e0 - s0, e1 - s1)`.
-/
import RegionsVerif.Impl.BBox

namespace RegionsVerif.Impl

/-- a 2-D array. -/
structure Arr (α : Type) where
  ny : Int
  nx : Int
  el : Int → Int → α

/-- `RegionMask`: data with `data.shape == bbox.shape` (checked by `__init__`). -/
structure Mask (α : Type) where
  data : Int → Int → α     -- indexed (row j, column i) in box coordinates
  bbox : BBox

variable {α : Type}

/-- slice assignment primitive (see header). -/
def sliceAssign (a : Int → Int → α) (ly lx : Slice) (b : Int → Int → α) (sy sx : Slice) :
    Int → Int → α :=
  fun y x => if ly.start ≤ y ∧ y < ly.stop ∧ lx.start ≤ x ∧ x < lx.stop
             then b (y - ly.start + sy.start) (x - lx.start + sx.start) else a y x

/-- slice read primitive. -/
def sliceRead (a : Int → Int → α) (ly lx : Slice) : Arr α :=
  ⟨ly.stop - ly.start, lx.stop - lx.start, fun j i => a (ly.start + j) (lx.start + i)⟩

/-- `to_image(shape)`: `None` when there is no overlap, else zeros with the mask inserted. -/
def Mask.toImage [Zero α] (m : Mask α) (ny nx : Int) : Option (Arr α) :=
  match m.bbox.overlapSlices ny nx with
  | none => none
  | some (l, s) => some ⟨ny, nx, sliceAssign (fun _ _ => 0) l.1 l.2 m.data s.1 s.2⟩

/-- result of `cutout`: the array and whether it is a view into the input. -/
structure Cutout (α : Type) where
  arr : Arr α
  isView : Bool
  promoted : Bool   -- dtype switched to float because the fill value is not representable

/-- `cutout(data, fill_value, copy)`.  `fillFinite` is `np.isfinite(fill_value)`. -/
def Mask.cutout (m : Mask α) (img : Arr α) (fill : α) (fillFinite : Bool) (copy : Bool) :
    Option (Cutout α) :=
  match m.bbox.overlapSlices img.ny img.nx with
  | none => none
  | some (l, s) =>
    let cutoutShape := (s.1.stop - s.1.start, s.2.stop - s.2.start)
    if cutoutShape = m.bbox.shape then
      some ⟨sliceRead img.el l.1 l.2, !copy, false⟩
    else
      some ⟨⟨m.bbox.shape.1, m.bbox.shape.2,
             sliceAssign (fun _ _ => fill) s.1 s.2 img.el l.1 l.2⟩, false, !fillFinite⟩

/-- `multiply(data, fill_value)`: `cutout * self.data`, then `fill` where the weight is 0. -/
def Mask.multiply [Mul α] [Zero α] [DecidableEq α] (m : Mask α) (img : Arr α) (fill : α)
    (fillFinite : Bool) : Option (Arr α) :=
  match m.cutout img fill fillFinite false with
  | none => none
  | some c => some ⟨c.arr.ny, c.arr.nx,
      fun j i => if m.data j i = 0 then fill else c.arr.el j i * m.data j i⟩

/-- `get_values(data, mask)`: row-major list of `data * weight` over the overlap window where
`weight > 0` and the pixel is not user-masked; `[]` when there is no overlap. -/
def Mask.getValues [Mul α] [Zero α] [LT α] [DecidableLT α] (m : Mask α) (img : Arr α)
    (userMask : Option (Int → Int → Bool)) : List α :=
  match m.bbox.overlapSlices img.ny img.nx with
  | none => []
  | some (l, s) =>
    let h := (l.1.stop - l.1.start).toNat
    let w := (l.2.stop - l.2.start).toNat
    (List.range h).flatMap fun (j : Nat) =>
      (List.range w).filterMap fun (i : Nat) =>
        let wt := m.data (s.1.start + j) (s.2.start + i)
        let good := decide (0 < wt) &&
          (match userMask with
           | none => true
           | some um => !um (l.1.start + j) (l.2.start + i))
        if good then some (img.el (l.1.start + j) (l.2.start + i) * wt) else none

end RegionsVerif.Impl
