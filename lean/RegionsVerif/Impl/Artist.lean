/-
Impl model of `as_artist` (`regions/shapes/*.py`, `regions/core/compound.py`,
`regions/core/bounding_box.py`) and of `RegionVisual.define_mpl_kwargs`
(`regions/core/metadata.py`).

Part 1 states the *documented meaning* of the matplotlib artists the code creates.  It is a
PARAMETER of the model (matplotlib is not verified here; the correspondence run exercises
the real patches through an independent winding-number oracle):

* `Rectangle(xy, width, height, angle)` – the rectangle whose lower-left corner is `xy`,
  rotated by `angle` DEGREES counter-clockwise ABOUT `xy`;
* `Ellipse(xy, width, height, angle)` – centred at `xy`, full axes `width`, `height`;
* `Circle(xy, radius)`; `Polygon(xy)`; `Arrow(x, y, dx, dy)`; `Line2D(xdata, ydata)`;
  `Text(x, y, s)`; `PathPatch(Path(vertices, codes))`, filled by the non-zero winding rule.

The rotation by `angle` degrees enters through a function `rot : α → Dir α`
(`Affine2D.rotate_deg`: `(cos, sin)` of `angle·π/180`); over `ℝ` it is instantiated with the
real trigonometric functions in `Props/C18.lean`.

Part 2 mirrors the code line by line: which constructor, which arguments
(`xy = _lower_left_xy − origin`, `angle = self.angle.to('deg').value`, width/height order,
origin subtraction), the annulus path construction and the keyword-argument dictionaries.
-/
import RegionsVerif.Impl.Region
import Mathlib.Data.Rat.Defs

namespace RegionsVerif.Impl.Artist
open RegionsVerif.Impl

/-! ## Part 1 — matplotlib artists: constructor arguments and their meaning -/

/-- path codes of `matplotlib.path.Path`. -/
def MOVETO : Nat := 1
def LINETO : Nat := 2
def CURVE4 : Nat := 4
def CLOSEPOLY : Nat := 79

/-- the artists `as_artist` returns, with their constructor arguments. -/
inductive Patch (α : Type) where
  | circle (xy : Pt α) (radius : α)
  | ellipse (xy : Pt α) (width height angle : α)
  | rectangle (xy : Pt α) (width height angle : α)
  | polygon (xy : List (Pt α))
  | arrow (x y dx dy : α)
  | line2D (xdata ydata : List α)
  | text (x y : α) (s : String)
  | pathPatch (verts : List (Pt α)) (codes : List Nat)
deriving DecidableEq, Repr

def Patch.kind {α : Type} : Patch α → String
  | .circle .. => "Circle"
  | .ellipse .. => "Ellipse"
  | .rectangle .. => "Rectangle"
  | .polygon .. => "Polygon"
  | .arrow .. => "Arrow"
  | .line2D .. => "Line2D"
  | .text .. => "Text"
  | .pathPatch .. => "PathPatch"

section sums
variable {γ β : Type} [AddCommGroup β]

/-- `Σ f(vᵢ, vᵢ₊₁)` over the consecutive vertices of an open chain. -/
def chain (f : γ → γ → β) : List γ → β
  | [] => 0
  | p :: t => (match t.head? with | some q => f p q | none => 0) + chain f t

/-- `Σ f(vᵢ, vᵢ₊₁)` over the edges of the CLOSED polygon with the given vertices (the last
edge runs from the last vertex back to the first). -/
def cycSum (f : γ → γ → β) (l : List γ) : β :=
  chain f l + (match l.getLast?, l.head? with | some z, some h => f z h | _, _ => 0)

end sums

section field
variable {α : Type} [Field α] [LinearOrder α] [IsStrictOrderedRing α]

/-- interior of `Rectangle(xy, w, h, angle)`: the unit square scaled by `(w, h)`, moved to
`xy`, rotated by `angle` degrees about `xy`. -/
def inRectangle (rot : α → Dir α) (xy : Pt α) (w h angle : α) (p : Pt α) : Prop :=
  ∃ a b : α, 0 < a ∧ a < w ∧ 0 < b ∧ b < h ∧
    p.x = xy.x + a * (rot angle).c - b * (rot angle).s ∧
    p.y = xy.y + a * (rot angle).s + b * (rot angle).c

/-- the same with its outline. -/
def onOrInRectangle (rot : α → Dir α) (xy : Pt α) (w h angle : α) (p : Pt α) : Prop :=
  ∃ a b : α, 0 ≤ a ∧ a ≤ w ∧ 0 ≤ b ∧ b ≤ h ∧
    p.x = xy.x + a * (rot angle).c - b * (rot angle).s ∧
    p.y = xy.y + a * (rot angle).s + b * (rot angle).c

/-- interior of `Ellipse(xy, w, h, angle)`: the unit circle scaled by `(w/2, h/2)`, rotated by
`angle` degrees, centred at `xy`. -/
def inEllipse (rot : α → Dir α) (xy : Pt α) (w h angle : α) (p : Pt α) : Prop :=
  ∃ a b : α, (a / (w / 2)) ^ 2 + (b / (h / 2)) ^ 2 < 1 ∧
    p.x = xy.x + a * (rot angle).c - b * (rot angle).s ∧
    p.y = xy.y + a * (rot angle).s + b * (rot angle).c

def onOrInEllipse (rot : α → Dir α) (xy : Pt α) (w h angle : α) (p : Pt α) : Prop :=
  ∃ a b : α, (a / (w / 2)) ^ 2 + (b / (h / 2)) ^ 2 ≤ 1 ∧
    p.x = xy.x + a * (rot angle).c - b * (rot angle).s ∧
    p.y = xy.y + a * (rot angle).s + b * (rot angle).c

/-- interior of `Circle(xy, radius)`. -/
def inCircle (xy : Pt α) (r : α) (p : Pt α) : Prop := (p.x - xy.x) ^ 2 + (p.y - xy.y) ^ 2 < r ^ 2

def onOrInCircle (xy : Pt α) (r : α) (p : Pt α) : Prop := (p.x - xy.x) ^ 2 + (p.y - xy.y) ^ 2 ≤ r ^ 2

/-- the transformed path of a `Rectangle` patch: the four corners starting at `xy`,
counter-clockwise, and the closing vertex; codes `MOVETO, LINETO×3, CLOSEPOLY`. -/
def rectanglePath (rot : α → Dir α) (xy : Pt α) (w h angle : α) : List (Pt α) × List Nat :=
  let c := (rot angle).c
  let s := (rot angle).s
  ([xy, ⟨xy.x + w * c, xy.y + w * s⟩, ⟨xy.x + w * c - h * s, xy.y + w * s + h * c⟩,
    ⟨xy.x - h * s, xy.y + h * c⟩, xy],
   [MOVETO, LINETO, LINETO, LINETO, CLOSEPOLY])

/-! ### polygons and paths: signed area and winding number -/

/-- `x₁y₂ − y₁x₂`. -/
def cross (p q : Pt α) : α := p.x * q.y - p.y * q.x

/-- twice the signed area of the closed polygon (shoelace formula); positive =
counter-clockwise. -/
def shoelace (l : List (Pt α)) : α := cycSum cross l

/-- `> 0` iff `p` lies to the left of the directed line `a → b`. -/
def isLeft (a b p : Pt α) : α := (b.x - a.x) * (p.y - a.y) - (p.x - a.x) * (b.y - a.y)

/-- contribution of the directed edge `a → b` to the winding number about `p`: `+1` for an
upward edge that passes to the right of `p`… i.e. with `p` on its left, `−1` for a downward
edge with `p` on its right, `0` otherwise (the rule the renderers use; half-open in `y` like
the even-odd test). -/
def windEdge (p a b : Pt α) : Int :=
  if a.y ≤ p.y ∧ p.y < b.y ∧ 0 < isLeft a b p then 1
  else if b.y ≤ p.y ∧ p.y < a.y ∧ isLeft a b p < 0 then -1
  else 0

/-- winding number of the closed polygon about `p`. -/
def wind (l : List (Pt α)) (p : Pt α) : Int := cycSum (windEdge p) l

/-- the non-zero winding rule for a compound path given by its closed sub-polygons. -/
def insideNonzero (subs : List (List (Pt α))) (p : Pt α) : Prop :=
  (subs.foldr (fun l acc => wind l p + acc) 0) ≠ 0

/-- the vertices that count in a closed sub-path `v₀ … vₙ₋₁, c` whose last code is
`CLOSEPOLY`: matplotlib ignores the vertex attached to `CLOSEPOLY`. -/
def closedPolygon (subpath : List (Pt α)) : List (Pt α) := subpath.dropLast

/-! ## Part 2 — the region side: what `as_artist` computes -/

/-- an angle parameter: `np.cos/np.sin(self.angle)` and `self.angle.to('deg').value`. -/
structure Ang (α : Type) where
  dir : Dir α
  deg : α
deriving DecidableEq, Repr

/-- pixel regions as seen by `as_artist`. -/
inductive AReg (α : Type) where
  | circle (c : Pt α) (r : α)
  | ellipse (c : Pt α) (w h : α) (a : Ang α)
  | rect (c : Pt α) (w h : α) (a : Ang α)
  | polygon (vs : List (Pt α))
  | regularPolygon (c : Pt α) (vs : List (Pt α))   -- `RegularPolygonPixelRegion`: its `center` and computed `vertices`
  | circleAnnulus (c : Pt α) (r1 r2 : α)
  | ellipseAnnulus (c : Pt α) (w1 h1 w2 h2 : α) (a : Ang α)
  | rectAnnulus (c : Pt α) (w1 h1 w2 h2 : α) (a : Ang α)
  | point (c : Pt α)
  | line (a b : Pt α)
  | text (c : Pt α) (s : String)
  | compound (op : BoolOp) (r1 r2 : AReg α)

/-- `p − origin`, as in `self.center.x - origin[0], self.center.y - origin[1]`. -/
def minusOrigin (p o : Pt α) : Pt α := ⟨p.x - o.x, p.y - o.y⟩

/-- `as_artist` of the classes that build one matplotlib object directly. -/
def simpleArtist : AReg α → Pt α → Option (Patch α)
  -- circle.py: xy = center − origin; Circle(xy=xy, radius=radius)
  | .circle c r, o => some (.circle (minusOrigin c o) r)
  -- ellipse.py: xy = center − origin; angle = self.angle.to('deg').value
  | .ellipse c w h a, o => some (.ellipse (minusOrigin c o) w h a.deg)
  -- rectangle.py: xy = self._lower_left_xy(); xy = xy − origin; angle in degrees
  | .rect c w h a, o => some (.rectangle (minusOrigin (Rect.mk c w h a.dir).lowerLeft o) w h a.deg)
  -- polygon.py: xy = vstack([vertices.x − origin[0], vertices.y − origin[1]]).T
  | .polygon vs, o => some (.polygon (vs.map fun v => minusOrigin v o))
  -- RegularPolygonPixelRegion inherits PolygonPixelRegion.as_artist
  | .regularPolygon _ vs, o => some (.polygon (vs.map fun v => minusOrigin v o))
  -- line.py: Arrow(start.x − origin[0], start.y − origin[1], end.x − start.x, end.y − start.y)
  | .line a b, o => some (.arrow (a.x - o.x) (a.y - o.y) (b.x - a.x) (b.y - a.y))
  -- point.py: Line2D([center.x − origin[0]], [center.y − origin[1]])
  | .point c, o => some (.line2D [c.x - o.x] [c.y - o.y])
  -- text.py: Text(center.x − origin[0], center.y − origin[1], self.text)
  | .text c s, o => some (.text (c.x - o.x) (c.y - o.y) s)
  | _, _ => none

/-- `verts_inner = path_inner.vertices[:-1][::-1]`;
`verts_inner = np.concatenate((verts_inner, [verts_inner[-1]]))`
(`none` in the last step = `IndexError` on an empty array). -/
def reversedInner (vi : List (Pt α)) : List (Pt α) :=
  let r := vi.dropLast.reverse
  match r.getLast? with
  | some l => r ++ [l]
  | none => r

/-- `CompoundPixelRegion._make_annulus_path`: `verts = vstack((outer, verts_inner))`,
`codes = hstack((outer.codes, inner.codes))`. -/
def makeAnnulusPath (pathInner pathOuter : List (Pt α) × List Nat) : List (Pt α) × List Nat :=
  (pathOuter.1 ++ reversedInner pathInner.1, pathOuter.2 ++ pathInner.2)

/-- `region.center` (`none` = the class has no such attribute). -/
def AReg.center : AReg α → Option (Pt α)
  | .circle c _ | .ellipse c _ _ _ | .rect c _ _ _ | .point c | .text c _ | .regularPolygon c _ => some c
  | .circleAnnulus c _ _ | .ellipseAnnulus c _ _ _ _ _ | .rectAnnulus c _ _ _ _ _ => some c
  | _ => none

/-- the components `_inner_region`, `_outer_region` of the three annuli. -/
def AReg.components : AReg α → Option (AReg α × AReg α)
  | .circleAnnulus c r1 r2 => some (.circle c r1, .circle c r2)
  | .ellipseAnnulus c w1 h1 w2 h2 a => some (.ellipse c w1 h1 a, .ellipse c w2 h2 a)
  | .rectAnnulus c w1 h1 w2 h2 a => some (.rect c w1 h1 a, .rect c w2 h2 a)
  | .compound _ r1 r2 => some (r1, r2)
  | _ => none

/-- `CompoundPixelRegion.as_artist` for components that are simple shapes:
`if region1.center == region2.center and operator is xor:` build the `PathPatch` from
`region1.as_artist(origin)` (inner) and `region2.as_artist(origin)` (outer); otherwise
`ValueError`.  `pathOf` = `patch.get_transform().transform_path(patch.get_path())`
(matplotlib, a parameter). -/
def compoundArtist (pathOf : Patch α → List (Pt α) × List Nat) (op : BoolOp) (r1 r2 : AReg α)
    (o : Pt α) : Except String (Patch α) :=
  match r1.center, r2.center with
  | some c1, some c2 =>
    if c1 = c2 ∧ op = .xor then
      match simpleArtist r1 o, simpleArtist r2 o with
      | some pin, some pout =>
        let path := makeAnnulusPath (pathOf pin) (pathOf pout)
        .ok (.pathPatch path.1 path.2)
      | _, _ => .error "unsupported"          -- nested compounds: not modelled
    else .error "ValueError"
  | _, _ => .error "AttributeError"

/-- `as_artist(origin)` of every pixel region class; annuli delegate to their xor compound. -/
def asArtist (pathOf : Patch α → List (Pt α) × List Nat) (r : AReg α) (o : Pt α) :
    Except String (Patch α) :=
  match r with
  | .circleAnnulus c r1 r2 => compoundArtist pathOf .xor (.circle c r1) (.circle c r2) o
  | .ellipseAnnulus c w1 h1 w2 h2 a => compoundArtist pathOf .xor (.ellipse c w1 h1 a) (.ellipse c w2 h2 a) o
  | .rectAnnulus c w1 h1 w2 h2 a => compoundArtist pathOf .xor (.rect c w1 h1 a) (.rect c w2 h2 a) o
  | .compound op r1 r2 => compoundArtist pathOf op r1 r2 o
  | r =>
    match simpleArtist r o with
    | some p => .ok p
    | none => .error "unsupported"

/-- `RegionBoundingBox.as_artist`: `Rectangle(xy=(extent[0], extent[2]), width=shape[1],
height=shape[0])` with `extent = (ixmin − 0.5, ixmax − 0.5, iymin − 0.5, iymax − 0.5)`; the
angle keeps matplotlib's default `0`. -/
def bboxArtist (ixmin ixmax iymin iymax : Int) : Patch α :=
  .rectangle ⟨(ixmin : α) - 1 / 2, (iymin : α) - 1 / 2⟩ ((ixmax : α) - ixmin) ((iymax : α) - iymin) 0

/-- the region in the vocabulary of `Impl.Region` (for `contains`). -/
def AReg.toPReg (i : Include) : AReg α → PReg α
  | .circle c r => .circle ⟨c, r⟩ i
  | .ellipse c w h a => .ellipse ⟨c, w, h, a.dir⟩ i
  | .rect c w h a => .rect ⟨c, w, h, a.dir⟩ i
  | .polygon vs => .polygon ⟨vs⟩ i
  | .regularPolygon _ vs => .polygon ⟨vs⟩ i
  | .circleAnnulus c r1 r2 => .circleAnnulus c r1 r2 i
  | .ellipseAnnulus c w1 h1 w2 h2 a => .ellipseAnnulus c w1 h1 w2 h2 a.dir i
  | .rectAnnulus c w1 h1 w2 h2 a => .rectAnnulus c w1 h1 w2 h2 a.dir i
  | .point c => .empty .point c c i
  | .line a b => .empty .line a b i
  | .text c _ => .empty .text c c i
  | .compound op r1 r2 => .compound op (r1.toPReg i) (r2.toPReg i) i

end field

/-! ### polygons whose vertices are numpy INTEGER arrays

`PixCoord` keeps the dtype of array coordinates (scalar coordinates become Python numbers via
`.item()`), so `self.vertices.x - origin[0]` is numpy arithmetic: with a Python `int` origin
component the subtraction stays in the array's dtype (NEP 50) — `OverflowError` when the Python
int does not fit the dtype, silent wrap-around when the difference does not; with any other
origin component (Python float, numpy float64/int64 scalar or array) the result is promoted and
exact. -/

structure IntDT where
  bits : Nat
  signed : Bool
deriving DecidableEq, Repr

def IntDT.lo (d : IntDT) : Int := if d.signed then -(2 ^ (d.bits - 1)) else 0
def IntDT.hi (d : IntDT) : Int := if d.signed then 2 ^ (d.bits - 1) - 1 else 2 ^ d.bits - 1
/-- two's-complement wrap-around into the dtype's range. -/
def IntDT.wrap (d : IntDT) (n : Int) : Int := (n - d.lo) % (2 ^ d.bits) + d.lo

/-- `int_array - python_int` for one element. -/
def npSubPyInt (d : IntDT) (v o : Int) : Except String Int :=
  if o < d.lo ∨ d.hi < o then .error "OverflowError" else .ok (d.wrap (v - o))

/-- one component of the plot origin. -/
inductive OriginC (α : Type) where
  | pyInt (n : Int)          -- a Python int
  | other (x : α)            -- Python float, numpy scalar or array element (promotes)
deriving Repr

section intpoly
variable {α : Type} [Field α]

def OriginC.val : OriginC α → α
  | .pyInt n => (n : α)
  | .other x => x

def subIntCoord (d : IntDT) (v : Int) : OriginC α → Except String α
  | .pyInt o =>
    match npSubPyInt d v o with
    | .ok n => .ok (n : α)
    | .error e => .error e
  | .other x => .ok ((v : α) - x)

def subIntCoords (d : IntDT) (o : OriginC α) : List Int → Except String (List α)
  | [] => .ok []
  | v :: t =>
    match subIntCoord d v o, subIntCoords d o t with
    | .ok a, .ok r => .ok (a :: r)
    | .error e, _ => .error e
    | _, .error e => .error e

/-- `PolygonPixelRegion.as_artist` for integer vertex arrays of dtype `d`. -/
def polygonArtistInt (d : IntDT) (vs : List (Int × Int)) (ox oy : OriginC α) : Except String (Patch α) :=
  match subIntCoords d ox (vs.map Prod.fst), subIntCoords d oy (vs.map Prod.snd) with
  | .ok xs, .ok ys => .ok (.polygon (List.zipWith Pt.mk xs ys))
  | .error e, _ => .error e
  | _, .error e => .error e

/-- the component cannot overflow or wrap: either it promotes, or the Python int and every
difference fit the dtype. -/
def coordSafe (d : IntDT) (o : OriginC α) (vs : List Int) : Bool :=
  match o with
  | .other _ => true
  | .pyInt n => decide (d.lo ≤ n ∧ n ≤ d.hi) && vs.all fun v => decide (d.lo ≤ v - n ∧ v - n ≤ d.hi)

end intpoly

/-! ## keyword arguments: `RegionVisual.define_mpl_kwargs` and the caller's `**kwargs` -/

/-- values of visual attributes / matplotlib keyword arguments. -/
inductive KVal where
  | str (s : String)
  | num (q : ℚ)
  | bool (b : Bool)
  | none
  | nums (l : List ℚ)          -- e.g. `dashes`
  | other (repr : String)      -- e.g. the DS9 `boxcircle` / `arrow` marker paths
deriving DecidableEq, Repr

/-- an insertion-ordered Python `dict` with string keys. -/
abbrev Kw := List (String × KVal)

/-- `d[k]` / `d.get(k)`. -/
def Kw.get : Kw → String → Option KVal
  | [], _ => Option.none
  | (k', v') :: t, k => if k' = k then some v' else Kw.get t k

/-- `d[k] = v`: replace in place, or append. -/
def Kw.set : Kw → String → KVal → Kw
  | [], k, v => [(k, v)]
  | (k', v') :: t, k, v => if k' = k then (k, v) :: t else (k', v') :: Kw.set t k v

/-- `d.update(o)` (items of `o` in order). -/
def Kw.update (d o : Kw) : Kw := o.foldl (fun acc e => acc.set e.1 e.2) d

/-- `d.pop(k, None)`. -/
def Kw.pop : Kw → String → Kw
  | [], _ => []
  | (k', v') :: t, k => if k' = k then Kw.pop t k else (k', v') :: Kw.pop t k

/-- the value an item sequence gives to `k` when it is turned into a dict: the LAST one. -/
def Kw.last : Kw → String → Option KVal
  | [], _ => Option.none
  | (k', v') :: t, k =>
    match Kw.last t k with
    | some v => some v
    | Option.none => if k' = k then some v' else Option.none

/-- the `artist` argument of `define_mpl_kwargs` (`_mpl_artist` of the region class). -/
inductive ArtistKind | patch | line2D | text
deriving DecidableEq, Repr

/-- `_mpl_artist` per class: points → `'Line2D'`, text → `'Text'`, all others → `'Patch'`. -/
def artistKindOf {α : Type} : AReg α → ArtistKind
  | .point _ => .line2D
  | .text _ _ => .text
  | _ => .patch

/-- `_define_default_mpl_kwargs`. -/
def defaultKw (a : ArtistKind) (vis : Kw) : Kw :=
  let style := vis.get "default_style"
  if style = Option.none ∨ style = some KVal.none ∨ style = some (.str "mpl") then
    match a with
    | .patch => [("fill", .bool false)]
    | .line2D => [("fillstyle", .str "none"), ("marker", .str "o")]
    | .text => []
  else if style = some (.str "ds9") then
    match a with
    | .text => [("color", .str "#00ff00"), ("ha", .str "center"), ("va", .str "center")]
    | .line2D => [("marker", .other "ds9:boxcircle"), ("markersize", .num 11),
                  ("markeredgecolor", .str "#00ff00"), ("fillstyle", .str "none")]
    | .patch => [("edgecolor", .str "#00ff00"), ("fill", .bool false)]
  else []

/-- the `keymap` of `_to_mpl_kwargs` (identity on keys it does not list). -/
def rename (a : ArtistKind) (k : String) : String :=
  match a with
  | .text =>
    if k = "font" then "family" else if k = "fontstyle" then "style"
    else if k = "fontweight" then "weight" else if k = "fontsize" then "size"
    else if k = "textangle" then "rotation" else k
  | .line2D =>
    if k = "symsize" then "markersize" else if k = "color" then "markeredgecolor"
    else if k = "linewidth" then "markeredgewidth" else if k = "fill" then "fillstyle" else k
  | .patch => if k = "color" then "edgecolor" else k

/-- X11/mpl green is `#008000`, ds9 uses `#00ff00`. -/
def ds9Green (v : KVal) : KVal := if v = .str "green" then .str "#00ff00" else v

def mapValues (f : KVal → KVal) (d : Kw) : Kw := d.map fun e => (e.1, f e.2)

/-- `_to_mpl_kwargs`. -/
def toMplKw (a : ArtistKind) (vis : Kw) : Kw :=
  let kw := Kw.update [] (vis.map fun e => (rename a e.1, e.2))
  let style := kw.get "default_style"
  let kw := kw.pop "default_style"
  if style = some (.str "ds9") then mapValues ds9Green kw else kw

/-- keys removed at the end of `define_mpl_kwargs`. -/
def removeKeys : ArtistKind → List String
  | .text => ["linewidth"]
  | _ => ["fontname", "fontsize", "fontweight", "fontstyle"]

def popAll (d : Kw) (ks : List String) : Kw := ks.foldl Kw.pop d

/-- `RegionVisual.define_mpl_kwargs(artist)`. -/
def defineMplKw (a : ArtistKind) (vis : Kw) : Kw :=
  popAll ((defaultKw a vis).update (toMplKw a vis)) (removeKeys a)

/-- the float `0.1`. -/
def float0_1 : ℚ := 3602879701896397 / 36028797018963968

/-- `kwargs.setdefault('width', 0.1)` of `LinePixelRegion.as_artist`. -/
def lineCallerKw (caller : Kw) : Kw :=
  match caller.get "width" with
  | some _ => caller
  | Option.none => caller ++ [("width", .num float0_1)]

/-- the keyword arguments the artist constructor finally receives:
`mpl_kwargs = self.visual.define_mpl_kwargs(self._mpl_artist); mpl_kwargs.update(kwargs)`. -/
def finalKw (a : ArtistKind) (vis caller : Kw) : Kw := (defineMplKw a vis).update caller

/-- the same for a region (the line region first applies its `setdefault`). -/
def regionKw {α : Type} (r : AReg α) (vis caller : Kw) : Kw :=
  match r with
  | .line _ _ => finalKw .patch vis (lineCallerKw caller)
  | r => finalKw (artistKindOf r) vis caller

/-! ### how matplotlib consumes the keyword dictionary (a PARAMETER, from the constructors'
signatures and `_alias_to_prop` tables of matplotlib 3.11)

Every artist constructor takes some properties as explicit parameters and passes the remaining
keywords on: `Patch`/`Line2D` to `_internal_update` (applied in dictionary order, a later
spelling of the same property wins over an earlier one and over the explicit parameter);
`Text` to `Text.update`, which first calls `cbook.normalize_kwargs` and raises `TypeError`
("Got both 'size' and 'fontsize', which are aliases of one another") when two spellings of one
property are present. -/

/-- `_alias_to_prop` of `Patch`, `Line2D`, `Text`: alias ↦ property. -/
def aliasTable : ArtistKind → List (String × String)
  | .patch => [("aa", "antialiased"), ("ec", "edgecolor"), ("fc", "facecolor"), ("ls", "linestyle"),
               ("lw", "linewidth")]
  | .line2D => [("aa", "antialiased"), ("c", "color"), ("ds", "drawstyle"), ("ls", "linestyle"),
                ("lw", "linewidth"), ("mec", "markeredgecolor"), ("mew", "markeredgewidth"),
                ("mfc", "markerfacecolor"), ("mfcalt", "markerfacecoloralt"), ("ms", "markersize")]
  | .text => [("c", "color"), ("font", "fontproperties"), ("font_properties", "fontproperties"),
              ("family", "fontfamily"), ("name", "fontname"), ("size", "fontsize"),
              ("stretch", "fontstretch"), ("style", "fontstyle"), ("variant", "fontvariant"),
              ("weight", "fontweight"), ("ha", "horizontalalignment"), ("va", "verticalalignment"),
              ("ma", "multialignment")]

/-- keyword ↦ the property it sets (`alias_to_prop.get(k, k)`). -/
def canon (a : ArtistKind) (k : String) : String :=
  match (aliasTable a).lookup k with
  | some p => p
  | none => k

/-- the keyword-only parameters of `Patch.__init__`, `Line2D.__init__`, `Text.__init__`. -/
def explicitParams : ArtistKind → List String
  | .patch => ["edgecolor", "facecolor", "color", "linewidth", "linestyle", "antialiased", "hatch",
               "fill", "capstyle", "joinstyle", "hatchcolor", "edgegapcolor"]
  | .line2D => ["linewidth", "linestyle", "color", "gapcolor", "marker", "markersize",
                "markeredgewidth", "markeredgecolor", "markerfacecolor", "markerfacecoloralt",
                "fillstyle", "antialiased", "dash_capstyle", "solid_capstyle", "dash_joinstyle",
                "solid_joinstyle", "pickradius", "drawstyle", "markevery"]
  | .text => ["color", "verticalalignment", "horizontalalignment", "multialignment",
              "fontproperties", "rotation", "linespacing", "rotation_mode", "usetex", "wrap",
              "transform_rotates_text", "parse_math", "antialiased"]

def Kw.keys (d : Kw) : List String := d.map Prod.fst

/-- the keywords that are not explicit parameters (`**kwargs` of the constructor). -/
def mplRest (a : ArtistKind) (kw : Kw) : Kw := kw.filter fun e => decide (e.1 ∉ explicitParams a)

/-- two different spellings of one property among the keys. -/
def keyClash (a : ArtistKind) (ks : List String) : Bool :=
  ks.any fun k1 => ks.any fun k2 => decide (k1 ≠ k2) && decide (canon a k1 = canon a k2)

/-- the constructor raises `TypeError` (only `Text` normalises its keywords). -/
def mplRejects (a : ArtistKind) (kw : Kw) : Bool := decide (a = .text) && keyClash a (mplRest a kw).keys

/-- the value of the LAST entry whose keyword sets property `P`. -/
def lastCanon (a : ArtistKind) : Kw → String → Option KVal
  | [], _ => Option.none
  | (k', v') :: t, P =>
    match lastCanon a t P with
    | some v => some v
    | Option.none => if canon a k' = P then some v' else Option.none

/-- the value property `P` of the artist ends up with (`none` = matplotlib's own default). -/
def mplEffective (a : ArtistKind) (kw : Kw) (P : String) : Option KVal :=
  match lastCanon a (mplRest a kw) P with
  | some v => some v
  | Option.none => kw.get P

/-! ### the variant of `TextPixelRegion.as_artist` proposed in `proposed_fixes/F181.diff`

```
mpl_kwargs = cbook.normalize_kwargs(self.visual.define_mpl_kwargs('Text'), Text)
mpl_kwargs.update(cbook.normalize_kwargs(kwargs, Text))
```
The harness looks at the source of the method and asks for this variant when the code
normalises; the theorems cover both. -/

/-- `cbook.normalize_kwargs(kw, cls)`: `{alias_to_prop.get(k, k): v for k, v in kw.items()}`,
`TypeError` when two keys collapse (the lengths differ). -/
def normalizeKw (a : ArtistKind) (d : Kw) : Except String Kw :=
  let c := Kw.update [] (d.map fun e => (canon a e.1, e.2))
  if c.length = d.length then .ok c else .error "TypeError"

/-- the keyword dictionary `Text(...)` receives in the normalising variant. -/
def finalKwTextFixed (vis caller : Kw) : Except String Kw :=
  match normalizeKw .text (defineMplKw .text vis), normalizeKw .text caller with
  | .ok d, .ok c => .ok (d.update c)
  | .error e, _ => .error e
  | _, .error e => .error e

/-- the final dictionary of a region, for the current code (`textNormalize = false`) or the
normalising variant. -/
def regionKwV {α : Type} (textNormalize : Bool) (r : AReg α) (vis caller : Kw) : Except String Kw :=
  match r, textNormalize with
  | .text _ _, true => finalKwTextFixed vis caller
  | r, _ => .ok (regionKw r vis caller)

/-- decidable predicate that excludes exactly the failing input class: a keyword produced by
`define_mpl_kwargs` that spells the same matplotlib property as a caller keyword under a
DIFFERENT name must be an explicit constructor parameter (then the caller's alias, applied
afterwards, wins).  It fails e.g. for a text region with a stored `fontsize` (sent as `size`)
when the caller passes `fontsize`, and for the DS9 default `ha` against a caller
`horizontalalignment`. -/
def aliasSafe (a : ArtistKind) (vis caller : Kw) : Bool :=
  caller.keys.all fun k => (defineMplKw a vis).keys.all fun k' =>
    decide (k' = k) || decide (canon a k' ≠ canon a k) || decide (k' ∈ explicitParams a)

end RegionsVerif.Impl.Artist
