/-
The `sqrt` / `atan2` part of `pixel_scale_angle_at_skycoord` over `ℝ`, literally as the code
computes it, and the proof that it satisfies the root-free characterisation
`Impl.IsHelperResult` used by the generic model.

`np.arctan2(dy, dx)` is `Complex.arg (dx + i·dy)` (range `(-π, π]`).
-/
import RegionsVerif.Impl.Wcs
import Mathlib.Analysis.SpecialFunctions.Complex.Arg
import Mathlib.Analysis.SpecialFunctions.Sqrt
import Mathlib.Tactic.Linarith
import Mathlib.Tactic.FieldSimp

namespace RegionsVerif.Impl
open Real

/-- ```
scale = offset.to(u.arcsec) / (np.hypot(dx, dy) * u.pixel)
angle = (np.arctan2(dy, dx) * u.radian).to(u.deg)
```
`north` is what every consumer of `angle` uses: `(cos, sin)` of it. -/
noncomputable def helperReal (offset : ℝ) (d : HelperDelta ℝ) : Local ℝ :=
  let hyp := Real.sqrt (d.dx ^ 2 + d.dy ^ 2)
  let ang := Complex.arg ⟨d.dx, d.dy⟩
  ⟨offset / hyp, ⟨Real.cos ang, Real.sin ang⟩, ang * 180 / π⟩

/-- the helper over `ℝ` for a WCS given by its coordinate maps and astropy's
`directional_offset_by(0, offset)`. -/
noncomputable def realWcs {Sky : Type} (toPix : Sky → Pt ℝ) (toSky : Pt ℝ → Sky) (northOf : Sky → Sky)
    (offset : ℝ) : Wcs Sky ℝ :=
  ⟨toPix, toSky, fun q => helperReal offset (helperDelta toPix northOf q)⟩

theorem norm_mk (x y : ℝ) : ‖(⟨x, y⟩ : ℂ)‖ = Real.sqrt (x ^ 2 + y ^ 2) := by
  rw [Complex.norm_def, Complex.normSq_mk]
  congr 1; ring

/-- whenever the offset point does not coincide with the position in the image, the literal
formulas return `offset / h` and `(dx, dy) / h` with `h = hypot(dx, dy) > 0`. -/
theorem helperReal_spec (offset : ℝ) (d : HelperDelta ℝ) (hne : d.dx ≠ 0 ∨ d.dy ≠ 0) :
    IsHelperResult offset d (helperReal offset d) := by
  have hpos : 0 < d.dx ^ 2 + d.dy ^ 2 := by
    rcases hne with h | h
    · have := pow_pos (abs_pos.mpr h) 2; rw [sq_abs] at this; nlinarith [sq_nonneg d.dy]
    · have := pow_pos (abs_pos.mpr h) 2; rw [sq_abs] at this; nlinarith [sq_nonneg d.dx]
  have hz : (⟨d.dx, d.dy⟩ : ℂ) ≠ 0 := by
    intro h
    have h1 := congrArg Complex.re h
    have h2 := congrArg Complex.im h
    simp only [Complex.zero_re, Complex.zero_im] at h1 h2
    rcases hne with h' | h'
    · exact h' h1
    · exact h' h2
  refine ⟨Real.sqrt (d.dx ^ 2 + d.dy ^ 2), Real.sqrt_pos.mpr hpos, ?_, rfl, ?_, ?_⟩
  · rw [Real.sq_sqrt hpos.le]; rfl
  · show Real.cos (Complex.arg ⟨d.dx, d.dy⟩) = _
    rw [Complex.cos_arg hz, norm_mk]
  · show Real.sin (Complex.arg ⟨d.dx, d.dy⟩) = _
    rw [Complex.sin_arg, norm_mk]

/-- the number of degrees the helper reports is the angle whose `(cos, sin)` is `north`. -/
theorem helperReal_northDeg (offset : ℝ) (d : HelperDelta ℝ) :
    let l := helperReal offset d
    l.north = ⟨Real.cos (l.northDeg * π / 180), Real.sin (l.northDeg * π / 180)⟩ := by
  have hpi : (π : ℝ) ≠ 0 := Real.pi_ne_zero
  have e : Complex.arg ⟨d.dx, d.dy⟩ * 180 / π * π / 180 = Complex.arg ⟨d.dx, d.dy⟩ := by
    field_simp
  simp only [helperReal, e]

end RegionsVerif.Impl
