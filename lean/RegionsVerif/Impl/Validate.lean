/-
Impl model of the validation layer of `regions`:

* `regions/core/attributes.py`  – the `RegionAttribute` data descriptors (`_validate`, `__set__`,
  `__delete__`), one Lean validator per descriptor class, same tests in the same order, same
  exception classes;
* `regions/core/metadata.py`    – `Meta` / `RegionMeta` / `RegionVisual` and *every* `dict`
  mutation entry point (overridden or inherited);
* `regions/core/regions.py`     – the `Regions` list container;
* the constructors of all shape classes (`regions/shapes/*.py`, `core/compound.py`), as
  "constructor plans": the ordered list of attribute stores a constructor performs, with the
  checks that precede / follow them.

Python values are abstracted to the record `Val`: exactly the observations the code makes of a
value (`isinstance` → `kind`, `np.isscalar` / `.isscalar` → `scalar`, `.ndim`, `len`/`size`, the
numeric value with IEEE comparison semantics, `unit.physical_type`, the items of a mapping) plus an
opaque identity `tag` used to state "reads back unchanged".

The last section ("documented domains") is Spec: what the property text / the docstrings say a
valid object is.  Everything before it mirrors the code as it is.

Findings F11, F12a/b, F13a/b, F14b, F14c of `known_findings/C17.json` were repaired in `/repo`
(commits 7575e32, 50480bb, b15a97b, 942a7aa, ec59199); the model mirrors the repaired code and the
lines that changed are marked `-- (Fxx fixed)`.  F14 is open: the line that changes when it is
repaired is marked `-- [F14]` together with the replacement.
-/
import Mathlib.Data.Rat.Defs
import Mathlib.Algebra.Order.Ring.Rat

namespace RegionsVerif.Impl.Validate

/-! ## Values -/

/-- a float/int as the code sees it: an exact rational or an IEEE special. -/
inductive Num
  | fin (q : ℚ)
  | pinf
  | ninf
  | nan
deriving DecidableEq, Repr

namespace Num

/-- IEEE-754 `a <= b` (every comparison with NaN is `False`). -/
def le : Num → Num → Bool
  | nan, _ => false
  | _, nan => false
  | ninf, _ => true
  | _, pinf => true
  | pinf, _ => false
  | _, ninf => false
  | fin a, fin b => decide (a ≤ b)

/-- IEEE-754 `a < b`. -/
def lt : Num → Num → Bool
  | nan, _ => false
  | _, nan => false
  | pinf, _ => false
  | _, ninf => false
  | ninf, _ => true
  | _, pinf => true
  | fin a, fin b => decide (a < b)

/-- `np.isfinite`. -/
def isFinite : Num → Bool
  | fin _ => true
  | _ => false

/-- `x != 0` (truthiness of a number: NaN and ±inf are truthy). -/
def nonzero : Num → Bool
  | fin q => decide (q ≠ 0)
  | _ => true

end Num

/-- exception classes that can be observed (an exception is mapped to the first of these it is
an instance of, in this order: `KeyError`, `ValueError`, `TypeError`, `AttributeError`,
`IndexError`; e.g. astropy's `UnitConversionError` is a `ValueError`). -/
inductive Exc
  | valueError
  | typeError
  | keyError
  | attributeError
  | indexError
deriving DecidableEq, Repr

/-- what `isinstance` can tell about a value. -/
inductive Kind
  | pyNone | pyBool | pyInt | pyFloat | pyStr | pyBytes | pyList | pyTuple | pyDict
  | npScalar      -- numpy real scalar (np.float64, np.int32, np.bool_, …)
  | ndarray
  | quantity      -- astropy Quantity (incl. Angle)
  | pixCoord | skyCoord
  | pixRegion | skyRegion
  | regionMeta | regionVisual
  | callable      -- a function (compound-region operator)
  | other
deriving DecidableEq, Repr

/-- `Quantity.unit.physical_type`. -/
inductive Phys
  | none | angle | length | dimensionless | other
deriving DecidableEq, Repr

/-- abstract Python value. -/
structure Val where
  kind : Kind
  /-- `np.isscalar(v)`; for Quantity / PixCoord / SkyCoord: `v.isscalar`. -/
  scalar : Bool := false
  /-- `v.ndim` (`v.x.ndim` for a PixCoord). -/
  ndim : Nat := 0
  /-- number of elements (`len` for containers and non-scalar PixCoord, `size` for arrays). -/
  size : Nat := 1
  /-- numeric value (Quantity: in its canonical unit – degrees for angles). -/
  num : Num := .fin 0
  phys : Phys := .none
  /-- items of a mapping, in insertion order (values are opaque tokens). -/
  items : List (String × String) := []
  /-- opaque identity of the value (exact canonical text). -/
  tag : String := ""
deriving DecidableEq, Repr

namespace Val

/-- int / float / bool / numpy real scalar: the kinds on which `<`, `<=` with a number work. -/
def isReal (v : Val) : Bool :=
  match v.kind with
  | .pyBool | .pyInt | .pyFloat | .npScalar => true
  | _ => false

/-- `np.isscalar(v)`: `False` for every Quantity / PixCoord / SkyCoord (whose `scalar` field is
their own `.isscalar`). -/
def npIsScalar (v : Val) : Bool :=
  match v.kind with
  | .quantity | .pixCoord | .skyCoord => false
  | _ => v.scalar

/-- `isinstance(v, dict)`. -/
def isDict (v : Val) : Bool :=
  match v.kind with
  | .pyDict | .regionMeta | .regionVisual => true
  | _ => false

end Val

def vNone : Val := { kind := .pyNone, size := 0 }

/-! ## Python primitives used by the code (parameters of the model, exercised by the
correspondence run) -/

/-- `bool(v)` – used by `meta or RegionMeta()` and `if seq:`. -/
def pyTruth (v : Val) : Except Exc Bool :=
  match v.kind with
  | .pyNone => .ok false
  | .pyBool | .pyInt | .pyFloat | .npScalar => .ok v.num.nonzero
  | .pyStr | .pyBytes | .pyList | .pyTuple | .pyDict | .regionMeta | .regionVisual =>
      .ok (decide (v.size ≠ 0))
  | .ndarray => if v.size = 1 then .ok v.num.nonzero else .error .valueError
  | .quantity => .error .valueError              -- "Quantity truthiness is ambiguous"
  | .pixCoord => if v.scalar then .error .typeError   -- `__len__` of a scalar PixCoord raises
                 else .ok (decide (v.size ≠ 0))
  | .skyCoord | .pixRegion | .skyRegion | .callable | .other => .ok true

/-- `if v < c:` for a non-zero Python number `c` (only `nvertices < 3` uses it on unvalidated input). -/
def pyLtConst (v : Val) (c : ℚ) : Except Exc Bool :=
  match v.kind with
  | .pyBool | .pyInt | .pyFloat | .npScalar => .ok (Num.lt v.num (.fin c))
  | .ndarray => if v.size = 1 then .ok (Num.lt v.num (.fin c)) else .error .valueError
  | .quantity =>
      if v.phys = .dimensionless then
        (if v.size = 1 then .ok (Num.lt v.num (.fin c)) else .error .valueError)
      else .error .valueError                     -- UnitConversionError ⊂ ValueError
  | _ => .error .typeError

/-- `value <= 0` for a value with `np.isscalar(value)` (str / bytes: `TypeError`). -/
def pyLeZero (v : Val) : Except Exc Bool :=
  if v.isReal then .ok (Num.le v.num (.fin 0)) else .error .typeError

/-- `a >= b` between two values that both passed the same size validator (numbers, or angular
Quantities compared in a common unit). -/
def pyGe (a b : Val) : Bool := Num.le b.num a.num

/-- `vertices + origin` in `PolygonPixelRegion.__init__`.  If the left operand is a PixCoord this is
`PixCoord.__add__` (`TypeError` unless the right operand is a PixCoord, then numpy broadcasting);
`sum` / `bcastOk` are the exact coordinate sums and numpy's broadcasting verdict.  If the left
operand is not a PixCoord the `+` is Python's own (`foreign`: its outcome, e.g. `5 + 0 = 5`,
`None + x` → `TypeError`); PixCoord has no `__radd__`. -/
def pixAdd (a b : Val) (sum : Val) (bcastOk : Bool) (foreign : Except Exc Val) : Except Exc Val :=
  if a.kind ≠ .pixCoord then foreign
  else if b.kind ≠ .pixCoord then .error .typeError
  else if !bcastOk then .error .valueError
  else .ok sum

/-! ## Descriptors (`regions/core/attributes.py`) -/

inductive Descr
  | scalarPix | oneDPix | posScalar | scalarSky | oneDSky | scalarAngle | posScalarAngle
  | regionType (sky : Bool)
  | rmeta | rvisual
  | text          -- `TextString`  (F14c fixed)
deriving DecidableEq, Repr

/-- `_validate` of each descriptor class. -/
def validate : Descr → Val → Except Exc Unit
  | .scalarPix, v =>
      if v.kind = .pixCoord ∧ v.scalar = true then .ok () else .error .valueError
  | .oneDPix, v =>
      if v.kind = .pixCoord ∧ v.scalar = false ∧ v.ndim = 1 then .ok () else .error .valueError
  | .posScalar, v =>
      if v.kind = .quantity then .error .valueError
      else if v.npIsScalar = false then .error .valueError
      else match pyLeZero v with
        | .error e => .error e
        | .ok true => .error .valueError
        | .ok false =>               -- `or not np.isfinite(value)`  (F11 fixed)
            if v.num.isFinite then .ok () else .error .valueError
  | .scalarSky, v =>
      if v.kind = .skyCoord ∧ v.scalar = true then .ok () else .error .valueError
  | .oneDSky, v =>
      if v.kind = .skyCoord ∧ v.ndim = 1 then .ok () else .error .valueError
  | .scalarAngle, v =>
      if v.kind = .quantity then
        if v.scalar = false then .error .valueError
        else if v.phys ≠ .angle then .error .valueError
        else .ok ()
      else .error .valueError
  | .posScalarAngle, v =>
      if v.kind = .quantity then
        if v.scalar = false then .error .valueError
        else if v.phys ≠ .angle then .error .valueError
        -- `if not (value > 0 and np.isfinite(value))`  (F11 fixed)
        else if Num.lt (.fin 0) v.num = false then .error .valueError
        else if v.num.isFinite then .ok () else .error .valueError
      else .error .valueError
  | .regionType sky, v =>
      if v.kind = (if sky then Kind.skyRegion else Kind.pixRegion) then .ok () else .error .valueError
  | .rmeta, v => if v.kind = .regionMeta then .ok () else .error .valueError
  | .text, v => if v.kind = .pyStr then .ok () else .error .valueError
  | .rvisual, v => if v.kind = .regionVisual then .ok () else .error .valueError

/-! ## Metadata dictionaries (`regions/core/metadata.py`) -/

/-- `RegionMeta.valid_keys` (compared with the live class on every run). -/
def metaKeys : List String :=
  ["background", "comment", "component", "composite", "corr", "delete", "edit", "fixed",
   "frame", "highlite", "include", "label", "line", "move", "name", "range", "restfreq",
   "rotate", "select", "source", "tag", "text", "textrotate", "type", "veltype"]

/-- `RegionVisual.valid_keys`. -/
def visualKeys : List String :=
  ["color", "dash", "dashlist", "fill", "font", "fontname", "fontsize", "fontstyle",
   "fontweight", "labeloff", "labelpos", "labelcolor", "line", "linestyle", "linewidth",
   "marker", "markersize", "symbol", "symsize", "symthick", "textangle", "textrotate",
   "usetex", "default_style", "dashes", "markeredgewidth", "rotation", "facecolor", "edgecolor"]

/-- `RegionVisual.key_mapping` (`RegionMeta.key_mapping` is empty). -/
def visualKeyMap : List (String × String) := [("point", "symbol"), ("width", "linewidth")]

def vocabulary (vis : Bool) : List String := if vis then visualKeys else metaKeys

/-- `self.key_mapping.get(key, key)`. -/
def mapKey (vis : Bool) (k : String) : String :=
  if vis then (visualKeyMap.lookup k).getD k else k

abbrev Items := List (String × String)

/-- `dict.__setitem__`: replace in place, else append. -/
def dictSet : Items → String → String → Items
  | [], k, v => [(k, v)]
  | (k', v') :: t, k, v => if k' = k then (k, v) :: t else (k', v') :: dictSet t k v

/-- `key in dict`. -/
def dictHas (d : Items) (k : String) : Bool := d.any (fun kv => kv.1 == k)

/-- `dict.__delitem__` / `pop` of a present key. -/
def dictErase (d : Items) (k : String) : Items := d.filter (fun kv => kv.1 != k)

/-- `dict(pairs)`. -/
def pyDict (l : Items) : Items := l.foldl (fun d kv => dictSet d kv.1 kv.2) []

/-- a `RegionMeta` (`vis = false`) or `RegionVisual` (`vis = true`) object. -/
structure MetaObj where
  vis : Bool
  items : Items
deriving DecidableEq, Repr

inductive Result
  | ok
  | err (e : Exc)
deriving DecidableEq, Repr

/-- `Meta.__setitem__`: map the key, check the vocabulary, store. -/
def MetaObj.setitem (m : MetaObj) (k v : String) : Except Exc MetaObj :=
  let k' := mapKey m.vis k
  if (vocabulary m.vis).contains k' then .ok { m with items := dictSet m.items k' v }
  else .error .keyError

/-- `for key in other: self[key] = other[key]` – sequential; stops at the first invalid key and
KEEPS what was stored before it. -/
def MetaObj.setAll : MetaObj → Items → MetaObj × Result
  | m, [] => (m, .ok)
  | m, (k, v) :: t =>
      match m.setitem k v with
      | .error e => (m, .err e)
      | .ok m' => MetaObj.setAll m' t

/-- the argument of `update` / `|=` / the constructor. -/
inductive MetaArg
  | absent
  | mapping (l : Items)       -- a dict
  | pairs (l : Items)         -- an iterable of (key, value) pairs
  | notIterable               -- e.g. `5`
deriving DecidableEq, Repr

/-- every `dict` mutation entry point of a `Meta` object. -/
inductive MetaOp
  | setitem (k v : String)                                   -- m[k] = v
  | update (nargs : Nat) (arg : MetaArg) (kw : Items)        -- m.update(*args, **kw)
  | setdefault (k v : String)                                -- m.setdefault(k, v)
  | ior (arg : MetaArg)                                      -- m |= arg
  | pop (k : String) (hasDefault : Bool)                     -- inherited
  | popitem                                                  -- inherited
  | clear                                                    -- inherited
  | delitem (k : String)                                     -- inherited
deriving DecidableEq, Repr

/-- `dict(args[0])` inside `Meta.update`. -/
def argAsDict : MetaArg → Except Exc Items
  | .absent => .ok []
  | .mapping l => .ok (pyDict l)
  | .pairs l => .ok (pyDict l)
  | .notIterable => .error .typeError

/-- `Meta.update(*args, **kwargs)`. -/
def metaUpdate (m : MetaObj) (nargs : Nat) (arg : MetaArg) (kw : Items) : MetaObj × Result :=
  if nargs > 1 then (m, .err .valueError)
  else
    match (if nargs = 0 then .ok [] else argAsDict arg) with
    | .error e => (m, .err e)
    | .ok other =>
      -- every key is validated before the first store  (F12b fixed)
      if (other ++ kw).any (fun kv => !(vocabulary m.vis).contains (mapKey m.vis kv.1)) then
        (m, .err .keyError)
      else
      match m.setAll other with
      | (m', .err e) => (m', .err e)
      | (m', .ok) => m'.setAll kw

/-- one dict-mutation call on a Meta object: the object afterwards and what the call did. -/
def metaStep (m : MetaObj) : MetaOp → MetaObj × Result
  | .setitem k v =>
      match m.setitem k v with
      | .ok m' => (m', .ok)
      | .error e => (m, .err e)
  | .update nargs arg kw => metaUpdate m nargs arg kw
  | .setdefault k v =>
      -- `if key not in self` looks the RAW key up; the store goes through `__setitem__`;
      -- `return self[key]` looks the MAPPED key up (KeyError if only the raw alias is present)
      let stored : MetaObj × Result :=
        if dictHas m.items k then (m, .ok)
        else match m.setitem k v with
          | .ok m' => (m', .ok)
          | .error e => (m, .err e)
      match stored with
      | (m', .ok) => if dictHas m'.items (mapKey m'.vis k) then (m', .ok) else (m', .err .keyError)
      | r => r
  | .ior arg => metaUpdate m 1 arg []      -- `__ior__`: `self.update(other); return self`  (F12a fixed)
  | .pop k hasDefault =>
      if dictHas m.items k then ({ m with items := dictErase m.items k }, .ok)
      else if hasDefault then (m, .ok) else (m, .err .keyError)
  | .popitem =>
      if m.items.isEmpty then (m, .err .keyError) else ({ m with items := m.items.dropLast }, .ok)
  | .clear => ({ m with items := [] }, .ok)
  | .delitem k =>
      if dictHas m.items k then ({ m with items := dictErase m.items k }, .ok)
      else (m, .err .keyError)

/-- `Meta.__init__(seq, **kwargs)`; `truthy` is `bool(seq)`. -/
def MetaObj.ctor (vis : Bool) (seq : MetaArg) (kw : Items) : Except Exc MetaObj :=
  let m0 : MetaObj := ⟨vis, []⟩
  let first : MetaObj × Result :=
    match seq with
    | .absent => (m0, .ok)
    | .mapping l => if l.isEmpty then (m0, .ok) else m0.setAll (pyDict l)
    | .pairs l => if l.isEmpty then (m0, .ok) else m0.setAll l
    | .notIterable => (m0, .err .typeError)
  match first with
  | (_, .err e) => .error e
  | (m1, .ok) =>
    match m1.setAll kw with
    | (_, .err e) => .error e
    | (m2, .ok) => .ok m2

/-- `Meta.fromkeys(keys)` (inherited classmethod; CPython stores through `__setitem__` for a
subclass). -/
def MetaObj.fromkeys (vis : Bool) (keys : List String) : Except Exc MetaObj :=
  match (MetaObj.mk vis []).setAll (keys.map fun k => (k, "None")) with
  | (_, .err e) => .error e
  | (m, .ok) => .ok m

/-- the names of all `dict` methods / operators that can change a dict in place, with the
`MetaOp` that models each and whether the method can INSERT a key.  (The harness checks this list
against `dir(dict)` of the running interpreter.) -/
def dictMutators : List (String × Bool) :=
  [("__setitem__", true), ("update", true), ("setdefault", true), ("__ior__", true),
   ("__init__", true), ("fromkeys", true),
   ("pop", false), ("popitem", false), ("clear", false), ("__delitem__", false)]

/-- the entry points that `Meta` itself overrides (`name in Meta.__dict__`), checked against the
live class. -/
def metaOverrides : List String := ["__init__", "__setitem__", "update", "setdefault", "__ior__"]

def MetaObj.toVal (m : MetaObj) : Val :=
  { kind := if m.vis then .regionVisual else .regionMeta, size := m.items.length, items := m.items }

/-! ## Region objects -/

inductive Cls
  | circleP | circleS | ellipseP | ellipseS | rectP | rectS
  | polyP | polyS | regPolyP
  | cAnnP | cAnnS | eAnnP | eAnnS | rAnnP | rAnnS
  | lineP | lineS | pointP | pointS | textP | textS
  | compP | compS
deriving DecidableEq, Repr

/-- how an attribute name is bound on a class. -/
inductive Attr
  | descr (d : Descr)   -- a `RegionAttribute` data descriptor
  | plain               -- ordinary instance attribute (no descriptor); no parameter is bound this way any more
  | readonly            -- property without setter / deleter
deriving DecidableEq, Repr

def mv : List (String × Attr) := [("meta", .descr .rmeta), ("visual", .descr .rvisual)]

/-- `_params` (+ `meta`, `visual`) of every class with the descriptor bound to each name
(compared with the live classes on every run).  Compound regions have no descriptors for
`meta` / `visual`; they are left out of the model. -/
def attrs : Cls → List (String × Attr)
  | .circleP => [("center", .descr .scalarPix), ("radius", .descr .posScalar)] ++ mv
  | .circleS => [("center", .descr .scalarSky), ("radius", .descr .posScalarAngle)] ++ mv
  | .ellipseP | .rectP =>
      [("center", .descr .scalarPix), ("width", .descr .posScalar), ("height", .descr .posScalar),
       ("angle", .descr .scalarAngle)] ++ mv
  | .ellipseS | .rectS =>
      [("center", .descr .scalarSky), ("width", .descr .posScalarAngle),
       ("height", .descr .posScalarAngle), ("angle", .descr .scalarAngle)] ++ mv
  | .polyP => [("vertices", .descr .oneDPix)] ++ mv
  | .polyS => [("vertices", .descr .oneDSky)] ++ mv
  | .regPolyP =>
      [("center", .descr .scalarPix), ("nvertices", .descr .posScalar), ("radius", .descr .posScalar),
       ("angle", .descr .scalarAngle), ("vertices", .descr .oneDPix)] ++ mv
  | .cAnnP =>
      [("center", .descr .scalarPix), ("inner_radius", .descr .posScalar),
       ("outer_radius", .descr .posScalar)] ++ mv
  | .cAnnS =>
      [("center", .descr .scalarSky), ("inner_radius", .descr .posScalarAngle),
       ("outer_radius", .descr .posScalarAngle)] ++ mv
  | .eAnnP | .rAnnP =>
      [("center", .descr .scalarPix), ("inner_width", .descr .posScalar),
       ("outer_width", .descr .posScalar), ("inner_height", .descr .posScalar),
       ("outer_height", .descr .posScalar), ("angle", .descr .scalarAngle)] ++ mv
  | .eAnnS | .rAnnS =>
      [("center", .descr .scalarSky), ("inner_width", .descr .posScalarAngle),
       ("outer_width", .descr .posScalarAngle), ("inner_height", .descr .posScalarAngle),
       ("outer_height", .descr .posScalarAngle), ("angle", .descr .scalarAngle)] ++ mv
  | .lineP => [("start", .descr .scalarPix), ("end", .descr .scalarPix)] ++ mv
  | .lineS => [("start", .descr .scalarSky), ("end", .descr .scalarSky)] ++ mv
  | .pointP => [("center", .descr .scalarPix)] ++ mv
  | .pointS => [("center", .descr .scalarSky)] ++ mv
  | .textP => [("center", .descr .scalarPix), ("text", .descr .text)] ++ mv
  | .textS => [("center", .descr .scalarSky), ("text", .descr .text)] ++ mv
  | .compP =>
      [("region1", .descr (.regionType false)), ("region2", .descr (.regionType false)),
       ("operator", .readonly)]
  | .compS =>
      [("region1", .descr (.regionType true)), ("region2", .descr (.regionType true)),
       ("operator", .readonly)]

abbrev Fields := List (String × Val)

/-- `instance.__dict__[name] = value`. -/
def fset : Fields → String → Val → Fields
  | [], f, v => [(f, v)]
  | (g, w) :: t, f, v => if g = f then (f, v) :: t else (g, w) :: fset t f v

def fget (fs : Fields) (f : String) : Option Val := fs.lookup f

def ferase (fs : Fields) (f : String) : Fields := fs.filter (fun kv => kv.1 != f)

/-- a region instance: its class and its `__dict__`. -/
structure RObj where
  cls : Cls
  fields : Fields
deriving DecidableEq, Repr

def RObj.get (o : RObj) (f : String) : Option Val := fget o.fields f
def RObj.set (o : RObj) (f : String) (v : Val) : RObj := { o with fields := fset o.fields f v }

/-- `RegionMetaDescr.__set__` / `RegionVisualDescr.__set__`: a `dict` that is not already of the
target class is converted with `RegionMeta(value)` / `RegionVisual(value)` (which validates the
keys); every other descriptor stores the value as given. -/
def coerce : Descr → Val → Except Exc Val
  | .rmeta, v =>
      if v.isDict ∧ v.kind ≠ .regionMeta then
        match MetaObj.ctor false (.mapping v.items) [] with
        | .error e => .error e
        | .ok m => .ok m.toVal
      else .ok v
  | .rvisual, v =>
      if v.isDict ∧ v.kind ≠ .regionVisual then
        match MetaObj.ctor true (.mapping v.items) [] with
        | .error e => .error e
        | .ok m => .ok m.toVal
      else .ok v
  | _, v => .ok v

/-- `RegularPolygonPixelRegion.__setattr__`: `nvertices` is validated and must be `>= 3`
(F14b fixed). -/
def nvertsPre (o : RObj) (f : String) (v : Val) : Except Exc Unit :=
  if o.cls = .regPolyP ∧ f = "nvertices" then
    match validate .posScalar v with
    | .error e => .error e
    | .ok () =>
      match pyLtConst v 3 with
      | .error e => .error e
      | .ok true => .error .valueError
      | .ok false => .ok ()
  else .ok ()

/-- the store part of `setattr(obj, f, v)`: class-level `__setattr__` checks, then
`RegionAttribute.__set__` = (coerce,) validate, THEN store. -/
def RObj.assignCore (o : RObj) (f : String) (v : Val) : Except Exc RObj :=
  -- [F14] the annulus classes would first run a check of `v` against the other size of its
  -- (inner, outer) pair: validate `v`, then `inner >= outer → ValueError` (proposed_fixes/F14.diff)
  match nvertsPre o f v with
  | .error e => .error e
  | .ok () =>
  match (attrs o.cls).lookup f with
  | some (.descr d) =>
      match coerce d v with
      | .error e => .error e
      | .ok v' =>
        match validate d v' with
        | .error e => .error e
        | .ok () => .ok (o.set f v')
  | some .readonly => .error .attributeError
  | some .plain => .ok (o.set f v)
  | none => .ok (o.set f v)

/-- the vertices computed by `RegularPolygonPixelRegion._calc_vertices` (floating-point
trigonometry: an opaque 1-D PixCoord).  `np.arange(nvertices)` raises `ValueError` for NaN / inf
and for a count beyond any addressable array (2^60 eight-byte elements: "array is too big" /
"Maximum allowed size exceeded").  Counts that are addressable but exceed the machine's memory
(`MemoryError`) are outside the model and outside the generated inputs. -/
def calcVertices (nv : Val) : Except Exc Val :=
  match nv.num with
  | .fin q =>
      if q < 1152921504606846976 then
        .ok { kind := .pixCoord, scalar := false, ndim := 1, tag := "<derived>" }
      else .error .valueError
  | _ => .error .valueError

/-- `RegularPolygonPixelRegion._params`: the parameters its vertices are computed from. -/
def regPolyParams : List String := ["center", "nvertices", "radius", "angle"]

/-- `setattr(obj, f, v)`.  For a constructed regular polygon (`'vertices' in self.__dict__`) an
assignment to a defining parameter stores the value, recomputes the vertices and – if that raises –
puts the old value back and re-raises (32d7f72, d3bcfe5); for every other class / attribute it is
the store alone. -/
def RObj.assign (o : RObj) (f : String) (v : Val) : Except Exc RObj :=
  match o.assignCore f v with
  | .error e => .error e
  | .ok o1 =>
    if o.cls = .regPolyP ∧ regPolyParams.contains f = true ∧ (o.get "vertices").isSome = true then
      match calcVertices ((o1.get "nvertices").getD vNone) with
      | .error e => .error e
      | .ok d => .ok ((o1.set "_vertices" d).set "vertices" d)
    else .ok o1

/-- `delattr(obj, f)`: `RegionAttribute.__delete__` always raises. -/
def RObj.delete (o : RObj) (f : String) : Except Exc RObj :=
  match (attrs o.cls).lookup f with
  | some (.descr _) => .error .attributeError
  | some .readonly => .error .attributeError
  | _ => if (o.get f).isSome then .ok { o with fields := ferase o.fields f }
         else .error .attributeError

/-! ### Constructors -/

/-- constructor arguments by name (omitted optional arguments are passed as their defaults;
`None` for `meta`, `visual`, `origin`), plus for `PolygonPixelRegion` the exact `vertices + origin`. -/
structure CtorArgs where
  args : Fields
  sum : Val := vNone
  bcastOk : Bool := true
  foreign : Except Exc Val := .error .typeError

def CtorArgs.arg (a : CtorArgs) (n : String) : Val := (a.args.lookup n).getD vNone

def emptyMeta : Val := (MetaObj.mk false []).toVal
def emptyVisual : Val := (MetaObj.mk true []).toVal

/-- `x or Default()`. -/
def orDefault (v dflt : Val) : Except Exc Val :=
  match pyTruth v with
  | .error e => .error e
  | .ok true => .ok v
  | .ok false => .ok dflt

def pixOrigin0 : Val := { kind := .pixCoord, scalar := true, tag := "PixCoord(0,0)" }

/-- checks a constructor makes BEFORE its first store. -/
def preCheck (c : Cls) (a : CtorArgs) : Except Exc Unit :=
  match c with
  | .regPolyP =>
      match pyLtConst (a.arg "nvertices") 3 with
      | .error e => .error e
      | .ok true => .error .valueError
      | .ok false => .ok ()
  | .compP | .compS =>
      if (a.arg "operator").kind = .callable then .ok () else .error .typeError
  | _ => .ok ()

def metaVisualPlan (a : CtorArgs) : List (String × Except Exc Val) :=
  [("meta", orDefault (a.arg "meta") emptyMeta), ("visual", orDefault (a.arg "visual") emptyVisual)]

def argPlan (a : CtorArgs) (names : List String) : List (String × Except Exc Val) :=
  names.map fun n => (n, .ok (a.arg n))

/-- the attribute stores of each `__init__`, in program order; a value whose computation raises
is an `.error`. -/
def ctorPlan (c : Cls) (a : CtorArgs) : List (String × Except Exc Val) :=
  match c with
  | .circleP | .circleS => argPlan a ["center", "radius"] ++ metaVisualPlan a
  | .ellipseP | .ellipseS | .rectP | .rectS =>
      argPlan a ["center", "width", "height", "angle"] ++ metaVisualPlan a
  | .polyP =>
      let origin := if (a.arg "origin").kind = .pyNone then pixOrigin0 else a.arg "origin"
      [("_vertices", .ok (a.arg "vertices"))] ++ metaVisualPlan a ++
      [("origin", .ok origin), ("vertices", pixAdd (a.arg "vertices") origin a.sum a.bcastOk a.foreign)]
  | .polyS => argPlan a ["vertices"] ++ metaVisualPlan a
  | .regPolyP =>
      let derived := calcVertices (a.arg "nvertices")
      argPlan a ["center", "nvertices", "radius", "angle"] ++
      [("_vertices", derived)] ++ metaVisualPlan a ++
      [("origin", .ok pixOrigin0), ("vertices", derived)]
  | .cAnnP | .cAnnS => argPlan a ["center", "inner_radius", "outer_radius"] ++ metaVisualPlan a
  | .eAnnP | .eAnnS | .rAnnP | .rAnnS =>
      argPlan a ["center", "inner_width", "outer_width", "inner_height", "outer_height", "angle"]
        ++ metaVisualPlan a
  | .lineP | .lineS => argPlan a ["start", "end"] ++ metaVisualPlan a
  | .pointP | .pointS => argPlan a ["center"] ++ metaVisualPlan a
  | .textP | .textS => argPlan a ["center"] ++ metaVisualPlan a ++ argPlan a ["text"]
  | .compP | .compS => argPlan a ["region1", "region2"]

/-- run the stores in order; the first failing value computation or validation aborts.
(Inside `__init__` the recomputation of `RObj.assign` never runs: it is guarded by
`name in self._params and 'vertices' in self.__dict__`, and every constructor stores `vertices` –
which is not in `_params` – last; so the stores are `assignCore`.) -/
def assignSeq : RObj → List (String × Except Exc Val) → Except Exc RObj
  | o, [] => .ok o
  | o, (f, ev) :: t =>
      match ev with
      | .error e => .error e
      | .ok v =>
        match o.assignCore f v with
        | .error e => .error e
        | .ok o' => assignSeq o' t

/-- the (inner, outer) parameter pairs of the annulus classes. -/
def orderPairs : Cls → List (String × String)
  | .cAnnP | .cAnnS => [("inner_radius", "outer_radius")]
  | .eAnnP | .eAnnS | .rAnnP | .rAnnS =>
      [("inner_width", "outer_width"), ("inner_height", "outer_height")]
  | _ => []

/-- checks a constructor makes AFTER its stores: `if inner >= outer: raise ValueError`. -/
def postCheck (c : Cls) (a : CtorArgs) : Except Exc Unit :=
  if (orderPairs c).any (fun p => pyGe (a.arg p.1) (a.arg p.2)) then .error .valueError else .ok ()

/-- `Cls(**args)`. -/
def construct (c : Cls) (a : CtorArgs) : Except Exc RObj :=
  match preCheck c a with
  | .error e => .error e
  | .ok () =>
    match assignSeq ⟨c, []⟩ (ctorPlan c a) with
    | .error e => .error e
    | .ok o =>
      match postCheck c a with
      | .error e => .error e
      | .ok () => .ok o

/-! ## The `Regions` list (`regions/core/regions.py`) -/

/-- a list member: is it a `Region` instance, and which object it is. -/
structure Member where
  isRegion : Bool
  tag : String
deriving DecidableEq, Repr

/-- a `Regions` object: the content of `self.regions`, always a list of its own
(`self.regions = list(regions)`; F13b fixed in b15a97b). -/
structure RList where
  items : List Member
deriving DecidableEq, Repr

inductive ListOp
  | append (x : Member)
  | extendList (xs : List Member)      -- any iterable (list, tuple, generator, iter, map, array, …):
                                       -- `regions = list(regions)` first  (F13d fixed in 727d915)
  | extendRegions (xs : List Member)   -- a `Regions` argument
  | extendBad                          -- a non-iterable argument
  | insert (i : Int) (x : Member)
  | setitem (i : Int) (x : Member)     -- `regs[i] = x`  (no `__setitem__` on the class)
  | pop (i : Int)
  | reverse
  | srcAppend (x : Member)             -- `.append(x)` on the list that was given to the constructor
deriving DecidableEq, Repr

/-- `list.insert(i, x)` index normalisation. -/
def insertIdx (n : Nat) (i : Int) : Nat :=
  if i < 0 then (i + n).toNat else min i.toNat n

/-- `Regions(arg)`: `arg` = `none` for `Regions()`, else the members and whether the container
is a tuple (any iterable is copied into a new list). -/
def RList.ctor (arg : Option (List Member × Bool)) : Except Exc RList :=
  match arg with
  | none => .ok ⟨[]⟩
  | some (xs, _) => if xs.all (·.isRegion) then .ok ⟨xs⟩ else .error .typeError

def listStep (l : RList) : ListOp → RList × Result
  | .append x =>
      if !x.isRegion then (l, .err .typeError) else (⟨l.items ++ [x]⟩, .ok)
  | .extendList xs =>
      if !xs.all (·.isRegion) then (l, .err .typeError) else (⟨l.items ++ xs⟩, .ok)
  | .extendRegions xs => (⟨l.items ++ xs⟩, .ok)
  | .extendBad => (l, .err .typeError)
  | .insert i x =>
      if !x.isRegion then (l, .err .typeError)          -- (F13a fixed in b15a97b)
      else
        let k := insertIdx l.items.length i
        (⟨l.items.take k ++ [x] ++ l.items.drop k⟩, .ok)
  | .setitem _ _ => (l, .err .typeError)
  | .pop i =>
      let n : Int := l.items.length
      let k := if i < 0 then i + n else i
      if k < 0 ∨ k ≥ n then (l, .err .indexError)
      else (⟨l.items.eraseIdx k.toNat⟩, .ok)
  | .reverse => (⟨l.items.reverse⟩, .ok)
  | .srcAppend _ => (l, .ok)          -- the caller's list is not shared with the object (F13b fixed)

/-! ## `RegionMask.__init__` (`regions/core/mask.py`) -/

/-- `if self.data.shape != bbox.shape: raise ValueError` with `bbox.shape = (ny, nx)`
(the box itself was validated by `RegionBoundingBox.__init__`, model `Impl.BBox.mkChecked`, C19). -/
def maskCtor (dataShape : List Int) (ny nx : Int) : Except Exc Unit :=
  if dataShape = [ny, nx] then .ok () else .error .valueError

/-! ## One step of a history -/

inductive Obj
  | region (r : RObj)
  | metaObj (m : MetaObj)
  | rlist (l : RList)
deriving DecidableEq, Repr

inductive Op
  | assign (f : String) (v : Val)
  | delete (f : String)
  /-- a dict-mutation call on a Meta object (`field = none`) or on `region.<field>`. -/
  | metaOp (field : Option String) (op : MetaOp)
  | listOp (op : ListOp)
deriving Repr

def ofExcept (o : RObj) : Except Exc RObj → Obj × Result
  | .ok o' => (.region o', .ok)
  | .error e => (.region o, .err e)

/-- the Meta object held in `region.<f>`. -/
def RObj.metaAt (o : RObj) (f : String) : Option MetaObj :=
  match o.get f with
  | some v =>
      if v.kind = .regionMeta then some ⟨false, v.items⟩
      else if v.kind = .regionVisual then some ⟨true, v.items⟩
      else none
  | none => none

/-- perform one operation: the object afterwards and the outcome. -/
def step : Obj → Op → Obj × Result
  | .region o, .assign f v => ofExcept o (o.assign f v)
  | .region o, .delete f => ofExcept o (o.delete f)
  | .region o, .metaOp (some f) op =>
      match o.metaAt f with
      | none => (.region o, .err .attributeError)
      | some m =>
          let r := metaStep m op               -- in-place mutation: no descriptor involved
          (.region (if r.1 = m then o else o.set f r.1.toVal), r.2)
  | .metaObj m, .metaOp none op => let r := metaStep m op; (.metaObj r.1, r.2)
  | .rlist l, .listOp op => let r := listStep l op; (.rlist r.1, r.2)
  | o, _ => (o, .err .attributeError)             -- the object has no such method

/-- a whole history. -/
def run : Obj → List Op → Obj
  | o, [] => o
  | o, op :: ops => run (step o op).1 ops

/-! ## Spec: documented domains (from the docstrings and the property text) -/

def keysIn (vocab : List String) (items : Items) : Bool := items.all (fun kv => vocab.contains kv.1)

/-- the documented domain of each parameter kind: sizes are strictly positive FINITE scalars,
coordinates are scalar / 1-D and of the right kind, angles are scalar angular quantities,
metadata are `RegionMeta` / `RegionVisual` objects whose keys are in the documented vocabulary. -/
def inDomain : Descr → Val → Bool
  | .scalarPix, v => v.kind == .pixCoord && v.scalar
  | .oneDPix, v => v.kind == .pixCoord && !v.scalar && v.ndim == 1
  | .posScalar, v =>
      v.isReal && v.npIsScalar && (match v.num with | .fin q => decide (0 < q) | _ => false)
  | .scalarSky, v => v.kind == .skyCoord && v.scalar
  | .oneDSky, v => v.kind == .skyCoord && v.ndim == 1
  | .scalarAngle, v => v.kind == .quantity && v.scalar && v.phys == .angle
  | .posScalarAngle, v =>
      v.kind == .quantity && v.scalar && v.phys == .angle &&
      (match v.num with | .fin q => decide (0 < q) | _ => false)
  | .regionType sky, v => v.kind == (if sky then Kind.skyRegion else Kind.pixRegion)
  | .rmeta, v => v.kind == .regionMeta && keysIn metaKeys v.items
  | .text, v => v.kind == .pyStr
  | .rvisual, v => v.kind == .regionVisual && keysIn visualKeys v.items

/-- one attribute of a region object is as documented. -/
def fieldOk (o : RObj) : String × Attr → Bool
  | (f, .descr d) => match o.get f with
      | some v => inDomain d v
      | none => false
  | (f, .plain) => match o.get f with      -- a plain-attribute parameter would have to be a `str` (`text` before ec59199)
      | some v => v.kind == .pyStr
      | none => false
  | (_, .readonly) => true

/-- inner size strictly below outer size. -/
def pairOk (o : RObj) (p : String × String) : Bool :=
  match o.get p.1, o.get p.2 with
  | some a, some b => Num.lt a.num b.num
  | _, _ => false

/-- a regular polygon has at least 3 vertices. -/
def nvertsOk (o : RObj) : Bool :=
  o.cls != .regPolyP ||
  (match o.get "nvertices" with
   | some v => Num.le (.fin 3) v.num
   | none => false)

def RObj.validB (o : RObj) : Bool :=
  (attrs o.cls).all (fieldOk o) && (orderPairs o.cls).all (pairOk o) && nvertsOk o

def MetaObj.keysOk (m : MetaObj) : Bool := keysIn (vocabulary m.vis) m.items

def RList.allRegions (l : RList) : Bool := l.items.all (·.isRegion)

/-- **the invariant of the property**: every parameter present and in its documented domain,
annulus inner < outer, metadata keys within the vocabulary, list members are regions. -/
def Valid : Obj → Prop
  | .region o => o.validB = true
  | .metaObj m => m.keysOk = true
  | .rlist l => l.allRegions = true

instance : DecidablePred Valid := fun o => by
  cases o <;> unfold Valid <;> infer_instance

end RegionsVerif.Impl.Validate
