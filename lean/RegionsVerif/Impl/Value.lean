/-
Impl model for C16 — "regions are values".

Mirrors `regions/core/core.py` (`Region.copy`, `Region.__eq__`, `Region.__ne__`),
`regions/core/pixcoord.py` (`PixCoord.__eq__`, i.e. `np.allclose`), `regions/core/metadata.py`
(`Meta.__setitem__` key mapping / validation), `regions/core/compound.py` and
`regions/shapes/polygon.py` (constructors called by `copy`), `regions/core/regions.py`
(`Regions.__getitem__`, `copy`, list mutators).

## The heap model

Python objects are a heap `object id → object`.  The model keeps the heap in *unfolded* form:
a value `V` is a tree whose inner nodes are the mutable heap objects (each carries its object
id, its kind, and its fields `label → value`) and whose leaves are immutable scalars.  Two
values (or two places of one value) *share* an object iff the same id occurs in both; an
in-place mutation of object `t` (`mutate t f`) rewrites **every** occurrence of id `t` in the
whole world, exactly as a heap write would be seen through every alias.  `toHeap` flattens a
value to the association list `id ↦ (kind, label ↦ id | scalar)`.

`copy.deepcopy` (one call = one memo) is an isomorphic copy of the reachable graph onto fresh
ids that preserves internal sharing: `shift n` (new id = old id + n, with `n` = the allocation
counter, all existing ids being `< n`).  Atoms (floats, ints, strings, bools, `None`,
functions) are returned as they are, as `deepcopy` does.
-/
import Mathlib.Algebra.Order.Field.Basic
import Mathlib.Algebra.Order.Ring.Rat
import Mathlib.Algebra.Order.Field.Rat
import Mathlib.Data.Rat.Defs

namespace RegionsVerif.Impl.Value

/-- object identities are natural numbers (`id(obj)`); written `Nat` below so that `omega` sees them. -/
abbrev Id := Nat

/-- a Python float / int (an exact rational) or NaN. -/
inductive Num
  | fin (q : ℚ)
  | nan
deriving DecidableEq, Repr

/-- immutable scalars.  `fn` is a function object (the compound operator; identity = name),
`elided` stands for a derived float the model does not compute (regular-polygon trigonometry). -/
inductive Atom
  | num (x : Num)
  | str (s : String)
  | bool (b : Bool)
  | none
  | fn (name : String)
  | elided
deriving DecidableEq, Repr

/-- kinds of mutable heap objects. -/
inductive Kind
  | dict                      -- plain `dict`
  | rmeta                     -- `RegionMeta`
  | rvisual                   -- `RegionVisual`
  | list                      -- `list`
  | array                     -- `numpy.ndarray` (1-D, fields are the elements)
  | quantity                  -- scalar `Quantity`: fields `value`, `unit`, `factor` (unit → degrees)
  | pixcoord                  -- `PixCoord`: fields `x`, `y` (scalar atoms or arrays)
  | skycoord                  -- `SkyCoord`: fields `frame`, `lon`, `lat` (arrays, degrees), `scalar`
  | region (cls : String)     -- a `Region` instance: `_params` fields, `meta`, `visual`, other attributes
  | regions                   -- `Regions`: field `regions` (a list)
deriving DecidableEq, Repr

mutual
inductive V
  | atom (a : Atom)
  | node (id : Nat) (k : Kind) (fs : Fields)
inductive Fields
  | nil
  | cons (key : String) (v : V) (rest : Fields)
end

deriving instance DecidableEq for V, Fields
deriving instance Repr for V, Fields

inductive Exc | typeError | valueError | keyError | indexError | attributeError
deriving DecidableEq, Repr

/-! ### generic tree / heap functions -/

def Fields.toList : Fields → List (String × V)
  | .nil => []
  | .cons k v r => (k, v) :: r.toList

def Fields.ofList : List (String × V) → Fields
  | [] => .nil
  | (k, v) :: r => .cons k v (Fields.ofList r)

def Fields.length : Fields → Nat
  | .nil => 0
  | .cons _ _ r => r.length + 1

def Fields.keys : Fields → List String
  | .nil => []
  | .cons k _ r => k :: r.keys

def Fields.vals : Fields → List V
  | .nil => []
  | .cons _ v r => v :: r.vals

/-- `getattr` / `dict.__getitem__`: first entry with the label. -/
def Fields.get? : Fields → String → Option V
  | .nil, _ => none
  | .cons k v r, key => if k = key then some v else r.get? key

def Fields.getD (fs : Fields) (key : String) (d : V) : V := (fs.get? key).getD d

/-- replace the first entry with the label, or append a new entry (dict insertion order). -/
def Fields.set : Fields → String → V → Fields
  | .nil, key, v => .cons key v .nil
  | .cons k v0 r, key, v => if k = key then .cons k v r else .cons k v0 (r.set key v)

def Fields.del : Fields → String → Fields
  | .nil, _ => .nil
  | .cons k v r, key => if k = key then r else .cons k v (r.del key)

def Fields.setIdx : Fields → Nat → V → Fields
  | .nil, _, _ => .nil
  | .cons k _ r, 0, v => .cons k v r
  | .cons k v0 r, i + 1, v => .cons k v0 (r.setIdx i v)

def Fields.append : Fields → Fields → Fields
  | .nil, g => g
  | .cons k v r, g => .cons k v (r.append g)

mutual
/-- every object id occurring in the value (= the mutable objects reachable from it). -/
def V.ids : V → List Nat
  | .atom _ => []
  | .node i _ fs => i :: fs.ids
def Fields.ids : Fields → List Nat
  | .nil => []
  | .cons _ v r => v.ids ++ r.ids
end

mutual
/-- `copy.deepcopy` with one memo: isomorphic copy onto the ids `n + ·`. -/
def V.shift (n : Nat) : V → V
  | .atom a => .atom a
  | .node i k fs => .node (i + n) k (fs.shift n)
def Fields.shift (n : Nat) : Fields → Fields
  | .nil => .nil
  | .cons key v r => .cons key (v.shift n) (r.shift n)
end

mutual
/-- the value with identities forgotten (the canonical snapshot used for "same content"). -/
def V.erase : V → V
  | .atom a => .atom a
  | .node _ k fs => .node 0 k fs.erase
def Fields.erase : Fields → Fields
  | .nil => .nil
  | .cons key v r => .cons key v.erase r.erase
end

mutual
/-- heap write: apply `f` to the fields of every occurrence of object `t`. -/
def V.mutate (t : Nat) (f : Kind → Fields → Fields) : V → V
  | .atom a => .atom a
  | .node i k fs => if i = t then .node i k (f k fs) else .node i k (fs.mutate t f)
def Fields.mutate (t : Nat) (f : Kind → Fields → Fields) : Fields → Fields
  | .nil => .nil
  | .cons key v r => .cons key (v.mutate t f) (r.mutate t f)
end

mutual
/-- first occurrence of object `t` (its kind and fields). -/
def V.find? (t : Nat) : V → Option (Kind × Fields)
  | .atom _ => none
  | .node i k fs => if i = t then some (k, fs) else fs.find? t
def Fields.find? (t : Nat) : Fields → Option (Kind × Fields)
  | .nil => none
  | .cons _ v r => match v.find? t with
    | some x => some x
    | none => r.find? t
end

/-- one heap cell: kind and `label ↦ (object id | scalar)`. -/
abbrev Cell := Kind × List (String × (Nat ⊕ Atom))

def cellOf (fs : Fields) : List (String × (Nat ⊕ Atom)) :=
  fs.toList.map fun (k, v) => match v with
    | .atom a => (k, .inr a)
    | .node i _ _ => (k, .inl i)

mutual
/-- the heap in folded form: `object id ↦ cell`, in first-visit order. -/
def V.toHeap : V → List (Nat × Cell)
  | .atom _ => []
  | .node i k fs => (i, (k, cellOf fs)) :: fs.toHeap
def Fields.toHeap : Fields → List (Nat × Cell)
  | .nil => []
  | .cons _ v r => v.toHeap ++ r.toHeap
end

/-- follow a path of labels (`#i` = i-th element) from a root. -/
def V.resolve : V → List String → Option V
  | v, [] => some v
  | .atom _, _ :: _ => none
  | .node _ _ fs, p :: ps =>
    let child : Option V :=
      if p.startsWith "#" then
        match (p.drop 1).toNat? with
        | some i => fs.vals[i]?
        | none => none
      else fs.get? p
    match child with
    | some c => c.resolve ps
    | none => none
termination_by _ p => p.length

/-! ### numbers, tolerances -/

def Num.add : Num → Num → Num
  | .fin a, .fin b => .fin (a + b)
  | _, _ => .nan

/-- Python `a != b` on floats. -/
def Num.ne : Num → Num → Bool
  | .fin a, .fin b => decide (a ≠ b)
  | _, _ => true

/-- `rtol`, `atol` of `np.allclose` (the driver passes the exact values of the doubles
`1e-05` and `1e-08`). -/
structure Tol where
  rtol : ℚ
  atol : ℚ

/-- `np.isclose(a, b)` for finite doubles: `|a − b| ≤ atol + rtol·|b|` — NOT symmetric;
NaN is close to nothing (`equal_nan=False`). -/
def Num.close (t : Tol) : Num → Num → Bool
  | .fin a, .fin b => decide (|a - b| ≤ t.atol + t.rtol * |b|)
  | _, _ => false

/-- `PixCoord.__eq__` tests `np.allclose` both ways round (`allclose(a, b) and allclose(b, a)`),
which makes the element test symmetric: `|a − b| ≤ atol + rtol·min(|a|, |b|)`. -/
def Num.close2 (t : Tol) (a b : Num) : Bool := a.close t b && b.close t a

/-- `all(p a b)` over two 1-D arrays under numpy broadcasting of the last axis:
equal lengths, or one of them has length 1; otherwise numpy / astropy raise `ValueError`. -/
def bcastAll (p : Num → Num → Bool) (la lb : List Num) : Except Exc Bool :=
  if la.length = lb.length then .ok ((la.zip lb).all fun ab => p ab.1 ab.2)
  else match la, lb with
    | [a], _ => .ok (lb.all fun b => p a b)
    | _, [b] => .ok (la.all fun a => p a b)
    | _, _ => .error .valueError

/-- the elements of an array object as numbers (a non-number reads as NaN). -/
def Fields.nums : Fields → List Num
  | .nil => []
  | .cons _ (.atom (.num x)) r => x :: r.nums
  | .cons _ _ r => Num.nan :: r.nums

/-- a coordinate component: scalar (`some (xs, true)`) or 1-D array. -/
def coordList : V → Option (List Num × Bool)
  | .atom (.num x) => some ([x], true)
  | .node _ .array fs => some (fs.nums, false)
  | _ => none

/-! ### equality: `Region.__eq__`, `PixCoord.__eq__`, Quantity / SkyCoord / dict comparison -/

/-- Python `a != b` on immutable scalars (`True == 1`). -/
def atomNe : Atom → Atom → Bool
  | .num a, .num b => a.ne b
  | .bool a, .bool b => a != b
  | .bool a, .num b => (Num.fin (if a then 1 else 0)).ne b
  | .num a, .bool b => a.ne (Num.fin (if b then 1 else 0))
  | .str a, .str b => a != b
  | .none, .none => false
  | .fn a, .fn b => a != b
  | _, _ => true

/-- `a != b` for dict values: scalars, or lists of scalars (`list.__eq__`: same length and
element-wise equal). -/
def valNe : V → V → Bool
  | .atom a, .atom b => atomNe a b
  | .node _ .list fa, .node _ .list fb =>
    let la := fa.vals
    let lb := fb.vals
    if la.length ≠ lb.length then true
    else (la.zip lb).any fun ab => match ab with
      | (.atom a, .atom b) => atomNe a b
      | _ => true
  | _, _ => true

/-- `dict.__ne__`: different sizes, or a key of `a` missing in `b`, or a value differing
(insertion order is irrelevant). -/
def neDict (fa fb : Fields) : Bool :=
  if fa.length ≠ fb.length then true
  else fa.toList.any fun kv => match fb.get? kv.1 with
    | none => true
    | some vb => valNe kv.2 vb

/-- `PixCoord.__ne__` (the default `not __eq__`).  `__eq__`: `False` when `np.shape(self.x) !=
np.shape(other.x)` (a scalar has shape `()`, an array `(n,)`), otherwise
`np.allclose([x, y], [ox, oy]) and np.allclose([ox, oy], [x, y])`. -/
def nePix (t : Tol) (fa fb : Fields) : Except Exc Bool :=
  match (fa.get? "x").bind coordList, (fa.get? "y").bind coordList,
        (fb.get? "x").bind coordList, (fb.get? "y").bind coordList with
  | some (xa, sa), some (ya, _), some (xb, sb), some (yb, _) =>
    if sa ≠ sb ∨ xa.length ≠ xb.length then .ok true
    else do
      let cx ← bcastAll (Num.close2 t) xa xb
      let cy ← bcastAll (Num.close2 t) ya yb
      pure (!(cx && cy))
  | _, _, _, _ => .ok true

def numOf : Option V → Num
  | some (.atom (.num x)) => x
  | _ => .nan

def Num.mul : Num → Num → Num
  | .fin a, .fin b => .fin (a * b)
  | _, _ => .nan

/-- the size of a `Quantity` in the reference unit: `value·factor` (`factor` = size of the unit
in degrees).  `Quantity.__ne__` converts the other value to this unit and compares; in exact
arithmetic that is `value·factor ≠ value'·factor'`. -/
def qprod (fs : Fields) : Num := (numOf (fs.get? "value")).mul (numOf (fs.get? "factor"))

def neQty (fa fb : Fields) : Bool := (qprod fa).ne (qprod fb)

/-- a scalar attribute (the frame descriptor string of a `SkyCoord`). -/
def atomOf : Option V → Atom
  | some (.atom a) => a
  | _ => .elided

def arrOf : Option V → List Num
  | some (.node _ .array fs) => fs.nums
  | _ => []

/-- `np.any(SkyCoord != SkyCoord)`: extra frame attributes held by the `SkyCoord` itself (e.g. an
`obstime` on an ICRS position; field `extra`) that are not equivalent raise `ValueError`,
non-equivalent frames raise `TypeError`, shapes that do not broadcast raise `ValueError`,
otherwise exact comparison of longitude and latitude. -/
def neSky (fa fb : Fields) : Except Exc Bool :=
  if atomOf (fa.get? "extra") ≠ atomOf (fb.get? "extra") then .error .valueError
  else if atomOf (fa.get? "frame") ≠ atomOf (fb.get? "frame") then .error .typeError
  else do
    let exact : Num → Num → Bool := fun a b => !(a.ne b)
    let cx ← bcastAll exact (arrOf (fa.get? "lon")) (arrOf (fb.get? "lon"))
    let cy ← bcastAll exact (arrOf (fa.get? "lat")) (arrOf (fb.get? "lat"))
    pure (!(cx && cy))

/-- `getattr(value, 'shape', ())` as `Region.__eq__` reads it: a `SkyCoord` has shape `()` or
`(n,)`, a scalar `Quantity` `()`, an array `(n,)`; everything without a `shape` attribute
(`PixCoord`, regions, dicts, Python numbers, strings, functions) counts as `()`, exactly like a
numpy scalar — so the carrier type of a number (Python `int` / `float`, `numpy.int64`, `float32`, …)
does not matter. -/
def shapeOf : V → Option (List Nat)
  | .node _ .skycoord fs =>
    if atomOf (fs.get? "scalar") = .bool true then some [] else some [(arrOf (fs.get? "lon")).length]
  | .node _ .array fs => some [fs.length]
  | _ => some []

/-! #### the class table (`_params`, base classes, constructor behaviour) -/

/-- what `__init__` does with the `meta=` / `visual=` argument. -/
inductive MetaRule
  | orFresh        -- `self.meta = meta or RegionMeta()` through the converting descriptor
  | keepIfGiven    -- compound pixel / sky: `region1.meta if meta is None else meta`
deriving DecidableEq, Repr

inductive CtorKind | plain | polygon | regularPolygon | compound
deriving DecidableEq, Repr

structure ClassInfo where
  name : String
  params : List String
  bases : List String          -- proper base classes among the region classes
  metaRule : MetaRule
  ctor : CtorKind
deriving DecidableEq, Repr

def classTable : List ClassInfo := [
  ⟨"CirclePixelRegion", ["center", "radius"], [], .orFresh, .plain⟩,
  ⟨"CircleSkyRegion", ["center", "radius"], [], .orFresh, .plain⟩,
  ⟨"EllipsePixelRegion", ["center", "width", "height", "angle"], [], .orFresh, .plain⟩,
  ⟨"EllipseSkyRegion", ["center", "width", "height", "angle"], [], .orFresh, .plain⟩,
  ⟨"RectanglePixelRegion", ["center", "width", "height", "angle"], [], .orFresh, .plain⟩,
  ⟨"RectangleSkyRegion", ["center", "width", "height", "angle"], [], .orFresh, .plain⟩,
  ⟨"PolygonPixelRegion", ["vertices"], [], .orFresh, .polygon⟩,
  ⟨"RegularPolygonPixelRegion", ["center", "nvertices", "radius", "angle"],
    ["PolygonPixelRegion"], .orFresh, .regularPolygon⟩,
  ⟨"PolygonSkyRegion", ["vertices"], [], .orFresh, .plain⟩,
  ⟨"CircleAnnulusPixelRegion", ["center", "inner_radius", "outer_radius"], [], .orFresh, .plain⟩,
  ⟨"CircleAnnulusSkyRegion", ["center", "inner_radius", "outer_radius"], [], .orFresh, .plain⟩,
  ⟨"EllipseAnnulusPixelRegion",
    ["center", "inner_width", "outer_width", "inner_height", "outer_height", "angle"], [], .orFresh, .plain⟩,
  ⟨"EllipseAnnulusSkyRegion",
    ["center", "inner_width", "outer_width", "inner_height", "outer_height", "angle"], [], .orFresh, .plain⟩,
  ⟨"RectangleAnnulusPixelRegion",
    ["center", "inner_width", "outer_width", "inner_height", "outer_height", "angle"], [], .orFresh, .plain⟩,
  ⟨"RectangleAnnulusSkyRegion",
    ["center", "inner_width", "outer_width", "inner_height", "outer_height", "angle"], [], .orFresh, .plain⟩,
  ⟨"LinePixelRegion", ["start", "end"], [], .orFresh, .plain⟩,
  ⟨"LineSkyRegion", ["start", "end"], [], .orFresh, .plain⟩,
  ⟨"PointPixelRegion", ["center"], [], .orFresh, .plain⟩,
  ⟨"PointSkyRegion", ["center"], [], .orFresh, .plain⟩,
  ⟨"TextPixelRegion", ["center", "text"], ["PointPixelRegion"], .orFresh, .plain⟩,
  ⟨"TextSkyRegion", ["center", "text"], ["PointSkyRegion"], .orFresh, .plain⟩,
  ⟨"CompoundPixelRegion", ["region1", "region2", "operator"], [], .keepIfGiven, .compound⟩,
  ⟨"CompoundSkyRegion", ["region1", "region2", "operator"], [], .keepIfGiven, .compound⟩]

def classInfo? (cls : String) : Option ClassInfo := classTable.find? fun c => c.name == cls

/-- `cls._params`. -/
def paramsOf (cls : String) : List String :=
  match classInfo? cls with
  | some c => c.params
  | none => []

/-- `list(self._params) + ['meta', 'visual']`. -/
def cmpKeys (cls : String) : List String := paramsOf cls ++ ["meta", "visual"]

/-- `isinstance(obj_of_class cb, ca)`. -/
def isInstance (cb ca : String) : Bool :=
  cb == ca || (match classInfo? cb with
    | some c => c.bases.contains ca
    | none => false)

mutual
/-- `np.any(a != b)` as evaluated inside `Region.__eq__`. -/
def neV (t : Tol) : V → V → Except Exc Bool
  | .atom a, .atom b => .ok (atomNe a b)
  | .atom _, .node _ _ _ => .ok true
  | .node _ k fa, b =>
    match k with
    | .region ca =>
      -- `Region.__ne__`: `not (self == other)`
      match b with
      | .node _ (.region cb) fb =>
        if !isInstance cb ca then .ok true
        else if cmpKeys ca ≠ cmpKeys cb then .ok true
        else match eqLoop t (cmpKeys ca) fa fb with
          | .ok r => .ok (!r)
          | .error e => .error e
      | _ => .ok true
    | .pixcoord => match b with
      | .node _ .pixcoord fb => nePix t fa fb
      | _ => .ok true
    | .quantity => match b with
      | .node _ .quantity fb => .ok (neQty fa fb)
      | _ => .ok true
    | .skycoord => match b with
      | .node _ .skycoord fb => neSky fa fb
      | _ => .ok true
    | .dict | .rmeta | .rvisual => match b with
      | .node _ .dict fb | .node _ .rmeta fb | .node _ .rvisual fb => .ok (neDict fa fb)
      | _ => .ok true
    | .list => match b with
      | .node _ .list _ => .ok (valNe (.node 0 .list fa) b)
      | _ => .ok true
    | .array => match b with
      | .node _ .array fb =>
        match bcastAll (fun x y => !(x.ne y)) fa.nums fb.nums with
        | .ok r => .ok (!r)
        | .error e => .error e
      | _ => .ok true
    | .regions => .ok true
/-- the `for param in self_params` loop of `Region.__eq__` (the fields of a region node are
stored in `self_params` order), inside its `try … except (TypeError, ValueError): return False`. -/
def eqLoop (t : Tol) (keys : List String) : Fields → Fields → Except Exc Bool
  | .nil, _ => .ok true
  | .cons key va rest, fb =>
    if keys.contains key then
      match fb.get? key with
      | none => .error .attributeError
      | some vb =>
        -- `getattr(a, 'shape', None) != getattr(b, 'shape', None)`: never broadcast
        if shapeOf va ≠ shapeOf vb then .ok false
        else
          match neV t va vb with
          | .ok true => .ok false
          | .ok false => eqLoop t keys rest fb
          | .error .typeError => .ok false
          | .error .valueError => .ok false
          | .error e => .error e
    else eqLoop t keys rest fb
end

/-- `Region.__eq__(self, other)`. -/
def eqRegion (t : Tol) (a b : V) : Except Exc Bool :=
  match a, b with
  | .node _ (.region ca) fa, .node _ (.region cb) fb =>
    if !isInstance cb ca then .ok false
    else if cmpKeys ca ≠ cmpKeys cb then .ok false
    else eqLoop t (cmpKeys ca) fa fb
  | _, _ => .ok false

/-- `Region.__ne__`. -/
def neRegion (t : Tol) (a b : V) : Except Exc Bool :=
  match eqRegion t a b with
  | .ok r => .ok (!r)
  | .error e => .error e

/-! ### `Meta.__setitem__` -/

def metaValidKeys : List String :=
  ["background", "comment", "component", "composite", "corr", "delete", "edit", "fixed", "frame",
   "highlite", "include", "label", "line", "move", "name", "range", "restfreq", "rotate",
   "select", "source", "tag", "text", "textrotate", "type", "veltype"]

def visualValidKeys : List String :=
  ["color", "dash", "dashlist", "fill", "font", "fontname", "fontsize", "fontstyle",
   "fontweight", "labeloff", "labelpos", "labelcolor", "line", "linestyle", "linewidth",
   "marker", "markersize", "symbol", "symsize", "symthick", "textangle", "textrotate", "usetex",
   "default_style", "dashes", "markeredgewidth", "rotation", "facecolor", "edgecolor"]

/-- `key_mapping.get(key, key)`. -/
def mapKey (k : Kind) (key : String) : String :=
  match k with
  | .rvisual => if key = "point" then "symbol" else if key = "width" then "linewidth" else key
  | _ => key

def keyValid (k : Kind) (key : String) : Bool :=
  match k with
  | .rmeta => metaValidKeys.contains key
  | .rvisual => visualValidKeys.contains key
  | _ => true

/-! ### mutations of one object -/

/-- one in-place operation on one heap object. -/
inductive FOp
  | set (key : String) (v : V)     -- attribute assignment `obj.key = v`, `d[key] = v`
  | del (key : String)             -- `del d[key]` / `d.pop(key)`
  | setIdx (i : Nat) (v : V)       -- `arr[i] = v`, `lst[i] = v`
  | append (v : V)                 -- `lst.append(v)`
  | extend (vs : List V)           -- `lst.extend(vs)`
  | insert (i : Int) (v : V)       -- `lst.insert(i, v)`
  | pop (i : Int)                  -- `lst.pop(i)`
  | reverse                        -- `lst.reverse()`
  | clear                          -- `d.clear()`
  | update (items : List (String × V))   -- `d.update(other, **kw)` / `d |= other`: the entries of
                                         -- `other` (the value OBJECTS themselves), then the keywords
  | setdefault (key : String) (v : V)    -- `d.setdefault(key, v)`

/-- the values an operation installs. -/
def FOp.vals : FOp → List V
  | .set _ v | .setIdx _ v | .append v | .insert _ v => [v]
  | .extend vs => vs
  | .update items => items.map fun kv => kv.2
  | .setdefault _ v => [v]
  | _ => []

def listItems (vs : List V) : Fields := Fields.ofList (vs.map fun v => ("", v))

/-- the index normalisation of `list.insert`: negative counts from the end, then clamped. -/
def insertPos (n : Nat) (i : Int) : Nat :=
  let j := if i < 0 then i + n else i
  if j < 0 then 0 else if j > n then n else j.toNat

/-- the index normalisation of `list.pop` / `list[i]`: `IndexError` when out of range. -/
def popPos (n : Nat) (i : Int) : Option Nat :=
  let j := if i < 0 then i + n else i
  if j < 0 ∨ j ≥ n then none else some j.toNat

/-- the operation on a container that supports it. -/
def FOp.applyCore (op : FOp) (k : Kind) (fs : Fields) : Except Exc Fields :=
  match op with
  | .set key v =>
    match k with
    | .rmeta | .rvisual =>
      let key' := mapKey k key
      if keyValid k key' then .ok (fs.set key' v) else .error .keyError
    | _ => .ok (fs.set key v)
  | .del key =>
    match fs.get? key with
    | some _ => .ok (fs.del key)
    | none => .error .keyError
  | .setIdx i v => if i < fs.length then .ok (fs.setIdx i v) else .error .indexError
  | .append v => .ok (fs.append (.cons "" v .nil))
  | .extend vs => .ok (fs.append (listItems vs))
  | .insert i v =>
    let l := fs.toList
    let p := insertPos l.length i
    .ok (Fields.ofList (l.take p ++ [("", v)] ++ l.drop p))
  | .pop i =>
    let l := fs.toList
    match popPos l.length i with
    | some p => .ok (Fields.ofList (l.take p ++ l.drop (p + 1)))
    | none => .error .indexError
  | .reverse => .ok (Fields.ofList fs.toList.reverse)
  | .clear => .ok .nil
  | .update items =>
    -- `Meta.update`: every key is validated before anything is stored (a rejected update leaves
    -- the object unchanged); then one `__setitem__` per entry, in order.  The argument is only read.
    if items.all (fun kv => keyValid k (mapKey k kv.1)) then
      .ok (items.foldl (fun acc kv => acc.set (mapKey k kv.1) kv.2) fs)
    else .error .keyError
  | .setdefault key v =>
    -- `if key not in self: self[key] = value` (`in` looks the RAW key up, `__setitem__` maps it)
    match fs.get? key with
    | some _ => .ok fs
    | none => if keyValid k (mapKey k key) then .ok (fs.set (mapKey k key) v) else .error .keyError

/-- is the operation an attribute assignment (the only in-place operation a `Regions` OBJECT
supports: the class defines no `__setitem__`, `__delitem__`, `__iadd__`; its `append`, `extend`,
`insert`, `pop`, `reverse` are operations on its `regions` list). -/
def FOp.isSetAttr : FOp → Bool
  | .set _ _ => true
  | _ => false

/-- result of the operation on an object of kind `k` with fields `fs`; an exception leaves the
object unchanged.  `regs[i] = r`, `del regs[i]`, `regs += …` on a `Regions` object: `TypeError`. -/
def FOp.apply (op : FOp) (k : Kind) (fs : Fields) : Except Exc Fields :=
  if k = .regions ∧ op.isSetAttr = false then .error .typeError else op.applyCore k fs

/-- total version used for the heap write (an exception = no change). -/
def FOp.applyD (op : FOp) (k : Kind) (fs : Fields) : Fields :=
  match op.apply k fs with
  | .ok r => r
  | .error _ => fs

/-- a mutation: the object written and the operation. -/
structure Mut where
  target : Nat
  op : FOp

/-- the world: named roots (everything the program can still reach). -/
abbrev World := List (String × V)

def World.ids (w : World) : List Nat := w.flatMap fun r => r.2.ids

/-- one heap write seen through every alias in the world. -/
def World.mutate (w : World) (m : Mut) : World :=
  w.map fun r => (r.1, r.2.mutate m.target m.op.applyD)

def World.mutateAll (w : World) (ms : List Mut) : World := ms.foldl World.mutate w

/-! ### `copy.deepcopy`, `Region.copy(**changes)` and the constructors it calls -/

/-- `copy.deepcopy(v)` with the allocation counter at `next` and all ids of the world `< bound`:
the copy lives on `[next, next + bound)`. -/
def deepcopy (bound next : Nat) (v : V) : V × Nat := (v.shift next, next + bound)

def emptyDict (k : Kind) (id : Nat) : V := .node id k .nil

def isEmptyDict : V → Bool
  | .node _ .dict .nil | .node _ .rmeta .nil | .node _ .rvisual .nil => true
  | _ => false

/-- `self.meta = meta or RegionMeta()` through `RegionMetaDescr.__set__` (`want` = `.rmeta` or
`.rvisual`): `None` / empty ↦ a fresh empty object; a plain dict ↦ a fresh `RegionMeta` with the
same values; a `RegionMeta` ↦ stored as is.  Returns the stored value and the new counter. -/
def storeMeta (rule : MetaRule) (want : Kind) (region1Meta : V) (arg : V) (next : Nat) : V × Nat :=
  match rule with
  | .orFresh =>
    match arg with
    | .atom .none => (emptyDict want next, next + 1)
    | .node _ .dict fs =>
      if isEmptyDict arg then (emptyDict want next, next + 1) else (.node next want fs, next + 1)
    | v => if isEmptyDict v then (emptyDict want next, next + 1) else (v, next)
  | .keepIfGiven =>
    match arg with
    | .atom .none => (region1Meta, next)
    | v => (v, next)

/-- `PixCoord.__add__` for an array and a scalar / array operand (fresh arrays). -/
def addCoord (a b : V) (id : Nat) : V :=
  match coordList a, coordList b with
  | some (xa, sa), some (xb, sb) =>
    if sa && sb then .atom (.num ((xa.headD .nan).add (xb.headD .nan)))
    else
      -- numpy broadcasting of a length-1 operand (a scalar counts as length 1)
      let n := if xa.length = 1 then xb.length else xa.length
      let ga := fun i => if xa.length = 1 then xa.headD .nan else xa.getD i .nan
      let gb := fun i => if xb.length = 1 then xb.headD .nan else xb.getD i .nan
      .node id .array (listItems ((List.range n).map fun i => V.atom (.num ((ga i).add (gb i)))))
  | _, _ => .atom .elided

/-- `vertices + origin`: a new `PixCoord` (id `next`) with new arrays (`next+1`, `next+2`). -/
def pixAdd (a b : V) (next : Nat) : V × Nat :=
  match a, b with
  | .node _ .pixcoord fa, .node _ .pixcoord fb =>
    (.node next .pixcoord
      (.cons "x" (addCoord (fa.getD "x" (.atom .elided)) (fb.getD "x" (.atom .elided)) (next + 1))
      (.cons "y" (addCoord (fa.getD "y" (.atom .elided)) (fb.getD "y" (.atom .elided)) (next + 2)) .nil)),
     next + 3)
  | _, _ => (.atom .elided, next)

def pixZero (id : Nat) : V :=
  .node id .pixcoord (.cons "x" (.atom (.num (.fin 0))) (.cons "y" (.atom (.num (.fin 0))) .nil))

/-- a `PixCoord` whose coordinates the model does not compute (regular-polygon vertices). -/
def pixElided (id : Nat) : V :=
  .node id .pixcoord (.cons "x" (.node (id + 1) .array .nil) (.cons "y" (.node (id + 2) .array .nil) .nil))

def qtyElided (id : Nat) : V := .node id .quantity (.cons "value" (.atom .elided) .nil)

def lookup (args : List (String × V)) (key : String) : V :=
  match args.lookup key with
  | some v => v
  | none => .atom .none

/-- `region1.meta` / `region1.visual` of the `region1=` argument. -/
def r1Field (args : List (String × V)) (key : String) : V :=
  match lookup args "region1" with
  | .node _ _ fs => fs.getD key (.atom .none)
  | _ => .atom .none

/-- the `_params` attributes as stored by the descriptors (the argument objects themselves). -/
def pfields (c : ClassInfo) (args : List (String × V)) : List (String × V) :=
  c.params.map fun p => (p, lookup args p)

/-- `meta` then `visual`, as the constructor stores them. -/
def storeBoth (c : ClassInfo) (args : List (String × V)) (next : Nat) : (V × V) × Nat :=
  let m := storeMeta c.metaRule .rmeta (r1Field args "meta") (lookup args "meta") next
  let v := storeMeta c.metaRule .rvisual (r1Field args "visual") (lookup args "visual") m.2
  ((m.1, v.1), v.2)

/-- circle, ellipse, rectangle, annuli, line, point, text, sky polygon, compound:
parameters, `meta`, `visual`. -/
def buildPlain (c : ClassInfo) (args : List (String × V)) (rid next : Nat) : V × Nat :=
  let mv := storeBoth c args next
  (.node rid (.region c.name) (Fields.ofList (pfields c args ++ [("meta", mv.1.1), ("visual", mv.1.2)])),
   mv.2)

/-- the `origin=` argument of `PolygonPixelRegion`, default `PixCoord(0, 0)`. -/
def originArg (args : List (String × V)) (next : Nat) : V × Nat :=
  match args.lookup "origin" with
  | some (.node i k fs) => (.node i k fs, next)
  | _ => (pixZero next, next + 1)

/-- `PolygonPixelRegion.__init__`: `_vertices` = the argument, `vertices = vertices + origin`. -/
def buildPolygon (c : ClassInfo) (args : List (String × V)) (rid next : Nat) : V × Nat :=
  let mv := storeBoth c args next
  let o := originArg args mv.2
  let vs := pixAdd (lookup args "vertices") o.1 o.2
  (.node rid (.region c.name) (Fields.ofList
    [("vertices", vs.1), ("meta", mv.1.1), ("visual", mv.1.2),
     ("_vertices", lookup args "vertices"), ("origin", o.1)]), vs.2)

/-- `RegularPolygonPixelRegion.__init__` (after the `nvertices` test): the parameters, then
`PolygonPixelRegion.__init__(self._calc_vertices(), …)`, then the derived attributes. -/
def buildRegular (c : ClassInfo) (args : List (String × V)) (rid next : Nat) : V × Nat :=
  let cverts := pixElided next                    -- self._calc_vertices()
  let mv := storeBoth c args (next + 3)
  let n := mv.2
  (.node rid (.region c.name) (Fields.ofList (pfields c args ++
    [("meta", mv.1.1), ("visual", mv.1.2), ("_vertices", cverts), ("exterior_angle", qtyElided (n + 4)),
     ("inradius", .atom .elided), ("interior_angle", qtyElided (n + 5)), ("origin", pixZero n),
     ("perimeter", .atom .elided), ("side_length", .atom .elided), ("vertices", pixElided (n + 1))])),
   n + 6)

/-- `if nvertices < 3: raise ValueError`. -/
def tooFewVertices (args : List (String × V)) : Bool :=
  match lookup args "nvertices" with
  | .atom (.num (.fin q)) => decide (q < 3)
  | _ => false

/-- the keyword arguments `cls.__init__` accepts. -/
def allowedArgs (c : ClassInfo) : List String :=
  c.params ++ ["meta", "visual"] ++ (if c.name = "PolygonPixelRegion" then ["origin"] else [])

/-- `cls(**args)`: the object graph the constructor builds (new region object id = `next`). -/
def construct (c : ClassInfo) (args : List (String × V)) (next : Nat) : Except Exc (V × Nat) :=
  if args.any (fun kv => !(allowedArgs c).contains kv.1) then .error .typeError     -- unexpected keyword
  else if c.params.any (fun p => (args.lookup p).isNone) then .error .typeError  -- missing argument
  else
    match c.ctor with
    | .plain | .compound => .ok (buildPlain c args next (next + 1))
    | .polygon => .ok (buildPolygon c args next (next + 1))
    | .regularPolygon =>
      if tooFewVertices args then .error .valueError
      else .ok (buildRegular c args next (next + 1))

/-- the `for field in fields: if field not in changes: changes[field] = deepcopy(getattr(self, field))`
loop (one memo per field). -/
def copyArgs (bound : Nat) (fs : Fields) : List String → List (String × V) → Nat → List (String × V) × Nat
  | [], _, next => ([], next)
  | key :: rest, changes, next =>
    if (changes.lookup key).isSome then copyArgs bound fs rest changes next
    else
      let (v, next) := deepcopy bound next (fs.getD key (.atom .none))
      let (more, next) := copyArgs bound fs rest changes next
      ((key, v) :: more, next)

/-- `Region.copy(self, **changes)`; `bound` = every id of the world is `< bound ≤ next`. -/
def copyRegion (bound next : Nat) (r : V) (changes : List (String × V)) : Except Exc (V × Nat) :=
  match r with
  | .node _ (.region cls) fs =>
    match classInfo? cls with
    | none => .error .typeError
    | some c =>
      let (added, next) := copyArgs bound fs (cmpKeys cls) changes next
      construct c (changes ++ added) next
  | _ => .error .attributeError

/-- attribute assignment `obj.key = v` as the list of heap writes it performs.  Ordinary objects:
one write.  `RegularPolygonPixelRegion.__setattr__`: `nvertices < 3` raises `ValueError`; after
storing one of the `_params` (once the region is constructed) `_vertices` is recomputed,
`vertices` IS that same new object (`self.vertices = self._vertices`), and the derived
quantities are set again (`_set_derived`). -/
def setAttrWrites (target : V) (key : String) (v : V) (next : Nat) : Except Exc (List Mut × Nat) :=
  match target with
  | .atom _ => .error .attributeError
  | .node i k fs =>
    if k = .region "RegularPolygonPixelRegion" then
      if key = "nvertices" ∧ tooFewVertices [("nvertices", v)] = true then .error .valueError
      else if (paramsOf "RegularPolygonPixelRegion").contains key ∧ (fs.get? "vertices").isSome then
        let nv := pixElided next
        .ok ([⟨i, .set key v⟩, ⟨i, .set "_vertices" nv⟩, ⟨i, .set "vertices" nv⟩,
              ⟨i, .set "side_length" (.atom .elided)⟩, ⟨i, .set "inradius" (.atom .elided)⟩,
              ⟨i, .set "perimeter" (.atom .elided)⟩,
              ⟨i, .set "interior_angle" (qtyElided (next + 3))⟩,
              ⟨i, .set "exterior_angle" (qtyElided (next + 4))⟩], next + 5)
      else .ok ([⟨i, .set key v⟩], next)
    else .ok ([⟨i, .set key v⟩], next)

/-! ### `Regions` -/

/-- CPython `PySlice_AdjustIndices` + the index walk of `list[start:stop:step]`. -/
def sliceIdx (len : Nat) (start stop step : Option Int) : Except Exc (List Nat) :=
  let step := step.getD 1
  if step = 0 then .error .valueError
  else
    let n : Int := len
    let adj (x : Option Int) (dflt : Int) : Int :=
      match x with
      | none => dflt
      | some v =>
        if v < 0 then (if v + n < 0 then (if step < 0 then -1 else 0) else v + n)
        else if v ≥ n then (if step < 0 then n - 1 else n)
        else v
    let s := adj start (if step < 0 then n - 1 else 0)
    let e := adj stop (if step < 0 then -1 else n)
    -- number of indices
    let cnt : Int :=
      if step < 0 then (if e < s then (s - e - 1) / (-step) + 1 else 0)
      else (if s < e then (e - s - 1) / step + 1 else 0)
    .ok ((List.range cnt.toNat).map fun (i : Nat) => (s + (i : Int) * step).toNat)

/-- the region list of a `Regions` object. -/
def regionsItems : V → List V
  | .node _ .regions fs =>
    match fs.get? "regions" with
    | some (.node _ .list items) => items.vals
    | _ => []
  | _ => []

def regionsListId : V → Option Nat
  | .node _ .regions fs =>
    match fs.get? "regions" with
    | some (.node i .list _) => some i
    | _ => none
  | _ => none

/-- a new `Regions` object (id `next`) around a new list (id `next + 1`) of the given — shared —
regions: what `__getitem__(slice)` and `copy()` build. -/
def mkRegions (items : List V) (next : Nat) : V × Nat :=
  (.node next .regions (.cons "regions" (.node (next + 1) .list (listItems items)) .nil), next + 2)

/-- `Regions.__getitem__(slice(start, stop, step))`. -/
def regionsSlice (s : V) (start stop step : Option Int) (next : Nat) : Except Exc (V × Nat) :=
  let items := regionsItems s
  match sliceIdx items.length start stop step with
  | .error e => .error e
  | .ok idx => .ok (mkRegions (idx.filterMap fun i => items[i]?) next)

/-- `Regions.copy()` (shallow). -/
def regionsCopy (s : V) (next : Nat) : V × Nat := mkRegions (regionsItems s) next

/-- `Regions.__getitem__(int)`: the region itself. -/
def regionsItem (s : V) (i : Int) : Except Exc V :=
  let items := regionsItems s
  match popPos items.length i with
  | some p => match items[p]? with
    | some r => .ok r
    | none => .error .indexError
  | none => .error .indexError

end RegionsVerif.Impl.Value
