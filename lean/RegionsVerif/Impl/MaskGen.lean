/-
Impl model of mask generation in 'center' and 'subpixels' mode:
the grid and sub-sampling loops of `regions/_geometry/{circular,elliptical,rectangular,
polygonal}_overlap.pyx`, the `to_mask` glue of the shape classes, and
`CompoundPixelRegion.to_mask` (pad both operand masks to the union box, apply the operator).

Loops are folds over `List.range`, with the accumulators the code uses
(`x = x0 - 0.5*dx; x += dx`).  The membership predicates are the kernels' own.
The circle kernel's "well inside / well outside" fast paths need `sqrt`; they are stated
and proved sound over ℝ in `Props/C02.lean`, so the executable model samples every pixel.
-/
import RegionsVerif.Impl.Region
import RegionsVerif.Impl.Extent

namespace RegionsVerif.Impl

section field
variable {α : Type} [Field α] [LinearOrder α] [IsStrictOrderedRing α]

/-! ### the kernels' membership tests (coordinates relative to the shape centre, except polygons) -/

/-- `x * x + y * y < r_squared`. -/
def circleK (r : α) (x y : α) : Bool := decide (x * x + y * y < r ^ 2)

/-- `x_tr = y*sin + x*cos; y_tr = y*cos - x*sin; x_tr² * inv_rx_sq + y_tr² * inv_ry_sq < 1`. -/
def ellipseK (rx ry : α) (d : Dir α) (x y : α) : Bool :=
  let xtr := y * d.s + x * d.c
  let ytr := y * d.c - x * d.s
  decide (xtr * xtr * (1 / (rx * rx)) + ytr * ytr * (1 / (ry * ry)) < 1)

/-- `fabs(x_tr) < half_width and fabs(y_tr) < half_height`. -/
def rectK (w h : α) (d : Dir α) (x y : α) : Bool :=
  let xtr := y * d.s + x * d.c
  let ytr := y * d.c - x * d.s
  decide (|xtr| < w / 2) && decide (|ytr| < h / 2)

/-- `point_in_polygon(x, y, vx, vy) == 1` (absolute coordinates). -/
def polyK (vs : List (Pt α)) (x y : α) : Bool := pnpoly vs ⟨x, y⟩

/-! ### the sub-sampling loop shared by all four `*_overlap_single_subpixel` functions -/

/-- inner loop: `y = y0 - 0.5*dy; for j in range(n): y += dy; if P(x, y): frac += 1`;
returns the number of hits (the state is `(y, count)`). -/
def innerLoop (P : α → α → Bool) (x y0 dy : α) (n : Nat) : Nat :=
  ((List.range n).foldl (fun (st : α × Nat) (_ : Nat) =>
      let y := st.1 + dy
      (y, if P x y then st.2 + 1 else st.2)) (y0 - (1/2) * dy, 0)).2

/-- outer loop: `x = x0 - 0.5*dx; for i in range(n): x += dx; <inner loop>`. -/
def subpixelCount (P : α → α → Bool) (x0 y0 x1 y1 : α) (n : Nat) : Nat :=
  let dx := (x1 - x0) / n
  let dy := (y1 - y0) / n
  ((List.range n).foldl (fun (st : α × Nat) (_ : Nat) =>
      let x := st.1 + dx
      (x, st.2 + innerLoop P x y0 dy n)) (x0 - (1/2) * dx, 0)).2

/-- `frac / (subpixels * subpixels)`. -/
def subpixelFrac (P : α → α → Bool) (x0 y0 x1 y1 : α) (n : Nat) : α :=
  (subpixelCount P x0 y0 x1 y1 n : α) / ((n : α) * (n : α))

/-- the `k`-th sample coordinate in closed form: `x0 + (k + 1/2)·(x1 − x0)/n`. -/
def samplePos (x0 x1 : α) (n k : Nat) : α := x0 + ((k : α) + 1/2) * ((x1 - x0) / n)

/-! ### the grid loop: pixel `(i, j)` spans `[xmin + i·dx, xmin + (i+1)·dx] × …` -/

/-- value of grid cell `(j, i)` of `*_overlap_grid(xmin, xmax, ymin, ymax, nx, ny, …, subpixels)`
for a kernel that samples every pixel (no skip): `pxmin = xmin + i*dx; pxmax = pxmin + dx`. -/
def gridCell (P : α → α → Bool) (xmin xmax ymin ymax : α) (nx ny : Nat) (n : Nat) (j i : Nat) : α :=
  let dx := (xmax - xmin) / nx
  let dy := (ymax - ymin) / ny
  let pxmin := xmin + i * dx
  let pymin := ymin + j * dy
  subpixelFrac P pxmin pymin (pxmin + dx) (pymin + dy) n

/-- the same with the bounding-box skip of the circle/ellipse/polygon kernels:
`if pxmax > bxmin and pxmin < bxmax` (and likewise for `y`), else the cell stays `0`. -/
def gridCellSkip (P : α → α → Bool) (bxmin bxmax bymin bymax : α)
    (xmin xmax ymin ymax : α) (nx ny : Nat) (n : Nat) (j i : Nat) : α :=
  let dx := (xmax - xmin) / nx
  let dy := (ymax - ymin) / ny
  let pxmin := xmin + i * dx
  let pymin := ymin + j * dy
  if pxmin + dx > bxmin ∧ pxmin < bxmax then
    if pymin + dy > bymin ∧ pymin < bymax then
      subpixelFrac P pxmin pymin (pxmin + dx) (pymin + dy) n
    else 0
  else 0

end field

/-! ### `to_mask` of the shape classes (executed on ℚ) -/

/-- mask modes. -/
inductive MaskMode | center | subpixels (n : Int) (isInt : Bool) | exact | other
deriving DecidableEq, Repr

inductive MaskErr | valueError | notImplemented | bbox (e : BBoxErr)
deriving DecidableEq, Repr

/-- a mask: its box and the `(ny × nx)` array as a function of `(j, i)`. -/
structure GenMask where
  bbox : BBox
  cell : Nat → Nat → ℚ

/-- `_validate_mode(mode, subpixels)`. -/
def validateMode : MaskMode → Except MaskErr Unit
  | .other => .error .valueError
  | .subpixels n isInt => if !isInt || n ≤ 0 then .error .valueError else .ok ()
  | _ => .ok ()

/-- effective sub-sampling factor: `'center'` ↦ `subpixels = 1`. -/
def subpixOf : MaskMode → Option Nat
  | .center => some 1
  | .subpixels n _ => some n.toNat
  | _ => none

/-- the grid arguments of a `*_overlap_grid` call. -/
structure Grid where
  xmin : ℚ
  xmax : ℚ
  ymin : ℚ
  ymax : ℚ
  nx : Nat
  ny : Nat

def Grid.dx (g : Grid) : ℚ := (g.xmax - g.xmin) / g.nx
def Grid.dy (g : Grid) : ℚ := (g.ymax - g.ymin) / g.ny

def Grid.cell (g : Grid) (P : ℚ → ℚ → Bool) (n j i : Nat) : ℚ :=
  gridCell P g.xmin g.xmax g.ymin g.ymax g.nx g.ny n j i

def Grid.cellSkip (g : Grid) (P : ℚ → ℚ → Bool) (bxmin bxmax bymin bymax : ℚ) (n j i : Nat) : ℚ :=
  gridCellSkip P bxmin bxmax bymin bymax g.xmin g.xmax g.ymin g.ymax g.nx g.ny n j i

/-- grid arguments common to circle/ellipse/rectangle:
`xmin = ixmin − ½ − cx`, `xmax = ixmax − ½ − cx`, …, `(ny, nx) = bbox.shape`. -/
def relGrid (b : BBox) (c : Pt ℚ) : Grid :=
  ⟨(b.ixmin : ℚ) - 1/2 - c.x, (b.ixmax : ℚ) - 1/2 - c.x, (b.iymin : ℚ) - 1/2 - c.y,
   (b.iymax : ℚ) - 1/2 - c.y, b.shape.2.toNat, b.shape.1.toNat⟩

/-- polygons use absolute coordinates: `xmin = ixmin − ½`, …. -/
def absGrid (b : BBox) : Grid :=
  ⟨(b.ixmin : ℚ) - 1/2, (b.ixmax : ℚ) - 1/2, (b.iymin : ℚ) - 1/2, (b.iymax : ℚ) - 1/2,
   b.shape.2.toNat, b.shape.1.toNat⟩

/-- circle kernel: skip box `±(r + ½·dx)`, `±(r + ½·dy)`. -/
def circleMask (r : Circle ℚ) (b : BBox) (n : Nat) : GenMask :=
  let g := relGrid b r.center
  ⟨b, g.cellSkip (circleK r.radius) (-r.radius - 1/2 * g.dx) (r.radius + 1/2 * g.dx)
        (-r.radius - 1/2 * g.dy) (r.radius + 1/2 * g.dy) n⟩

/-- ellipse kernel: `rx = ½·width`, `ry = ½·height`, skip box from `r = max(rx, ry)`. -/
def ellipseMask (r : Ellipse ℚ) (b : BBox) (n : Nat) : GenMask :=
  let g := relGrid b r.center
  let rr := max (1/2 * r.width) (1/2 * r.height)
  ⟨b, g.cellSkip (ellipseK (1/2 * r.width) (1/2 * r.height) r.dir) (-rr - 1/2 * g.dx) (rr + 1/2 * g.dx)
        (-rr - 1/2 * g.dy) (rr + 1/2 * g.dy) n⟩

/-- rectangle kernel: every pixel is sampled. -/
def rectMask (r : Rect ℚ) (b : BBox) (n : Nat) : GenMask :=
  ⟨b, (relGrid b r.center).cell (rectK r.width r.height r.dir) n⟩

/-- polygon kernel: absolute coordinates, skip box = vertex range. -/
def polygonMask (r : Polygon ℚ) (e : ℚ × ℚ × ℚ × ℚ) (b : BBox) (n : Nat) : GenMask :=
  ⟨b, (absGrid b).cellSkip (polyK r.vertices) e.1 e.2.1 e.2.2.1 e.2.2.2 n⟩

/-- `np.pad(mask.data, ((pbottom, ptop), (pleft, pright)), 'constant')` read at `(j, i)`, with
`pleft = |mask.ixmin − B.ixmin|`, `pbottom = |mask.iymin − B.iymin|` (the code's `abs`). -/
def padCell (m : GenMask) (B : BBox) (j i : Nat) : ℚ :=
  let pleft := (m.bbox.ixmin - B.ixmin).natAbs
  let pbottom := (m.bbox.iymin - B.iymin).natAbs
  if pbottom ≤ j ∧ j < pbottom + m.bbox.shape.1.toNat ∧ pleft ≤ i ∧ i < pleft + m.bbox.shape.2.toNat
  then m.cell (j - pbottom) (i - pleft) else 0

/-- `operator(*np.array(padded, dtype=int))` on one cell: the values are cast to `int`
(truncation) and combined bitwise; for 0/1 data this is the Boolean operator. -/
def intOp (op : BoolOp) (a b : ℚ) : ℚ :=
  let ia := decide (a.floor ≠ 0)   -- center-mode cells are 0 or 1
  let ib := decide (b.floor ≠ 0)
  if op.apply ia ib then 1 else 0

/-- `CompoundPixelRegion.to_mask` after the operand masks exist: pad both to the union box,
apply the operator cell by cell. -/
def combineMasks (op : BoolOp) (m1 m2 : GenMask) : Except MaskErr GenMask := do
  let B ← (BBox.union m1.bbox m2.bbox).mapError MaskErr.bbox
  pure ⟨B, fun j i => intOp op (padCell m1 B j i) (padCell m2 B j i)⟩

def circleToMask (c : Circle ℚ) (mode : MaskMode) : Except MaskErr GenMask := do
  validateMode mode
  let b ← (bboxOfExtent c.extent).mapError MaskErr.bbox
  match subpixOf mode with
  | some n => pure (circleMask c b n)
  | none => .error .notImplemented        -- 'exact' is C03's; not modelled here

def ellipseToMask (e : Ellipse ℚ) (mode : MaskMode) : Except MaskErr GenMask := do
  validateMode mode
  let b ← e.bboxQ.mapError MaskErr.bbox
  match subpixOf mode with
  | some n => pure (ellipseMask e b n)
  | none => .error .notImplemented

def rectToMask (c : Rect ℚ) (mode : MaskMode) : Except MaskErr GenMask := do
  validateMode mode
  let b ← (bboxOfExtent c.extent).mapError MaskErr.bbox
  match subpixOf mode with
  | some n => pure (rectMask c b n)
  | none => .error .notImplemented        -- the kernel raises NotImplementedError for exact

def polygonToMask (g : Polygon ℚ) (mode : MaskMode) : Except MaskErr GenMask := do
  validateMode mode
  match g.extent with
  | none => .error (.bbox .valueError)
  | some e =>
    let b ← (bboxOfExtent e).mapError MaskErr.bbox
    match subpixOf mode with
    | some n => pure (polygonMask g e b n)
    | none => .error .notImplemented

/-- annuli: `CompoundPixelRegion(inner, outer, xor).to_mask(mode)` — only `'center'`. -/
def annulusToMask (inner outer : MaskMode → Except MaskErr GenMask) (mode : MaskMode) :
    Except MaskErr GenMask :=
  match mode with
  | .center => do
    let m1 ← inner .center
    let m2 ← outer .center
    combineMasks .xor m1 m2
  | _ => .error .notImplemented

/-- `to_mask(mode, subpixels)` for a region expression. -/
def PReg.toMask : PReg ℚ → MaskMode → Except MaskErr GenMask
  | .circle c _, mode => circleToMask c mode
  | .ellipse e _, mode => ellipseToMask e mode
  | .rect c _, mode => rectToMask c mode
  | .polygon g _, mode => polygonToMask g mode
  | .circleAnnulus c r1 r2 _, mode => annulusToMask (circleToMask ⟨c, r1⟩) (circleToMask ⟨c, r2⟩) mode
  | .ellipseAnnulus c w1 h1 w2 h2 d _, mode =>
    annulusToMask (ellipseToMask ⟨c, w1, h1, d⟩) (ellipseToMask ⟨c, w2, h2, d⟩) mode
  | .rectAnnulus c w1 h1 w2 h2 d _, mode =>
    annulusToMask (rectToMask ⟨c, w1, h1, d⟩) (rectToMask ⟨c, w2, h2, d⟩) mode
  | .empty _ _ _ _, _ => .error .notImplemented
  | .compound op r1 r2 _, mode =>
    match mode with
    | .center => do
      let m1 ← r1.toMask .center
      let m2 ← r2.toMask .center
      combineMasks op m1 m2
    | _ => .error .notImplemented

end RegionsVerif.Impl
