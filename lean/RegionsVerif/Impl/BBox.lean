/-
Impl model of `regions/core/bounding_box.py` (class `RegionBoundingBox`).

Every definition mirrors one method of the class, line by line.  The integer
part is over `Int` (Python ints are unbounded); `fromFloat` is generic over an
ordered field with a floor function so that the same definition is executed on
`ℚ` by the driver and reasoned about on `ℝ`/`ℚ` in `Props/C19.lean`.
-/
import Mathlib.Algebra.Order.Floor.Ring
import Mathlib.Algebra.Order.Field.Basic

namespace RegionsVerif.Impl

/-- `RegionBoundingBox` after a successful `__init__`. -/
structure BBox where
  ixmin : Int
  ixmax : Int
  iymin : Int
  iymax : Int
deriving DecidableEq, Repr

/-- What `__init__` can raise (the `_is_int` tests are modelled by `mkChecked`
receiving a flag per argument: is it an integer in `_is_int`'s sense). -/
inductive BBoxErr | typeError | valueError
deriving DecidableEq, Repr

/-- `RegionBoundingBox.__init__`: four `_is_int` tests in order, then
`ixmin > ixmax`, then `iymin > iymax`. -/
def BBox.mkChecked (isInt : Bool × Bool × Bool × Bool) (ixmin ixmax iymin iymax : Int) :
    Except BBoxErr BBox :=
  if !isInt.1 then .error .typeError
  else if !isInt.2.1 then .error .typeError
  else if !isInt.2.2.1 then .error .typeError
  else if !isInt.2.2.2 then .error .typeError
  else if ixmin > ixmax then .error .valueError
  else if iymin > iymax then .error .valueError
  else .ok ⟨ixmin, ixmax, iymin, iymax⟩

/-- `__init__` on genuine ints. -/
def BBox.mk? (ixmin ixmax iymin iymax : Int) : Except BBoxErr BBox :=
  BBox.mkChecked (true, true, true, true) ixmin ixmax iymin iymax

/-- class invariant established by `__init__`. -/
def BBox.WF (b : BBox) : Prop := b.ixmin ≤ b.ixmax ∧ b.iymin ≤ b.iymax

instance (b : BBox) : Decidable b.WF := by unfold BBox.WF; infer_instance

section fromFloat
variable {α : Type} [Field α] [LinearOrder α] [IsStrictOrderedRing α] [FloorRing α]

/-- `from_float`: `int(np.floor(xmin + 0.5))`, `int(np.ceil(xmax + 0.5))`, …
then the constructor (which may raise `ValueError`). -/
def BBox.fromFloat (xmin xmax ymin ymax : α) : Except BBoxErr BBox :=
  BBox.mk? ⌊xmin + 1/2⌋ ⌈xmax + 1/2⌉ ⌊ymin + 1/2⌋ ⌈ymax + 1/2⌉

end fromFloat

/-- `shape` property: `(ny, nx)`. -/
def BBox.shape (b : BBox) : Int × Int := (b.iymax - b.iymin, b.ixmax - b.ixmin)

/-- `center` property `(y, x)`, returned doubled to stay in `Int`:
`0.5 * (iymax - 1 + iymin)` is `center2.1 / 2`. -/
def BBox.center2 (b : BBox) : Int × Int := (b.iymax - 1 + b.iymin, b.ixmax - 1 + b.ixmin)

/-- `extent` property `(x0, x1, y0, y1)`, doubled: `ixmin - 0.5` is `(2*ixmin - 1)/2`. -/
def BBox.extent2 (b : BBox) : Int × Int × Int × Int :=
  (2 * b.ixmin - 1, 2 * b.ixmax - 1, 2 * b.iymin - 1, 2 * b.iymax - 1)

/-- `union`: min/max of corners, then the constructor (never raises on WF inputs;
proved in Props). -/
def BBox.union (a b : BBox) : Except BBoxErr BBox :=
  BBox.mk? (min a.ixmin b.ixmin) (max a.ixmax b.ixmax) (min a.iymin b.iymin) (max a.iymax b.iymax)

/-- `intersection`: `None` when `ixmax < ixmin or iymax < iymin`. -/
def BBox.inter (a b : BBox) : Option BBox :=
  let ixmin := max a.ixmin b.ixmin
  let ixmax := min a.ixmax b.ixmax
  let iymin := max a.iymin b.iymin
  let iymax := min a.iymax b.iymax
  if ixmax < ixmin ∨ iymax < iymin then none
  else some ⟨ixmin, ixmax, iymin, iymax⟩

/-- a Python `slice(start, stop)` with non-negative in-range bounds. -/
structure Slice where
  start : Int
  stop : Int
deriving DecidableEq, Repr

/-- `get_overlap_slices(shape)` with `shape = (ny, nx)`:
returns `((large_y, large_x), (small_y, small_x))` or `None, None`. -/
def BBox.overlapSlices (b : BBox) (ny nx : Int) : Option ((Slice × Slice) × (Slice × Slice)) :=
  let xmin := b.ixmin
  let xmax := b.ixmax
  let ymin := b.iymin
  let ymax := b.iymax
  if xmin ≥ nx ∨ ymin ≥ ny ∨ xmax ≤ 0 ∨ ymax ≤ 0 then none
  else some ((⟨max ymin 0, min ymax ny⟩, ⟨max xmin 0, min xmax nx⟩),
             (⟨max (-ymin) 0, min (ymax - ymin) (ny - ymin)⟩,
              ⟨max (-xmin) 0, min (xmax - xmin) (nx - xmin)⟩))

end RegionsVerif.Impl
