/-
Impl model of `regions/core/pixcoord.py` (class `PixCoord`).

Two layers.

1. **numpy as a stated parameter** (`namespace NP`).  An n-d array is `(shape, row-major data)`.
   Everything numpy does for `PixCoord` is a *shape-determined gather*: from the shapes (and the
   index expression) numpy computes a result shape and, for every result element, the flat
   position of the source element it is a copy of.  The rules written down here are the
   standard ones and are assumed (trusted base), the correspondence run exercises real numpy:
   * broadcasting (`bshape`, `broadcastTo`): shapes are right-aligned (left-padded with 1), two
     dimensions are compatible when equal or when one of them is 1 (which is stretched);
     incompatible ⇒ error; the broadcast element at a multi-index is the source element at the
     same multi-index with the stretched positions set to 0;
   * indexing (`plan`, `getitem`) for the index language `Ix` = int, negative int, slice
     (start/stop/step, negative step), integer array, boolean array, `Ellipsis`, and tuples of
     these: Python's `slice.indices`, numpy's "advanced indices are broadcast together, plain
     ints take part as 0-d arrays, the broadcast dimensions replace the advanced block when
     it is contiguous and go first otherwise", boolean arrays = `nonzero()`, and numpy's
     error classes (`IndexError`; `ValueError` for a zero slice step) in numpy's order;
   * iteration over the first axis (`rows`).

2. **`PixCoord`** mirrors the class method by method: `__init__` (broadcast x and y; a 0-d pair
   is stored as Python scalars = shape `[]`), `isscalar`, `__len__`, `__iter__`, `__getitem__`,
   `__add__`, `__sub__`, `separation` (kept squared: the model is sqrt-free), `rotate` (the rotation is the unit vector `(c, s) = (cos, sin)`),
   `copy`, `xy`, `to_sky`/`from_sky` with the WCS pixel↔world maps as parameters.  `__eq__` is
   not modelled: equality is not a clause of C20 (it belongs to C16).

Generic over the element type: the driver runs it on `ℚ`, the theorems are for any (ordered) field.
-/
import Mathlib.Algebra.Order.Field.Basic

namespace RegionsVerif.Impl

/-- the exception classes `PixCoord` can raise. -/
inductive PyErr | typeError | valueError | indexError
deriving DecidableEq, Repr

/-- an n-d array: shape and row-major (C-order) data.  `shape = []` is a scalar / 0-d array. -/
structure NDArr (α : Type) where
  shape : List Nat
  data : List α
deriving DecidableEq, Repr

namespace NDArr
variable {α β γ : Type}

/-- the representation invariant. -/
def WF (a : NDArr α) : Prop := a.data.length = a.shape.prod

instance (a : NDArr α) : Decidable a.WF := by unfold WF; infer_instance

def scalar (v : α) : NDArr α := ⟨[], [v]⟩
def map (f : α → β) (a : NDArr α) : NDArr β := ⟨a.shape, a.data.map f⟩

end NDArr

/-! ## numpy (parameter of the model) -/
namespace NP
variable {α β γ : Type}

/-- row-major enumeration of all sums of one offset per group: the flat source positions of a
result whose dimensions are the groups, in order. -/
def outerSum : List (List Nat) → List Nat
  | [] => [0]
  | l :: ls => l.flatMap fun a => (outerSum ls).map (a + ·)

/-- copy the source elements at the given flat positions (`d` is never read when the positions
are in range; `Lemmas.NDArr.bcast_in_range`). -/
def gather (d : α) (data : List α) (idx : List Nat) : List α := idx.map fun i => data.getD i d

/-! ### broadcasting -/

/-- left-pad a shape with 1s to rank `n`. -/
def pad (n : Nat) (s : List Nat) : List Nat := List.replicate (n - s.length) 1 ++ s

/-- broadcast of one pair of dimensions. -/
def bdim (a b : Nat) : Option Nat :=
  if a = b then some a else if a = 1 then some b else if b = 1 then some a else none

def bzip : List Nat → List Nat → Option (List Nat)
  | [], [] => some []
  | a :: as, b :: bs =>
    match bdim a b, bzip as bs with
    | some d, some r => some (d :: r)
    | _, _ => none
  | _, _ => none

/-- `np.broadcast_shapes(a, b)`; `none` = "shape mismatch: objects cannot be broadcast". -/
def bshape (a b : List Nat) : Option (List Nat) :=
  bzip (pad (max a.length b.length) a) (pad (max a.length b.length) b)

/-- per target dimension, the source offsets: `i * stride` when the (padded) source dimension
equals the target dimension, `0` (stretch) otherwise. -/
def bOffs : List Nat → List Nat → List (List Nat)
  | t :: ts, p :: ps =>
    (if p = t then (List.range t).map (· * ps.prod) else List.replicate t 0) :: bOffs ts ps
  | _, _ => []

/-- `np.broadcast_to(a, tgt)` (values). -/
def broadcastTo (d : α) (a : NDArr α) (tgt : List Nat) : NDArr α :=
  ⟨tgt, gather d a.data (outerSum (bOffs tgt (pad tgt.length a.shape)))⟩

/-- a broadcasting binary ufunc. -/
def binop (d₁ : α) (d₂ : β) (f : α → β → γ) (a : NDArr α) (b : NDArr β) : Option (NDArr γ) :=
  match bshape a.shape b.shape with
  | none => none
  | some s => some ⟨s, List.zipWith f (broadcastTo d₁ a s).data (broadcastTo d₂ b s).data⟩

/-! ### indexing -/

/-- the modelled index language (a key is a `List Ix`: a tuple; a bare index is a 1-tuple). -/
inductive Ix
  | int (i : Int)
  | slice (start stop step : Option Int)
  | intArr (shape : List Nat) (data : List Int)
  | boolArr (shape : List Nat) (data : List Bool)
  | ellipsis
deriving Repr, DecidableEq

/-- number of source dimensions an index consumes. -/
def Ix.consumes : Ix → Nat
  | .boolArr sh _ => sh.length
  | .ellipsis => 0
  | _ => 1

def Ix.isEllipsis : Ix → Bool
  | .ellipsis => true
  | _ => false

def Ix.isArray : Ix → Bool
  | .intArr _ _ => true
  | .boolArr _ _ => true
  | _ => false

def fullSlice : Ix := .slice none none none

/-- expand `Ellipsis` / append the implied trailing `:`; "an index can only have a single
ellipsis" and "too many indices for array" are `IndexError`s.  The `Ellipsis` itself is kept in
front of the slices it stands for: numpy treats it as separating advanced indices even when it
stands for no dimension at all. -/
def expandKey (ndim : Nat) (key : List Ix) : Except PyErr (List Ix) :=
  let used := (key.map Ix.consumes).sum
  let nEll := key.countP Ix.isEllipsis
  if nEll > 1 then .error .indexError
  else if used > ndim then .error .indexError
  else
    let fill := List.replicate (ndim - used) fullSlice
    if nEll = 0 then .ok (key ++ fill)
    else .ok (key.flatMap fun k => if k.isEllipsis then Ix.ellipsis :: fill else [k])

/-- Python's `slice(start, stop, step).indices(n)` unrolled into the list of selected
positions; `none` = `ValueError: slice step cannot be zero`. -/
def sliceIdx (n : Nat) (start stop step : Option Int) : Option (List Nat) :=
  let st := step.getD 1
  if st = 0 then none else
  let n' : Int := n
  let lower : Int := if st < 0 then -1 else 0
  let upper : Int := if st < 0 then n' - 1 else n'
  let clamp : Int → Int := fun v => if v < 0 then max (v + n') lower else min v upper
  let a : Int := match start with
    | none => if st < 0 then upper else lower
    | some v => clamp v
  let b : Int := match stop with
    | none => if st < 0 then lower else upper
    | some v => clamp v
  let len : Nat :=
    if st > 0 then (if a < b then ((b - a - 1) / st + 1).toNat else 0)
    else (if b < a then ((a - b - 1) / (-st) + 1).toNat else 0)
  some ((List.range len).map fun (k : Nat) => (a + k * st).toNat)

/-- what one index does along the dimension(s) it consumes. -/
inductive Sel
  /-- a slice: its own result dimension; offsets = selected position × stride. -/
  | basic (offs : List Nat)
  /-- an advanced index (int array, one axis of a boolean array, or a plain int as 0-d array)
  along a source dimension of size `n` with stride `stride`; not yet bounds-checked. -/
  | adv (idx : NDArr Int) (n stride : Nat)
  /-- the position of an `Ellipsis`: consumes nothing, yields nothing, separates advanced indices. -/
  | sep
deriving Repr

def Sel.isAdv : Sel → Bool
  | .adv _ _ _ => true
  | _ => false

/-- `mask.nonzero()`: one integer index per axis of the boolean array. -/
def boolSels (sh : List Nat) (data : List Bool) (tail : Nat) : List (Except PyErr Sel) :=
  let pos := (List.range sh.prod).filter fun i => data.getD i false
  (List.range sh.length).map fun k =>
    let bs := (sh.drop (k + 1)).prod
    .ok (.adv ⟨[pos.length], pos.map fun f => (((f / bs) % sh.getD k 1 : Nat) : Int)⟩
          (sh.getD k 1) (bs * tail))

/-- walk the (expanded) key along the dimensions. -/
def walk : List Nat → List Ix → List (Except PyErr Sel)
  | _, [] => []
  | dims, .boolArr sh data :: ks =>
    (if dims.take sh.length = sh then boolSels sh data (dims.drop sh.length).prod
     else [.error .indexError]) ++ walk (dims.drop sh.length) ks
  | dims, .ellipsis :: ks => .ok .sep :: walk dims ks
  | [], _ :: _ => [.error .indexError]                            -- not reachable after `expandKey`
  | n :: ns, .int i :: ks =>
    (if -(n : Int) ≤ i ∧ i < n then .ok (.adv ⟨[], [i]⟩ n ns.prod) else .error .indexError)
      :: walk ns ks
  | n :: ns, .slice a b c :: ks =>
    (match sliceIdx n a b c with
     | none => .error .valueError
     | some l => .ok (.basic (l.map (· * ns.prod)))) :: walk ns ks
  | n :: ns, .intArr sh data :: ks => .ok (.adv ⟨sh, data⟩ n ns.prod) :: walk ns ks

/-- boolean arrays must have exactly the shape of the dimensions they index ("boolean index did
not match indexed array"): checked while numpy prepares the index, before anything else. -/
def boolsOk : List Nat → List Ix → Bool
  | _, [] => true
  | dims, .boolArr sh _ :: ks => (dims.take sh.length == sh) && boolsOk (dims.drop sh.length) ks
  | dims, k :: ks => boolsOk (dims.drop k.consumes) ks

def advOf : Sel → Option (NDArr Int × Nat × Nat)
  | .adv ix n st => some (ix, n, st)
  | _ => none

def basicOf : Sel → Option (List Nat × List Nat)
  | .basic o => some ([o.length], o)
  | _ => none

/-- broadcast shape of all advanced indices. -/
def advShape : List (NDArr Int × Nat × Nat) → Option (List Nat)
  | [] => some []
  | a :: as => match advShape as with
    | none => none
    | some s => bshape a.1.shape s

/-- one advanced index, broadcast to `B`, bounds-checked, wrapped, times its stride. -/
def advCol (B : List Nat) (a : NDArr Int × Nat × Nat) : Except PyErr (List Nat) :=
  let v := (broadcastTo 0 a.1 B).data
  if v.all (fun i => decide (-(a.2.1 : Int) ≤ i ∧ i < a.2.1)) then
    .ok (v.map fun (i : Int) => (if i < 0 then i + (a.2.1 : Int) else i).toNat * a.2.2)
  else .error .indexError

/-- result groups `(dims, offsets)` in result order, from the selectors. -/
def assemble (ss : List Sel) : Except PyErr (List (List Nat × List Nat)) :=
  let advs := ss.filterMap advOf
  if advs.isEmpty then .ok (ss.filterMap basicOf)
  else
    match advShape advs with
    | none => .error .indexError
    | some B =>
      match advs.mapM (advCol B) with
      | .error e => .error e
      | .ok cols =>
        let advOffs := (List.range B.prod).map fun b => (cols.map (·.getD b 0)).sum
        let before := ss.takeWhile (fun s => !s.isAdv)
        let rest := ss.dropWhile (fun s => !s.isAdv)
        let after := rest.dropWhile Sel.isAdv
        if after.all (fun s => !s.isAdv) then
          .ok (before.filterMap basicOf ++ (B, advOffs) :: after.filterMap basicOf)
        else
          .ok ((B, advOffs) :: ss.filterMap basicOf)

/-- `a[key]` as a shape-determined gather: result shape and flat source positions.
numpy's error order: (1) while the index is prepared: too many indices, more than one Ellipsis,
boolean shape mismatch (`IndexError`); (2) left to right over the plain ints and slices: int out
of range (`IndexError`), zero slice step (`ValueError`); (3) the advanced indices: they do not
broadcast together, then an element out of range (`IndexError`; an empty broadcast checks nothing). -/
def plan (shape : List Nat) (key : List Ix) : Except PyErr (List Nat × List Nat) :=
  match expandKey shape.length key with
  | .error e => .error e
  | .ok key' =>
    if !boolsOk shape key' then .error .indexError else
    match (walk shape key').mapM id with
    | .error e => .error e
    | .ok ss =>
      match assemble ss with
      | .error e => .error e
      | .ok groups => .ok ((groups.map (·.1)).flatten, outerSum (groups.map (·.2)))

/-- `a[key]`. -/
def getitem (d : α) (a : NDArr α) (key : List Ix) : Except PyErr (NDArr α) :=
  match plan a.shape key with
  | .error e => .error e
  | .ok (s, idx) => .ok ⟨s, gather d a.data idx⟩

/-- iteration over the first axis (`for row in a`): consecutive chunks of the data. -/
def rows (a : NDArr α) : List (NDArr α) :=
  match a.shape with
  | [] => []
  | n :: rest => (List.range n).map fun i => ⟨rest, (a.data.drop (i * rest.prod)).take rest.prod⟩

end NP

open NP

/-! ## PixCoord -/

/-- a `PixCoord` instance: the attributes `x` and `y`.  A scalar coordinate (Python numbers)
is `shape = []`. -/
structure PixCoord (α : Type) where
  x : NDArr α
  y : NDArr α
deriving DecidableEq, Repr

/-- the right operand of `+`, `-`: a `PixCoord` or any other Python object. -/
inductive Operand (α : Type)
  | pix (p : PixCoord α)
  | other

namespace PixCoord
variable {α : Type}

/-- class invariant established by `__init__`. -/
def WF (p : PixCoord α) : Prop := p.x.WF ∧ p.y.WF ∧ p.x.shape = p.y.shape

section zero
variable [Zero α]

/-- `__init__`: `x, y = np.broadcast_arrays(x, y)`; 0-d results are unwrapped with `.item()`
(same representation here: shape `[]`). -/
def ctor (x y : NDArr α) : Except PyErr (PixCoord α) :=
  match bshape x.shape y.shape with
  | none => .error .valueError
  | some s => .ok ⟨broadcastTo 0 x s, broadcastTo 0 y s⟩

/-- `isscalar`: `np.isscalar(self.x)`. -/
def isscalar (p : PixCoord α) : Bool := p.x.shape.isEmpty

/-- `__len__`. -/
def len (p : PixCoord α) : Except PyErr Nat :=
  if p.isscalar then .error .typeError
  else .ok (p.x.shape.headD 0)

/-- `__iter__`: `zip(self.x, self.y, strict=True)`, each pair through the constructor.
(A scalar is not iterable: `TypeError`.) -/
def iter (p : PixCoord α) : Except PyErr (List (PixCoord α)) :=
  if p.isscalar then .error .typeError
  else if (rows p.x).length ≠ (rows p.y).length then .error .valueError
  else (List.zip (rows p.x) (rows p.y)).mapM fun xy => ctor xy.1 xy.2

/-- `__getitem__`: "let numpy do the slicing" on `x` and on `y`, then the constructor. -/
def getitem (p : PixCoord α) (key : List Ix) : Except PyErr (PixCoord α) :=
  if p.isscalar then .error .indexError
  else
    match NP.getitem 0 p.x key with
    | .error e => .error e
    | .ok x =>
      match NP.getitem 0 p.y key with
      | .error e => .error e
      | .ok y => ctor x y

/-- `copy`: deep copies of `x` and `y` through the constructor (values are immutable here;
independence of the real arrays is checked by the harness). -/
def copy (p : PixCoord α) : Except PyErr (PixCoord α) := ctor p.x p.y

/-- `xy`. -/
def xy (p : PixCoord α) : NDArr α × NDArr α := (p.x, p.y)

/-- the array of points `(x, y)`. -/
def pts (p : PixCoord α) : NDArr (α × α) := ⟨p.x.shape, List.zip p.x.data p.y.data⟩

end zero

/-- a broadcasting arithmetic ufunc on coordinates; numpy's broadcast failure is a `ValueError`. -/
def ufunc [Zero α] (f : α → α → α) (a b : NDArr α) : Except PyErr (NDArr α) :=
  match binop 0 0 f a b with
  | none => .error .valueError
  | some r => .ok r

section ring
variable [Ring α]

/-- `__add__`. -/
def add (p : PixCoord α) (o : Operand α) : Except PyErr (PixCoord α) :=
  match o with
  | .other => .error .typeError
  | .pix q =>
    match ufunc (· + ·) p.x q.x with
    | .error e => .error e
    | .ok x =>
      match ufunc (· + ·) p.y q.y with
      | .error e => .error e
      | .ok y => ctor x y

/-- `__sub__`. -/
def sub (p : PixCoord α) (o : Operand α) : Except PyErr (PixCoord α) :=
  match o with
  | .other => .error .typeError
  | .pix q =>
    match ufunc (· - ·) p.x q.x with
    | .error e => .error e
    | .ok x =>
      match ufunc (· - ·) p.y q.y with
      | .error e => .error e
      | .ok y => ctor x y

/-- `separation`, squared: `dx = np.subtract(other.x, self.x, dtype=float)`, `dy` likewise (the
differences are formed in float64, i.e. exactly here, whatever integer dtype the arrays have),
`hypot(dx, dy)²`. -/
def sep2 (p q : PixCoord α) : Except PyErr (NDArr α) :=
  match ufunc (· - ·) q.x p.x with
  | .error e => .error e
  | .ok dx =>
    match ufunc (· - ·) q.y p.y with
    | .error e => .error e
    | .ok dy => ufunc (fun a b => a * a + b * b) dx dy

/-- `rotate(center, angle)` with `(c, s) = (cos angle, sin angle)`:
`dx = np.subtract(self.x, center.x, dtype=float); dy = np.subtract(self.y, center.y, dtype=float);
 x = center.x + (c*dx - s*dy); y = center.y + (s*dx + c*dy)`. -/
def rotate (p center : PixCoord α) (c s : α) : Except PyErr (PixCoord α) :=
  match ufunc (· - ·) p.x center.x with
  | .error e => .error e
  | .ok dx =>
    match ufunc (· - ·) p.y center.y with
    | .error e => .error e
    | .ok dy =>
      match ufunc (· - ·) (dx.map (c * ·)) (dy.map (s * ·)) with
      | .error e => .error e
      | .ok rx =>
        match ufunc (· + ·) (dx.map (s * ·)) (dy.map (c * ·)) with
        | .error e => .error e
        | .ok ry =>
          match ufunc (· + ·) center.x rx with
          | .error e => .error e
          | .ok x =>
            match ufunc (· + ·) center.y ry with
            | .error e => .error e
            | .ok y => ctor x y

end ring

/-! ### sky conversion (the WCS is a parameter) -/

/-- the two directions of a WCS on FITS (1-based) pixel coordinates, per `mode`
(`'all'`: with distortions, `'wcs'`: core transformation only). -/
structure WCSMaps (α W : Type) where
  p2w : Bool → α × α → W        -- `True` = mode 'all'
  w2p : Bool → W → α × α

section sky
variable [Ring α] {W : Type}

/-- `to_sky(wcs, origin, mode)`: `SkyCoord.from_pixel` → `wcs.all_pix2world(x, y, origin)` /
`wcs.wcs_pix2world`: the pixel coordinates are shifted by `1 - origin` to the FITS convention,
then mapped element-wise; the result has the coordinate's shape. -/
def toSky (w : WCSMaps α W) (origin : α) (modeAll : Bool) (p : PixCoord α) : NDArr W :=
  ⟨p.x.shape, List.zipWith (fun x y => w.p2w modeAll (x + (1 - origin), y + (1 - origin)))
      p.x.data p.y.data⟩

/-- `from_sky(skycoord, wcs, origin, mode)`: `skycoord.to_pixel` → `wcs.all_world2pix(…, origin)`:
map element-wise to FITS pixels, shift back by `1 - origin`, then the constructor. -/
def fromSky (w : WCSMaps α W) (origin : α) (modeAll : Bool) (sky : NDArr W) :
    Except PyErr (PixCoord α) :=
  ctor ⟨sky.shape, sky.data.map fun v => (w.w2p modeAll v).1 - (1 - origin)⟩
       ⟨sky.shape, sky.data.map fun v => (w.w2p modeAll v).2 - (1 - origin)⟩

end sky

end PixCoord

/-! ### the geometry of single points (what the array operations do element-wise) -/
namespace Pt
variable {α : Type} [Ring α]

def add (p q : α × α) : α × α := (p.1 + q.1, p.2 + q.2)
def sub (p q : α × α) : α × α := (p.1 - q.1, p.2 - q.2)
/-- squared separation of `p` and `q`, as `separation` computes it. -/
def sep2 (p q : α × α) : α := (q.1 - p.1) * (q.1 - p.1) + (q.2 - p.2) * (q.2 - p.2)
/-- `rotate` of the point `p` about `ctr` by the unit vector `(c, s)`. -/
def rotate (c s : α) (ctr p : α × α) : α × α :=
  (ctr.1 + (c * (p.1 - ctr.1) - s * (p.2 - ctr.2)), ctr.2 + (s * (p.1 - ctr.1) + c * (p.2 - ctr.2)))

end Pt

end RegionsVerif.Impl
