/-
Impl.Write — executable model of how `regions` writes and reads region files
(`regions/io/{ds9,crtf,fits}/write.py`, `…/connect.py`, `regions/core/registry.py`).

* An abstract file system `FS := Path → (absent | file bytes | symlink Path)`.
  `lexists` looks at the path itself, `resolve` follows symlinks (bounded like the kernel's
  ELOOP limit), `openW` follows symlinks and creates-or-truncates, `stat` reads through links.
  Directories, permissions, relative link targets, short writes and concurrent writers are
  NOT modelled (parameters of the model; the real run exercises the real OS).
* A writer is the ORDERED LIST OF STEPS its `_write_*` function performs
  (`Gen/WriteTables.lean` regenerates that list from the source on every run).
  `serialize`, text encoding, `BinTableHDU(...)` and astropy's `writeto` are parameters
  (`Params`); `serItems` is the concrete serialiser used by the driver: it fails at the first
  unserialisable element, whatever its position.
* The registry: identifier tables (extension lists per method, content signature), first-match
  dispatch in registration order, for write (extension only) and read (extension, else content).
-/

namespace RegionsVerif.Impl.Write

abbrev Path := List Char
abbrev Bytes := List Char

/-! ### file system -/

inductive Node
  | absent
  | file (b : Bytes)
  | link (target : Path)
deriving DecidableEq, Repr

abbrev FS := Path → Node

def FS.set (fs : FS) (p : Path) (n : Node) : FS := fun q => if q = p then n else fs q

/-- `os.path.lexists`: true for files and for symlinks whatever they point to. -/
def lexists (fs : FS) (p : Path) : Bool :=
  match fs p with
  | .absent => false
  | _ => true

/-- symlink chain limit (Linux: 40); beyond it every path-following call fails with ELOOP. -/
def linkFuel : Nat := 40

/-- follow symlinks; the result is a path that is a file or absent (never a link). -/
def resolve (fs : FS) : Nat → Path → Option Path
  | 0, _ => none
  | n + 1, p =>
    match fs p with
    | .link t => resolve fs n t
    | _ => some p

/-- what `open(p, 'rb').read()` returns: `none` if absent / dangling / loop. -/
def stat (fs : FS) (p : Path) : Option Bytes :=
  match resolve fs linkFuel p with
  | some q =>
    match fs q with
    | .file b => some b
    | _ => none
  | none => none

/-- `os.path.exists` (follows symlinks). -/
def pexists (fs : FS) (p : Path) : Bool := (stat fs p).isSome

/-- `os.path.exists(p) and os.path.getsize(p) != 0` (astropy's test before refusing). -/
def nonEmpty (fs : FS) (p : Path) : Bool :=
  match stat fs p with
  | some b => !b.isEmpty
  | none => false

/-- `open(p, 'w')`: follows symlinks, creates or truncates; returns the new file system and
the resolved path the handle refers to.  `none` = OSError (ELOOP). -/
def openW (fs : FS) (p : Path) : Option (FS × Path) :=
  match resolve fs linkFuel p with
  | some q => some (fs.set q (.file []), q)
  | none => none

structure Outcome where
  exc : Option String
  fs : FS

/-! ### the write protocol as a step machine -/

inductive Step
  | checkExists        -- `if os.path.lexists(filename) and not overwrite: raise OSError`
  | checkExistsFollow  -- same with `os.path.exists` (follows symlinks)
  | serialize          -- `output = _serialize_*(regions, …)`
  | encode             -- text → bytes (explicit `.encode`, or implicit in a text-mode `fh.write`)
  | buildHdu           -- `fits.BinTableHDU(data=output, header=header)`
  | openWrite          -- `open(filename, 'w')`
  | writeBytes         -- `fh.write(…)`
  | writeto            -- astropy `hdu.writeto(filename, overwrite=overwrite)`
deriving DecidableEq, Repr

/-- the components the protocol calls; everything about them that a theorem needs is a
hypothesis of that theorem. -/
structure Params (Item : Type) where
  ser : List Item → Except String Bytes
  enc : Bytes → Except String Bytes
  hdu : Option String                 -- `some cls`: building the HDU raises `cls` (bad header option)
  writeto : FS → Path → Bytes → Bool → Outcome

structure St where
  fs : FS
  out : Option Bytes := none      -- serialised text / table
  data : Option Bytes := none     -- encoded bytes
  handle : Option Path := none    -- resolved path of the open file

def St.init (fs : FS) : St := { fs := fs }

section machine
variable {Item : Type}

/-- one step; returns the new state and the exception raised by this step, if any. -/
def step (P : Params Item) (p : Path) (items : List Item) (ow : Bool) (st : Step) (s : St) :
    St × Option String :=
  match st with
  | .checkExists => if lexists s.fs p && !ow then (s, some "OSError") else (s, none)
  | .checkExistsFollow => if pexists s.fs p && !ow then (s, some "OSError") else (s, none)
  | .serialize =>
    match P.ser items with
    | .ok t => ({ s with out := some t }, none)
    | .error e => (s, some e)
  | .encode =>
    match s.out with
    | none => (s, some "ModelError")
    | some t =>
      match P.enc t with
      | .ok b => ({ s with data := some b }, none)
      | .error e => (s, some e)
  | .buildHdu =>
    match P.hdu with
    | none => (s, none)
    | some e => (s, some e)
  | .openWrite =>
    match openW s.fs p with
    | some (fs', q) => ({ s with fs := fs', handle := some q }, none)
    | none => (s, some "OSError")
  | .writeBytes =>
    match s.handle, s.data with
    | some q, some b => ({ s with fs := s.fs.set q (.file b) }, none)
    | _, _ => (s, some "ModelError")
  | .writeto =>
    match s.out with
    | none => (s, some "ModelError")
    | some t =>
      let r := P.writeto s.fs p t ow
      ({ s with fs := r.fs }, r.exc)

def run (P : Params Item) (p : Path) (items : List Item) (ow : Bool) : List Step → St → Outcome
  | [], s => ⟨none, s.fs⟩
  | st :: rest, s =>
    match step P p items ow st s with
    | (s', none) => run P p items ow rest s'
    | (s', some e) => ⟨some e, s'.fs⟩

end machine

/-- steps that touch the file system when they succeed. -/
def Step.mutating : Step → Bool
  | .openWrite | .writeBytes | .writeto => true
  | _ => false

/-- static check: serialisation happens before anything touches the file system. -/
def safeOrder : List Step → Bool
  | [] => false
  | .serialize :: _ => true
  | s :: rest => !s.mutating && safeOrder rest

/-- static check: the existence check is the very first thing the writer does. -/
def guardedFirst : List Step → Bool
  | .checkExists :: _ => true
  | _ => false

/-- static abstract interpretation of a step list: `true` when no step can raise once the
file system has been touched.  `encOK` = "assume text encoding cannot fail".
Flags: `m` (a mutating step may have run), `ho`/`hd`/`hh` (output / data / handle known set). -/
def failSafeFrom (encOK : Bool) : Bool → Bool → Bool → Bool → List Step → Bool
  | _, _, _, _, [] => true
  | m, ho, hd, hh, .checkExists :: r => !m && failSafeFrom encOK m ho hd hh r
  | m, ho, hd, hh, .checkExistsFollow :: r => !m && failSafeFrom encOK m ho hd hh r
  | m, _, hd, hh, .serialize :: r => !m && failSafeFrom encOK m true hd hh r
  | m, ho, hd, hh, .buildHdu :: r => !m && failSafeFrom encOK m ho hd hh r
  | m, ho, _, hh, .encode :: r => (!m || (encOK && ho)) && failSafeFrom encOK m ho true hh r
  | m, ho, hd, _, .openWrite :: r => !m && failSafeFrom encOK true ho hd true r
  | m, ho, hd, hh, .writeBytes :: r => (!m || (hd && hh)) && failSafeFrom encOK true ho hd hh r
  | m, ho, hd, hh, .writeto :: r => !m && failSafeFrom encOK true ho hd hh r

def failSafe (encOK : Bool) (steps : List Step) : Bool :=
  failSafeFrom encOK false false false false steps

/-- static shape check used by `success_content`: pure steps, then either
`openWrite … writeBytes` (exactly once each, in that order) or one `writeto`. -/
inductive Shape
  | fresh | opened | written | wrote
deriving DecidableEq, Repr

def Shape.next : Shape → Step → Option Shape
  | .fresh, .openWrite => some .opened
  | .fresh, .writeto => some .wrote
  | .opened, .writeBytes => some .written
  | _, .openWrite => none
  | _, .writeBytes => none
  | _, .writeto => none
  | sh, _ => some sh

def shapeOf : Shape → List Step → Option Shape
  | sh, [] => some sh
  | sh, st :: r =>
    match sh.next st with
    | some sh' => shapeOf sh' r
    | none => none

/-! ### astropy's `writeto` as observed (astropy 8: `_File._overwrite_existing`) -/

/-- `if os.path.exists(name) and os.path.getsize(name) != 0: (os.remove(name) if overwrite else
raise OSError)`, then `open(name, 'wb')` and write.  `os.remove` unlinks the path itself
(a symlink is removed, its target is left alone). -/
def astropyWriteto (fs : FS) (p : Path) (b : Bytes) (ow : Bool) : Outcome :=
  if nonEmpty fs p then
    if ow then ⟨none, (fs.set p .absent).set p (.file b)⟩
    else ⟨some "OSError", fs⟩
  else
    match resolve fs linkFuel p with
    | some q => ⟨none, fs.set q (.file b)⟩
    | none => ⟨some "OSError", fs⟩

/-! ### concrete serialiser: fails iff some element is unserialisable -/

inductive Kind
  | ok                 -- serialised
  | skip               -- skipped with a warning (FITS: sky regions, compound, …)
  | bad (err : String) -- serialising it raises `err`
deriving DecidableEq, Repr

structure Item where
  id : String
  kind : Kind
  encOK : Bool := true   -- its text can be encoded with the locale encoding

/-- ids that end up in the output, or the error of the first unserialisable element. -/
def serIds : List Item → Except String (List String)
  | [] => .ok []
  | i :: rest =>
    match i.kind with
    | .bad e => .error e
    | .skip => serIds rest
    | .ok =>
      match serIds rest with
      | .ok l => .ok (i.id :: l)
      | .error e => .error e

def Item.isBad (i : Item) : Bool :=
  match i.kind with
  | .bad _ => true
  | _ => false

/-! ### formats, identifier tables, registry dispatch -/

inductive Format
  | crtf | ds9 | fits
deriving DecidableEq, Repr

def Format.name : Format → String
  | .crtf => "crtf" | .ds9 => "ds9" | .fits => "fits"

inductive ContentVia
  | signature   -- `get_readable_fileobj(...)`, compare the first bytes with the signature
  | fitsOpen    -- `fits.open(filepath)` inside `try/except OSError`
deriving DecidableEq, Repr

structure IdentEntry where
  fmt : Format
  readExts : List (List Char)
  writeExts : List (List Char)
  sig : List Char
  via : ContentVia
deriving DecidableEq, Repr

/-- `filepath.lower()` (ASCII). -/
def lower (n : Path) : Path := n.map Char.toLower

def extMatch (exts : List (List Char)) (lname : Path) : Bool := exts.any (fun e => e.isSuffixOf lname)

/-- `identify_format(filename, cls, 'write')`: first identifier whose write extension matches. -/
def identifyWrite : List IdentEntry → Path → Option Format
  | [], _ => none
  | e :: r, lname => if extMatch e.writeExts lname then some e.fmt else identifyWrite r lname

/-- `identify_format(filename, cls, 'read')`: identifiers in registration order; each accepts
on its read extensions, otherwise looks at the (decompressed) content.  A missing file makes a
signature identifier raise `FileNotFoundError`; the FITS identifier swallows `OSError`. -/
def identifyRead : List IdentEntry → Path → Option Bytes → Except String Format
  | [], _, _ => .error "IORegistryError"
  | e :: r, lname, content =>
    if extMatch e.readExts lname then .ok e.fmt
    else
      match content with
      | none =>
        match e.via with
        | .signature => .error "FileNotFoundError"
        | .fitsOpen => identifyRead r lname content
      | some c => if e.sig.isPrefixOf c then .ok e.fmt else identifyRead r lname content

inductive FmtArg
  | infer
  | known (f : Format)
  | unknown             -- a format string nobody registered
deriving DecidableEq, Repr

structure WriteReq (Item : Type) where
  name : Path
  fmt : FmtArg
  ow : Bool
  items : List Item
  badKw : Bool := false   -- a keyword argument the writer does not accept (TypeError at the call)

/-- `RegionsRegistry.write`. -/
def regWrite {Item : Type} (tbl : List IdentEntry) (proto : Format → List Step) (P : Format → Params Item)
    (fs : FS) (r : WriteReq Item) : Outcome :=
  let f? : Option Format :=
    match r.fmt with
    | .known f => some f
    | .unknown => none
    | .infer => identifyWrite tbl (lower r.name)
  match f? with
  | none => ⟨some "IORegistryError", fs⟩
  | some f =>
    if r.badKw then ⟨some "TypeError", fs⟩
    else run (P f) r.name r.items r.ow (proto f) (St.init fs)

/-- readers: `get_readable_fileobj` / `fits.open` decompress gzip transparently. -/
structure Reader (R : Type) where
  parseFile : Format → Bytes → Except String R   -- the registered reader on the file's bytes
  gunzip : Bytes → Option Bytes                  -- `some inner` iff the bytes carry the gzip magic

def readable {R : Type} (rd : Reader R) (b : Bytes) : Bytes := (rd.gunzip b).getD b

/-- `RegionsRegistry.read`. -/
def regRead {R : Type} (tbl : List IdentEntry) (rd : Reader R) (fs : FS) (name : Path) (fmt : FmtArg) :
    Except String R :=
  let f? : Except String Format :=
    match fmt with
    | .known f => .ok f
    | .unknown => .error "IORegistryError"
    | .infer => identifyRead tbl (lower name) ((stat fs name).map (readable rd))
  match f? with
  | .error e => .error e
  | .ok f =>
    match stat fs name with
    | none => .error "FileNotFoundError"
    | some c => rd.parseFile f (readable rd c)

/-! ### table well-formedness (decided on the generated tables) -/

def isPre (a b : List Char) : Bool := a.isPrefixOf b
def isSuf (a b : List Char) : Bool := a.isSuffixOf b

/-- no entry's signature is a prefix of another entry's signature (so no content carries two). -/
def sigsExclusive (tbl : List IdentEntry) : Bool :=
  tbl.all fun a => tbl.all fun b => a.fmt == b.fmt || !(isPre a.sig b.sig)

/-- across formats no extension is a suffix of another (so no name carries two formats'
extensions), for either method. -/
def extsExclusive (tbl : List IdentEntry) : Bool :=
  tbl.all fun a => tbl.all fun b => a.fmt == b.fmt ||
    (a.readExts.all fun x => b.readExts.all fun y => !(isSuf x y) && !(isSuf y x))

def fmtsNodup : List IdentEntry → Bool
  | [] => true
  | e :: r => r.all (fun e' => e'.fmt != e.fmt) && fmtsNodup r

/-- write extensions are read extensions of the same entry. -/
def writeSubRead (tbl : List IdentEntry) : Bool :=
  tbl.all fun e => e.writeExts.all fun x => e.readExts.contains x

def tableOK (tbl : List IdentEntry) : Bool :=
  sigsExclusive tbl && extsExclusive tbl && fmtsNodup tbl && writeSubRead tbl &&
  tbl.all (fun e => !e.sig.isEmpty)

end RegionsVerif.Impl.Write
