/-
Bridge lemmas (tie T) for C19: every definition GENERATED from the current Python source by
`tools/py2lean.py` (`Gen/FormulasC19.lean`) equals the hand-written Impl definition the theorems
are about.  Re-proved by `lake build` on every run; a change of the source that changes what a
function computes changes the generated definition and breaks its bridge.
-/
import RegionsVerif.Gen.FormulasC19
import RegionsVerif.Impl.Extent

namespace RegionsVerif.Bridge.C19
open RegionsVerif.Impl RegionsVerif.Gen

section
variable {α : Type} [Field α] [LinearOrder α] [IsStrictOrderedRing α] [FloorRing α]

theorem from_float (xmin xmax ymin ymax : α) :
    FormulasC19.bbox_from_float xmax xmin ymax ymin = BBox.fromFloat xmin xmax ymin ymax := rfl

theorem union (a b : BBox) :
    FormulasC19.bbox_union b.ixmax b.ixmin b.iymax b.iymin a.ixmax a.ixmin a.iymax a.iymin = BBox.union a b := rfl

/-- `intersection` constructs the result with `RegionBoundingBox(...)`; the Impl model returns the
record directly because the constructor cannot fail there (`C19.inter_wf`). -/
theorem intersection (a b : BBox) :
    FormulasC19.bbox_intersection b.ixmax b.ixmin b.iymax b.iymin a.ixmax a.ixmin a.iymax a.iymin =
      (BBox.inter a b).map fun c => BBox.mk? c.ixmin c.ixmax c.iymin c.iymax := by
  unfold FormulasC19.bbox_intersection BBox.inter
  simp only
  split <;> rfl

theorem shape (b : BBox) : FormulasC19.bbox_shape b.ixmax b.ixmin b.iymax b.iymin = b.shape := rfl

theorem overlap_slices (b : BBox) (ny nx : Int) :
    FormulasC19.bbox_overlap_slices b.ixmax b.ixmin b.iymax b.iymin ny nx = b.overlapSlices ny nx := by
  unfold FormulasC19.bbox_overlap_slices BBox.overlapSlices
  rfl

end


/-- which attributes each translated function reads (a rename such as `vertices` → `_vertices`
keeps the arithmetic but changes this list). -/
theorem reads_eq :
    FormulasC19.bbox_from_float_reads = ["xmax", "xmin", "ymax", "ymin"] ∧
    FormulasC19.bbox_union_reads = ["other_ixmax", "other_ixmin", "other_iymax", "other_iymin", "self_ixmax", "self_ixmin", "self_iymax", "self_iymin"] ∧
    FormulasC19.bbox_intersection_reads = ["other_ixmax", "other_ixmin", "other_iymax", "other_iymin", "self_ixmax", "self_ixmin", "self_iymax", "self_iymin"] ∧
    FormulasC19.bbox_shape_reads = ["self_ixmax", "self_ixmin", "self_iymax", "self_iymin"] ∧
    FormulasC19.bbox_overlap_slices_reads = ["self_ixmax", "self_ixmin", "self_iymax", "self_iymin", "shape_0", "shape_1"] :=
  ⟨rfl, rfl, rfl, rfl, rfl⟩

end RegionsVerif.Bridge.C19
