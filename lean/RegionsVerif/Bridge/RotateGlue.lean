/-
Bridge: what the `rotate` methods of the current source do (`Gen/RotateGlue.lean`, obtained by
symbolic interpretation, so the ORDER of `center = …` / `angle = …` matters) is what the models
`Impl.Circle/Ellipse/Rect/Polygon.rotate` and `PReg.rotate` do.
-/
import RegionsVerif.Gen.RotateGlue

namespace RegionsVerif.Bridge.RotateGlue
open RegionsVerif.Impl RegionsVerif.Gen.RotateGlue

variable {α : Type} [Field α] [LinearOrder α] [IsStrictOrderedRing α]

theorem circle_rotate_eq (r : Circle α) (o : Pt α) (d : Dir α) : circle_rotate r o d = r.rotate o d := rfl
theorem ellipse_rotate_eq (r : Ellipse α) (o : Pt α) (d : Dir α) : ellipse_rotate r o d = r.rotate o d := rfl
theorem rectangle_rotate_eq (r : Rect α) (o : Pt α) (d : Dir α) : rectangle_rotate r o d = r.rotate o d := rfl
theorem polygon_rotate_eq (r : Polygon α) (o : Pt α) (d : Dir α) : polygon_rotate r o d = r.rotate o d := rfl

/-- every class: the position attribute(s) are rotated about the ORIGINAL pivot by the ORIGINAL
angle, an `angle` parameter (where the class has one) gets the ORIGINAL angle added, nothing else
changes. -/
theorem rotate_changes_eq :
    rotate_changes =
      [("circle", [("center", "rot(self.center, CENTER, ANGLE)", false)]),
       ("ellipse", [("center", "rot(self.center, CENTER, ANGLE)", false), ("angle", "add(self.angle, ANGLE)", false)]),
       ("rectangle", [("center", "rot(self.center, CENTER, ANGLE)", false), ("angle", "add(self.angle, ANGLE)", false)]),
       ("polygon", [("vertices", "rot(self.vertices, CENTER, ANGLE)", false)]),
       ("regular_polygon", [("center", "rot(self.center, CENTER, ANGLE)", false), ("angle", "add(self.angle, ANGLE)", false)]),
       ("annulus", [("center", "rot(self.center, CENTER, ANGLE)", false), ("angle", "add(self.angle, ANGLE)", true)]),
       ("point", [("center", "rot(self.center, CENTER, ANGLE)", false)]),
       ("line", [("start", "rot(self.start, CENTER, ANGLE)", false), ("end", "rot(self.end, CENTER, ANGLE)", false)]),
       ("compound", [("region1", "rot(self.region1, CENTER, ANGLE)", false), ("region2", "rot(self.region2, CENTER, ANGLE)", false)])] := rfl

/-- the region-expression model follows that table: -/
theorem preg_rotate_circle (o : Pt α) (d : Dir α) (r : Circle α) (i : Include) :
    (PReg.circle r i).rotate o d = .circle (circle_rotate r o d) i := rfl
theorem preg_rotate_ellipse (o : Pt α) (d : Dir α) (r : Ellipse α) (i : Include) :
    (PReg.ellipse r i).rotate o d = .ellipse (ellipse_rotate r o d) i := rfl
theorem preg_rotate_rect (o : Pt α) (d : Dir α) (r : Rect α) (i : Include) :
    (PReg.rect r i).rotate o d = .rect (rectangle_rotate r o d) i := rfl
theorem preg_rotate_polygon (o : Pt α) (d : Dir α) (r : Polygon α) (i : Include) :
    (PReg.polygon r i).rotate o d = .polygon (polygon_rotate r o d) i := rfl
/-- annuli: centre rotated, angle (ellipse/rectangle annuli have one, circle annuli do not) added, sizes kept. -/
theorem preg_rotate_annuli (o : Pt α) (d : Dir α) (c : Pt α) (r1 r2 w1 h1 w2 h2 : α) (dd : Dir α) (i : Include) :
    (PReg.circleAnnulus c r1 r2 i).rotate o d = .circleAnnulus (c.rotate o d) r1 r2 i ∧
    (PReg.ellipseAnnulus c w1 h1 w2 h2 dd i).rotate o d = .ellipseAnnulus (c.rotate o d) w1 h1 w2 h2 (dd.add d) i ∧
    (PReg.rectAnnulus c w1 h1 w2 h2 dd i).rotate o d = .rectAnnulus (c.rotate o d) w1 h1 w2 h2 (dd.add d) i :=
  ⟨rfl, rfl, rfl⟩
/-- points / lines / text: the position(s) rotated; compounds: both operands rotated, operator and flag kept. -/
theorem preg_rotate_empty_compound (o : Pt α) (d : Dir α) (k : EmptyKind) (a b : Pt α) (op : BoolOp)
    (r1 r2 : PReg α) (i : Include) :
    (PReg.empty k a b i).rotate o d = .empty k (a.rotate o d) (b.rotate o d) i ∧
    (PReg.compound op r1 r2 i).rotate o d = .compound op (r1.rotate o d) (r2.rotate o d) i :=
  ⟨rfl, rfl⟩

end RegionsVerif.Bridge.RotateGlue
