/-
Bridge lemmas (tie T) for C01: every definition GENERATED from the current Python source by
`tools/py2lean.py` (`Gen/FormulasC01.lean`) equals the hand-written Impl definition the theorems
are about.  Re-proved by `lake build` on every run; a change of the source that changes what a
function computes changes the generated definition and breaks its bridge.
-/
import RegionsVerif.Gen.FormulasC01
import RegionsVerif.Impl.Extent

namespace RegionsVerif.Bridge.C01
open RegionsVerif.Impl RegionsVerif.Gen

section
variable {α : Type} [Field α] [LinearOrder α] [IsStrictOrderedRing α] [FloorRing α]

theorem circle_contains (r : Circle α) (i : Include) (p : Pt α) :
    FormulasC01.circle_contains i p.x p.y r.center.x r.center.y r.radius = withInclude i (r.inRaw p) := by
  unfold FormulasC01.circle_contains Circle.inRaw sep2
  rfl

theorem ellipse_contains (r : Ellipse α) (i : Include) (p : Pt α) :
    FormulasC01.ellipse_contains i p.x p.y r.dir.c r.dir.s r.center.x r.center.y r.height r.width =
      withInclude i (r.inRaw p) := by
  unfold FormulasC01.ellipse_contains Ellipse.inRaw
  rfl

theorem rectangle_contains (r : Rect α) (i : Include) (p : Pt α) :
    FormulasC01.rectangle_contains i p.x p.y r.dir.c r.dir.s r.center.x r.center.y r.height r.width =
      withInclude i (r.inRaw p) := by
  unfold FormulasC01.rectangle_contains Rect.inRaw
  simp only [Bool.decide_and]

end


/-- which attributes each translated function reads (a rename such as `vertices` → `_vertices`
keeps the arithmetic but changes this list). -/
theorem reads_eq :
    FormulasC01.circle_contains_reads = ["incl", "pixcoord_x", "pixcoord_y", "self_center_x", "self_center_y", "self_radius"] ∧
    FormulasC01.ellipse_contains_reads = ["incl", "pixcoord_x", "pixcoord_y", "self_angle_c", "self_angle_s", "self_center_x", "self_center_y", "self_height", "self_width"] ∧
    FormulasC01.rectangle_contains_reads = ["incl", "pixcoord_x", "pixcoord_y", "self_angle_c", "self_angle_s", "self_center_x", "self_center_y", "self_height", "self_width"] :=
  ⟨rfl, rfl, rfl⟩

end RegionsVerif.Bridge.C01
