/-
Bridge: the normal forms of the glue methods of the current source (`Gen/InlineGlueC01.lean`,
obtained by symbolic execution: locals inlined, conditionals as expressions, side effects in order)
are the ones the hand-written model and the correspondence run of C01 were validated against.
Re-created with `tools/inlineglue.py C01 --write-bridge` from a tree on which the check passes.
-/
import RegionsVerif.Gen.InlineGlueC01

namespace RegionsVerif.Bridge.InlineGlueC01
open RegionsVerif.Gen.InlineGlueC01

def expected : List (String × String × List String) :=
  [("PolygonPixelRegion.contains", "(self, pixcoord) => (points_in_polygon(np.atleast_1d(np.asarray(PixCoord._validate(pixcoord, 'pixcoord').x, dtype=float)).flatten(), np.atleast_1d(np.asarray(PixCoord._validate(pixcoord, 'pixcoord').y, dtype=float)).flatten(), np.asarray(self.vertices.x, dtype=float), np.asarray(self.vertices.y, dtype=float)).astype(bool).reshape(np.atleast_1d(np.asarray(PixCoord._validate(pixcoord, 'pixcoord').x, dtype=float)).shape)[0] if PixCoord._validate(pixcoord, 'pixcoord').isscalar else points_in_polygon(np.atleast_1d(np.asarray(PixCoord._validate(pixcoord, 'pixcoord').x, dtype=float)).flatten(), np.atleast_1d(np.asarray(PixCoord._validate(pixcoord, 'pixcoord').y, dtype=float)).flatten(), np.asarray(self.vertices.x, dtype=float), np.asarray(self.vertices.y, dtype=float)).astype(bool).reshape(np.atleast_1d(np.asarray(PixCoord._validate(pixcoord, 'pixcoord').x, dtype=float)).shape)) if self.meta.get('include', True) else np.logical_not(points_in_polygon(np.atleast_1d(np.asarray(PixCoord._validate(pixcoord, 'pixcoord').x, dtype=float)).flatten(), np.atleast_1d(np.asarray(PixCoord._validate(pixcoord, 'pixcoord').y, dtype=float)).flatten(), np.asarray(self.vertices.x, dtype=float), np.asarray(self.vertices.y, dtype=float)).astype(bool).reshape(np.atleast_1d(np.asarray(PixCoord._validate(pixcoord, 'pixcoord').x, dtype=float)).shape)[0] if PixCoord._validate(pixcoord, 'pixcoord').isscalar else points_in_polygon(np.atleast_1d(np.asarray(PixCoord._validate(pixcoord, 'pixcoord').x, dtype=float)).flatten(), np.atleast_1d(np.asarray(PixCoord._validate(pixcoord, 'pixcoord').y, dtype=float)).flatten(), np.asarray(self.vertices.x, dtype=float), np.asarray(self.vertices.y, dtype=float)).astype(bool).reshape(np.atleast_1d(np.asarray(PixCoord._validate(pixcoord, 'pixcoord').x, dtype=float)).shape))", []),
   ("PointPixelRegion.contains", "(self, pixcoord) => (False if pixcoord.isscalar else np.zeros(pixcoord.x.shape, dtype=bool)) if self.meta.get('include', True) else np.logical_not(False if pixcoord.isscalar else np.zeros(pixcoord.x.shape, dtype=bool))", []),
   ("LinePixelRegion.contains", "(self, pixcoord) => (False if pixcoord.isscalar else np.zeros(pixcoord.x.shape, dtype=bool)) if self.meta.get('include', True) else np.logical_not(False if pixcoord.isscalar else np.zeros(pixcoord.x.shape, dtype=bool))", []),
   ("AnnulusPixelRegion.contains", "(self, pixcoord) => self._compound_region.contains(pixcoord)", [])]

theorem glue_eq : glue = expected := rfl

end RegionsVerif.Bridge.InlineGlueC01
