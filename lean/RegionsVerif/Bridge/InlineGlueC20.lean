/-
Bridge: the normal forms of the glue methods of the current source (`Gen/InlineGlueC20.lean`,
obtained by symbolic execution: locals inlined, conditionals as expressions, side effects in order)
are the ones the hand-written model and the correspondence run of C20 were validated against.
Re-created with `tools/inlineglue.py C20 --write-bridge` from a tree on which the check passes.
-/
import RegionsVerif.Gen.InlineGlueC20

namespace RegionsVerif.Bridge.InlineGlueC20
open RegionsVerif.Gen.InlineGlueC20

def expected : List (String × String × List String) :=
  [("PixCoord.__init__", "(self, x, y) => None", ["[np.broadcast_arrays(x, y)[0].shape == ()] self.x = np.broadcast_arrays(x, y)[0].item()", "[np.broadcast_arrays(x, y)[0].shape == ()] self.y = np.broadcast_arrays(x, y)[1].item()", "[not np.broadcast_arrays(x, y)[0].shape == ()] self.x = np.broadcast_arrays(x, y)[0]", "[not np.broadcast_arrays(x, y)[0].shape == ()] self.y = np.broadcast_arrays(x, y)[1]"]),
   ("PixCoord.copy", "(self) => self.__class__(copy.deepcopy(self.x), copy.deepcopy(self.y))", []),
   ("PixCoord.isscalar", "@property (self) => np.isscalar(self.x)", []),
   ("PixCoord.__len__", "(self) => RAISE(TypeError) if self.isscalar else len(self.x)", []),
   ("PixCoord.__iter__", "(self) => None", ["stmt for x, y in zip(self.x, self.y, strict=True): yield PixCoord(x=x, y=y)"]),
   ("PixCoord.__getitem__", "(self, key) => RAISE(IndexError) if self.isscalar else PixCoord(x=self.x[key], y=self.y[key])", []),
   ("PixCoord.to_sky", "(self, wcs, origin=_DEFAULT_WCS_ORIGIN, mode=_DEFAULT_WCS_MODE) => SkyCoord.from_pixel(xp=self.x, yp=self.y, wcs=wcs, origin=origin, mode=mode)", []),
   ("PixCoord.from_sky", "@classmethod (cls, skycoord, wcs, origin=_DEFAULT_WCS_ORIGIN, mode=_DEFAULT_WCS_MODE) => cls(x=skycoord.to_pixel(wcs=wcs, origin=origin, mode=mode)[0], y=skycoord.to_pixel(wcs=wcs, origin=origin, mode=mode)[1])", []),
   ("PixCoord.xy", "@property (self) => (self.x, self.y)", [])]

theorem glue_eq : glue = expected := rfl

end RegionsVerif.Bridge.InlineGlueC20
