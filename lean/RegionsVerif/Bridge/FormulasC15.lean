/-
Bridge lemmas (tie T) for C15: the definition GENERATED from the current source of
`PixCoord.rotate` by `tools/py2lean.py` equals the hand-written `Impl.Pt.rotate` the theorems
are about.  Re-proved on every run.
-/
import RegionsVerif.Gen.FormulasC15
import RegionsVerif.Impl.Shapes

namespace RegionsVerif.Bridge.C15
open RegionsVerif.Impl RegionsVerif.Gen

variable {α : Type} [Field α] [LinearOrder α] [IsStrictOrderedRing α] [FloorRing α]

omit [FloorRing α] in
theorem pixcoord_rotate (p o : Pt α) (d : Dir α) :
    FormulasC15.pixcoord_rotate d.c d.s o.x o.y p.x p.y = p.rotate o d := rfl


/-- which attributes the translated function reads. -/
theorem reads_eq : FormulasC15.pixcoord_rotate_reads = ["angle_c", "angle_s", "center_x", "center_y", "self_x", "self_y"] := rfl

end RegionsVerif.Bridge.C15
