/-
Bridge: the structure of compound and annulus pixel regions translated from the current source
(`Gen/CompoundGlue.lean`) is what the hand-written models (`Impl/Region.lean`, `Impl/Shapes.lean`)
assume.  A change of `CompoundPixelRegion.contains`, of how an annulus builds its compound and its
components (order, operator, SHARED meta), of what the annulus base class delegates to, or a new
override of one of these members in a concrete annulus class, changes the generated definitions
and breaks one of these.
-/
import RegionsVerif.Gen.CompoundGlue

namespace RegionsVerif.Bridge.CompoundGlue
open RegionsVerif.Impl RegionsVerif.Gen.CompoundGlue

/-- `CompoundPixelRegion.contains`: the operator on the operands' answers, negated as a whole when
the compound's include flag is false. -/
theorem compound_contains_eq (i : Include) (op : BoolOp) (a b : Bool) :
    compound_contains i op a b = withInclude i (op.apply a b) := by
  simp [compound_contains]

/-- the region-expression model evaluates compounds with exactly the translated function. -/
theorem preg_compound_contains {α : Type} [Field α] [LinearOrder α] [IsStrictOrderedRing α]
    (op : BoolOp) (r1 r2 : PReg α) (i : Include) (p : Pt α) :
    (PReg.compound op r1 r2 i).contains p = compound_contains i op (r1.contains p) (r2.contains p) := by
  rw [compound_contains_eq]; rfl

/-- an annulus is `CompoundPixelRegion(inner, outer, xor, self.meta, self.visual)`. -/
theorem annulus_structure :
    annulus_region1 = "self._inner_region" ∧ annulus_region2 = "self._outer_region" ∧
    annulus_operator = .xor ∧ annulus_meta = "self.meta" ∧ annulus_visual = "self.visual" :=
  ⟨rfl, rfl, rfl, rfl, rfl⟩

/-- the annulus model is the translated compound applied to the inner and outer components, which
carry the annulus' own include flag (they are built with the SHARED `self.meta`). -/
theorem annulusContains_eq (i : Include) (a b : Bool) :
    annulusContains i a b = compound_contains i annulus_operator (withInclude i a) (withInclude i b) := by
  rw [compound_contains_eq]; rfl

theorem annulus_delegates_eq :
    annulus_delegates =
      [("contains", "self._compound_region.contains(pixcoord)"),
       ("to_mask", "self._compound_region.to_mask(mode, subpixels)"),
       ("bounding_box", "self._outer_region.bounding_box"),
       ("area", "self._outer_region.area - self._inner_region.area")] := rfl

/-- components: same centre (and angle), the inner resp. outer sizes, then the shared meta and visual. -/
theorem annulus_components_eq :
    annulus_components =
      [("CircleAnnulusPixelRegion._inner_region", ["self.center", "self.inner_radius", "self.meta", "self.visual"]),
       ("CircleAnnulusPixelRegion._outer_region", ["self.center", "self.outer_radius", "self.meta", "self.visual"]),
       ("AsymmetricAnnulusPixelRegion._inner_region",
          ["self.center", "self.inner_width", "self.inner_height", "self.angle", "self.meta", "self.visual"]),
       ("AsymmetricAnnulusPixelRegion._outer_region",
          ["self.center", "self.outer_width", "self.outer_height", "self.angle", "self.meta", "self.visual"])] := rfl

/-- no concrete annulus class overrides a delegated member. -/
theorem annulus_no_overrides : ∀ e ∈ annulus_overrides, e.2 = [] := by decide

end RegionsVerif.Bridge.CompoundGlue
