/-
Bridge lemmas (tie T) for C04: every definition GENERATED from the current Python source by
`tools/py2lean.py` (`Gen/FormulasC04.lean`) equals the hand-written Impl definition the theorems
are about.  Re-proved by `lake build` on every run; a change of the source that changes what a
function computes changes the generated definition and breaks its bridge.
-/
import RegionsVerif.Gen.FormulasC04
import RegionsVerif.Impl.Extent

namespace RegionsVerif.Bridge.C04
open RegionsVerif.Impl RegionsVerif.Gen

section
variable {α : Type} [Field α] [LinearOrder α] [IsStrictOrderedRing α] [FloorRing α]

theorem circle_bounding_box (r : Circle α) :
    FormulasC04.circle_bounding_box r.center.x r.center.y r.radius = bboxOfExtent r.extent := rfl

theorem rectangle_bounding_box (r : Rect α) :
    FormulasC04.rectangle_bounding_box r.dir.c r.dir.s r.center.x r.center.y r.height r.width =
      bboxOfExtent r.extent := rfl

theorem line_bounding_box (a b : Pt α) :
    FormulasC04.line_bounding_box b.x b.y a.x a.y = bboxOfExtent (lineExtent a b) := rfl

theorem point_bounding_box (c : Pt α) :
    FormulasC04.point_bounding_box c.x c.y = bboxOfExtent (pointExtent c) := rfl

end

end RegionsVerif.Bridge.C04
