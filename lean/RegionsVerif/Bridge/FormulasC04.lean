/-
Bridge lemmas (tie T) for C04: every definition GENERATED from the current Python source by
`tools/py2lean.py` (`Gen/FormulasC04.lean`) equals the hand-written Impl definition the theorems
are about.  Re-proved by `lake build` on every run; a change of the source that changes what a
function computes changes the generated definition and breaks its bridge.
-/
import RegionsVerif.Gen.FormulasC04
import RegionsVerif.Impl.Extent
import Mathlib.Tactic.Ring

namespace RegionsVerif.Bridge.C04
open RegionsVerif.Impl RegionsVerif.Gen

section
variable {α : Type} [Field α] [LinearOrder α] [IsStrictOrderedRing α] [FloorRing α]

theorem circle_bounding_box (r : Circle α) :
    FormulasC04.circle_bounding_box r.center.x r.center.y r.radius = bboxOfExtent r.extent := rfl

theorem rectangle_bounding_box (r : Rect α) :
    FormulasC04.rectangle_bounding_box r.dir.c r.dir.s r.center.x r.center.y r.height r.width =
      bboxOfExtent r.extent := rfl

theorem line_bounding_box (a b : Pt α) :
    FormulasC04.line_bounding_box b.x b.y a.x a.y = bboxOfExtent (lineExtent a b) := rfl

theorem point_bounding_box (c : Pt α) :
    FormulasC04.point_bounding_box c.x c.y = bboxOfExtent (pointExtent c) := rfl

/-- ellipse: `from_float(cx ∓ √dx², cy ∓ √dy²)` with the squared half-extents of the model
(`np.sqrt` is a parameter of the translated definition). -/
theorem ellipse_bounding_box (r : Ellipse α) (sqrtF : α → α) :
    FormulasC04.ellipse_bounding_box r.dir.c r.dir.s r.center.x r.center.y r.height r.width sqrtF =
      BBox.fromFloat (r.center.x - sqrtF r.halfExtent2.1) (r.center.x + sqrtF r.halfExtent2.1)
        (r.center.y - sqrtF r.halfExtent2.2) (r.center.y + sqrtF r.halfExtent2.2) := by
  have e1 : (1/2 * r.width * r.dir.c) ^ 2 + (1/2 * r.height * (-r.dir.s)) ^ 2 = r.halfExtent2.1 := by
    unfold Ellipse.halfExtent2; ring
  have e2 : (1/2 * r.width * r.dir.s) ^ 2 + (1/2 * r.height * r.dir.c) ^ 2 = r.halfExtent2.2 := by
    unfold Ellipse.halfExtent2; ring
  unfold FormulasC04.ellipse_bounding_box
  rw [e1, e2]

/-- polygon: `from_float(x.min(), x.max(), y.min(), y.max())` in this order. -/
theorem polygon_bounding_box (e : α × α × α × α) :
    FormulasC04.polygon_bounding_box e.2.1 e.1 e.2.2.2 e.2.2.1 = bboxOfExtent e := rfl

end

/-- compound: the union of the operands' boxes; annulus: the outer component's box. -/
theorem compound_bounding_box (b1 b2 : BBox) :
    FormulasC04.compound_bounding_box b1 b2 = BBox.union b1 b2 := rfl

theorem annulus_bounding_box (b : BBox) : FormulasC04.annulus_bounding_box b = b := rfl

/-- the region-expression model uses exactly these: -/
theorem preg_bbox_compound (op : BoolOp) (r1 r2 : PReg ℚ) (i : Include) :
    (PReg.compound op r1 r2 i).bbox =
      (do let b1 ← r1.bbox; let b2 ← r2.bbox; FormulasC04.compound_bounding_box b1 b2) := rfl

theorem preg_bbox_polygon (g : Polygon ℚ) (i : Include) (e : ℚ × ℚ × ℚ × ℚ) (he : g.extent = some e) :
    (PReg.polygon g i).bbox = FormulasC04.polygon_bounding_box e.2.1 e.1 e.2.2.2 e.2.2.1 := by
  simp only [PReg.bbox, he]; rfl


/-- which attributes each translated function reads (a rename such as `vertices` → `_vertices`
keeps the arithmetic but changes this list). -/
theorem reads_eq :
    FormulasC04.circle_bounding_box_reads = ["self_center_x", "self_center_y", "self_radius"] ∧
    FormulasC04.rectangle_bounding_box_reads = ["self_angle_c", "self_angle_s", "self_center_x", "self_center_y", "self_height", "self_width"] ∧
    FormulasC04.line_bounding_box_reads = ["self_end_x", "self_end_y", "self_start_x", "self_start_y"] ∧
    FormulasC04.point_bounding_box_reads = ["self_center_x", "self_center_y"] ∧
    FormulasC04.ellipse_bounding_box_reads = ["self_angle_c", "self_angle_s", "self_center_x", "self_center_y", "self_height", "self_width", "sqrtF"] ∧
    FormulasC04.polygon_bounding_box_reads = ["self_vertices_x_max", "self_vertices_x_min", "self_vertices_y_max", "self_vertices_y_min"] ∧
    FormulasC04.compound_bounding_box_reads = ["self_region1_bounding_box", "self_region2_bounding_box"] ∧
    FormulasC04.annulus_bounding_box_reads = ["self__outer_region_bounding_box"] :=
  ⟨rfl, rfl, rfl, rfl, rfl, rfl, rfl, rfl⟩

end RegionsVerif.Bridge.C04
