/-
Bridge: what the pixel<->sky conversion methods of the current source build (`Gen/ConvGlue.lean`,
obtained by symbolic interpretation) is what the conversion RULES below say, for every class:

  position   sky -> pixel: the pixel image of the position (CEN of the helper for sized classes,
             S2P otherwise); pixel -> sky: W2S of the position
  size       sky -> pixel: PIX(size / SCALE(at the sky centre)); pixel -> sky: ANG(size * SCALE(at the
             sky image of the pixel centre))
  angle      sky -> pixel: ADD(angle, NORTH − 90°); pixel -> sky: SUB(angle, NORTH − 90°), NORTH taken at
             the same sky position as SCALE
  meta, visual   fresh copies (the text classes correct visual['rotation'] by ±(NORTH − 90°) on a COPY)
  compounds  both operands converted recursively, operator kept
These are the rules `Impl/Wcs.lean` implements (`SkyR.toPixel`, `PixR.toSky`); C06/C07's theorems
are about that model.  A change of any conversion method (unit handling, which centre the helper is
evaluated at, sign of the angle correction, a dropped copy, an attribute swapped, a cache) changes
the generated table and breaks `conv_table_eq`.
-/
import RegionsVerif.Gen.ConvGlue

namespace RegionsVerif.Bridge.ConvGlue
open RegionsVerif.Gen.ConvGlue

def skyAt : String := "W2S(self.center)"

def sizeToPix (s : String) : String := "PIX(self." ++ s ++ " / SCALE(self.center))"
def sizeToSky (flavour s : String) : String := "ANG[" ++ flavour ++ "](self." ++ s ++ " * SCALE(" ++ skyAt ++ "))"
def angleToPix : String := "ADD(self.angle, NORTH(self.center) - 90deg)"
def angleToSky : String := "SUB(self.angle, NORTH(" ++ skyAt ++ ") - 90deg)"
def copies : List (String × String) := [("meta", "COPY(self.meta)"), ("visual", "COPY(self.visual)")]

/-- positional slots `0, 1, …` for a list of terms. -/
def pos (ts : List String) : List (String × String) :=
  (List.range ts.length).zip ts |>.map fun (i, t) => (toString i, t)

/-- the conversion rules, class by class. -/
def rules : List (String × String × List (String × String)) :=
  [("CirclePixelRegion.to_sky", "CircleSkyRegion", pos [skyAt, sizeToSky "Angle-arcsec" "radius"] ++ copies),
   ("CircleSkyRegion.to_pixel", "CirclePixelRegion", pos ["CEN(self.center)", sizeToPix "radius"] ++ copies),
   ("EllipsePixelRegion.to_sky", "EllipseSkyRegion",
      pos [skyAt, sizeToSky "Angle-arcsec" "width", sizeToSky "Angle-arcsec" "height"] ++ [("angle", angleToSky)] ++ copies),
   ("EllipseSkyRegion.to_pixel", "EllipsePixelRegion",
      pos ["CEN(self.center)", sizeToPix "width", sizeToPix "height"] ++ [("angle", angleToPix)] ++ copies),
   ("RectanglePixelRegion.to_sky", "RectangleSkyRegion",
      pos [skyAt, sizeToSky "Angle-arcsec" "width", sizeToSky "Angle-arcsec" "height"] ++ [("angle", angleToSky)] ++ copies),
   ("RectangleSkyRegion.to_pixel", "RectanglePixelRegion",
      pos ["CEN(self.center)", sizeToPix "width", sizeToPix "height"] ++ [("angle", angleToPix)] ++ copies),
   ("PolygonPixelRegion.to_sky", "PolygonSkyRegion", [("vertices", "W2S(self.vertices)")] ++ copies),
   ("PolygonSkyRegion.to_pixel", "PolygonPixelRegion", pos ["S2P(self.vertices)"] ++ copies),
   ("CircleAnnulusPixelRegion.to_sky", "CircleAnnulusSkyRegion",
      pos [skyAt, sizeToSky "bare" "inner_radius", sizeToSky "bare" "outer_radius", "COPY(self.meta)", "COPY(self.visual)"]),
   ("CircleAnnulusSkyRegion.to_pixel", "CircleAnnulusPixelRegion",
      pos ["CEN(self.center)", sizeToPix "inner_radius", sizeToPix "outer_radius"] ++ copies),
   ("AsymmetricAnnulusPixelRegion.to_sky_args", "tuple",
      pos [skyAt, sizeToSky "to-arcsec" "inner_width", sizeToSky "to-arcsec" "outer_width",
           sizeToSky "to-arcsec" "inner_height", sizeToSky "to-arcsec" "outer_height", angleToSky]),
   ("AsymmetricAnnulusSkyRegion.to_pixel_args", "tuple",
      pos ["CEN(self.center)", sizeToPix "inner_width", sizeToPix "outer_width", sizeToPix "inner_height",
           sizeToPix "outer_height", angleToPix]),
   ("EllipseAnnulusPixelRegion.to_sky", "EllipseAnnulusSkyRegion", [("*to_sky_args", "")] ++ copies),
   ("EllipseAnnulusSkyRegion.to_pixel", "EllipseAnnulusPixelRegion", [("*to_pixel_args", "")] ++ copies),
   ("RectangleAnnulusPixelRegion.to_sky", "RectangleAnnulusSkyRegion", [("*to_sky_args", "")] ++ copies),
   ("RectangleAnnulusSkyRegion.to_pixel", "RectangleAnnulusPixelRegion", [("*to_pixel_args", "")] ++ copies),
   ("PointPixelRegion.to_sky", "PointSkyRegion", pos [skyAt] ++ copies),
   ("PointSkyRegion.to_pixel", "PointPixelRegion", pos ["S2P(self.center)"] ++ copies),
   ("LinePixelRegion.to_sky", "LineSkyRegion", pos ["W2S(self.start)", "W2S(self.end)"] ++ copies),
   ("LineSkyRegion.to_pixel", "LinePixelRegion", pos ["S2P(self.start)", "S2P(self.end)"] ++ copies),
   ("TextPixelRegion.to_sky", "TextSkyRegion",
      pos [skyAt, "self.text"] ++ [("meta", "COPY(self.meta)"), ("visual", "COPY(ROTVIS(-, NORTH(" ++ skyAt ++ ")))")]),
   ("TextSkyRegion.to_pixel", "TextPixelRegion",
      pos ["CEN(self.center)", "self.text"] ++ [("meta", "COPY(self.meta)"), ("visual", "COPY(ROTVIS(+, NORTH(self.center)))")]),
   ("CompoundPixelRegion.to_sky", "CompoundSkyRegion",
      [("region1", "REC(self.region1)"), ("operator", "self.operator"), ("region2", "REC(self.region2)")] ++ copies),
   ("CompoundSkyRegion.to_pixel", "CompoundPixelRegion",
      [("region1", "REC(self.region1)"), ("operator", "self.operator"), ("region2", "REC(self.region2)")] ++ copies),
   ("PixelRegion.to_sky", "raise NotImplementedError", []),
   ("SkyRegion.to_pixel", "raise NotImplementedError", [])]

/-- the translated conversion methods follow the rules, class by class. -/
theorem conv_table_eq : conv_table = rules := by decide +kernel

/-- sky-side membership: the base class converts the region with `to_pixel`, the positions with
`wcs.world_to_pixel` (the same route as the region: F205 repaired in b44d15d) and asks the pixel image; points,
lines (and text, a point subclass) contain nothing, answer in the shape of the positions and honour
the include flag; compounds combine the operands' sky-side answers and apply their own flag. -/
theorem sky_contains_eq :
    sky_contains =
      [("PointSkyRegion", "in_reg = False if skycoord.isscalar else np.zeros(skycoord.shape, dtype=bool) ; if self.meta.get('include', True): return in_reg else: return np.logical_not(in_reg)"),
       ("LineSkyRegion", "in_reg = False if skycoord.isscalar else np.zeros(skycoord.shape, dtype=bool) ; if self.meta.get('include', True): return in_reg else: return np.logical_not(in_reg)"),
       ("CompoundSkyRegion", "in_reg = self.operator(self.region1.contains(skycoord, wcs), self.region2.contains(skycoord, wcs)) ; if self.meta.get('include', True): return in_reg else: return np.logical_not(in_reg)"),
       ("SkyRegion", "pixel_region = self.to_pixel(wcs) ; x, y = wcs.world_to_pixel(skycoord) ; pixcoord = PixCoord(x, y) ; return pixel_region.contains(pixcoord)")] := rfl

/-- in the rules, to_pixel and to_sky of every sized class are mirror images: the same SCALE/NORTH
helper, sizes divided vs multiplied, the angle correction added vs subtracted. -/
theorem rules_mirror :
    angleToPix = "ADD(self.angle, NORTH(self.center) - 90deg)" ∧
    angleToSky = "SUB(self.angle, NORTH(W2S(self.center)) - 90deg)" ∧
    sizeToPix "radius" = "PIX(self.radius / SCALE(self.center))" ∧
    sizeToSky "bare" "radius" = "ANG[bare](self.radius * SCALE(W2S(self.center)))" := by decide +kernel

/-- the helper the sized classes share: the pixel image of the position; a second point `offset`
(1 arcsec by default) due NORTH of it in the position's OWN frame (`directional_offset_by(0, offset)`
keeps frame and frame attributes); `scale = offset / |Δpixel|` (arcsec per pixel); `angle =
atan2(Δy, Δx)` of the northward pixel displacement, in degrees.  The WCS model's `scaleAt` /
`northAt` parameters are defined by exactly this finite difference. -/
theorem helper_eq :
    helper_sig = "skycoord, wcs, offset=1 * u.arcsec" ∧
    helper_body =
      ["x, y = wcs.world_to_pixel(skycoord)",
       "pixcoord = PixCoord(x=x, y=y)",
       "skycoord_offset = skycoord.directional_offset_by(0.0, offset)",
       "x_offset, y_offset = wcs.world_to_pixel(skycoord_offset)",
       "dx = x_offset - x",
       "dy = y_offset - y",
       "scale = offset.to(u.arcsec) / (np.hypot(dx, dy) * u.pixel)",
       "angle = (np.arctan2(dy, dx) * u.radian).to(u.deg)",
       "return (pixcoord, scale, angle)"] := ⟨rfl, rfl⟩

end RegionsVerif.Bridge.ConvGlue
