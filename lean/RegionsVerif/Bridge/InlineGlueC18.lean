/-
Bridge: the normal forms of the glue methods of the current source (`Gen/InlineGlueC18.lean`,
obtained by symbolic execution: locals inlined, conditionals as expressions, side effects in order)
are the ones the hand-written model and the correspondence run of C18 were validated against.
Re-created with `tools/inlineglue.py C18 --write-bridge` from a tree on which the check passes.
-/
import RegionsVerif.Gen.InlineGlueC18

namespace RegionsVerif.Bridge.InlineGlueC18
open RegionsVerif.Gen.InlineGlueC18

def expected : List (String × String × List String) :=
  [("CirclePixelRegion.as_artist", "(self, origin=(0, 0), **kwargs) => Circle(xy=(self.center.x - origin[0], self.center.y - origin[1]), radius=float(self.radius), **self.visual.define_mpl_kwargs(self._mpl_artist))", ["self.visual.define_mpl_kwargs(self._mpl_artist).update(kwargs)"]),
   ("EllipsePixelRegion.as_artist", "(self, origin=(0, 0), **kwargs) => Ellipse(xy=(self.center.x - origin[0], self.center.y - origin[1]), width=self.width, height=self.height, angle=self.angle.to('deg').value, **self.visual.define_mpl_kwargs(self._mpl_artist))", ["self.visual.define_mpl_kwargs(self._mpl_artist).update(kwargs)"]),
   ("RectanglePixelRegion.as_artist", "(self, origin=(0, 0), **kwargs) => Rectangle(xy=(self._lower_left_xy()[0] - origin[0], self._lower_left_xy()[1] - origin[1]), width=self.width, height=self.height, angle=self.angle.to('deg').value, **self.visual.define_mpl_kwargs(self._mpl_artist))", ["self.visual.define_mpl_kwargs(self._mpl_artist).update(kwargs)"]),
   ("RectanglePixelRegion._lower_left_xy", "(self) => (self.center.x + (self.height / 2.0 * np.sin(self.angle) - self.width / 2.0 * np.cos(self.angle)), self.center.y + (-(self.height / 2.0 * np.cos(self.angle)) - self.width / 2.0 * np.sin(self.angle)))", []),
   ("PolygonPixelRegion.as_artist", "(self, origin=(0, 0), **kwargs) => Polygon(xy=np.vstack([np.subtract(self.vertices.x, origin[0], dtype=float), np.subtract(self.vertices.y, origin[1], dtype=float)]).transpose(), **self.visual.define_mpl_kwargs(self._mpl_artist))", ["self.visual.define_mpl_kwargs(self._mpl_artist).update(kwargs)"]),
   ("PointPixelRegion.as_artist", "(self, origin=(0, 0), **kwargs) => Line2D([self.center.x - origin[0]], [self.center.y - origin[1]], **self.visual.define_mpl_kwargs(self._mpl_artist))", ["self.visual.define_mpl_kwargs(self._mpl_artist).update(kwargs)"]),
   ("LinePixelRegion.as_artist", "(self, origin=(0, 0), **kwargs) => Arrow(self.start.x - origin[0], self.start.y - origin[1], self.end.x - self.start.x, self.end.y - self.start.y, **self.visual.define_mpl_kwargs(self._mpl_artist))", ["kwargs.setdefault('width', 0.1)", "self.visual.define_mpl_kwargs(self._mpl_artist).update(kwargs)"]),
   ("TextPixelRegion.as_artist", "(self, origin=(0, 0), **kwargs) => Text(self.center.x - origin[0], self.center.y - origin[1], self.text, **cbook.normalize_kwargs(self.visual.define_mpl_kwargs(self._mpl_artist), Text))", ["cbook.normalize_kwargs(self.visual.define_mpl_kwargs(self._mpl_artist), Text).update(cbook.normalize_kwargs(kwargs, Text))"]),
   ("CompoundPixelRegion.as_artist", "(self, origin=(0, 0), **kwargs) => mpatches.PathPatch(self._make_annulus_path(self.region1.as_artist(origin=origin), self.region2.as_artist(origin=origin)), **self.visual.define_mpl_kwargs(self._mpl_artist)) if self.region1.center == self.region2.center and self.operator is op.xor else RAISE(ValueError)", ["[self.region1.center == self.region2.center and self.operator is op.xor] self.visual.define_mpl_kwargs(self._mpl_artist).update(kwargs)"]),
   ("PixelRegion.plot", "(self, origin=(0, 0), ax=None, **kwargs) => self.as_artist(origin=origin, **kwargs)", ["(plt.gca() if ax is None else ax).add_artist(self.as_artist(origin=origin, **kwargs))"])]

theorem glue_eq : glue = expected := rfl

end RegionsVerif.Bridge.InlineGlueC18
