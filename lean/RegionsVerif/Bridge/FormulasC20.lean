/-
Bridge lemmas (tie T) for C20: the component-wise arithmetic of `PixCoord` translated from the
current source (`Gen/FormulasC20.lean`) is what the C20 theorems are about (`Impl.Pt.add/sub/sep2/
rotate` on coordinate pairs): addition and subtraction act on x and y separately with the operands
in this order, `separation` is the square root of the sum of the squared differences (`np.hypot`;
the square root is a parameter of the translation), `rotate` is the rotation about the centre.
-/
import RegionsVerif.Gen.FormulasC20
import Mathlib.Tactic.Ring

namespace RegionsVerif.Bridge.C20
open RegionsVerif.Impl RegionsVerif.Gen

section
variable {α : Type} [Field α] [LinearOrder α] [IsStrictOrderedRing α] [FloorRing α]

theorem pixcoord_add (p q : α × α) : FormulasC20.pixcoord_add q.1 q.2 p.1 p.2 = Pt.add p q := rfl

theorem pixcoord_sub (p q : α × α) : FormulasC20.pixcoord_sub q.1 q.2 p.1 p.2 = Pt.sub p q := rfl

/-- `(p + q) - q = p`, for the translated definitions. -/
theorem add_sub_cancel (p q : α × α) :
    FormulasC20.pixcoord_sub q.1 q.2 (FormulasC20.pixcoord_add q.1 q.2 p.1 p.2).1
      (FormulasC20.pixcoord_add q.1 q.2 p.1 p.2).2 = p := by
  simp [FormulasC20.pixcoord_sub, FormulasC20.pixcoord_add]

theorem pixcoord_separation (p q : α × α) (sqrtF : α → α) :
    FormulasC20.pixcoord_separation q.1 q.2 p.1 p.2 sqrtF = sqrtF (Pt.sep2 p q) := by
  unfold FormulasC20.pixcoord_separation Pt.sep2
  congr 1; ring

theorem pixcoord_rotate (p o : α × α) (c s : α) :
    FormulasC20.pixcoord_rotate c s o.1 o.2 p.1 p.2 = Pt.rotate c s o p := rfl

theorem reads_eq :
    FormulasC20.pixcoord_add_reads = ["other_x", "other_y", "self_x", "self_y"] ∧
    FormulasC20.pixcoord_sub_reads = ["other_x", "other_y", "self_x", "self_y"] ∧
    FormulasC20.pixcoord_separation_reads = ["other_x", "other_y", "self_x", "self_y", "sqrtF"] ∧
    FormulasC20.pixcoord_rotate_reads = ["angle_c", "angle_s", "center_x", "center_y", "self_x", "self_y"] :=
  ⟨rfl, rfl, rfl, rfl⟩

end

end RegionsVerif.Bridge.C20
