/-
Bridge: the normal forms of the glue methods of the current source (`Gen/InlineGlueC16.lean`,
obtained by symbolic execution: locals inlined, conditionals as expressions, side effects in order)
are the ones the hand-written model and the correspondence run of C16 were validated against.
Re-created with `tools/inlineglue.py C16 --write-bridge` from a tree on which the check passes.
-/
import RegionsVerif.Gen.InlineGlueC16

namespace RegionsVerif.Bridge.InlineGlueC16
open RegionsVerif.Gen.InlineGlueC16

def expected : List (String × String × List String) :=
  [("Region.copy", "(self, **changes) => self.__class__(**changes)", ["stmt for field in list(self._params) + ['meta', 'visual']: if field not in changes: changes[field] = copy.deepcopy(getattr(self, field))"]),
   ("Region.__eq__", "(self, other) => False if not isinstance(other, self.__class__) else False if list(self._params) + ['meta', 'visual'] != list(other._params) + ['meta', 'visual'] else True", ["[not not isinstance(other, self.__class__)] [not list(self._params) + ['meta', 'visual'] != list(other._params) + ['meta', 'visual']] stmt try: for param in list(self._params) + ['meta', 'visual']: self_val = getattr(self, param) other_val = getattr(other, param) if getattr(self_val, 'shape', ()) != getattr(other_val, 'shape', ()): return False if np.any(self_val != other_val): return False except (TypeError, ValueError): return False"]),
   ("Region.__ne__", "(self, other) => not self == other", []),
   ("PixCoord.__eq__", "(self, other) => (False if np.shape(self.x) != np.shape(other.x) else bool(np.allclose([self.x, self.y], [other.x, other.y]) and np.allclose([other.x, other.y], [self.x, self.y]))) if isinstance(other, self.__class__) else False", []),
   ("Regions.__init__", "(self, regions=(), /) => None", ["stmt for item in list(regions): if not isinstance(item, Region): raise TypeError('Input regions must be a list of Region objects')", "self.regions = list(regions)"]),
   ("Regions.__getitem__", "(self, index) => self.regions[index] if isinstance(self.regions[index], Region) else object.__new__(self.__class__)", ["[not isinstance(self.regions[index], Region)] object.__new__(self.__class__).regions = self.regions[index]"]),
   ("Regions.__len__", "(self) => len(self.regions)", []),
   ("Regions.append", "(self, region) => RAISE(TypeError) if not isinstance(region, Region) else FALLTHROUGH", ["[not not isinstance(region, Region)] self.regions.append(region)"]),
   ("Regions.extend", "(self, regions) => None", ["[isinstance(regions, Regions)] self.regions.extend(regions.regions)", "[not isinstance(regions, Regions)] stmt for item in list(regions): if not isinstance(item, Region): raise TypeError('Input regions must be a list of Region objects')", "[not isinstance(regions, Regions)] self.regions.extend(list(regions))"]),
   ("Regions.insert", "(self, index, region) => RAISE(TypeError) if not isinstance(region, Region) else FALLTHROUGH", ["[not not isinstance(region, Region)] self.regions.insert(index, region)"]),
   ("Regions.reverse", "(self) => None", ["self.regions.reverse()"]),
   ("Regions.pop", "(self, index=-1) => self.regions.pop(index)", []),
   ("Regions.copy", "(self) => object.__new__(self.__class__)", ["object.__new__(self.__class__).regions = self.regions.copy()"])]

theorem glue_eq : glue = expected := rfl

end RegionsVerif.Bridge.InlineGlueC16
