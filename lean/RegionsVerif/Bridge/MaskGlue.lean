/-
Bridge: the `to_mask` glue translated from the current source (`Gen/MaskGlue.lean`) is what the
hand-written mask model (`Impl/MaskGen.lean`) uses.  A change of the glue in the source (grid
edges, argument order, semi-axes, angle conversion, mode handling, kernel) changes the generated
definitions and breaks one of these.
-/
import RegionsVerif.Gen.MaskGlue

namespace RegionsVerif.Bridge.MaskGlue
open RegionsVerif.Impl RegionsVerif.Gen.MaskGlue

/-! ### grids -/

theorem circle_grid_eq (b : BBox) (c : Pt ℚ) :
    circle_grid b.ixmax b.ixmin b.iymax b.iymin b.shape.1 b.shape.2 c.x c.y = relGrid b c := rfl

theorem ellipse_grid_eq (b : BBox) (c : Pt ℚ) :
    ellipse_grid b.ixmax b.ixmin b.iymax b.iymin b.shape.1 b.shape.2 c.x c.y = relGrid b c := rfl

theorem rectangle_grid_eq (b : BBox) (c : Pt ℚ) :
    rectangle_grid b.ixmax b.ixmin b.iymax b.iymin b.shape.1 b.shape.2 c.x c.y = relGrid b c := rfl

theorem polygon_grid_eq (b : BBox) :
    polygon_grid b.ixmax b.ixmin b.iymax b.iymin b.shape.1 b.shape.2 = absGrid b := rfl

/-! ### kernels and their shape arguments -/

theorem kernels :
    circle_kernel = "circular_overlap_grid" ∧ ellipse_kernel = "elliptical_overlap_grid" ∧
    rectangle_kernel = "rectangular_overlap_grid" ∧ polygon_kernel = "polygonal_overlap_grid" :=
  ⟨rfl, rfl, rfl, rfl⟩

/-- circle: the radius. -/
theorem circle_args (r : Circle ℚ) : circle_shape_args r.radius = [r.radius] := rfl

/-- ellipse: the SEMI-axes `½·width`, `½·height`, then the angle in radians. -/
theorem ellipse_args (e : Ellipse ℚ) (θ : ℚ) :
    ellipse_shape_args θ e.height e.width = [1/2 * e.width, 1/2 * e.height, θ] := rfl

/-- rectangle: the FULL width and height, then the angle in radians. -/
theorem rectangle_args (r : Rect ℚ) (θ : ℚ) :
    rectangle_shape_args θ r.height r.width = [r.width, r.height, θ] := rfl

/-- polygon: no numeric arguments; the (absolute) vertex arrays. -/
theorem polygon_args :
    polygon_shape_args = [] ∧ polygon_array_args = ["self_vertices_x", "self_vertices_y"] := ⟨rfl, rfl⟩

/-! ### the masks of the model are the kernels applied to exactly these arguments -/

theorem circleMask_glue (r : Circle ℚ) (b : BBox) (n : Nat) :
    circleMask r b n =
      (let g := circle_grid b.ixmax b.ixmin b.iymax b.iymin b.shape.1 b.shape.2 r.center.x r.center.y
       let rad := (circle_shape_args r.radius).headD 0
       ⟨b, g.cellSkip (circleK rad) (-rad - 1/2 * g.dx) (rad + 1/2 * g.dx)
             (-rad - 1/2 * g.dy) (rad + 1/2 * g.dy) n⟩) := rfl

theorem ellipseMask_glue (e : Ellipse ℚ) (θ : ℚ) (b : BBox) (n : Nat) :
    ellipseMask e b n =
      (let g := ellipse_grid b.ixmax b.ixmin b.iymax b.iymin b.shape.1 b.shape.2 e.center.x e.center.y
       let a := ellipse_shape_args θ e.height e.width
       let rx := a.headD 0
       let ry := a.tail.headD 0
       let rr := max rx ry
       ⟨b, g.cellSkip (ellipseK rx ry e.dir) (-rr - 1/2 * g.dx) (rr + 1/2 * g.dx)
             (-rr - 1/2 * g.dy) (rr + 1/2 * g.dy) n⟩) := rfl

theorem rectMask_glue (r : Rect ℚ) (θ : ℚ) (b : BBox) (n : Nat) :
    rectMask r b n =
      (let g := rectangle_grid b.ixmax b.ixmin b.iymax b.iymin b.shape.1 b.shape.2 r.center.x r.center.y
       let a := rectangle_shape_args θ r.height r.width
       ⟨b, g.cell (rectK (a.headD 0) (a.tail.headD 0) r.dir) n⟩) := rfl

theorem polygonMask_glue (p : Polygon ℚ) (e : ℚ × ℚ × ℚ × ℚ) (b : BBox) (n : Nat) :
    polygonMask p e b n =
      ⟨b, (polygon_grid b.ixmax b.ixmin b.iymax b.iymin b.shape.1 b.shape.2).cellSkip
            (polyK p.vertices) e.1 e.2.1 e.2.2.1 e.2.2.2 n⟩ := rfl

/-! ### mode handling: `'center'` is `'subpixels'` with one sample, only `'exact'` sets `use_exact` -/

/-- for every mode the model accepts, the kernel gets `use_exact = 0` and the model's sampling
factor; `'exact'` gets `use_exact = 1`; an unknown mode reaches no kernel. -/
theorem effective_spec (f : MaskMode → Nat → Option (Nat × Nat))
    (hf : f = circle_effective ∨ f = ellipse_effective ∨ f = rectangle_effective ∨ f = polygon_effective)
    (m : MaskMode) (d : Nat) :
    (∀ n, subpixOf m = some n → f m d = some (0, n)) ∧
    (m = .exact → f m d = some (1, d)) ∧ (m = .other → f m d = none) := by
  rcases hf with h | h | h | h <;> subst h <;> cases m <;>
    simp [subpixOf, circle_effective, ellipse_effective, rectangle_effective, polygon_effective]

/-- the box of the returned mask is the region's bounding box, in all four classes. -/
theorem bbox_sources :
    circle_bbox_source = "self.bounding_box" ∧ ellipse_bbox_source = "self.bounding_box" ∧
    rectangle_bbox_source = "self.bounding_box" ∧ polygon_bbox_source = "self.bounding_box" ∧
    circle_result = "RegionMask(fraction, bbox=bbox)" ∧ ellipse_result = "RegionMask(fraction, bbox=bbox)" ∧
    rectangle_result = "RegionMask(fraction, bbox=bbox)" ∧ polygon_result = "RegionMask(fraction, bbox=bbox)" :=
  ⟨rfl, rfl, rfl, rfl, rfl, rfl, rfl, rfl⟩

end RegionsVerif.Bridge.MaskGlue
