/-
Bridge: the normal forms of the glue methods of the current source (`Gen/InlineGlueC08.lean`,
obtained by symbolic execution: locals inlined, conditionals as expressions, side effects in order)
are the ones the hand-written model and the correspondence run of C08 were validated against.
Re-created with `tools/inlineglue.py C08 --write-bridge` from a tree on which the check passes.
-/
import RegionsVerif.Gen.InlineGlueC08

namespace RegionsVerif.Bridge.InlineGlueC08
open RegionsVerif.Gen.InlineGlueC08

def expected : List (String × String × List String) :=
  [("CompoundPixelRegion.__init__", "(self, region1, region2, operator, meta=None, visual=None) => RAISE(TypeError) if not callable(operator) else FALLTHROUGH", ["[not not callable(operator)] self.region1 = region1", "[not not callable(operator)] self.region2 = region2", "[not not callable(operator)] [meta is None] self.meta = region1.meta", "[not not callable(operator)] [not meta is None] self.meta = meta", "[not not callable(operator)] [visual is None] self.visual = region1.visual", "[not not callable(operator)] [not visual is None] self.visual = visual", "[not not callable(operator)] self._operator = operator"]),
   ("CompoundPixelRegion.to_mask", "(self, mode='center', subpixels=1) => RAISE(NotImplementedError) if mode != 'center' else RegionMask(data=self.operator(*np.array(list(), dtype=int)), bbox=self.bounding_box)", ["[not mode != 'center'] stmt for mask in (self.region1.to_mask(mode=mode, subpixels=subpixels), self.region2.to_mask(mode=mode, subpixels=subpixels)): pleft = abs(mask.bbox.ixmin - self.bounding_box.ixmin) pright = abs(self.bounding_box.ixmax - mask.bbox.ixmax) ptop = abs(self.bounding_box.iymax - mask.bbox.iymax) pbottom = abs(mask.bbox.iymin - self.bounding_box.iymin) list().append(np.pad(mask.data, ((pbottom, ptop), (pleft, pright)), 'constant'))"]),
   ("CompoundPixelRegion.area", "@property (self) => RAISE(NotImplementedError)", []),
   ("Region.__and__", "(self, other) => self.intersection(other)", []),
   ("Region.__or__", "(self, other) => self.union(other)", []),
   ("Region.__xor__", "(self, other) => self.symmetric_difference(other)", []),
   ("PixelRegion.intersection", "(self, other) => CompoundPixelRegion(region1=self, region2=other, operator=operator.and_)", []),
   ("PixelRegion.union", "(self, other) => CompoundPixelRegion(region1=self, region2=other, operator=operator.or_)", []),
   ("PixelRegion.symmetric_difference", "(self, other) => CompoundPixelRegion(region1=self, region2=other, operator=operator.xor)", [])]

theorem glue_eq : glue = expected := rfl

end RegionsVerif.Bridge.InlineGlueC08
