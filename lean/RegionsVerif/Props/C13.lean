/-
C13 — operations never mutate their inputs nor depend on call history  (partial proof).

What is proved here, for the heap-effect semantics of `Impl.Effects`:

* `frame_general` : for EVERY program all of whose writes go through references to objects the
  program allocated itself (`.new k`, i.e. id ≥ the heap's `next` at program start), EVERY object
  that existed before the run is unchanged after it — for every initial heap, by induction over
  the program; `frame_by_class` restates it with the extractor's receiver classes; `frame_reachable`
  adds that the set of objects reachable from the inputs is the same before and after.
* `sites_ok` : decided over the site table GENERATED from the current source
  (`Gen.Effects.sites`): no site of the property's API is classified `input` (F6, the CRTF
  `region.meta.pop` site that refuted it, is fixed since 90d029a).
* `unknown_sites_listed` / `unknown_sites_few` : the `unknown` sites that the dynamic run must
  validate are exactly `unknownSites` (generated), at most one site in twenty.
* `history_independent` : a step function whose result depends only on its argument and on the
  part of the module state that no step writes returns the same result after ANY call sequence
  of ANY length (induction over the history).
* `module_state_ok` : decided over the generated module-state table: every module-level iterator
  is either never consumed at run time (re-created per call) or stateless (`stateless_sound`:
  consuming it does not change what it yields next), and every write of module-level state runs at
  import time only.

What is NOT proved (trusted translator, validated by the dynamic run of `harness/c13.py`): that
the receiver class the extractor assigns to a site is right, i.e. `Effect.classSound` for the
programs the real operations perform.
-/
import RegionsVerif.Impl.Effects
import RegionsVerif.Gen.Effects

namespace RegionsVerif.Props.C13
open RegionsVerif.Impl.Effects RegionsVerif.Gen.Effects

/-! ### frame: single steps -/

theorem set_other (h : Heap) (i j : Nat) (o : Obj) (hne : j ≠ i) : (h.set i o).cells j = h.cells j := by
  simp [Heap.set, hne]

theorem set_next (h : Heap) (i : Nat) (o : Obj) : (h.set i o).next = h.next := rfl

theorem alloc_other (h : Heap) (o : Obj) (j : Nat) (hlt : j < h.next) : (h.alloc o).cells j = h.cells j := by
  have : j ≠ h.next := Nat.ne_of_lt hlt
  simp [Heap.alloc, this]

theorem alloc_next (h : Heap) (o : Obj) : (h.alloc o).next = h.next + 1 := rfl

theorem allocMany_frame (l : List Obj) : ∀ (h : Heap),
    h.next ≤ (h.allocMany l).next ∧ ∀ j, j < h.next → (h.allocMany l).cells j = h.cells j := by
  induction l with
  | nil => intro h; exact ⟨Nat.le_refl _, fun _ _ => rfl⟩
  | cons o r ih =>
    intro h
    obtain ⟨h1, h2⟩ := ih (h.alloc o)
    refine ⟨?_, ?_⟩
    · have := alloc_next h o
      simp only [Heap.allocMany]
      omega
    · intro j hj
      simp only [Heap.allocMany]
      rw [h2 j (by rw [alloc_next]; omega), alloc_other h o j hj]

theorem modify_other (h : Heap) (i j : Nat) (f : Obj → Obj) (hne : j ≠ i) :
    (h.modify i f).cells j = h.cells j := by
  unfold Heap.modify
  split
  · exact set_other h i j _ hne
  · rfl

theorem modify_next (h : Heap) (i : Nat) (f : Obj → Obj) : (h.modify i f).next = h.next := by
  unfold Heap.modify
  split <;> rfl

/-- one step of a local effect leaves every object below `base` alone and never lowers `next`. -/
theorem step_frame (base : Nat) (h : Heap) (e : Effect) (hb : base ≤ h.next) (hl : e.isLocal = true) :
    base ≤ (step base h e).next ∧ ∀ j, j < base → (step base h e).cells j = h.cells j := by
  cases e with
  | alloc o =>
    refine ⟨by simp only [step, alloc_next]; omega, fun j hj => ?_⟩
    exact alloc_other h _ j (by omega)
  | copyDeep s =>
    obtain ⟨h1, h2⟩ := allocMany_frame
      ((reachList h [s.resolve base]).map (fun i => renameObj
        ((reachList h [s.resolve base]).zipIdx.map (fun p => (p.1, h.next + p.2)))
        ((h.cells i).getD (.cell "")))) h
    exact ⟨Nat.le_trans hb h1, fun j hj => h2 j (by omega)⟩
  | copyShallow s =>
    refine ⟨by simp only [step, Heap.copyShallow, alloc_next]; omega, fun j hj => ?_⟩
    exact alloc_other h _ j (by omega)
  | read s => exact ⟨hb, fun _ _ => rfl⟩
  | write c t o =>
    cases t with
    | old i => simp [Effect.isLocal, Effect.target] at hl
    | new k =>
      refine ⟨by simp only [step, modify_next]; exact hb, fun j hj => ?_⟩
      exact modify_other h _ j _ (by simp only [Ref.resolve]; omega)
  | setItem c t k v =>
    cases t with
    | old i => simp [Effect.isLocal, Effect.target] at hl
    | new k' =>
      refine ⟨by simp only [step, modify_next]; exact hb, fun j hj => ?_⟩
      exact modify_other h _ j _ (by simp only [Ref.resolve]; omega)
  | pop c t k =>
    cases t with
    | old i => simp [Effect.isLocal, Effect.target] at hl
    | new k' =>
      refine ⟨by simp only [step, modify_next]; exact hb, fun j hj => ?_⟩
      exact modify_other h _ j _ (by simp only [Ref.resolve]; omega)
  | update c t items =>
    cases t with
    | old i => simp [Effect.isLocal, Effect.target] at hl
    | new k' =>
      refine ⟨by simp only [step, modify_next]; exact hb, fun j hj => ?_⟩
      exact modify_other h _ j _ (by simp only [Ref.resolve]; omega)
  | append c t v =>
    cases t with
    | old i => simp [Effect.isLocal, Effect.target] at hl
    | new k' =>
      refine ⟨by simp only [step, modify_next]; exact hb, fun j hj => ?_⟩
      exact modify_other h _ j _ (by simp only [Ref.resolve]; omega)

/-! ### frame: programs -/

theorem runFrom_frame (base : Nat) (p : Program) : ∀ (h : Heap), base ≤ h.next →
    (∀ e ∈ p, e.isLocal = true) →
    base ≤ (runFrom base h p).next ∧ ∀ j, j < base → (runFrom base h p).cells j = h.cells j := by
  induction p with
  | nil => intro h hb _; exact ⟨hb, fun _ _ => rfl⟩
  | cons e r ih =>
    intro h hb hl
    obtain ⟨h1, h2⟩ := step_frame base h e hb (hl e List.mem_cons_self)
    obtain ⟨h3, h4⟩ := ih (step base h e) h1 (fun e' he' => hl e' (List.mem_cons_of_mem _ he'))
    exact ⟨h3, fun j hj => by simp only [runFrom]; rw [h4 j hj, h2 j hj]⟩

/-- **frame_general**.  For every program all of whose writes target objects allocated by the
program itself — operationally: the written id is `≥` the heap's `next` at program start —
every object that existed before the run (in particular every object reachable from the inputs)
has exactly the same content after the run.  Any initial heap, any program length, any mix of
`alloc` / `copyDeep` / `copyShallow` / `read` and writes to the new objects. -/
theorem frame_general (p : Program) (hl : ∀ e ∈ p, e.isLocal = true) (h : Heap) :
    ∀ j, j < h.next → (run h p).cells j = h.cells j :=
  (runFrom_frame h.next p h (Nat.le_refl _) hl).2

/-- no id is ever handed out twice: `next` only grows. -/
theorem run_next_mono (p : Program) (hl : ∀ e ∈ p, e.isLocal = true) (h : Heap) :
    h.next ≤ (run h p).next :=
  (runFrom_frame h.next p h (Nat.le_refl _) hl).1

/-! ### the receiver classes -/

theorem isLocal_of_class (e : Effect) (hok : e.classOK = true) (hs : e.classSound) : e.isLocal = true := by
  unfold Effect.isLocal
  unfold Effect.classOK at hok
  unfold Effect.classSound at hs
  cases ht : e.target with
  | none => rfl
  | some ct =>
    obtain ⟨c, t⟩ := ct
    cases t with
    | new k => rfl
    | old i =>
      rw [ht] at hok hs
      simp only at hok hs
      rw [hs] at hok
      cases hok

/-- **frame_general**, in terms of the generated classes: if every write of the program comes from
a site classified `fresh` / `selfInit` / `immutableScalar` and the classification is sound, no
pre-existing object changes. -/
theorem frame_by_class (p : Program) (hok : ∀ e ∈ p, e.classOK = true) (hs : ∀ e ∈ p, e.classSound)
    (h : Heap) : ∀ j, j < h.next → (run h p).cells j = h.cells j :=
  frame_general p (fun e he => isLocal_of_class e (hok e he) (hs e he)) h

/-! ### reachability from the inputs -/

theorem reach_lt (h : Heap) (hwf : h.WF) (roots : List Nat) (hr : ∀ r ∈ roots, r < h.next) :
    ∀ i, inputReachable h roots i → i < h.next := by
  intro i hi
  induction hi with
  | root hm => exact hr _ hm
  | step _ hrt ih =>
    obtain ⟨o, ho, hj⟩ := hrt
    exact hwf.closed _ o ho _ hj

/-- **frame_reachable**.  In a well-formed heap, for inputs that exist, a program of local writes
leaves every input-reachable object unchanged AND leaves the set of input-reachable objects
unchanged (nothing new becomes reachable from the inputs, nothing is lost). -/
theorem frame_reachable (p : Program) (hl : ∀ e ∈ p, e.isLocal = true) (h : Heap) (hwf : h.WF)
    (roots : List Nat) (hr : ∀ r ∈ roots, r < h.next) :
    (∀ i, inputReachable h roots i → (run h p).cells i = h.cells i) ∧
    (∀ i, inputReachable (run h p) roots i ↔ inputReachable h roots i) := by
  have hfr := frame_general p hl h
  have hlt := reach_lt h hwf roots hr
  refine ⟨fun i hi => hfr i (hlt i hi), fun i => ⟨?_, ?_⟩⟩
  · intro hi
    induction hi with
    | root hm => exact .root hm
    | step _ hrt ih =>
      obtain ⟨o, ho, hj⟩ := hrt
      rw [hfr _ (hlt _ ih)] at ho
      exact .step ih ⟨o, ho, hj⟩
  · intro hi
    induction hi with
    | root hm => exact .root hm
    | step hprev hrt ih =>
      obtain ⟨o, ho, hj⟩ := hrt
      rw [← hfr _ (hlt _ hprev)] at ho
      exact .step ih ⟨o, ho, hj⟩

/-! ### non-vacuity, and the converse on the F6 pattern -/

/-- a region `0` with params `1`, meta `2` (`include`, `label`), visual `3`. -/
def demoHeap : Heap := Heap.ofList [
  .dict [("params", .ref 1), ("meta", .ref 2), ("visual", .ref 3)],
  .dict [("radius", .imm "0x1.8p+1")],
  .dict [("include", .imm "False"), ("label", .imm "'a'")],
  .dict [("color", .imm "'red'")]]

/-- what the CRTF serialiser did before `fix: 90d029a` (finding F6): `meta = dict(region.meta)`;
`meta.update(region.visual)`; then `region.meta.pop('include', True)` on the CALLER's dict. -/
def crtfToday : Program := [
  .copyShallow (.old 2), .update .fresh (.new 0) [("color", .imm "'red'")],
  .pop .input (.old 2) "include"]

/-- the repaired serialiser: the `include` flag is read, nothing of the caller is written. -/
def crtfRepaired : Program := [
  .copyShallow (.old 2), .update .fresh (.new 0) [("color", .imm "'red'")],
  .read (.old 2), .pop .fresh (.new 0) "include"]

example : ∀ e ∈ crtfRepaired, e.isLocal = true := by decide
example : ∀ e ∈ crtfRepaired, e.classOK = true := by decide
example : (run demoHeap crtfRepaired).cells 4 = some (.dict [("label", .imm "'a'"), ("color", .imm "'red'")]) := by
  decide
example : changedIds demoHeap [0] crtfRepaired = [] := by decide

/-- the hypothesis of `frame_general` is needed: one `pop` through a reference to the caller's dict
changes an input-reachable object (the model of F6). -/
example : (run demoHeap crtfToday).cells 2 ≠ demoHeap.cells 2 := by decide
example : changedIds demoHeap [0] crtfToday = [2] := by decide
example : ¬ (∀ e ∈ crtfToday, e.isLocal = true) := by decide

/-- `copyDeep` clones the whole graph below the source and shares nothing with it. -/
example : (run demoHeap [.copyDeep (.old 0)]).cells 4 =
    some (.dict [("params", .ref 5), ("meta", .ref 6), ("visual", .ref 7)]) := by decide
example : (run demoHeap [.copyDeep (.old 0), .pop .fresh (.new 2) "include"]).cells 2 = demoHeap.cells 2 := by
  decide

/-! ### the generated site table -/

/-- `regions/_utils/examples.py` holds the example data sets of the documentation (download,
cache, package tables as HDUs).  They are not operations of the property's API (membership, masks,
areas, boxes, conversion, rotation, copy, combination, artists, serialise / write / parse / read);
their sites are in the table but outside the claim. -/
def inScope (s : Site) : Bool := s.file != "regions/_utils/examples.py"

/-- the CRTF `_to_shape_list` site `include = region.meta.pop('include', True)` (finding F6). -/
def isF6 (s : Site) : Bool :=
  s.file == "regions/io/crtf/io_core.py" && s.func == "_to_shape_list" && s.op == .pop
    && s.recv == "region.meta"

/-- full strength: no site of the API writes through a receiver that is (reachable from) an
argument of a public entry point. -/
def sites_ok_full : Prop := ∀ s ∈ sites, inScope s = true → s.cls ≠ .input

/-- **sites_ok** — decided over the table generated from the current source: no site of the API
writes through a receiver that is (reachable from) an argument of a public entry point.
(Until `fix: 90d029a` this was refuted by the CRTF `_to_shape_list` site
`include = region.meta.pop('include', True)` — finding F6; `isF6` names that site.  A regression
makes this theorem fail to compile, and the dynamic net reports the mutated input.) -/
theorem sites_ok : sites_ok_full := by
  have hb : sites.all (fun s => !inScope s || s.cls != .input) = true := by decide +kernel
  intro s hs hsc hc
  have := List.all_eq_true.mp hb s hs
  simp [hsc, hc] at this

/-- the former F6 site is still in the table, now reading: it is no longer a mutating site at all. -/
example : sites.any isF6 = false := by decide +kernel

example : sites.any (fun s => inScope s && !isF6 s && s.cls == .fresh) = true := by decide +kernel

/-- the `unknown` sites of the API: (file, function, operation, receiver).  These are NOT covered
by a static class; the dynamic run sets a tracer on exactly these lines and checks that the
receiver is never a mutable object reachable from the operation's inputs. -/
def unknownSites : List (String × String × SiteOp × String) :=
  (sites.filter (fun s => inScope s && s.cls == .unknown)).map (fun s => (s.file, s.func, s.op, s.recv))

/-- the list is what the dynamic run must validate; it is regenerated with the table (the driver op
`c13.table` hands it to the harness).  Decided here: it stays a small part of the table (at most one
site in twenty), and every site of the API is accounted for: harmless class, the F6 site, an
import-time write of module state, or a member of this list. -/
theorem unknown_sites_few : unknownSites.length * 20 ≤ sites.length := by decide +kernel

theorem unknown_sites_listed : ∀ s ∈ sites, inScope s = true → s.cls = .unknown →
    (s.file, s.func, s.op, s.recv) ∈ unknownSites := by
  intro s hs hsc hc
  unfold unknownSites
  refine List.mem_map.mpr ⟨s, List.mem_filter.mpr ⟨hs, ?_⟩, rfl⟩
  simp [hsc, hc]

/-- every site that writes module-level / class-level state is recorded as a writer of an entry of
the module-state table, and that writer runs at import time only. -/
def moduleWriteOK (s : Site) : Bool :=
  moduleState.any fun en => en.writers.any fun w => w.1.file == s.file && w.1.line == s.line && w.2

theorem module_writes_import_only : ∀ s ∈ sites, s.cls = .moduleState → moduleWriteOK s = true := by
  have hb : sites.all (fun s => s.cls != .moduleState || moduleWriteOK s) = true := by decide +kernel
  intro s hs hc
  have := List.all_eq_true.mp hb s hs
  simpa [hc] using this

/-- every site of the API has a harmless class, is on the `unknown` list, or writes module state (at
import time only, `module_writes_import_only`): with `frame_by_class`, the programs made of the
harmless sites leave every pre-existing object alone (given the soundness of the classes). -/
theorem sites_classified : ∀ s ∈ sites, inScope s = true →
    s.cls.harmless = true ∨ s.cls = .unknown ∨ s.cls = .moduleState := by
  have hb : sites.all (fun s => !inScope s || s.cls.harmless || s.cls == .unknown
      || s.cls == .moduleState) = true := by decide +kernel
  intro s hs hsc
  have := List.all_eq_true.mp hb s hs
  simp only [hsc, Bool.not_true, Bool.false_or, Bool.or_eq_true, beq_iff_eq] at this
  rcases this with (h | h) | h
  · exact Or.inl h
  · exact Or.inr (Or.inl h)
  · exact Or.inr (Or.inr h)

/-! ### history independence -/

/-- a library with module state `S`: a call takes an argument and the state, returns a result and
the next state. -/
structure Lib (S A R : Type) where
  step : S → A → R × S

def Lib.runAll {S A R : Type} (L : Lib S A R) : S → List A → S
  | s, [] => s
  | s, a :: r => L.runAll (L.step s a).2 r

def Lib.results {S A R : Type} (L : Lib S A R) : S → List A → List R
  | _, [] => []
  | s, a :: r => (L.step s a).1 :: L.results (L.step s a).2 r

/-- `view` is the part of the module state that calls READ: results are a function of it and of
the argument; no call changes it. -/
structure ReadOnlyView {S A R V : Type} (L : Lib S A R) (view : S → V) (f : V → A → R) : Prop where
  reads : ∀ s a, (L.step s a).1 = f (view s) a
  frame : ∀ s a, view (L.step s a).2 = view s

theorem view_runAll {S A R V : Type} (L : Lib S A R) (view : S → V) (f : V → A → R)
    (hv : ReadOnlyView L view f) : ∀ (pre : List A) (s : S), view (L.runAll s pre) = view s := by
  intro pre
  induction pre with
  | nil => intro s; rfl
  | cons a r ih => intro s; simp only [Lib.runAll]; rw [ih, hv.frame]

/-- **history_independent**.  If results depend only on the arguments and on module state that
no call writes, a call returns the same result after ANY sequence of calls, of any length, as it
does first. -/
theorem history_independent {S A R V : Type} (L : Lib S A R) (view : S → V) (f : V → A → R)
    (hv : ReadOnlyView L view f) (pre : List A) (s : S) (a : A) :
    (L.step (L.runAll s pre) a).1 = (L.step s a).1 := by
  rw [hv.reads, hv.reads, view_runAll L view f hv]

/-- performing a call again gives an equal result. -/
theorem repeat_equal {S A R V : Type} (L : Lib S A R) (view : S → V) (f : V → A → R)
    (hv : ReadOnlyView L view f) (s : S) (a : A) :
    (L.step (L.step s a).2 a).1 = (L.step s a).1 :=
  history_independent L view f hv [a] s a

/-- two processes with different histories agree. -/
theorem any_two_histories {S A R V : Type} (L : Lib S A R) (view : S → V) (f : V → A → R)
    (hv : ReadOnlyView L view f) (pre₁ pre₂ : List A) (s : S) (a : A) :
    (L.step (L.runAll s pre₁) a).1 = (L.step (L.runAll s pre₂) a).1 := by
  rw [history_independent L view f hv, history_independent L view f hv]

/-- the results of a whole sequence are the call-by-call results of the first state. -/
theorem results_eq_map {S A R V : Type} (L : Lib S A R) (view : S → V) (f : V → A → R)
    (hv : ReadOnlyView L view f) : ∀ (ops : List A) (s : S), L.results s ops = ops.map (f (view s)) := by
  intro ops
  induction ops with
  | nil => intro s; rfl
  | cons a r ih => intro s; simp only [Lib.results, List.map_cons]; rw [ih, hv.frame, hv.reads]

/-! ### module-level iterators -/

theorem getElem?_of_all_eq (x : String) : ∀ (l : List String) (i : Nat), l.all (· == x) = true → i < l.length →
    l[i]? = some x := by
  intro l
  induction l with
  | nil => intro i _ hi; simp at hi
  | cons y r ih =>
    intro i hall hi
    simp only [List.all_cons, Bool.and_eq_true, beq_iff_eq] at hall
    cases i with
    | zero => simp [hall.1]
    | succ k =>
      simp only [List.getElem?_cons_succ]
      exact ih k hall.2 (by simpa using hi)

/-- **stateless_sound**: an iterator that passes the decidable test yields the same thing at
every position, so consuming any number of elements does not change what a later call sees. -/
theorem stateless_stream (e : IterExpr) (hs : e.statelessB = true) :
    ∀ n, e.stream n = e.stream 0 := by
  intro n
  cases e with
  | cycle items =>
    cases items with
    | nil => simp [IterExpr.stream]
    | cons x r =>
      simp only [IterExpr.statelessB] at hs
      have hall : (x :: r).all (· == x) = true := by simp [hs]
      have hpos : 0 < (x :: r).length := by simp
      simp only [IterExpr.stream]
      rw [if_neg (by simp), if_neg (by simp)]
      rw [getElem?_of_all_eq x (x :: r) _ hall (Nat.mod_lt _ hpos),
        getElem?_of_all_eq x (x :: r) _ hall (Nat.mod_lt _ hpos)]
  | tuple items =>
    simp only [IterExpr.statelessB, List.isEmpty_iff] at hs
    subst hs
    simp [IterExpr.stream]
  | «repeat» x => simp [IterExpr.stream]
  | chain parts => simp [IterExpr.statelessB] at hs
  | count => simp [IterExpr.statelessB] at hs
  | other s => simp [IterExpr.statelessB] at hs

theorem stateless_sound (e : IterExpr) (hs : e.statelessB = true) (pos m : Nat) :
    e.take pos m = e.take 0 m := by
  unfold IterExpr.take
  apply List.map_congr_left
  intro j _
  rw [stateless_stream e hs (pos + j), stateless_stream e hs (0 + j)]

/-- a parser that takes its template from a module-level iterator `e`: state = how many elements
have been consumed so far, a call consumes `m` of them. -/
def templateLib (e : IterExpr) : Lib Nat Nat (List (Option String)) :=
  ⟨fun pos m => (e.take pos m, pos + m)⟩

/-- with a stateless template the parser is history independent (instance of the general theorem). -/
theorem template_history_independent (e : IterExpr) (hs : e.statelessB = true)
    (pre : List Nat) (pos m : Nat) :
    ((templateLib e).step ((templateLib e).runAll pos pre) m).1 = ((templateLib e).step pos m).1 :=
  history_independent (templateLib e) (fun _ => ()) (fun _ m => e.take 0 m)
    ⟨fun s a => stateless_sound e hs s a, fun _ _ => rfl⟩ pre pos m

/-- the DS9 `make_region_template()` iterator: two coordinates, then lengths for ever. -/
def regionTemplate : IterExpr := .chain [.tuple ["coord", "coord"], .cycle ["length"]]

/-- … is NOT stateless: were the module-level copies in `ds9_params_template` consumed across
calls (instead of being re-created per call), a second ellipse would be read differently. -/
example : regionTemplate.take 0 3 = [some "coord", some "coord", some "length"] := by decide
example : regionTemplate.take 3 3 = [some "length", some "length", some "length"] := by decide
example : ((templateLib regionTemplate).step ((templateLib regionTemplate).runAll 0 [3]) 3).1
    ≠ ((templateLib regionTemplate).step 0 3).1 := by decide
example : (IterExpr.cycle ["coord"]).statelessB = true := by decide

/-- an entry of the module-state table is fine when: an iterator is never read at run time
(re-created per call) or is stateless; and every writer runs at import time only. -/
def entryOK (en : ModEntry) : Bool :=
  (match en.kind with
   | .iterator e => en.readers.isEmpty || e.statelessB
   | .container => true) && en.writers.all (·.2)

/-- **module_state_ok** — decided over the table generated from the current source: the DS9
`ds9_params_template` ellipse / annulus / box iterators are never read at run time, the
`polygon` template and CRTF `language_spec['poly']` are stateless cycles, and the registry is
written at import time only. -/
theorem module_state_ok : ∀ en ∈ moduleState, entryOK en = true := by
  decide

/-- the entries the design names are in the generated table (the theorem above is not vacuous). -/
theorem module_state_covers :
    ["_CRTFRegionParser.language_spec['poly']", "ds9_params_template['ellipse']",
      "ds9_params_template['annulus']", "ds9_params_template['box']", "ds9_params_template['polygon']",
      "RegionsRegistry.registry"].all (fun n => (moduleState.map (·.name)).contains n) = true := by
  decide

/-- consequence: every module-level iterator that some function reads at run time gives every call
the same view, whatever was parsed before. -/
theorem module_iterators_history_independent (en : ModEntry) (hen : en ∈ moduleState) (e : IterExpr)
    (hk : en.kind = .iterator e) (hr : en.readers.isEmpty = false) (pre : List Nat) (pos m : Nat) :
    ((templateLib e).step ((templateLib e).runAll pos pre) m).1 = ((templateLib e).step pos m).1 := by
  have hok := module_state_ok en hen
  unfold entryOK at hok
  rw [hk] at hok
  simp only [hr, Bool.false_or, Bool.and_eq_true] at hok
  exact template_history_independent e hok.1 pre pos m

example : (moduleState.any fun en =>
    match en.kind with
    | .iterator _ => !en.readers.isEmpty
    | .container => false) = true := by decide

end RegionsVerif.Props.C13
