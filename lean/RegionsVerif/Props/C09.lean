/-
C09 — DS9 serialise → parse round-trips every region, is a fixed point thereafter, serialising is
deterministic, inexpressible regions are skipped without altering the rest.

Model: `Impl/Decimal.lean` (decimal printer / reader), `Impl/Ds9.lean` (writer, reader,
structured level), `Impl/Ds9Text.lean` (characters).  Meaning: `Spec/C09.lean`.
All theorems are for lists of ANY length, any precision, any hash order `ord`, and any `Cfg`
(= which of the writer defects F3/F4/F5 are repaired); `codeCfg` is the tree as it is: all three
repaired (d58a058, 80f2f4f, 193fdcf); `Cfg.unrepaired` is the writer before them (regression
witnesses).  `sky` is astropy's number formatting (all sky numbers, all angles), a parameter with
the laws `SkyLaw` (value within half a unit) / `SkyFix` (a `p`-decimal is printed as itself) where a
theorem needs them.  The reader is modelled as of be2b52e, f813781, bd2caa9, 1c54a50, ec59199.

Clause by clause
* decimal text       `dec_roundtrip`, `dec_fixed`                                  — theorems.
* round trip         `ds9_roundtrip` (every cfg; whenever writer and reader do not raise: class, frame,
                     printed rounding of every number, text / label / tags for ANY strings, include sense),
                     `coord_tolerance`, `sky_coord_tolerance`, `num_tolerance` (half a unit; one unit on
                     ellipse full axes; longitudes on the circle).
                     Full strength `ds9_roundtrip_full` is still REFUTED by F19 (a size below the printed
                     unit: `ds9_roundtrip_full_refuted_tiny`); `ds9_roundtrip_partial` holds on the decidable
                     vocabulary `Vocab`; `ds9_reader_accepts_iff`: the reader accepts a written line iff
                     `WellRounded` (exactly the F19 class).
* fixed point        `ds9_fixed_point` — TOTAL (no exception, result equal as `Region.__eq__`) on lists in
                     the reader's normal form `ReaderNormal` with default visual metadata, every cfg;
                     `ds9_fixed_point_current` is the clause for the code as it is.
                     Visual metadata at the fixed point: validated only.
* determinism        `serialize_order_current` (the output is a function of the list), from
                     `serialize_order_irrelevant`; `serialize_order_only_global` (every cfg).
                     Across interpreter runs: run-time check.
* skipping           `skip_independent_current`, from `skip_independent`.
* frame attributes   F35 (open): the writer does not bring a coordinate to the default equinox/obstime of
                     the frame word it writes.  `ds9_attrs` (every cfg: positions come back at `T r` when the
                     writer transforms or the attributes are the defaults), `ds9_attrs_full` with
                     `ds9_attrs_full_refuted_while_unrepaired` / `ds9_attrs_full_holds_once_repaired` (both
                     compile before and after the switch `Cfg.current.stdAttrs`), `ds9_attrs_partial`
                     (`DefaultAttrs`).  `T` = astropy's transform, a parameter.
* regression         `skip_unrepaired_refuted` / `skip_unrepaired_raises` (F3), `excludedBool_unrepaired_trip`
                     (F4), `serialize_order_unrepaired_refuted` (F5): what the writer did before the fixes.
* characters         `lex (render o) = toRaw o` was not a theorem in the first build (evaluated by the driver on every
                     case, as it still is); it is one now: `Props/C09Lex.lean` `lex_render`, under the decidable
                     side condition `WellFormedText` on the metadata only.
-/
import RegionsVerif.Lemmas.Ds9Fixed

namespace RegionsVerif.Props.C09
open RegionsVerif.Impl.Ds9 RegionsVerif.Impl.Dec RegionsVerif.Spec.C09
open RegionsVerif.Impl.Ds9.AL (get keys)

/-! ## decimal text -/

/-- half a unit of the `p`-th decimal. -/
def halfUnit (p : ℕ) : ℚ := 1 / 2 * (1 / (10 : ℚ) ^ p)

/-- `float(f'{x:.{p}f}')` is within half a unit of `x`, for every rational `x` and every `p`. -/
theorem dec_roundtrip (p : ℕ) (x : ℚ) :
    ∃ v, pyFloat (fmt p x) = some (.fin v) ∧ |v - x| ≤ halfUnit p :=
  ⟨roundTo p x, pyFloat_fmt p x, roundTo_err p x⟩

/-- what is printed is a `p`-decimal, and a `p`-decimal is printed as itself. -/
theorem dec_fixed (p : ℕ) (x : ℚ) (h : IsDec p x) : pyFloat (fmt p x) = some (.fin x) := by
  rw [pyFloat_fmt, roundTo_of_isDec p x h]

example : fmt 2 (1 / 8) = "0.12".toList := by decide +kernel      -- a tie goes to the even digit
example : fmt 2 (3 / 8) = "0.38".toList := by decide +kernel
example : fmt 3 (-1 / 10000) = "-0.000".toList := by decide +kernel  -- Python keeps the sign
example : IsDec 3 (5 / 4) := by decide +kernel

/-! ## round trip -/

/-- **Round trip.**  For every list of regions (any length, inexpressible ones included), every
precision and every hash order: if the writer produced `o` and the reader did not raise on it, the
regions read back are, one for one and in order, the expressible input regions, each
`RoundTripped`: same class (regular polygon ↦ polygon) and frame, every number replaced by its
printed rounding (`expCoord`, `expNums`), same text (any string), label (any string), tags (any
strings), and — on `IncludeOK` — the same include sense. -/
theorem ds9_roundtrip (cfg : Cfg) (ord : List Key) (sky : ℚ → ℚ) (p : ℕ) (rs : List Region)
    (o : WOut) (out : List Region) (hwf : ∀ r ∈ rs, WF r)
    (hs : serialize cfg ord p rs = .ok (some o)) (hp : parse (toRaw sky o) = .ok out) :
    List.Forall₂ (RoundTripped cfg (get o.global .include) sky p)
      (rs.filter fun r => decide (Expressible r)) out := by
  obtain ⟨ds, hcol, _, rfl⟩ := serialize_some hs
  have F1 := collect_forall₂ _ rs ds hcol
  rw [kept_eq_filter hcol] at F1
  -- every translated dictionary has unique keys
  have hnd : ∀ m ∈ ds.map (fun d => hoistable d.mta), (keys m).Nodup := by
    intro m hm
    obtain ⟨d, hd, rfl⟩ := List.mem_map.mp hm
    apply hoistable_nodup
    obtain ⟨r, hr, hrd⟩ := forall₂_exists_left F1 hd
    have hwfr := hwf r (List.mem_filter.mp hr).1
    exact translate_nodup (serializeRegion_some hrd).2.2.2 hwfr.2.2.2.2.2.2
  have hsound := hoist_sound cfg ord _ hnd
  -- the reader's line layer
  unfold parse at hp
  rw [rawData_toRaw sky _ (by
    simp only
    exact (commonFrame_map (dropGlobal _) (fun d => rfl) ds).symm)] at hp
  simp only at hp
  split at hp
  · simp at hp
  · rename_i rd hrd
    have F2 := expectRaw_forall₂ _ _ _ _ _ hrd
    have F3 := makeAll_forall₂ _ _ hp
    refine forall₂_chain _ F1 F2 F3 ?_
    intro r d rdi r' hrmem hdmem hser hline hmk
    exact region_roundtrip cfg sky p _ _ r d rdi r' (hwf r (List.mem_filter.mp hrmem).1)
      hsound (List.mem_map.mpr ⟨d, hdmem, rfl⟩) hser hline hmk

/-- the hypotheses of `ds9_roundtrip` are met by a mixed list on the current code: a labelled, tagged,
excluded sky circle, a pixel ellipse annulus and a text region (writer and reader do not raise). -/
example :
    (match serialize codeCfg [] 3
        [⟨.circle, .icrs, [(10, 20)], [1 / 2], none,
          [(.text, .str "a b;c # d=e".toList), (.tag, .strs ["t1".toList, "g 2".toList]), (.include, .int 0)],
          [(.color, .str "red".toList), (.linewidth, .int 2)]⟩,
         ⟨.ellipseAnnulus, .image, [(5 / 4, -7)], [2, 4, 3, 6, 30], none, [(.include, .bool true)], []⟩,
         ⟨.text, .galactic, [(359, 1)], [], some (.str "M 31".toList), [], [(.rotation, .int 45)]⟩] with
     | .ok (some o) => (parse (toRaw (roundTo 3) o)).toOption.isSome
     | _ => false) = true := by decide +kernel

/-! ## tolerances: the rounded numbers are within the property's bounds -/

/-- astropy's formatting law for precision `p`. -/
def SkyLaw (sky : ℚ → ℚ) (p : ℕ) : Prop := ∀ x, |sky x - x| ≤ halfUnit p

theorem skyLaw_roundTo (p : ℕ) : SkyLaw (roundTo p) p := fun x => roundTo_err p x

/-- pixel positions: half a unit, the `+1`/`−1` origin shift cancels exactly. -/
theorem coord_tolerance (sky : ℚ → ℚ) (p : ℕ) (c : ℚ × ℚ) :
    |(expCoord sky p true c).1 - c.1| ≤ halfUnit p ∧ |(expCoord sky p true c).2 - c.2| ≤ halfUnit p := by
  have h1 := roundTo_err p (c.1 + 1)
  have h2 := roundTo_err p (c.2 + 1)
  simp only [expCoord, if_true, halfUnit]
  constructor
  · rwa [show roundTo p (c.1 + 1) - 1 - c.1 = roundTo p (c.1 + 1) - (c.1 + 1) by ring]
  · rwa [show roundTo p (c.2 + 1) - 1 - c.2 = roundTo p (c.2 + 1) - (c.2 + 1) by ring]

/-- sky positions: latitude within half a unit; longitude within half a unit on the circle
(`SkyCoord` keeps longitudes in `[0, 360)`, so `359.9999…` may come back as `0`). -/
theorem sky_coord_tolerance (sky : ℚ → ℚ) (p : ℕ) (hsky : SkyLaw sky p) (c : ℚ × ℚ) :
    (∃ k : ℤ, |(expCoord sky p false c).1 + 360 * k - c.1| ≤ halfUnit p) ∧
      |(expCoord sky p false c).2 - c.2| ≤ halfUnit p := by
  simp only [expCoord, Bool.false_eq_true, if_false]
  refine ⟨⟨⌊sky c.1 / 360⌋, ?_⟩, hsky c.2⟩
  have := hsky c.1
  unfold wrapLon
  rwa [show sky c.1 - 360 * (⌊sky c.1 / 360⌋ : ℚ) + 360 * (⌊sky c.1 / 360⌋ : ℚ) - c.1 = sky c.1 - c.1 by ring]

theorem rsz_tolerance (sky : ℚ → ℚ) (p : ℕ) (hsky : SkyLaw sky p) (pix : Bool) (x : ℚ) :
    |rsz sky p pix x - x| ≤ halfUnit p := by
  unfold rsz
  split
  · exact roundTo_err p x
  · exact hsky x

/-- an ellipse axis goes through its half: one unit on the full axis. -/
theorem axis_tolerance (sky : ℚ → ℚ) (p : ℕ) (hsky : SkyLaw sky p) (pix : Bool) (w : ℚ) :
    |rsz sky p pix (w / 2) * 2 - w| ≤ 2 * halfUnit p := by
  have h := rsz_tolerance sky p hsky pix (w / 2)
  rw [show rsz sky p pix (w / 2) * 2 - w = 2 * (rsz sky p pix (w / 2) - w / 2) by ring, abs_mul]
  have : |(2 : ℚ)| = 2 := abs_of_pos (by norm_num)
  rw [this]
  linarith

/-- every size and angle of every class is within the property's tolerance: half a unit, one unit
for the full axes of ellipses and elliptical annuli. -/
theorem num_tolerance (sky : ℚ → ℚ) (p : ℕ) (hsky : SkyLaw sky p) (pix : Bool) (r : Region)
    (sh : DShape) (ps : List WParam) (h : shapeParams r = .ok (sh, ps)) :
    NumsWithin (halfUnit p) r.shape r.nums (expNums sky p pix r.shape r.nums) := by
  have hr := rsz_tolerance sky p hsky pix
  have ha := axis_tolerance sky p hsky pix
  unfold shapeParams at h
  simp only at h
  split at h
  case h_12 => simp at h
  case h_1 => rename_i hshape _ hnums; rw [hshape, hnums]; exact hr _
  case h_2 => rename_i hshape _ hnums; rw [hshape, hnums]; exact ⟨ha _, ha _, hsky _⟩
  case h_3 => rename_i hshape _ hnums; rw [hshape, hnums]; exact ⟨hr _, hr _, hsky _⟩
  case h_4 => rename_i hshape _ hnums; rw [hshape, hnums]; exact ⟨hr _, hr _⟩
  case h_5 => rename_i hshape _ hnums; rw [hshape, hnums]; exact ⟨ha _, ha _, ha _, ha _, hsky _⟩
  case h_6 => rename_i hshape _ hnums; rw [hshape, hnums]; exact ⟨hr _, hr _, hr _, hr _, hsky _⟩
  case h_7 => rename_i hshape hnums; rw [hshape, hnums]; trivial
  case h_8 => rename_i hshape hnums; rw [hshape, hnums]; trivial
  all_goals
    rename_i hshape _ hnums
    rw [hshape, hnums]
    trivial

/-! ## skipping regions DS9 cannot express -/

/-- **Skip independence** for a writer that skips (`cfg.skip`, i.e. F3 repaired): an inexpressible
region anywhere in a list of any length changes nothing in the output, and costs one warning. -/
theorem skip_independent (cfg : Cfg) (hs : cfg.skip = true) (ord : List Key) (p : ℕ)
    (l₁ l₂ : List Region) (r : Region) (hr : ¬ Expressible r) :
    serialize cfg ord p (l₁ ++ r :: l₂) = serialize cfg ord p (l₁ ++ l₂) ∧
      skipped cfg (l₁ ++ r :: l₂) = skipped cfg (l₁ ++ l₂) + 1 := by
  have hnone : serializeRegion cfg r = .ok none := (serializeRegion_none_iff cfg r).mpr ⟨hs, hr⟩
  constructor
  · unfold serialize
    rw [collect_append_skip _ l₁ l₂ r hnone]
    have hne : l₁ ++ r :: l₂ ≠ [] := by simp
    rw [if_neg hne]
    by_cases he : l₁ ++ l₂ = []
    · rw [if_pos he, he]
      simp [collect]
    · rw [if_neg he]
  · unfold skipped
    simp only [List.filter_append, List.filter_cons, hnone, List.length_append, List.length_cons]
    simp
    omega

/-- the clause for the code as it is (F3 repaired by d58a058). -/
theorem skip_independent_current (ord : List Key) (p : ℕ) (l₁ l₂ : List Region) (r : Region)
    (hr : ¬ Expressible r) :
    serialize codeCfg ord p (l₁ ++ r :: l₂) = serialize codeCfg ord p (l₁ ++ l₂) :=
  (skip_independent codeCfg rfl ord p l₁ l₂ r hr).1

/-- a compound of two pixel circles. -/
def compoundWitness : Region := ⟨.compound, .image, [], [], none, [], []⟩
def circleWitness : Region := ⟨.circle, .image, [(1, 2)], [3], none, [], []⟩

/-- regression witness F3: the writer before d58a058 raised on a compound region instead of
skipping it (the clause was refuted for it). -/
theorem skip_unrepaired_refuted :
    ¬ ∀ (ord : List Key) (p : ℕ) (l₁ l₂ : List Region) (r : Region), ¬ Expressible r →
      serialize Cfg.unrepaired ord p (l₁ ++ r :: l₂) = serialize Cfg.unrepaired ord p (l₁ ++ l₂) := by
  intro h
  have := h [] 3 [] [circleWitness] compoundWitness (by decide)
  revert this
  decide +kernel

/-- … a writer that does not skip raises exactly when the list contains a region DS9 cannot express
(or an earlier region already made it raise): the failing input class of the skip clause was
*every* list the clause speaks about. -/
theorem skip_unrepaired_raises (cfg : Cfg) (hs : cfg.skip = false) (ord : List Key) (p : ℕ)
    (rs : List Region) (h : ∃ r ∈ rs, ¬ Expressible r) : ∃ e, serialize cfg ord p rs = .error e := by
  have hcol : ∃ e, collect (serializeRegion cfg) rs = .error e := by
    induction rs with
    | nil => simp at h
    | cons r0 rs ih =>
      unfold collect
      cases hr0 : serializeRegion cfg r0 with
      | error e => exact ⟨e, rfl⟩
      | ok od =>
        cases od with
        | none =>
          have := (serializeRegion_none_iff cfg r0).mp hr0
          rw [hs] at this
          simp at this
        | some d =>
          have hx : Expressible r0 := by
            by_contra hne
            obtain ⟨e, he⟩ := serializeRegion_error_of_inexpressible cfg hs r0 hne
            rw [he] at hr0; simp at hr0
          obtain ⟨r, hr, hne⟩ := h
          have hr' : r ∈ rs := by
            rcases List.mem_cons.mp hr with rfl | hr'
            · exact absurd hx hne
            · exact hr'
          obtain ⟨e, he⟩ := ih ⟨r, hr', hne⟩
          exact ⟨e, by simp [he]⟩
  obtain ⟨e, he⟩ := hcol
  obtain ⟨r, hr, _⟩ := h
  have hne : rs ≠ [] := by intro h0; rw [h0] at hr; simp at hr
  exact ⟨e, by unfold serialize; rw [if_neg hne, he]⟩

example : ¬ Expressible compoundWitness := by decide
example : ¬ Expressible ⟨.circle, .other "supergalactic", [(1, 2)], [3], none, [], []⟩ := by decide
example : Expressible circleWitness := by decide

/-! ## the round-trip clause at full strength, its refutations on the current code, and the partial theorem -/

def tagList (r : Region) : List Str :=
  match get r.mta .tag with
  | some (.strs l) => l
  | _ => []

/-- what the property promises for one region `r` and the region `r'` read back — no side
conditions: numbers replaced by their printed rounding (`coord_tolerance`, `sky_coord_tolerance`,
`num_tolerance` bound the error), text, label, tags and include sense unchanged. -/
structure Preserved (sky : ℚ → ℚ) (p : ℕ) (r r' : Region) : Prop where
  shape : r'.shape = ds9Class r.shape
  frame : r'.frame = r.frame
  coords : r'.coords = r.coords.map (expCoord sky p (decide (r.frame = .image)))
  nums : r'.nums = expNums sky p (decide (r.frame = .image)) r.shape r.nums
  text : r'.text = r.text
  label : get r'.mta .text = if r.shape = .text then none else get r.mta .text
  tags : tagList r' = tagList r
  incl : includeSense r' = includeSense r

/-- the clause for the code as it is, at full strength: every list of well-formed expressible regions
goes through writer and reader without an exception and every region is `Preserved`. -/
def ds9_roundtrip_full : Prop :=
  ∀ (ord : List Key) (p : ℕ) (rs : List Region), (∀ r ∈ rs, WF r ∧ Expressible r) →
    ∃ out, roundTrip codeCfg ord (roundTo p) p rs = .ok out ∧ List.Forall₂ (Preserved (roundTo p) p) rs out

/-- F4: an excluded region whose flag is the bool `False`. -/
def excludedBool : Region := ⟨.circle, .image, [(1, 2)], [3], none, [(.include, .bool false)], []⟩
/-- F19: a radius below half a unit of the third decimal. -/
def tinyCircle : Region := ⟨.circle, .image, [(1, 2)], [1 / 10000], none, [], []⟩

/-- regression witness F4: with the writer before 80f2f4f the flag was printed `include=False`, which
the reader drops as invalid: the region came back without the key, i.e. included. -/
def noFlagBack : Region :=
  ⟨.circle, .image, [(1, 2)], [3], none, [], [(.default_style, .str "ds9".toList)]⟩

theorem excludedBool_unrepaired_trip :
    roundTrip Cfg.unrepaired [] (roundTo 3) 3 [excludedBool] = .ok [noFlagBack] := by decide +kernel

/-- … and with the repaired writer it comes back excluded. -/
theorem excludedBool_trip : roundTrip codeCfg [] (roundTo 3) 3 [excludedBool] =
    .ok [⟨.circle, .image, [(1, 2)], [3], none, [(.include, .int 0)], [(.default_style, .str "ds9".toList)]⟩] := by
  decide +kernel

theorem tinyCircle_trip : roundTrip codeCfg [] (roundTo 3) 3 [tinyCircle] = .error "ValueError" := by
  decide +kernel

/-- F19: a size below half a printed unit is written as `0.000` and the reader raises. -/
theorem ds9_roundtrip_full_refuted_tiny : ¬ ds9_roundtrip_full := by
  intro h
  obtain ⟨out, hout, _⟩ := h [] 3 [tinyCircle] (by decide)
  rw [tinyCircle_trip] at hout
  simp at hout

/-- the input classes the refutations exclude, as one decidable predicate on a region: text, label
and tags are strings (any strings: braces, quotes, `;`, `#`, `=`, digits — at the structured level
nothing is lost), and the include flag is in `IncludeOK` (F4). `gInc` is the hoisted include
value of the written output, if any. -/
def Vocab (cfg : Cfg) (gInc : Option PyVal) (r : Region) : Prop :=
  StrOK r.text ∧ StrOK (get r.mta .text) ∧
  (match get r.mta .tag with
   | none => True
   | some (.strs _) => True
   | some _ => False) ∧
  IncludeOK cfg gInc r

instance (cfg : Cfg) (gInc : Option PyVal) (r : Region) : Decidable (Vocab cfg gInc r) := by
  unfold Vocab
  refine @instDecidableAnd _ _ inferInstance (@instDecidableAnd _ _ inferInstance
    (@instDecidableAnd _ _ ?_ inferInstance))
  split <;> infer_instance

theorem preserved_of_roundTripped {cfg : Cfg} {gInc : Option PyVal} {sky : ℚ → ℚ} {p : ℕ} {r r' : Region}
    (hwf : WF r) (h : RoundTripped cfg gInc sky p r r') (hv : Vocab cfg gInc r) :
    Preserved sky p r r' := by
  obtain ⟨hvt, hvl, hvg, hvi⟩ := hv
  refine ⟨h.shape, h.frame, h.coords, h.nums, ?_, ?_, ?_, h.incl hvi⟩
  · -- text
    cases ht : r.text with
    | none => exact h.text_none ht
    | some t =>
      rw [ht] at hvt
      cases t with
      | str s => exact h.text s ht
      | _ => exact absurd hvt (by simp [StrOK])
  · -- label
    by_cases hs : r.shape = .text
    · rw [if_pos hs]
      exact h.label_none (hwf.2.2.1 hs)
    · rw [if_neg hs]
      cases hl : get r.mta .text with
      | none => exact h.label_none hl
      | some t =>
        rw [hl] at hvl
        cases t with
        | str s => exact h.label hs s hl
        | _ => exact absurd hvl (by simp [StrOK])
  · -- tags
    unfold tagList
    cases hg : get r.mta .tag with
    | none => rw [h.tags_none hg]
    | some t =>
      rw [hg] at hvg
      cases t with
      | strs l =>
        rw [h.tags l hg]
        cases l <;> simp
      | _ => exact absurd hvg (by simp)

/-- **Round trip, partial (what holds of the current code and of any repaired one).**  For every
list, precision and hash order: if writer and reader do not raise, every expressible region in
the vocabulary `Vocab` is `Preserved`.  With the repair F4 (`cfg.includeInt`) the bool condition of
`IncludeOK` is vacuous. -/
theorem ds9_roundtrip_partial (cfg : Cfg) (ord : List Key) (sky : ℚ → ℚ) (p : ℕ) (rs : List Region)
    (o : WOut) (out : List Region) (hwf : ∀ r ∈ rs, WF r)
    (hvoc : ∀ r ∈ rs, Vocab cfg (get o.global .include) r)
    (hs : serialize cfg ord p rs = .ok (some o)) (hp : parse (toRaw sky o) = .ok out) :
    List.Forall₂ (Preserved sky p) (rs.filter fun r => decide (Expressible r)) out := by
  have h := ds9_roundtrip cfg ord sky p rs o out hwf hs hp
  have hmem : ∀ r ∈ rs.filter (fun r => decide (Expressible r)), r ∈ rs := fun r hr => (List.mem_filter.mp hr).1
  generalize rs.filter (fun r => decide (Expressible r)) = xs at h hmem
  clear hp
  induction h with
  | nil => exact List.Forall₂.nil
  | @cons r r' xs out' hrr _ ih =>
    refine List.Forall₂.cons ?_ (ih (fun x hx => hmem x (List.mem_cons_of_mem _ hx)))
    have hr := hmem r List.mem_cons_self
    exact preserved_of_roundTripped (hwf r hr) hrr (hvoc r hr)

/-- the vocabulary is not empty: a labelled, tagged, excluded sky circle is in it for the current
code — with a label full of DS9 syntax and a numeric-looking tag … -/
example : Vocab codeCfg none
    ⟨.circle, .icrs, [(10, 20)], [1 / 2], none,
     [(.text, .str "{a b};c # d=e}".toList), (.tag, .strs ["42".toList, "g;2".toList]), (.include, .int 0)],
     [(.color, .str "red".toList)]⟩ := by decide +kernel
/-- … the excluded-by-`False` region was outside it before F4 was repaired and is inside it now; an
excluded-by-`0` region is outside it only when the `global` line spells a `False` (impossible for
the repaired writer, which hoists ints). -/
example : ¬ Vocab Cfg.unrepaired none excludedBool := by decide +kernel
example : Vocab codeCfg none excludedBool := by decide +kernel
example : Vocab codeCfg (some (.int 0)) ⟨.circle, .image, [(1, 2)], [3], none, [(.include, .int 0)], []⟩ := by
  decide +kernel
example : ¬ Vocab codeCfg (some (.bool false))
    ⟨.circle, .image, [(1, 2)], [3], none, [(.include, .int 0)], []⟩ := by decide +kernel
/-- a text region whose string looks like a number now comes back as that string. -/
example : roundTrip codeCfg [] (roundTo 3) 3 [⟨.text, .image, [(1, 2)], [], some (.str "42".toList), [], []⟩] =
    .ok [⟨.text, .image, [(1, 2)], [], some (.str "42".toList), [(.include, .int 1)],
          [(.default_style, .str "ds9".toList)]⟩] := by decide +kernel

/-! ## F19: which regions the reader accepts -/

/-- the reader accepts the numbers of a written region line exactly when the region is
`WellRounded` — and then builds the expected geometry. -/
theorem ds9_reader_accepts_iff (cfg : Cfg) (sky : ℚ → ℚ) (p : ℕ) (r : Region) (d : WLine)
    (h : serializeRegion cfg r = .ok (some d)) :
    (∃ g, geometry (decide (d.frame = .image)) d.shape (d.params.map (rnd sky p)) = .ok g) ↔
      WellRounded sky p r := by
  obtain ⟨_, hfn, hsp, _⟩ := serializeRegion_some h
  rw [(ds9Name_image hfn).1, geometry_of_shapeParams sky p r d.shape d.params hsp]
  by_cases hw : WellRounded sky p r
  · simp [hw]
  · simp [hw]

example : ¬ WellRounded (roundTo 3) 3 tinyCircle := by decide +kernel
example : WellRounded (roundTo 4) 4 tinyCircle := by decide +kernel
example : WellRounded (roundTo 3) 3 circleWitness := by decide +kernel
/-- an annulus whose gap is below the printed unit. -/
example : ¬ WellRounded (roundTo 3) 3
    ⟨.circleAnnulus, .image, [(1, 2)], [10001 / 10000, 10002 / 10000], none, [], []⟩ := by decide +kernel

/-! ## determinism: what depends on the hash order (F5) -/

theorem hoist_ordered (cfg : Cfg) (h : cfg.orderedGlobal = true) (ord₁ ord₂ : List Key) (ms : List Dict) :
    hoist cfg ord₁ ms = hoist cfg ord₂ ms := by
  cases ms with
  | nil => rfl
  | cons m rest => simp [hoist, h]

/-- with F5 repaired the output is a function of the region list alone. -/
theorem serialize_order_irrelevant (cfg : Cfg) (h : cfg.orderedGlobal = true) (ord₁ ord₂ : List Key) (p : ℕ)
    (rs : List Region) : serialize cfg ord₁ p rs = serialize cfg ord₂ p rs := by
  unfold serialize
  simp only [hoist_ordered cfg h ord₁ ord₂]

/-- the determinism clause for the code as it is (F5 repaired by 193fdcf): the output is a
function of the region list alone. -/
theorem serialize_order_current (ord₁ ord₂ : List Key) (p : ℕ) (rs : List Region) :
    serialize codeCfg ord₁ p rs = serialize codeCfg ord₂ p rs :=
  serialize_order_irrelevant codeCfg rfl ord₁ ord₂ p rs

def redWide : Region :=
  ⟨.circle, .image, [(1, 2)], [3], none, [], [(.color, .str "red".toList), (.linewidth, .int 2)]⟩

/-- regression witness F5: with `dict(set.intersection(…))` the text depended on the hash order. -/
theorem serialize_order_unrepaired_refuted :
    ¬ ∀ (ord₁ ord₂ : List Key) (p : ℕ) (rs : List Region),
      serialize Cfg.unrepaired ord₁ p rs = serialize Cfg.unrepaired ord₂ p rs := by
  intro h
  have := h [.color, .width] [.width, .color] 3 [redWide, redWide]
  revert this
  decide +kernel

/-- … and even then the order of the items of the `global` line was the *only* thing that depended on it:
same lines, same frame line, same `global` dictionary as a mapping — for every `cfg`. -/
theorem serialize_order_only_global (cfg : Cfg) (ord₁ ord₂ : List Key) (p : ℕ) (rs : List Region)
    (o₁ o₂ : WOut) (h₁ : serialize cfg ord₁ p rs = .ok (some o₁)) (h₂ : serialize cfg ord₂ p rs = .ok (some o₂)) :
    o₁.prec = o₂.prec ∧ o₁.gframe = o₂.gframe ∧ o₁.lines = o₂.lines ∧
      ∀ k, get o₁.global k = get o₂.global k := by
  obtain ⟨ds₁, hc₁, _, rfl⟩ := serialize_some h₁
  obtain ⟨ds₂, hc₂, _, rfl⟩ := serialize_some h₂
  rw [hc₁] at hc₂
  simp only [Except.ok.injEq] at hc₂
  subst hc₂
  have hget : ∀ k, get (hoist cfg ord₁ (ds₁.map fun d => hoistable d.mta)) k =
      get (hoist cfg ord₂ (ds₁.map fun d => hoistable d.mta)) k := by
    intro k
    by_cases hc : cfg.orderedGlobal = true
    · rw [hoist_ordered cfg hc ord₁ ord₂]
    · cases hms : ds₁.map (fun d => hoistable d.mta) with
      | nil => rfl
      | cons m rest => simp only [hoist, if_neg hc, get_reorder]
  refine ⟨rfl, rfl, ?_, hget⟩
  apply List.map_congr_left
  intro d _
  unfold dropGlobal
  congr 1
  rw [foldl_pop_eq_filter, foldl_pop_eq_filter]
  congr 1
  funext kv
  have : kv.1 ∈ keys (hoist cfg ord₁ (ds₁.map fun d => hoistable d.mta)) ↔
      kv.1 ∈ keys (hoist cfg ord₂ (ds₁.map fun d => hoistable d.mta)) := by
    rw [← AL.get_isSome_iff, ← AL.get_isSome_iff, hget]
  simp [this]

/-! ## fixed point: parse ∘ serialize is the identity on the reader's image -/

/-- **Fixed point.**  A list (any length) of regions in the reader's normal form at precision `p`
(`ReaderNormal`: the image of the reader on texts written at precision `p`, with default visual
metadata) goes through writer and reader *without an exception* and comes back equal, region by
region, in the sense of `Region.__eq__` (`RegionEqv`: dictionaries compared as mappings) — for
every `cfg` and every hash order, given that astropy prints a `p`-decimal as itself (`SkyFix`).
Hence parse ∘ serialize ∘ parse = parse on such texts.  (All-excluded lists included: a hoisted
`include=0` now reaches the regions, reader commit be2b52e.) -/
theorem ds9_fixed_point (cfg : Cfg) (ord : List Key) (sky : ℚ → ℚ) (p : ℕ) (hsky : SkyFix sky p)
    (rs : List Region) (hn : ∀ r ∈ rs, ReaderNormal p r) :
    ∃ out, roundTrip cfg ord sky p rs = .ok out ∧ List.Forall₂ RegionEqv rs out := by
  by_cases hnil : rs = []
  · subst hnil
    exact ⟨[], rfl, List.Forall₂.nil⟩
  -- the writer
  have hser : ∀ r ∈ rs, ∃ d, serializeRegion cfg r = .ok (some d) := fun r hr => by
    obtain ⟨d, hd, _⟩ := normal_serialize cfg p r (hn r hr)
    exact ⟨d, hd⟩
  obtain ⟨ds, hcol, F1⟩ := collect_ok _ rs hser
  have hdsne : ds ≠ [] := by
    intro h; subst h
    cases F1
    exact hnil rfl
  -- facts about every written line
  have hline : ∀ r d, r ∈ rs → serializeRegion cfg r = .ok (some d) →
      NormalDict d.mta ∧ ∀ k ∈ binaryMeta, get d.mta k = get r.mta k := by
    intro r d hr hd
    obtain ⟨d', hd', h1, h2⟩ := normal_serialize cfg p r (hn r hr)
    rw [hd] at hd'
    simp only [Except.ok.injEq, Option.some.injEq] at hd'
    subst hd'
    exact ⟨h1, h2⟩
  set ms := ds.map (fun d => hoistable d.mta) with hms_def
  set g := hoist cfg ord ms with hg_def
  have hmsn : ∀ m ∈ ms, NormalDict m := by
    intro m hm
    obtain ⟨d, hd, rfl⟩ := List.mem_map.mp hm
    obtain ⟨r, hr, hrd⟩ := forall₂_exists_left F1 hd
    exact normalDict_hoistable (hline r d hr hrd).1
  have hsound : HoistSound ms g := hoist_sound cfg ord ms (fun m hm => (hmsn m hm).nodup)
  have hfrom : ∀ kv ∈ g, ∃ m ∈ ms, kv ∈ m := fun kv hkv => hoist_from cfg ord ms kv hkv
  have hserial : serialize cfg ord p rs = .ok (some ⟨p, g, commonFrame ds, ds.map (dropGlobal g)⟩) := by
    unfold serialize
    rw [if_neg hnil, hcol]
    cases ds with
    | nil => exact absurd rfl hdsne
    | cons d ds' => rfl
  -- every line through the reader
  have F2 : List.Forall₂ (fun r d => ∃ raw r',
      defineRaw (gRead g) none (rawDict ((keys g).foldl AL.pop d.mta)) = .ok raw ∧
      makeRegion d.frame d.shape (d.params.map (rnd sky p)) raw = .ok r' ∧ RegionEqv r r') rs ds := by
    refine forall₂_imp_mem F1 ?_
    intro r d hr hd hrd
    exact line_fixed cfg sky p hsky g ms hsound hfrom hmsn r d (hn r hr) hrd (hline r d hr hrd).1
      (hline r d hr hrd).2 (List.mem_map.mpr ⟨d, hd, rfl⟩)
  obtain ⟨rd, out, hrd, hout, hf⟩ := fixed_lines sky p (gRead g) g RegionEqv rs ds F2
  refine ⟨out, ?_, hf⟩
  unfold roundTrip
  rw [hserial]
  simp only
  unfold parse
  rw [rawData_toRaw sky _ (by
    simp only
    exact (commonFrame_map (dropGlobal g) (fun d => rfl) ds).symm)]
  simp only [readGlobal_eq]
  rw [hrd]
  exact hout

/-- the reader's image of `circle(2.5,3.25,1.5) # include=0 select=1 text={a b} tag={t1}` at precision 2 -/
def normalCircle : Region :=
  ⟨.circle, .image, [(3 / 2, 9 / 4)], [3 / 2], none,
   [(.include, .int 0), (.select, .int 1), (.text, .str "a b".toList), (.tag, .strs ["t1".toList])], plainVisual⟩
def normalEllipseSky : Region :=
  ⟨.ellipse, .galactic, [(35999 / 100, -45)], [1 / 50, 1 / 25, 30], none, [(.include, .int 1)], plainVisual⟩
def normalText : Region :=
  ⟨.text, .fk5, [(10, 20)], [], some (.str "007".toList), [(.include, .int 1)], plainVisual⟩
/-- an excluded circle as the reader returns it (alone in its list: its flag is hoisted). -/
def normalExcluded : Region := ⟨.circle, .image, [(1, 2)], [3], none, [(.include, .int 0)], plainVisual⟩

example : ReaderNormal 2 normalCircle := by decide +kernel
example : ReaderNormal 2 normalEllipseSky := by decide +kernel
example : ReaderNormal 2 normalText := by decide +kernel
example : ReaderNormal 3 normalExcluded := by decide +kernel
/-- a radius that is not a 2-decimal is not in the image at precision 2 -/
example : ¬ ReaderNormal 2
    ⟨.circle, .image, [(1, 2)], [1 / 3], none, [(.include, .int 1)], plainVisual⟩ := by decide +kernel

/-- the fixed-point clause for the code as it is — now a theorem (it was refuted by an all-excluded
list before the reader change be2b52e). -/
theorem ds9_fixed_point_current (ord : List Key) (p : ℕ) (rs : List Region)
    (hn : ∀ r ∈ rs, ReaderNormal p r) :
    ∃ out, roundTrip codeCfg ord (roundTo p) p rs = .ok out ∧ List.Forall₂ RegionEqv rs out :=
  ds9_fixed_point codeCfg ord (roundTo p) p (skyFix_roundTo p) rs hn

example : roundTrip codeCfg [] (roundTo 3) 3 [normalExcluded] = .ok [normalExcluded] := by decide +kernel

/-! ## frame attributes: equinox / obstime of the coordinate's frame (F35)

A sky region may live in FK5 at another equinox than J2000, in FK4 at another equinox/obstime, in
the mean ecliptic of another equinox: all "supported frames" whose DS9 word (`j2000`, `b1950`,
`ecliptic`) means the default attributes.  `T r` = the positions of `r` in the default-attribute
frame (astropy's `transform_to(FrameClass(), merge_attributes=False)`, a parameter).  The region
read back must sit at `T r` (rounded), not at the untransformed numbers. -/

/-- frames that already have the default attributes (and pixel regions). -/
def DefaultAttrs (T : AttrMap) (r : Region) : Prop := T r = r.coords
instance (T : AttrMap) (r : Region) : Decidable (DefaultAttrs T r) := by unfold DefaultAttrs; infer_instance

/-- where the regions come back. -/
def PositionsKept (T : AttrMap) (p : ℕ) (sky : ℚ → ℚ) (r r' : Region) : Prop :=
  r'.frame = r.frame ∧ r'.coords = (T r).map (expCoord sky p (decide (r.frame = .image)))

/-- **Positions, any frame attributes** — for every `cfg`: if the writer transforms to the default
attributes (`cfg.stdAttrs`, F35 repaired), or every region already has them, then whenever writer and
reader do not raise every expressible region comes back in its frame at `T r`, rounded. -/
theorem ds9_attrs (cfg : Cfg) (T : AttrMap) (ord : List Key) (sky : ℚ → ℚ) (p : ℕ) (rs out : List Region)
    (hwf : ∀ r ∈ rs, WF (stdRegion T r))
    (h : cfg.stdAttrs = true ∨ ∀ r ∈ rs, DefaultAttrs T r)
    (ht : tripDs9 cfg T ord sky p rs = .ok out) :
    List.Forall₂ (PositionsKept T p sky) (rs.filter fun r => decide (Expressible r)) out := by
  unfold tripDs9 at ht
  rw [standardize_eq_map cfg T rs h] at ht
  rcases roundTrip_ok ht with ⟨rfl, hnil⟩ | ⟨o, hs, hp⟩
  · rw [filter_expressible_map_std, List.map_eq_nil_iff] at hnil
    rw [hnil]
    exact List.Forall₂.nil
  · have hwf' : ∀ r ∈ rs.map (stdRegion T), WF r := by
      intro r hr
      obtain ⟨r0, hr0, rfl⟩ := List.mem_map.mp hr
      exact hwf r0 hr0
    have hrt := ds9_roundtrip cfg ord sky p _ o out hwf' hs hp
    rw [filter_expressible_map_std, List.forall₂_map_left_iff] at hrt
    exact hrt.imp (fun r r' hrr => ⟨hrr.frame, hrr.coords⟩)

/-- the clause for the code as it is. -/
def ds9_attrs_full : Prop :=
  ∀ (T : AttrMap) (ord : List Key) (p : ℕ) (rs out : List Region), (∀ r ∈ rs, WF (stdRegion T r)) →
    tripDs9 codeCfg T ord (roundTo p) p rs = .ok out →
    List.Forall₂ (PositionsKept T p (roundTo p)) (rs.filter fun r => decide (Expressible r)) out

/-- a 1° circle at (10°, 20°) in FK5 at equinox J1975; in FK5 at J2000 that position is
(10.329239°, 20.137002°), 1217.65″ away. -/
def fk5J1975 : Region := ⟨.circle, .fk5, [(10, 20)], [1], none, [], []⟩
def toJ2000 : AttrMap := fun r =>
  if r = fk5J1975 then [(10329239 / 1000000, 20137002 / 1000000)] else r.coords

/-- a writer that does not transform writes `j2000; circle(10.000,20.000,1.000)` and the region comes
back at (10, 20) of J2000. -/
theorem fk5J1975_untransformed_trip :
    tripDs9 { codeCfg with stdAttrs := false } toJ2000 [] (roundTo 3) 3 [fk5J1975] =
      .ok [⟨.circle, .fk5, [(10, 20)], [1], none, [(.include, .int 1)],
            [(.default_style, .str "ds9".toList)]⟩] := by decide +kernel

/-- … a writer that transforms puts it where it belongs. -/
theorem fk5J1975_transformed_trip :
    tripDs9 { codeCfg with stdAttrs := true } toJ2000 [] (roundTo 3) 3 [fk5J1975] =
      .ok [⟨.circle, .fk5, [(10329 / 1000, 20137 / 1000)], [1], none, [(.include, .int 1)],
            [(.default_style, .str "ds9".toList)]⟩] := by decide +kernel

theorem cfg_of_stdAttrs_false (c : Cfg) (h : c.stdAttrs = false) : c = { c with stdAttrs := false } := by
  cases c; simp_all

/-- F35: as long as the writer does not transform (`codeCfg.stdAttrs = false`) the clause is refuted … -/
theorem ds9_attrs_full_refuted_while_unrepaired (h : codeCfg.stdAttrs = false) : ¬ ds9_attrs_full := by
  intro H
  have H' := H toJ2000 [] 3 [fk5J1975] _ (by decide +kernel)
    (by rw [cfg_of_stdAttrs_false codeCfg h]; exact fk5J1975_untransformed_trip)
  revert H'
  unfold PositionsKept
  decide +kernel

/-- … and once it does (`codeCfg.stdAttrs = true`, the one-line switch) the clause holds. -/
theorem ds9_attrs_full_holds_once_repaired (h : codeCfg.stdAttrs = true) : ds9_attrs_full :=
  fun T ord p rs out hwf ht => ds9_attrs codeCfg T ord (roundTo p) p rs out hwf (Or.inl h) ht

/-- the clause as it holds of the code whatever the state of F35: regions whose frames have the
default attributes. -/
theorem ds9_attrs_partial (T : AttrMap) (ord : List Key) (p : ℕ) (rs out : List Region)
    (hwf : ∀ r ∈ rs, WF (stdRegion T r)) (hdef : ∀ r ∈ rs, DefaultAttrs T r)
    (ht : tripDs9 codeCfg T ord (roundTo p) p rs = .ok out) :
    List.Forall₂ (PositionsKept T p (roundTo p)) (rs.filter fun r => decide (Expressible r)) out :=
  ds9_attrs codeCfg T ord (roundTo p) p rs out hwf (Or.inr hdef) ht

example : ¬ DefaultAttrs toJ2000 fk5J1975 := by decide +kernel
example : DefaultAttrs toJ2000 circleWitness := by decide +kernel
example : WF (stdRegion toJ2000 fk5J1975) := by decide +kernel

end RegionsVerif.Props.C09
