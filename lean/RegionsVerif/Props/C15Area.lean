/-
C15 (polygon area): the shoelace sum that `PolygonPixelRegion.area` takes the absolute value of
is invariant under rotation of all vertices about any centre (and under translation), so the
area of a rotated polygon equals the area of the original — for every vertex list.
-/
import RegionsVerif.Props.C15
import RegionsVerif.Props.C01Cyclic
import Mathlib.Algebra.BigOperators.Group.List.Basic

namespace RegionsVerif.Props.C15
open RegionsVerif.Impl RegionsVerif.Props

section
variable {α : Type} [Field α] [LinearOrder α] [IsStrictOrderedRing α]

omit [LinearOrder α] [IsStrictOrderedRing α] in
theorem sum_map_sub' {β : Type} (l : List β) (f g : β → α) :
    (l.map fun e => f e - g e).sum = (l.map f).sum - (l.map g).sum := by
  induction l with
  | nil => simp
  | cons a t ih => simp only [List.map_cons, List.sum_cons, ih]; ring

omit [LinearOrder α] [IsStrictOrderedRing α] in
/-- a difference summed around a closed polygon telescopes to zero. -/
theorem sum_cyclic_diff (k : Pt α → α) (vs : List (Pt α)) :
    ((cyclicPairs vs).map fun e => k e.2 - k e.1).sum = 0 := by
  by_cases hne : vs = []
  · subst hne; simp [cyclicPairs]
  · rw [sum_map_sub', C01.cyclicPairs_eq_zip_rotate vs hne]
    have h1 : ((vs.zip (vs.rotate (vs.length - 1))).map fun e => k e.2) =
        (vs.rotate (vs.length - 1)).map k := by
      have : (fun e : Pt α × Pt α => k e.2) = k ∘ Prod.snd := rfl
      rw [this, ← List.map_map, List.map_snd_zip (by simp)]
    have h2 : ((vs.zip (vs.rotate (vs.length - 1))).map fun e => k e.1) = vs.map k := by
      have : (fun e : Pt α × Pt α => k e.1) = k ∘ Prod.fst := rfl
      rw [this, ← List.map_map, List.map_fst_zip (by simp)]
    rw [h1, h2]
    have : List.Perm ((vs.rotate (vs.length - 1)).map k) (vs.map k) := (List.rotate_perm _ _).map k
    rw [this.sum_eq]; ring

/-- the cross product of consecutive rotated vertices is the original one plus a telescoping term. -/
theorem cross_rotate (a b o : Pt α) (d : Dir α) (hu : d.IsUnit) :
    (b.rotate o d).x * (a.rotate o d).y - (b.rotate o d).y * (a.rotate o d).x =
      (b.x * a.y - b.y * a.x) +
      (((d.c * b.x - d.s * b.y) * (o.y - (d.s * o.x + d.c * o.y)) - (d.s * b.x + d.c * b.y) * (o.x - (d.c * o.x - d.s * o.y)))
       - ((d.c * a.x - d.s * a.y) * (o.y - (d.s * o.x + d.c * o.y)) - (d.s * a.x + d.c * a.y) * (o.x - (d.c * o.x - d.s * o.y)))) := by
  unfold Dir.IsUnit at hu
  simp only [Pt.rotate]
  linear_combination (b.x * a.y - b.y * a.x) * hu

/-- **the shoelace sum is invariant under rotation about any centre.** -/
theorem shoelace_rotate (vs : List (Pt α)) (o : Pt α) (d : Dir α) (hu : d.IsUnit) :
    shoelace2 (vs.map fun v => v.rotate o d) = shoelace2 vs := by
  unfold shoelace2
  rw [C01.cyclicPairs_map, List.map_map]
  have : ((fun e : Pt α × Pt α => e.2.x * e.1.y - e.2.y * e.1.x) ∘ fun e => (e.1.rotate o d, e.2.rotate o d)) =
      fun (e : Pt α × Pt α) => (e.2.x * e.1.y - e.2.y * e.1.x) +
        ((fun v : Pt α => (d.c * v.x - d.s * v.y) * (o.y - (d.s * o.x + d.c * o.y))
            - (d.s * v.x + d.c * v.y) * (o.x - (d.c * o.x - d.s * o.y))) e.2
         - (fun v : Pt α => (d.c * v.x - d.s * v.y) * (o.y - (d.s * o.x + d.c * o.y))
            - (d.s * v.x + d.c * v.y) * (o.x - (d.c * o.x - d.s * o.y))) e.1) := by
    funext e
    exact cross_rotate e.1 e.2 o d hu
  rw [this]
  have hadd : ∀ (l : List (Pt α × Pt α)) (f g : Pt α × Pt α → α),
      (l.map fun e => f e + g e).sum = (l.map f).sum + (l.map g).sum := by
    intro l f g
    induction l with
    | nil => simp
    | cons a t ih => simp only [List.map_cons, List.sum_cons, ih]; ring
  rw [hadd]
  have hz := sum_cyclic_diff (fun v : Pt α => (d.c * v.x - d.s * v.y) * (o.y - (d.s * o.x + d.c * o.y))
            - (d.s * v.x + d.c * v.y) * (o.x - (d.c * o.x - d.s * o.y))) vs
  rw [hz]; ring

/-- hence the area (as the pair of coefficient of π and rational part) of EVERY region class —
polygons included — is unchanged by `rotate`. -/
theorem area_rotate (r : PReg α) (o : Pt α) (d : Dir α) (hu : d.IsUnit) :
    (r.rotate o d).area = r.area := by
  cases r with
  | polygon g i =>
    simp only [PReg.rotate, PReg.area, Polygon.rotate, shoelace_rotate g.vertices o d hu]
  | _ => simp [PReg.rotate, PReg.area, Circle.rotate, Ellipse.rotate, Rect.rotate]

end

end RegionsVerif.Props.C15
