/-
C09 — characters, layer 1: the primitive scanners of `Impl/Ds9Text.lean` on the writer's metadata.

The writer's `_make_meta_str` output is a SPACED SEQUENCE OF ATOMS `lead ++ spaced atoms`
(`Atom` = `key=value` + the blanks after it; `lead` = blanks).  On such a string
* `findItems_spaced`    the metadata regular expression (`findall`) returns exactly the atoms,
* `spaced_protected`    every `;` inside it is protected for `_split_semicolon` (it lies inside a
                        delimited value, which `_find_text_delim_idx` finds: `textDelims_suffix`
                        = no regex match straddles the boundary blank | letter),
* `metaStr_spaced`      `metaStr m` IS such a string when `dictWF m`, with the atoms of `m`
                        (`valueOK_atom`: every accepted value is one regex alternative + blanks).
The side condition `dictWF` and the account of every excluded class are in the section
"the side condition of the theorem" below.  Used by `Props/C09LexLines.lean`, `Props/C09Lex.lean`.
-/
import RegionsVerif.Impl.Ds9Text
import RegionsVerif.Lemmas.Decimal
import Mathlib.Tactic.Linarith
import Mathlib.Tactic.Push

namespace RegionsVerif.Props.C09
open RegionsVerif.Impl.Ds9 RegionsVerif.Impl.Dec

/-! ### characters -/

theorem char_le_iff (a b : Char) : a ≤ b ↔ a.toNat ≤ b.toNat := by
  rw [Char.le_def, UInt32.le_iff_toNat_le]; rfl

theorem isAlpha_iff (c : Char) :
    isAlpha c = true ↔ (97 ≤ c.toNat ∧ c.toNat ≤ 122) ∨ (65 ≤ c.toNat ∧ c.toNat ≤ 90) := by
  unfold isAlpha
  simp only [Bool.or_eq_true, Bool.and_eq_true, decide_eq_true_eq, char_le_iff]
  rfl

theorem isSpace_iff (c : Char) :
    isSpace c = true ↔ ((9 ≤ c.toNat ∧ c.toNat ≤ 13) ∨ (28 ≤ c.toNat ∧ c.toNat ≤ 32) ∨ c.toNat = 0x85 ∨
      c.toNat = 0xa0 ∨ c.toNat = 0x1680 ∨ (0x2000 ≤ c.toNat ∧ c.toNat ≤ 0x200a) ∨ c.toNat = 0x2028 ∨
      c.toNat = 0x2029 ∨ c.toNat = 0x202f ∨ c.toNat = 0x205f ∨ c.toNat = 0x3000) := by
  unfold isSpace
  simp only [Bool.or_eq_true, Bool.and_eq_true, decide_eq_true_eq, beq_iff_eq]
  tauto

theorem alpha_not_space (c : Char) (h : isAlpha c = true) : isSpace c = false := by
  rw [isAlpha_iff] at h
  cases hs : isSpace c with
  | false => rfl
  | true => rw [isSpace_iff] at hs; omega

theorem toNat_ne (c d : Char) (h : c.toNat ≠ d.toNat) : c ≠ d := fun e => h (by rw [e])

theorem alpha_ne (c d : Char) (h : isAlpha c = true) (hd : isAlpha d = false) : c ≠ d := by
  intro e; rw [e] at h; rw [h] at hd; exact Bool.noConfusion hd


/-! ### generic list lemmas -/

theorem takeWhile_append_stop (p : Char → Bool) (a b : Str) (ha : ∀ c ∈ a, p c = true)
    (hb : ∀ c, b.head? = some c → p c = false) : (a ++ b).takeWhile p = a := by
  induction a with
  | nil =>
    cases b with
    | nil => rfl
    | cons c cs => simp [hb c rfl]
  | cons d ds ih =>
    simp only [List.cons_append, List.takeWhile_cons, ha d (by simp), if_true]
    rw [ih (fun c hc => ha c (by simp [hc]))]

theorem dropWhile_append_stop (p : Char → Bool) (a b : Str) (ha : ∀ c ∈ a, p c = true)
    (hb : ∀ c, b.head? = some c → p c = false) : (a ++ b).dropWhile p = b := by
  induction a with
  | nil =>
    cases b with
    | nil => rfl
    | cons c cs => simp [hb c rfl]
  | cons d ds ih =>
    simp only [List.cons_append, List.dropWhile_cons, ha d (by simp), if_true]
    exact ih (fun c hc => ha c (by simp [hc]))

theorem takeWhile_all (p : Char → Bool) (s : Str) : ∀ c ∈ s.takeWhile p, p c = true := by
  induction s with
  | nil => intro c hc; simp at hc
  | cons d ds ih =>
    intro c hc
    by_cases hd : p d = true
    · rw [List.takeWhile_cons_of_pos hd] at hc
      rcases List.mem_cons.mp hc with h | h
      · rw [h]; exact hd
      · exact ih c h
    · rw [List.takeWhile_cons_of_neg hd] at hc; simp at hc

theorem dropWhile_head (p : Char → Bool) (s : Str) : ∀ c, (s.dropWhile p).head? = some c → p c = false := by
  intro c hc
  induction s with
  | nil => simp at hc
  | cons d ds ih =>
    by_cases hd : p d = true
    · rw [List.dropWhile_cons_of_pos hd] at hc; exact ih hc
    · rw [List.dropWhile_cons_of_neg hd] at hc
      simp only [List.head?_cons, Option.some.injEq] at hc
      rw [← hc]; simpa using hd

/-- in `A ++ T` with `A` all-`P` and `T` all-not-`P` a non-`P` element is never followed by a `P` one. -/
theorem no_P_after (P : Char → Bool) (X A T : Str) (a k : Char) (hA : ∀ c ∈ A, P c = true)
    (hT : ∀ c ∈ T, P c = false) (ha : P a = false) (hk : P k = true)
    (hpre : X ++ [a, k] <+: A ++ T) : False := by
  obtain ⟨Z, hZ⟩ := hpre
  rcases List.append_eq_append_iff.mp hZ with ⟨A', h1, h2⟩ | ⟨T', h1, h2⟩
  · -- A = (X ++ [a,k] ++ ...)?  here: A ++ T = (X++[a,k]) ++ Z with X++[a,k] ++ A' = A
    have : a ∈ A := by rw [h1]; simp
    have := hA a this
    rw [ha] at this; exact Bool.noConfusion this
  · -- X ++ [a,k] = A ++ T'
    rcases List.eq_nil_or_concat' T' with hnil | ⟨T0, z, hz⟩
    · subst hnil
      have : a ∈ A := by
        have h3 : A = X ++ [a, k] := by simpa using h1.symm
        rw [h3]; simp
      have := hA a this
      rw [ha] at this; exact Bool.noConfusion this
    · subst hz
      have hlast : z = k := by
        have h3 : (X ++ [a, k]).getLast? = (A ++ (T0 ++ [z])).getLast? := by rw [h1]
        simp at h3
        exact h3.symm
      have hzT : z ∈ T := by rw [h2]; simp
      have := hT z hzT
      rw [hlast, hk] at this; exact Bool.noConfusion this

/-! ### `matchTextDelim` -/

/-- closing delimiter for an opening one. -/
def closeOf (d : Char) : Char := if d = '{' then '}' else d

def isOpenDelim (d : Char) : Prop := d = '{' ∨ d = '\'' ∨ d = '"'

theorem openDelim_not_alpha (d : Char) (h : isOpenDelim d) : isAlpha d = false := by
  rcases h with h | h | h <;> subst h <;> decide

/-- shape of a successful match: `A W₁ = W₂ d₀`, `A` letters, `W` blanks. -/
theorem matchTextDelim_some (s : Str) (len : Nat) (d : Char) (h : matchTextDelim s = some (len, d)) :
    ∃ A W1 W2 d0 rest, s = A ++ W1 ++ '=' :: W2 ++ d0 :: rest ∧ A ≠ [] ∧ (∀ c ∈ A, isAlpha c = true) ∧
      (∀ c ∈ W1, isSpace c = true) ∧ (∀ c ∈ W2, isSpace c = true) ∧ isOpenDelim d0 ∧ d = closeOf d0 ∧
      len = (A ++ W1 ++ '=' :: W2 ++ [d0]).length := by
  unfold matchTextDelim at h
  by_cases hA : s.takeWhile isAlpha ≠ []
  · rw [if_pos hA] at h
    simp only at h
    have e1 : s = s.takeWhile isAlpha ++ s.dropWhile isAlpha := (List.takeWhile_append_dropWhile).symm
    set r1 := s.dropWhile isAlpha with hr1
    have e2 : r1 = r1.takeWhile isSpace ++ r1.dropWhile isSpace := (List.takeWhile_append_dropWhile).symm
    cases hr2 : r1.dropWhile isSpace with
    | nil => rw [hr2] at h; simp at h
    | cons c r3 =>
      rw [hr2] at h
      by_cases hc : c = '='
      · subst hc
        simp only at h
        have e3 : r3 = r3.takeWhile isSpace ++ r3.dropWhile isSpace := (List.takeWhile_append_dropWhile).symm
        cases hr4 : r3.dropWhile isSpace with
        | nil => rw [hr4] at h; simp at h
        | cons d0 rest =>
          rw [hr4] at h
          simp only at h
          have hs : s = s.takeWhile isAlpha ++ r1.takeWhile isSpace ++ '=' :: r3.takeWhile isSpace ++ d0 :: rest := by
            have e3' : r3.takeWhile isSpace ++ d0 :: rest = r3 := by
              rw [← hr4]; exact List.takeWhile_append_dropWhile
            have e2' : r1.takeWhile isSpace ++ '=' :: r3 = r1 := by
              rw [← hr2]; exact List.takeWhile_append_dropWhile
            calc s = s.takeWhile isAlpha ++ r1 := e1
              _ = s.takeWhile isAlpha ++ (r1.takeWhile isSpace ++ '=' :: (r3.takeWhile isSpace ++ d0 :: rest)) := by
                    rw [e3', e2']
              _ = _ := by simp
          have hlen : s.length - (d0 :: rest).length + 1 =
              (s.takeWhile isAlpha ++ r1.takeWhile isSpace ++ '=' :: r3.takeWhile isSpace ++ [d0]).length := by
            have := congrArg List.length hs
            simp only [List.length_append, List.length_cons, List.length_nil] at this ⊢
            omega
          by_cases hd1 : d0 = '{'
          · rw [if_pos hd1] at h
            simp only [Option.some.injEq, Prod.mk.injEq] at h
            exact ⟨_, _, _, d0, rest, hs, hA, takeWhile_all _ _, takeWhile_all _ _, takeWhile_all _ _,
              Or.inl hd1, by rw [← h.2, closeOf, if_pos hd1], by rw [← h.1, hlen]⟩
          · rw [if_neg hd1] at h
            by_cases hd2 : d0 = '\'' ∨ d0 = '"'
            · rw [if_pos hd2] at h
              simp only [Option.some.injEq, Prod.mk.injEq] at h
              exact ⟨_, _, _, d0, rest, hs, hA, takeWhile_all _ _, takeWhile_all _ _, takeWhile_all _ _,
                Or.inr hd2, by rw [← h.2, closeOf, if_neg hd1], by rw [← h.1, hlen]⟩
            · rw [if_neg hd2] at h; simp at h
      · exfalso
        revert h
        split
        · rename_i heq
          simp only [List.cons.injEq] at heq
          exact fun _ => hc heq.1
        · intro h; simp at h
  · rw [if_neg hA] at h; simp at h

/-- a key immediately followed by `=` and an opening delimiter is matched. -/
theorem matchTextDelim_key (K rest : Str) (d0 : Char) (hK : K ≠ []) (hKa : ∀ c ∈ K, isAlpha c = true)
    (hd : isOpenDelim d0) :
    matchTextDelim (K ++ '=' :: d0 :: rest) = some (K.length + 2, closeOf d0) := by
  unfold matchTextDelim
  have t1 : (K ++ '=' :: d0 :: rest).takeWhile isAlpha = K :=
    takeWhile_append_stop _ _ _ hKa (by intro c hc; simp at hc; rw [← hc]; decide)
  have t2 : (K ++ '=' :: d0 :: rest).dropWhile isAlpha = '=' :: d0 :: rest :=
    dropWhile_append_stop _ _ _ hKa (by intro c hc; simp at hc; rw [← hc]; decide)
  rw [t1, if_pos hK]
  simp only [t2]
  have hsp : isSpace '=' = false := by decide
  have hds : isSpace d0 = false := by rcases hd with h | h | h <;> subst h <;> decide
  simp only [List.dropWhile_cons, hsp, hds]
  simp only [Bool.false_eq_true, if_false, List.length_append, List.length_cons]
  have e4 : List.dropWhile isSpace (d0 :: rest) = d0 :: rest := by
    rw [List.dropWhile_cons_of_neg (by simp [hds])]
  rw [e4]
  simp only [List.length_cons]
  have hl : List.length K + (List.length rest + 1 + 1) - (List.length rest + 1) + 1 = K.length + 2 := by omega
  rw [hl]
  rcases hd with h | h | h
  · subst h; simp [closeOf]
  · subst h; simp [closeOf]
  · subst h; simp [closeOf]

/-- **no match straddles a blank followed by a letter**. -/
theorem matchTextDelim_cross (p2 suf : Str) (a k : Char) (len : Nat) (d : Char)
    (ha : isAlpha a = false) (hk : isAlpha k = true)
    (h : matchTextDelim (p2 ++ a :: k :: suf) = some (len, d)) : len ≤ p2.length + 1 := by
  obtain ⟨A, W1, W2, d0, rest, hs, -, hA, hW1, hW2, hd0, -, hlen⟩ := matchTextDelim_some _ _ _ h
  by_contra hgt
  push Not at hgt
  set Mx := A ++ W1 ++ '=' :: W2 ++ [d0] with hMx
  have hs' : p2 ++ a :: k :: suf = Mx ++ rest := by rw [hs, hMx]; simp
  have hpre : p2 ++ [a, k] <+: Mx := by
    have h1 : p2 ++ [a, k] <+: p2 ++ a :: k :: suf := ⟨suf, by simp⟩
    have h2 : Mx <+: p2 ++ a :: k :: suf := ⟨rest, hs'.symm⟩
    have := List.prefix_of_prefix_length_le h1 h2 (by simp; omega)
    exact this
  have hT : ∀ c ∈ W1 ++ '=' :: W2 ++ [d0], isAlpha c = false := by
    intro c hc
    simp only [List.mem_append, List.mem_cons, List.not_mem_nil, or_false] at hc
    rcases hc with (h | h | h) | h
    · cases hh : isAlpha c with
      | false => rfl
      | true => have := alpha_not_space c hh; rw [hW1 c h] at this; exact Bool.noConfusion this
    · subst h; decide
    · cases hh : isAlpha c with
      | false => rfl
      | true => have := alpha_not_space c hh; rw [hW2 c h] at this; exact Bool.noConfusion this
    · subst h; exact openDelim_not_alpha _ hd0
  have hMx' : Mx = A ++ (W1 ++ '=' :: W2 ++ [d0]) := by rw [hMx]; simp
  rw [hMx'] at hpre
  exact no_P_after isAlpha p2 A _ a k hA hT ha hk hpre

theorem matchTextDelim_len_pos (s : Str) (len : Nat) (d : Char) (h : matchTextDelim s = some (len, d)) :
    1 ≤ len := by
  obtain ⟨A, W1, W2, d0, rest, -, -, -, -, -, -, -, hlen⟩ := matchTextDelim_some _ _ _ h
  rw [hlen]; simp; omega

/-! ### `textDelims` -/

theorem textDelims_fuel (f1 : Nat) : ∀ (f2 i : Nat) (s : Str), s.length < f1 → s.length < f2 →
    textDelims f1 i s = textDelims f2 i s := by
  induction f1 with
  | zero => intro f2 i s h; omega
  | succ f ih =>
    intro f2 i s h1 h2
    cases f2 with
    | zero => omega
    | succ g =>
      cases s with
      | nil => rfl
      | cons c cs =>
        simp only [textDelims]
        cases hm : matchTextDelim (c :: cs) with
        | none =>
          simp only
          exact ih g (i + 1) cs (by simp at h1; omega) (by simp at h2; omega)
        | some r =>
          obtain ⟨len, d⟩ := r
          simp only
          have hp := matchTextDelim_len_pos _ _ _ hm
          have hl : ((c :: cs).drop len).length ≤ cs.length := by
            simp only [List.length_drop, List.length_cons]; omega
          rw [ih g (i + len) _ (by simp at h1; omega) (by simp at h2; omega)]

/-- every element of `textDelims` is a genuine match at its start position. -/
theorem textDelims_mem (f : Nat) : ∀ (i : Nat) (s : Str) (x : Nat × Nat × Char), x ∈ textDelims f i s →
    ∃ n len d, n < s.length ∧ x = (i + n, i + n + len, d) ∧ matchTextDelim (s.drop n) = some (len, d) := by
  induction f with
  | zero => intro i s x hx; simp [textDelims] at hx
  | succ f ih =>
    intro i s x hx
    cases s with
    | nil => simp [textDelims] at hx
    | cons c cs =>
      simp only [textDelims] at hx
      cases hm : matchTextDelim (c :: cs) with
      | none =>
        rw [hm] at hx
        simp only at hx
        obtain ⟨n, len, d, hn, hx', hmm⟩ := ih (i + 1) cs x hx
        exact ⟨n + 1, len, d, by simp; omega, by rw [hx']; congr 1 <;> [omega; (congr 1; omega)], by simpa using hmm⟩
      | some r =>
        obtain ⟨len, d⟩ := r
        rw [hm] at hx
        simp only [List.mem_cons] at hx
        rcases hx with hx | hx
        · exact ⟨0, len, d, by simp, by rw [hx]; simp, by simpa using hm⟩
        · obtain ⟨n, len', d', hn, hx', hmm⟩ := ih (i + len) _ x hx
          have hp := matchTextDelim_len_pos _ _ _ hm
          simp only [List.length_drop] at hn
          refine ⟨len + n, len', d', by omega, by rw [hx']; congr 1 <;> [omega; (congr 1; omega)], ?_⟩
          rw [List.drop_drop] at hmm
          rw [show len + n = len + n from rfl]; exact hmm

/-- **boundary lemma**: scanning `pre ++ k :: suf`, where `pre` ends with a non-letter (or is
empty) and `k` is a letter, the scanner arrives exactly at `k`: whatever it finds from there on
is found in the whole string. -/
theorem textDelims_suffix (m : Nat) : ∀ (pre : Str), pre.length = m → ∀ (i f1 f2 : Nat) (k : Char) (suf : Str),
    (∀ a, pre.getLast? = some a → isAlpha a = false) → isAlpha k = true →
    (pre ++ k :: suf).length < f1 → (k :: suf).length < f2 →
    ∀ x ∈ textDelims f2 (i + pre.length) (k :: suf), x ∈ textDelims f1 i (pre ++ k :: suf) := by
  induction m using Nat.strong_induction_on with
  | _ m ih =>
    intro pre hm i f1 f2 k suf hlast hk hf1 hf2 x hx
    cases pre with
    | nil =>
      simp only [List.nil_append, List.length_nil, Nat.add_zero] at hx ⊢
      rw [textDelims_fuel f1 f2 i _ (by simpa using hf1) hf2]; exact hx
    | cons c pre' =>
      cases f1 with
      | zero => omega
      | succ f =>
        simp only [List.cons_append, textDelims]
        cases hmt : matchTextDelim (c :: (pre' ++ k :: suf)) with
        | none =>
          simp only
          have := ih pre'.length (by simp at hm; omega) pre' rfl (i + 1) f f2 k suf
            (by
              intro a ha
              apply hlast a
              cases pre' with
              | nil => simp at ha
              | cons e es => simpa using ha) hk (by simp at hf1 ⊢; omega) hf2 x
            (by simp only [List.length_cons] at hx; rw [show i + 1 + pre'.length = i + (pre'.length + 1) by omega]; exact hx)
          exact this
        | some r =>
          obtain ⟨len, d⟩ := r
          simp only
          have hp := matchTextDelim_len_pos _ _ _ hmt
          -- the match does not straddle the boundary
          have hle : len ≤ (c :: pre').length := by
            rcases List.eq_nil_or_concat' (c :: pre') with h0 | ⟨p2, a, hpa⟩
            · simp at h0
            · have ha : isAlpha a = false := hlast a (by rw [hpa]; simp)
              have hmt' : matchTextDelim (p2 ++ a :: k :: suf) = some (len, d) := by
                have : c :: (pre' ++ k :: suf) = p2 ++ a :: k :: suf := by
                  rw [← List.cons_append, hpa]; simp
                rw [← this]; exact hmt
              have := matchTextDelim_cross p2 suf a k len d ha hk hmt'
              rw [hpa]; simp; omega
          have hdrop : (c :: (pre' ++ k :: suf)).drop len = (c :: pre').drop len ++ k :: suf := by
            rw [← List.cons_append, List.drop_append_of_le_length hle]
          rw [hdrop]
          apply List.mem_cons_of_mem
          apply ih ((c :: pre').drop len).length (by simp only [List.length_drop] at *; omega) _ rfl (i + len) f f2 k suf
          · intro a ha
            apply hlast a
            rw [List.getLast?_drop] at ha
            split at ha
            · simp at ha
            · exact ha
          · exact hk
          · simp only [List.length_append, List.length_drop, List.length_cons] at hf1 ⊢; omega
          · exact hf2
          · have : i + len + ((c :: pre').drop len).length = i + (c :: pre').length := by
              simp only [List.length_drop]; omega
            rw [this]; exact hx

/-! ### `findFrom` -/

theorem findFrom_go_hit (c : Char) (start : Nat) (R : Str) : ∀ (B : Str) (i : Nat), start ≤ i →
    (∀ x ∈ B, x ≠ c) → findFrom.go c start (B ++ c :: R) i = some (i + B.length) := by
  intro B
  induction B with
  | nil => intro i hi _; simp [findFrom.go, hi]
  | cons b bs ih =>
    intro i hi hB
    have hb : b ≠ c := hB b (by simp)
    simp only [List.cons_append, findFrom.go, hb, and_false, if_false]
    rw [ih (i + 1) (by omega) (fun x hx => hB x (by simp [hx]))]
    simp; omega

theorem findFrom_go_skip (c : Char) (start : Nat) (S : Str) : ∀ (A : Str) (i : Nat), i + A.length ≤ start →
    findFrom.go c start (A ++ S) i = findFrom.go c start S (i + A.length) := by
  intro A
  induction A with
  | nil => intro i _; simp
  | cons a as ih =>
    intro i hi
    have : ¬ start ≤ i := by simp at hi; omega
    simp only [List.cons_append, findFrom.go, this, false_and, if_false]
    rw [ih (i + 1) (by simp at hi; omega)]
    simp; congr 1; omega

/-- `s.find(c, e)` when the first `c` at or after `e` closes a `c`-free block. -/
theorem findFrom_block (c : Char) (A B R : Str) (hB : ∀ x ∈ B, x ≠ c) :
    findFrom c (A ++ B ++ c :: R) A.length = some (A.length + B.length) := by
  unfold findFrom
  rw [List.append_assoc, findFrom_go_skip c A.length _ A 0 (by simp), findFrom_go_hit c A.length R B _ (by simp) hB]
  simp

/-! ### the splitting loop of `_split_semicolon` -/

theorem go_all_protected (pr : Nat → Bool) : ∀ (s : Str) (i : Nat) (cur : Str),
    (∀ X Y, s = X ++ ';' :: Y → pr (i + X.length) = true) →
    splitSemicolon.go pr s i cur = [cur.reverse ++ s] := by
  intro s
  induction s with
  | nil => intro i cur _; simp [splitSemicolon.go]
  | cons c cs ih =>
    intro i cur h
    have hc : ¬ (c = ';' ∧ ¬ pr i = true) := by
      rintro ⟨h1, h2⟩
      exact h2 (by simpa using h [] cs (by rw [h1]; rfl))
    simp only [splitSemicolon.go, hc, if_false]
    rw [ih (i + 1) (c :: cur) (fun X Y hs => by
      have := h (c :: X) Y (by rw [hs]; rfl)
      rw [show i + 1 + X.length = i + (c :: X).length by simp; omega]; exact this)]
    simp

theorem go_first_unprotected (pr : Nat → Bool) (B : Str) : ∀ (A : Str) (i : Nat) (cur : Str),
    (∀ x ∈ A, x ≠ ';') → pr (i + A.length) = false →
    (∀ X Y, B = X ++ ';' :: Y → pr (i + A.length + 1 + X.length) = true) →
    splitSemicolon.go pr (A ++ ';' :: B) i cur = [cur.reverse ++ A ++ [';'], B] := by
  intro A
  induction A with
  | nil =>
    intro i cur _ hp hB
    simp only [List.nil_append, List.length_nil, Nat.add_zero] at hp hB ⊢
    simp only [splitSemicolon.go, hp, Bool.false_eq_true, not_false_eq_true, and_self, if_true]
    rw [go_all_protected pr B (i + 1) [] hB]
    simp
  | cons a as ih =>
    intro i cur hA hp hB
    have ha : a ≠ ';' := hA a (by simp)
    simp only [List.cons_append, splitSemicolon.go, ha, false_and, if_false]
    rw [ih (i + 1) (a :: cur) (fun x hx => hA x (by simp [hx]))
      (by rw [show i + 1 + as.length = i + (a :: as).length by simp; omega]; exact hp)
      (fun X Y hs => by
        have := hB X Y hs
        rw [show i + 1 + as.length + 1 + X.length = i + (a :: as).length + 1 + X.length by simp; omega]; exact this)]
    simp

theorem split_char (A B X Y : Str) (c : Char) (h : A ++ B = X ++ c :: Y) :
    (∃ Y', A = X ++ c :: Y' ∧ Y = Y' ++ B) ∨ (∃ X', X = A ++ X' ∧ B = X' ++ c :: Y) := by
  rcases List.append_eq_append_iff.mp h with ⟨a', h1, h2⟩ | ⟨c', h1, h2⟩
  · right; exact ⟨a', h1, h2⟩
  · cases c' with
    | nil => right; exact ⟨[], by simpa using h1.symm, by simpa using h2.symm⟩
    | cons d ds =>
      simp only [List.cons_append, List.cons.injEq] at h2
      left; exact ⟨ds, by rw [h1, h2.1], h2.2⟩

/-! ### protected positions -/

/-- the `protectedAt` of `_split_semicolon`. -/
def protAt (s : Str) (i : Nat) : Bool :=
  ((textDelims (s.length + 1) 0 s).map fun (i0, e, d) => (i0, findFrom d s e)).any fun (i0, i1) =>
    match i1 with
    | some j => decide (i0 ≤ i ∧ i ≤ j)
    | none => false

theorem splitSemicolon_eq (s : Str) :
    splitSemicolon s = (splitSemicolon.go (protAt s) s 0 []).map (rstripC ';') := rfl

theorem protAt_true (s : Str) (i i0 e j : Nat) (d : Char) (hx : (i0, e, d) ∈ textDelims (s.length + 1) 0 s)
    (hf : findFrom d s e = some j) (h1 : i0 ≤ i) (h2 : i ≤ j) : protAt s i = true := by
  unfold protAt
  rw [List.any_eq_true]
  refine ⟨(i0, findFrom d s e), List.mem_map.mpr ⟨(i0, e, d), hx, rfl⟩, ?_⟩
  simp [hf, h1, h2]

theorem protAt_false (s : Str) (i : Nat) (h : ∀ x ∈ textDelims (s.length + 1) 0 s, i < x.1) :
    protAt s i = false := by
  unfold protAt
  rw [List.any_eq_false]
  rintro ⟨i0, i1⟩ hx
  obtain ⟨⟨j0, e, d⟩, hmem, heq⟩ := List.mem_map.mp hx
  simp only [Prod.mk.injEq] at heq
  have := h _ hmem
  simp only at this
  cases i1 with
  | none => simp
  | some j => simp; intro h0; omega

/-! ### atoms: `key=value` followed by blanks -/

/-- the four kinds of values the metadata regular expression reads back whole. -/
def ValOK (V : Str) : Prop :=
  (∃ d0 inner, isOpenDelim d0 ∧ V = d0 :: inner ++ [closeOf d0] ∧ ∀ c ∈ inner, c ≠ closeOf d0) ∨
  ((∀ c ∈ V, c ≠ ';') ∧
    ((∃ c r, V = c :: r ∧ isSpace c = false ∧ ∀ x ∈ V, inC3 x = true) ∨
     bareWord V = true ∨
     (∃ w sp d, V = w ++ sp :: d ∧ bareWord w = true ∧ isSpace sp = true ∧ d ≠ [] ∧ ∀ x ∈ d, inC4 x = true)))

structure Atom where
  K : Str
  V : Str
  W : Str

def Atom.str (a : Atom) : Str := a.K ++ '=' :: a.V ++ a.W

def spaced : List Atom → Str
  | [] => []
  | a :: r => a.str ++ spaced r

/-- well-formed atom; `last` = nothing follows. -/
def Atom.wf (a : Atom) (last : Prop) : Prop :=
  a.K ≠ [] ∧ (∀ c ∈ a.K, isAlpha c = true) ∧ ValOK a.V ∧ (∀ c ∈ a.V, c ≠ '\n') ∧
  (∀ c ∈ a.W, isSpace c = true ∧ c ≠ '\n') ∧ (a.W = [] → last) ∧
  (∃ init l, a.V = init ++ [l] ∧ isSpace l = false)

def wfAtoms : List Atom → Prop
  | [] => True
  | a :: r => a.wf (r = []) ∧ wfAtoms r

theorem spaced_head_alpha (a : Atom) (r : List Atom) (h : a.wf (r = [])) :
    ∃ k t, spaced (a :: r) = k :: t ∧ isAlpha k = true := by
  obtain ⟨hK, hKa, -⟩ := h
  cases hk : a.K with
  | nil => exact absurd hk hK
  | cons k t =>
    refine ⟨k, t ++ '=' :: a.V ++ a.W ++ spaced r, ?_, hKa k (by rw [hk]; simp)⟩
    simp [spaced, Atom.str, hk]

/-- what follows an atom: nothing, or a letter. -/
def FollowOK (rest : Str) : Prop := rest = [] ∨ ∃ k t, rest = k :: t ∧ isAlpha k = true

theorem followOK_spaced (r : List Atom) (h : wfAtoms r) : FollowOK (spaced r) := by
  cases r with
  | nil => left; rfl
  | cons a r => right; exact spaced_head_alpha a r h.1

/-! ### more character facts -/

theorem inC4_toNat (c : Char) (h : inC4 c = true) :
    c.toNat = 45 ∨ c.toNat = 63 ∨ (48 ≤ c.toNat ∧ c.toNat ≤ 57) ∨ c.toNat = 43 ∨ c.toNat = 46 ∨ c.toNat = 42 := by
  unfold inC4 at h
  simp only [Bool.or_eq_true, decide_eq_true_eq] at h
  rcases h with ((((h | h) | h) | h) | h) | h
  · subst h; left; rfl
  · subst h; right; left; rfl
  · right; right; left; exact digit_toNat c h
  · subst h; right; right; right; left; rfl
  · subst h; right; right; right; right; left; rfl
  · subst h; right; right; right; right; right; rfl

theorem inC4_not_space (c : Char) (h : inC4 c = true) : isSpace c = false := by
  have := inC4_toNat c h
  cases hs : isSpace c with
  | false => rfl
  | true => rw [isSpace_iff] at hs; omega

theorem inC4_not_alpha (c : Char) (h : inC4 c = true) : isAlpha c = false := by
  have := inC4_toNat c h
  cases hs : isAlpha c with
  | false => rfl
  | true => rw [isAlpha_iff] at hs; omega

theorem alpha_not_inC4 (c : Char) (h : isAlpha c = true) : inC4 c = false := by
  cases hs : inC4 c with
  | false => rfl
  | true => have := inC4_not_alpha c hs; rw [h] at this; exact Bool.noConfusion this

theorem space_not_inC4 (c : Char) (h : isSpace c = true) : inC4 c = false := by
  cases hs : inC4 c with
  | false => rfl
  | true => have := inC4_not_space c hs; rw [h] at this; exact Bool.noConfusion this

theorem alpha_not_inC3 (c : Char) (h : isAlpha c = true) : inC3 c = false := by
  unfold inC3; rw [alpha_not_inC4 c h, alpha_not_space c h]; rfl

theorem space_inC3 (c : Char) (h : isSpace c = true) : inC3 c = true := by
  unfold inC3; rw [h]; simp

theorem inC3_nonspace (c : Char) (h : inC3 c = true) (hs : isSpace c = false) : inC4 c = true := by
  unfold inC3 at h; rw [hs] at h; simpa using h

theorem inC4_ne (c d : Char) (h : inC4 c = true) (hd : inC4 d = false) : c ≠ d := by
  intro e; rw [e] at h; rw [h] at hd; exact Bool.noConfusion hd

theorem space_ne (c d : Char) (h : isSpace c = true) (hd : isSpace d = false) : c ≠ d := by
  intro e; rw [e] at h; rw [h] at hd; exact Bool.noConfusion hd

/-! ### the value alternatives of the metadata regular expression -/

theorem matchDelimited_hit (o c : Char) (inner T : Str) (h : ∀ x ∈ inner, x ≠ c) :
    matchDelimited o c (o :: (inner ++ c :: T)) = some (o :: inner ++ [c], T) := by
  have e := splitOn1_some (fun d => decide (d = c)) inner T c (by simp) (fun d hd => by simpa using h d hd)
  show (match (o :: (inner ++ c :: T)) with
    | [] => none
    | c_1 :: cs =>
      if c_1 = o then
        match splitOn1 (fun d => decide (d = c)) cs with
        | (inner, some rest) => some (c_1 :: inner ++ [c], rest)
        | (_, none) => none
      else none) = _
  simp only [if_true, e]

theorem matchDelimited_miss (o c x : Char) (s : Str) (h : x ≠ o) : matchDelimited o c (x :: s) = none := by
  simp [matchDelimited, h]

theorem bareWord_cons (w : Str) (h : bareWord w = true) :
    ∃ c r, w = c :: r ∧ inC3 c = false ∧ c ≠ '{' ∧ c ≠ '"' ∧ c ≠ '\'' ∧
      ∀ d ∈ w, d ≠ '=' ∧ isSpace d = false := by
  cases w with
  | nil => simp [bareWord] at h
  | cons c r =>
    simp only [bareWord, Bool.and_eq_true, Bool.not_eq_true', decide_eq_true_eq, List.all_eq_true] at h
    obtain ⟨⟨⟨⟨h1, h2⟩, h3⟩, h4⟩, h5⟩ := h
    exact ⟨c, r, rfl, h1, h2, h3, h4, fun d hd => by simpa using h5 d hd⟩

theorem head_tail_follow (W rest : Str) (hW : ∀ c ∈ W, isSpace c = true) (hrest : FollowOK rest) :
    ∀ c, (W ++ rest).head? = some c → inC4 c = false := by
  intro c hc
  cases W with
  | nil =>
    rcases hrest with h | ⟨k, t, h, hk⟩
    · subst h; simp at hc
    · subst h; simp at hc; rw [← hc]; exact alpha_not_inC4 k hk
  | cons w ws => simp at hc; rw [← hc]; exact space_not_inC4 w (hW w (by simp))

theorem follow_head_not_space (rest : Str) (hrest : FollowOK rest) :
    ∀ c, rest.head? = some c → isSpace c = false := by
  intro c hc
  rcases hrest with h | ⟨k, t, h, hk⟩
  · subst h; simp at hc
  · subst h; simp at hc; rw [← hc]; exact alpha_not_space k hk

theorem follow_head_not_inC3 (rest : Str) (hrest : FollowOK rest) :
    ∀ c, rest.head? = some c → inC3 c = false := by
  intro c hc
  rcases hrest with h | ⟨k, t, h, hk⟩
  · subst h; simp at hc
  · subst h; simp at hc; rw [← hc]; exact alpha_not_inC3 k hk

/-- **the value regex reads an atom's value whole** (possibly with some of the blanks after it). -/
theorem matchValue_atom (V W rest : Str) (hV : ValOK V) (hW : ∀ c ∈ W, isSpace c = true)
    (hrest : FollowOK rest) (hWl : W = [] → rest = []) :
    ∃ W' W'', W = W' ++ W'' ∧ matchValue (V ++ W ++ rest) = some (V ++ W', W'' ++ rest) := by
  rcases hV with ⟨d0, inner, hd0, hVeq, hin⟩ | ⟨hnb, hcls⟩
  · -- delimited
    refine ⟨[], W, rfl, ?_⟩
    subst hVeq
    have e : (d0 :: inner ++ [closeOf d0]) ++ W ++ rest = d0 :: (inner ++ closeOf d0 :: (W ++ rest)) := by simp
    rw [e]
    rcases hd0 with h | h | h
    · subst h
      have hc : closeOf '{' = '}' := rfl
      rw [hc] at hin ⊢
      unfold matchValue
      rw [matchDelimited_hit '{' '}' inner _ hin]
      simp
    · subst h
      have hc : closeOf '\'' = '\'' := rfl
      rw [hc] at hin ⊢
      unfold matchValue
      rw [matchDelimited_miss '{' '}' '\'' _ (by decide), matchDelimited_hit '\'' '\'' inner _ hin]
      simp
    · subst h
      have hc : closeOf '"' = '"' := rfl
      rw [hc] at hin ⊢
      unfold matchValue
      rw [matchDelimited_miss '{' '}' '"' _ (by decide), matchDelimited_miss '\'' '\'' '"' _ (by decide),
        matchDelimited_hit '"' '"' inner _ hin]
      simp
  · rcases hcls with ⟨c, r, hVeq, hcs, hall⟩ | hbw | ⟨w, sp, d, hVeq, hbw, hsp, hdne, hd⟩
    · -- number-like
      refine ⟨W, [], by simp, ?_⟩
      have hc3 : inC3 c = true := hall c (by rw [hVeq]; simp)
      have hc4 := inC3_nonspace c hc3 hcs
      have n1 : c ≠ '{' := inC4_ne c '{' hc4 (by decide)
      have n2 : c ≠ '\'' := inC4_ne c '\'' hc4 (by decide)
      have n3 : c ≠ '"' := inC4_ne c '"' hc4 (by decide)
      have hall' : ∀ x ∈ V ++ W, inC3 x = true := by
        intro x hx
        rcases List.mem_append.mp hx with h | h
        · exact hall x h
        · exact space_inC3 x (hW x h)
      have t1 : (V ++ W ++ rest).takeWhile inC3 = V ++ W :=
        takeWhile_append_stop _ _ _ hall' (follow_head_not_inC3 rest hrest)
      have t2 : (V ++ W ++ rest).dropWhile inC3 = rest :=
        dropWhile_append_stop _ _ _ hall' (follow_head_not_inC3 rest hrest)
      have e : V ++ W ++ rest = c :: (r ++ W ++ rest) := by rw [hVeq]; simp
      unfold matchValue
      rw [e, matchDelimited_miss _ _ _ _ n1, matchDelimited_miss _ _ _ _ n2, matchDelimited_miss _ _ _ _ n3]
      simp only [hc3, if_true]
      rw [← e, t1, t2]; simp
    · -- bare word
      refine ⟨W, [], by simp, ?_⟩
      obtain ⟨c, r, hVeq, hc3, n1, n3, n2, hall⟩ := bareWord_cons V hbw
      have hp : ∀ x ∈ V, (fun d => d ≠ '=' && !isSpace d) x = true := by
        intro x hx; have := hall x hx; simp [this.1, this.2]
      have hstop : ∀ x, (W ++ rest).head? = some x → (fun d => d ≠ '=' && !isSpace d) x = false := by
        intro x hx
        cases W with
        | nil => rw [hWl rfl] at hx; simp at hx
        | cons w ws => simp at hx; rw [← hx]; simp [hW w (by simp)]
      have t1 : (V ++ (W ++ rest)).takeWhile (fun d => d ≠ '=' && !isSpace d) = V :=
        takeWhile_append_stop _ _ _ hp hstop
      have t2 : (V ++ (W ++ rest)).dropWhile (fun d => d ≠ '=' && !isSpace d) = W ++ rest :=
        dropWhile_append_stop _ _ _ hp hstop
      have t3 : (W ++ rest).takeWhile isSpace = W := takeWhile_append_stop _ _ _ hW (follow_head_not_space rest hrest)
      have t4 : (W ++ rest).dropWhile isSpace = rest := dropWhile_append_stop _ _ _ hW (follow_head_not_space rest hrest)
      have t5 : rest.takeWhile inC4 = [] := by
        rcases hrest with h | ⟨k, t, h, hk⟩
        · subst h; rfl
        · subst h; simp [alpha_not_inC4 k hk]
      have t6 : rest.dropWhile inC4 = rest := by
        rcases hrest with h | ⟨k, t, h, hk⟩
        · subst h; rfl
        · subst h; simp [alpha_not_inC4 k hk]
      have hc := hall c (by rw [hVeq]; simp)
      have e : V ++ W ++ rest = c :: (r ++ W ++ rest) := by rw [hVeq]; simp
      unfold matchValue
      rw [e, matchDelimited_miss _ _ _ _ n1, matchDelimited_miss _ _ _ _ n2, matchDelimited_miss _ _ _ _ n3]
      simp only [hc3, Bool.false_eq_true, if_false]
      rw [if_pos ⟨hc.1, by simp [hc.2]⟩, ← e, show V ++ W ++ rest = V ++ (W ++ rest) from List.append_assoc _ _ _,
        t1, t2, t3, t4, t5, t6]
      simp
    · -- word, blank, number
      refine ⟨[], W, rfl, ?_⟩
      obtain ⟨c, r, hweq, hc3, n1, n3, n2, hall⟩ := bareWord_cons w hbw
      have hp : ∀ x ∈ w, (fun d => d ≠ '=' && !isSpace d) x = true := by
        intro x hx; have := hall x hx; simp [this.1, this.2]
      have hstop : ∀ x, (sp :: d ++ (W ++ rest)).head? = some x → (fun d => d ≠ '=' && !isSpace d) x = false := by
        intro x hx; simp at hx; rw [← hx]; simp [hsp]
      have t1 : (w ++ (sp :: d ++ (W ++ rest))).takeWhile (fun d => d ≠ '=' && !isSpace d) = w :=
        takeWhile_append_stop _ _ _ hp hstop
      have t2 : (w ++ (sp :: d ++ (W ++ rest))).dropWhile (fun d => d ≠ '=' && !isSpace d) = sp :: d ++ (W ++ rest) :=
        dropWhile_append_stop _ _ _ hp hstop
      obtain ⟨d1, dr, hdeq⟩ : ∃ d1 dr, d = d1 :: dr := by
        cases d with
        | nil => exact absurd rfl hdne
        | cons a b => exact ⟨a, b, rfl⟩
      have hd1 : isSpace d1 = false := inC4_not_space d1 (hd d1 (by rw [hdeq]; simp))
      have t3 : (sp :: d ++ (W ++ rest)).takeWhile isSpace = [sp] := by
        have : sp :: d ++ (W ++ rest) = [sp] ++ (d ++ (W ++ rest)) := by simp
        rw [this]
        exact takeWhile_append_stop _ _ _ (by intro x hx; simp at hx; rw [hx]; exact hsp)
          (by intro x hx; rw [hdeq] at hx; simp at hx; rw [← hx]; exact hd1)
      have t4 : (sp :: d ++ (W ++ rest)).dropWhile isSpace = d ++ (W ++ rest) := by
        have : sp :: d ++ (W ++ rest) = [sp] ++ (d ++ (W ++ rest)) := by simp
        rw [this]
        exact dropWhile_append_stop _ _ _ (by intro x hx; simp at hx; rw [hx]; exact hsp)
          (by intro x hx; rw [hdeq] at hx; simp at hx; rw [← hx]; exact hd1)
      have t5 : (d ++ (W ++ rest)).takeWhile inC4 = d :=
        takeWhile_append_stop _ _ _ hd (head_tail_follow W rest hW hrest)
      have t6 : (d ++ (W ++ rest)).dropWhile inC4 = W ++ rest :=
        dropWhile_append_stop _ _ _ hd (head_tail_follow W rest hW hrest)
      have hc := hall c (by rw [hweq]; simp)
      have e : V ++ W ++ rest = c :: (r ++ sp :: d ++ (W ++ rest)) := by rw [hVeq, hweq]; simp
      have e' : V ++ W ++ rest = w ++ (sp :: d ++ (W ++ rest)) := by rw [hVeq]; simp
      unfold matchValue
      rw [e, matchDelimited_miss _ _ _ _ n1, matchDelimited_miss _ _ _ _ n2, matchDelimited_miss _ _ _ _ n3]
      simp only [hc3, Bool.false_eq_true, if_false]
      rw [if_pos ⟨hc.1, by simp [hc.2]⟩, ← e, e', t1, t2, t3, t4, t5, t6, hVeq]
      simp

theorem valOK_head (V : Str) (h : ValOK V) : ∃ c r, V = c :: r ∧ isSpace c = false := by
  rcases h with ⟨d0, inner, hd0, hVeq, -⟩ | ⟨-, ⟨c, r, hVeq, hcs, -⟩ | hbw | ⟨w, sp, d, hVeq, hbw, -⟩⟩
  · refine ⟨d0, inner ++ [closeOf d0], by rw [hVeq]; simp, ?_⟩
    rcases hd0 with h | h | h <;> subst h <;> decide
  · exact ⟨c, r, hVeq, hcs⟩
  · obtain ⟨c, r, hVeq, -, -, -, -, hall⟩ := bareWord_cons V hbw
    exact ⟨c, r, hVeq, (hall c (by rw [hVeq]; simp)).2⟩
  · obtain ⟨c, r, hweq, -, -, -, -, hall⟩ := bareWord_cons w hbw
    exact ⟨c, r ++ sp :: d, by rw [hVeq, hweq]; simp, (hall c (by rw [hweq]; simp)).2⟩

/-- one attempt of the item regex at the start of an atom. -/
theorem matchItem_atom (a : Atom) (rest : Str) (last : Prop) (hwf : a.wf last) (hlast : last → rest = [])
    (hrest : FollowOK rest) :
    ∃ W' W'', a.W = W' ++ W'' ∧ matchItem (a.str ++ rest) = some (a.K, a.V ++ W', W'' ++ rest) := by
  obtain ⟨hK, hKa, hV, -, hW, hWl, -⟩ := hwf
  obtain ⟨W', W'', hWeq, hmv⟩ := matchValue_atom a.V a.W rest hV (fun c hc => (hW c hc).1) hrest
    (fun h => hlast (hWl h))
  refine ⟨W', W'', hWeq, ?_⟩
  obtain ⟨c, r, hVeq, hcs⟩ := valOK_head a.V hV
  have hs : a.str ++ rest = a.K ++ '=' :: (a.V ++ a.W ++ rest) := by simp [Atom.str]
  have t1 : (a.K ++ '=' :: (a.V ++ a.W ++ rest)).takeWhile isAlpha = a.K :=
    takeWhile_append_stop _ _ _ hKa (by intro x hx; simp at hx; rw [← hx]; decide)
  have t2 : (a.K ++ '=' :: (a.V ++ a.W ++ rest)).dropWhile isAlpha = '=' :: (a.V ++ a.W ++ rest) :=
    dropWhile_append_stop _ _ _ hKa (by intro x hx; simp at hx; rw [← hx]; decide)
  have t3 : ('=' :: (a.V ++ a.W ++ rest)).dropWhile isSpace = '=' :: (a.V ++ a.W ++ rest) := by
    rw [List.dropWhile_cons_of_neg (by decide)]
  have e : a.V ++ a.W ++ rest = c :: (r ++ a.W ++ rest) := by rw [hVeq]; simp
  have t4 : (a.V ++ a.W ++ rest).takeWhile isSpace = [] := by
    rw [e, List.takeWhile_cons_of_neg (by simp [hcs])]
  have t5 : (a.V ++ a.W ++ rest).dropWhile isSpace = a.V ++ a.W ++ rest := by
    rw [e, List.dropWhile_cons_of_neg (by simp [hcs])]
  unfold matchItem
  rw [hs]
  simp only [t1, t2, t3, t5, hmv]
  rw [if_neg hK]

theorem matchItem_space (w : Char) (s : Str) (hw : isAlpha w = false) : matchItem (w :: s) = none := by
  unfold matchItem
  have : (w :: s).takeWhile isAlpha = [] := by rw [List.takeWhile_cons_of_neg (by simp [hw])]
  simp only [this, if_true]

theorem findItems_skip (W rest : Str) (hW : ∀ c ∈ W, isAlpha c = false) : ∀ fuel : Nat,
    findItems (fuel + W.length) (W ++ rest) = findItems fuel rest := by
  induction W with
  | nil => intro fuel; rfl
  | cons w ws ih =>
    intro fuel
    have : fuel + (w :: ws).length = (fuel + ws.length) + 1 := by simp; omega
    rw [this]
    simp only [List.cons_append, findItems, matchItem_space w _ (hW w (by simp))]
    exact ih (fun c hc => hW c (by simp [hc])) fuel

theorem dropWhile_append_all (p : Char → Bool) (a b : Str) (ha : ∀ c ∈ a, p c = true) :
    (a ++ b).dropWhile p = b.dropWhile p := by
  induction a with
  | nil => rfl
  | cons d ds ih =>
    simp only [List.cons_append, List.dropWhile_cons, ha d (by simp), if_true]
    exact ih (fun c hc => ha c (by simp [hc]))

theorem strip_append_spaces (V W : Str) (c : Char) (r : Str) (hV : V = c :: r) (hc : isSpace c = false)
    (hW : ∀ x ∈ W, isSpace x = true) : strip (V ++ W) = strip V := by
  unfold strip lstrip rstrip
  have e1 : (V ++ W).dropWhile isSpace = V ++ W := by
    rw [hV, List.cons_append, List.dropWhile_cons_of_neg (by simp [hc])]
  have e2 : V.dropWhile isSpace = V := by rw [hV, List.dropWhile_cons_of_neg (by simp [hc])]
  rw [e1, e2, List.reverse_append,
    dropWhile_append_all isSpace W.reverse V.reverse (fun x hx => hW x (List.mem_reverse.mp hx))]

theorem stripVal_append_spaces (V W : Str) (c : Char) (r : Str) (hV : V = c :: r) (hc : isSpace c = false)
    (hW : ∀ x ∈ W, isSpace x = true) : stripVal (V ++ W) = stripVal V := by
  unfold stripVal
  rw [strip_append_spaces V W c r hV hc hW]

/-- **`findall` on a spaced sequence of atoms** returns the atoms (values up to trailing blanks). -/
theorem findItems_spaced : ∀ (atoms : List Atom), wfAtoms atoms → ∀ (lead : Str) (fuel : Nat),
    (∀ c ∈ lead, isAlpha c = false) → (lead ++ spaced atoms).length < fuel →
    (findItems fuel (lead ++ spaced atoms)).map (fun kv => (kv.1, stripVal kv.2)) =
      atoms.map (fun a => (a.K, stripVal a.V)) := by
  intro atoms
  induction atoms with
  | nil =>
    intro _ lead fuel hlead hfuel
    simp only [spaced, List.append_nil, List.map_nil, List.map_eq_nil_iff]
    obtain ⟨f', hf'⟩ : ∃ f', fuel = f' + lead.length := ⟨fuel - lead.length, by simp at hfuel; omega⟩
    have := findItems_skip lead [] hlead f'
    rw [List.append_nil] at this
    rw [hf', this]
    cases f' <;> rfl
  | cons a r ih =>
    intro hwf lead fuel hlead hfuel
    obtain ⟨f', hf'⟩ : ∃ f', fuel = f' + lead.length := ⟨fuel - lead.length, by simp at hfuel; omega⟩
    rw [hf', findItems_skip lead _ hlead f']
    obtain ⟨k, t, hkt, hk⟩ := spaced_head_alpha a r hwf.1
    obtain ⟨W', W'', hWeq, hmi⟩ := matchItem_atom a (spaced r) (r = []) hwf.1
      (fun h => by rw [h]; rfl) (followOK_spaced r hwf.2)
    have hlen : (spaced (a :: r)).length < f' := by
      rw [hf'] at hfuel; simp only [List.length_append] at hfuel; omega
    obtain ⟨f'', hf''⟩ : ∃ f'', f' = f'' + 1 := ⟨f' - 1, by omega⟩
    have hsp : spaced (a :: r) = a.str ++ spaced r := rfl
    rw [hf'', hkt]
    simp only [findItems]
    rw [← hkt, hsp, hmi]
    simp only [List.map_cons]
    obtain ⟨c, rr, hVeq, hcs⟩ := valOK_head a.V hwf.1.2.2.1
    have hW'sp : ∀ x ∈ W', isSpace x = true := fun x hx => (hwf.1.2.2.2.2.1 x (by rw [hWeq]; simp [hx])).1
    have hW''sp : ∀ x ∈ W'', isAlpha x = false := by
      intro x hx
      have := (hwf.1.2.2.2.2.1 x (by rw [hWeq]; simp [hx])).1
      cases hh : isAlpha x with
      | false => rfl
      | true => have := alpha_not_space x hh; rw [‹isSpace x = true›] at this; exact Bool.noConfusion this
    rw [stripVal_append_spaces a.V W' c rr hVeq hcs hW'sp]
    congr 1
    apply ih hwf.2 W'' f'' hW''sp
    have h1 : (W'' ++ spaced r).length < (a.str ++ spaced r).length := by
      simp only [List.length_append, Atom.str, List.length_cons, hWeq]
      have : 0 < a.K.length := List.length_pos_of_ne_nil hwf.1.1
      omega
    rw [hsp] at hlen
    omega

/-! ### every `;` inside the metadata is protected -/

theorem spaced_protected : ∀ (atoms : List Atom), wfAtoms atoms → ∀ (Pre : Str),
    (∀ a, Pre.getLast? = some a → isAlpha a = false) →
    ∀ X Y, spaced atoms = X ++ ';' :: Y → protAt (Pre ++ spaced atoms) (Pre.length + X.length) = true := by
  intro atoms
  induction atoms with
  | nil => intro _ Pre _ X Y h; simp [spaced] at h
  | cons a r ih =>
    intro hwf Pre hPre X Y h
    obtain ⟨hK, hKa, hV, hVn, hW, hWl, -⟩ := hwf.1
    have hsp : spaced (a :: r) = a.str ++ spaced r := rfl
    rw [hsp] at h
    rcases split_char _ _ _ _ _ h with ⟨Y', hA, -⟩ | ⟨X', hX, hB⟩
    · -- the `;` is inside this atom: it is inside a delimited value
      have hstr : a.str = a.K ++ ('=' :: (a.V ++ a.W)) := by simp [Atom.str]
      rw [hstr] at hA
      rcases split_char _ _ _ _ _ hA with ⟨Y2, hK2, -⟩ | ⟨X2, hX2, hB2⟩
      · exfalso
        have := hKa ';' (by rw [hK2]; simp)
        exact absurd this (by decide)
      · cases X2 with
        | nil => simp at hB2
        | cons e X3 =>
          simp only [List.cons_append, List.cons.injEq] at hB2
          obtain ⟨he, hB3⟩ := hB2
          rcases split_char _ _ _ _ _ hB3 with ⟨Y3, hV3, -⟩ | ⟨X4, -, hW4⟩
          · rcases hV with ⟨d0, inner, hd0, hVeq, hin⟩ | ⟨hnb, -⟩
            · -- delimited
              rw [hVeq] at hV3
              cases X3 with
              | nil =>
                exfalso
                simp only [List.nil_append, List.cons_append, List.cons.injEq] at hV3
                rcases hd0 with h' | h' | h' <;> rw [h'] at hV3 <;> exact absurd hV3.1 (by decide)
              | cons e2 X5 =>
                simp only [List.cons_append, List.cons.injEq] at hV3
                obtain ⟨he2, hV5⟩ := hV3
                rcases split_char _ _ _ _ _ hV5 with ⟨Y5, hin5, -⟩ | ⟨X6, -, hD6⟩
                · -- found: inner = X5 ++ ';' :: Y5
                  set s := Pre ++ spaced (a :: r) with hs
                  obtain ⟨k, t, hkt, hk⟩ := spaced_head_alpha a r hwf.1
                  have hsK : spaced (a :: r) = a.K ++ '=' :: d0 :: (inner ++ closeOf d0 :: (a.W ++ spaced r)) := by
                    rw [hsp, hstr, hVeq]; simp
                  have hmem : (Pre.length, Pre.length + (a.K.length + 2), closeOf d0) ∈ textDelims (s.length + 1) 0 s := by
                    have := textDelims_suffix Pre.length Pre rfl 0 (s.length + 1) ((k :: t).length + 1) k t hPre hk
                      (by rw [hs, hkt]; omega) (by omega)
                    rw [← hkt] at this
                    apply this
                    rw [Nat.zero_add]
                    have hm := matchTextDelim_key a.K (inner ++ closeOf d0 :: (a.W ++ spaced r)) d0 hK hKa hd0
                    rw [← hsK] at hm
                    rw [hkt] at hm ⊢
                    simp only [List.length_cons, textDelims, hm]
                    simp
                  have hfind : findFrom (closeOf d0) s (Pre.length + (a.K.length + 2)) =
                      some (Pre.length + (a.K.length + 2) + inner.length) := by
                    have hs' : s = (Pre ++ a.K ++ ['=', d0]) ++ inner ++ closeOf d0 :: (a.W ++ spaced r) := by
                      rw [hs, hsK]; simp
                    have hl : (Pre ++ a.K ++ ['=', d0]).length = Pre.length + (a.K.length + 2) := by simp
                    rw [hs', ← hl]
                    exact findFrom_block (closeOf d0) _ inner _ hin
                  apply protAt_true s _ _ _ _ _ hmem hfind
                  · omega
                  · rw [hX2, ← he, ← he2]
                    have : inner.length = X5.length + 1 + Y5.length := by rw [hin5]; simp; omega
                    simp only [List.length_append, List.length_cons]
                    omega
                · exfalso
                  cases X6 with
                  | nil =>
                    simp only [List.nil_append, List.cons.injEq] at hD6
                    rcases hd0 with h' | h' | h' <;> rw [h'] at hD6 <;> exact absurd hD6.1 (by decide)
                  | cons e6 X7 =>
                    simp only [List.cons_append, List.cons.injEq] at hD6
                    have := hD6.2
                    cases X7 <;> simp at this
            · exfalso
              exact hnb ';' (by rw [hV3]; simp) rfl
          · exfalso
            have := (hW ';' (by rw [hW4]; simp)).1
            exact absurd this (by decide)
    · -- the `;` is further on
      have hrne : r ≠ [] := by
        intro hr; rw [hr] at hB; simp [spaced] at hB
      have hWne : a.W ≠ [] := fun hw => hrne (hWl hw)
      have hassoc : Pre ++ (a.str ++ spaced r) = (Pre ++ a.str) ++ spaced r := by simp
      rw [hsp, hassoc, hX]
      have := ih hwf.2 (Pre ++ a.str) (by
        intro x hx
        have hl : (Pre ++ a.str).getLast? = a.W.getLast? := by
          have : Pre ++ a.str = (Pre ++ a.K ++ '=' :: a.V) ++ a.W := by simp [Atom.str]
          rw [this, List.getLast?_append_of_ne_nil _ hWne]
        rw [hl] at hx
        have hxW : x ∈ a.W := List.mem_of_getLast? hx
        have := (hW x hxW).1
        cases hh : isAlpha x with
        | false => rfl
        | true => have h2 := alpha_not_space x hh; rw [this] at h2; exact Bool.noConfusion h2) X' Y hB
      rw [show Pre.length + (a.str ++ X').length = (Pre ++ a.str).length + X'.length by simp; omega]
      exact this

/-! ### from the decidable side condition to atoms -/

theorem rstrip_split (s : Str) : ∃ T, s = rstrip s ++ T ∧ (∀ c ∈ T, isSpace c = true) ∧
    (∀ l, (rstrip s).getLast? = some l → isSpace l = false) := by
  refine ⟨(s.reverse.takeWhile isSpace).reverse, ?_, ?_, ?_⟩
  · unfold rstrip
    rw [← List.reverse_append, List.takeWhile_append_dropWhile, List.reverse_reverse]
  · intro c hc
    exact takeWhile_all isSpace _ c (List.mem_reverse.mp hc)
  · intro l hl
    unfold rstrip at hl
    rw [List.getLast?_reverse] at hl
    exact dropWhile_head isSpace _ l hl

theorem delimited_spec (o c : Char) (v : Str) (h : delimited o c v = true) :
    ∃ inner, v = o :: inner ++ [c] ∧ ∀ x ∈ inner, x ≠ c := by
  cases v with
  | nil => simp [delimited] at h
  | cons d rest =>
    simp only [delimited, Bool.and_eq_true, decide_eq_true_eq] at h
    obtain ⟨hd, h2⟩ := h
    cases hr : rest.reverse with
    | nil => rw [hr] at h2; simp at h2
    | cons e inner =>
      rw [hr] at h2
      simp only [Bool.and_eq_true, decide_eq_true_eq, List.all_eq_true] at h2
      refine ⟨inner.reverse, ?_, ?_⟩
      · have : rest = inner.reverse ++ [e] := by
          have := congrArg List.reverse hr
          simpa using this
        rw [hd, this, h2.1]; simp
      · intro x hx
        have := h2.2 x (List.mem_reverse.mp hx)
        simpa using this

theorem splitOn1_spec (p : Char → Bool) : ∀ (s a b : Str), splitOn1 p s = (a, some b) →
    ∃ c, s = a ++ c :: b ∧ p c = true ∧ ∀ x ∈ a, p x = false := by
  intro s
  induction s with
  | nil => intro a b h; simp [splitOn1] at h
  | cons d ds ih =>
    intro a b h
    by_cases hd : p d = true
    · simp only [splitOn1, hd, if_true, Prod.mk.injEq, Option.some.injEq] at h
      refine ⟨d, by rw [← h.1, ← h.2]; rfl, hd, by rw [← h.1]; simp⟩
    · simp only [splitOn1, hd] at h
      simp only [Bool.false_eq_true, if_false, Prod.mk.injEq] at h
      obtain ⟨c, hs, hc, ha⟩ := ih (splitOn1 p ds).1 b (by rw [← h.2])
      refine ⟨c, by rw [← h.1]; show d :: ds = d :: ((splitOn1 p ds).1 ++ c :: b); rw [← hs], hc, ?_⟩
      intro x hx
      rw [← h.1] at hx
      rcases List.mem_cons.mp hx with h' | h'
      · rw [h']; simpa using hd
      · exact ha x h'

theorem last_of_append_singleton (init : Str) (l : Char) : ∃ i' l', init ++ [l] = i' ++ [l'] ∧ l' = l :=
  ⟨init, l, rfl, rfl⟩

theorem valueSafe_atom (isText : Bool) (vs : Str) (h : valueSafe isText vs = true) :
    ∃ V T, vs = V ++ T ∧ ValOK V ∧ (∀ c ∈ V, c ≠ '\n') ∧ (∀ c ∈ T, isSpace c = true ∧ c ≠ '\n') ∧
      (∃ init l, V = init ++ [l] ∧ isSpace l = false) ∧ stripVal V = stripVal vs := by
  simp only [valueSafe, Bool.and_eq_true, Bool.or_eq_true, List.all_eq_true, decide_eq_true_eq,
    Bool.not_eq_true'] at h
  obtain ⟨hnl, hcase⟩ := h
  have hnl' : ∀ c ∈ vs, c ≠ '\n' := fun c hc => by simpa using hnl c hc
  have whole : ValOK vs → (∃ init l, vs = init ++ [l] ∧ isSpace l = false) →
      ∃ V T, vs = V ++ T ∧ ValOK V ∧ (∀ c ∈ V, c ≠ '\n') ∧ (∀ c ∈ T, isSpace c = true ∧ c ≠ '\n') ∧
        (∃ init l, V = init ++ [l] ∧ isSpace l = false) ∧ stripVal V = stripVal vs :=
    fun hv hl => ⟨vs, [], by simp, hv, hnl', by simp, hl, rfl⟩
  have delim : ∀ d0 : Char, isOpenDelim d0 → delimited d0 (closeOf d0) vs = true →
      ∃ V T, vs = V ++ T ∧ ValOK V ∧ (∀ c ∈ V, c ≠ '\n') ∧ (∀ c ∈ T, isSpace c = true ∧ c ≠ '\n') ∧
        (∃ init l, V = init ++ [l] ∧ isSpace l = false) ∧ stripVal V = stripVal vs := by
    intro d0 hd0 hdel
    obtain ⟨inner, hv, hin⟩ := delimited_spec _ _ _ hdel
    apply whole (Or.inl ⟨d0, inner, hd0, hv, hin⟩)
    refine ⟨d0 :: inner, closeOf d0, hv, ?_⟩
    rcases hd0 with h' | h' | h' <;> subst h' <;> decide
  rcases hcase with hb | ⟨-, hrest⟩
  · exact delim '{' (Or.inl rfl) hb
  · rcases hrest with (hq | hq) | ⟨hnb, hcls⟩
    · exact delim '"' (Or.inr (Or.inr rfl)) hq
    · exact delim '\'' (Or.inr (Or.inl rfl)) hq
    · have hnb' : ∀ c ∈ vs, c ≠ ';' := by
        intro c hc
        have := (List.all_eq_true.mp hnb) c hc
        simp at this
        exact this.1
      rcases hcls with (hnum | hbw) | hwn
      · -- number-like: strip the trailing blanks
        cases hvs : vs with
        | nil => rw [hvs] at hnum; simp at hnum
        | cons c r =>
          rw [hvs] at hnum
          rw [← hvs]
          simp only [Bool.and_eq_true, Bool.not_eq_true', List.all_eq_true] at hnum
          obtain ⟨⟨hc3, hcs⟩, hall⟩ := hnum
          obtain ⟨T, hsplit, hT, hlast⟩ := rstrip_split vs
          have hne : rstrip vs ≠ [] := by
            intro h0
            rw [h0, List.nil_append] at hsplit
            have := hT c (by rw [← hsplit, hvs]; simp)
            rw [hcs] at this; exact Bool.noConfusion this
          obtain ⟨c', r', hr'⟩ : ∃ c' r', rstrip vs = c' :: r' := by
            cases hh : rstrip vs with
            | nil => exact absurd hh hne
            | cons a b => exact ⟨a, b, rfl⟩
          have hcc : c' = c := by
            have := hsplit
            rw [hr', hvs] at this
            simp only [List.cons_append, List.cons.injEq] at this
            exact this.1.symm
          obtain ⟨init, l, hil⟩ : ∃ init l, rstrip vs = init ++ [l] := by
            rcases List.eq_nil_or_concat' (rstrip vs) with h0 | ⟨i, l, h1⟩
            · exact absurd h0 hne
            · exact ⟨i, l, h1⟩
          have hmemV : ∀ x ∈ rstrip vs, x ∈ vs := fun x hx => by rw [hsplit]; simp [hx]
          refine ⟨rstrip vs, T, hsplit, ?_, fun x hx => hnl' x (hmemV x hx),
            fun x hx => ⟨hT x hx, hnl' x (by rw [hsplit]; simp [hx])⟩,
            ⟨init, l, hil, hlast l (by rw [hil]; simp)⟩, ?_⟩
          · right
            refine ⟨fun x hx => hnb' x (hmemV x hx), Or.inl ⟨c', r', hr', by rw [hcc]; exact hcs, ?_⟩⟩
            intro x hx
            have := hmemV x hx
            rw [hvs] at this
            exact hall x this
          · have := (stripVal_append_spaces (rstrip vs) T c' r' hr' (by rw [hcc]; exact hcs) hT).symm
            rw [← hsplit] at this
            exact this
      · -- bare word
        obtain ⟨c, r, hveq, -, -, -, -, hall⟩ := bareWord_cons vs hbw
        apply whole (Or.inr ⟨hnb', Or.inr (Or.inl hbw)⟩)
        rcases List.eq_nil_or_concat' vs with h0 | ⟨i, l, h1⟩
        · rw [h0] at hveq; simp at hveq
        · exact ⟨i, l, h1, (hall l (by rw [h1]; simp)).2⟩
      · -- word, blank, number
        cases hsp : splitOn1 isSpace vs with
        | mk w od =>
          rw [hsp] at hwn
          cases od with
          | none => simp at hwn
          | some d =>
            simp only [Bool.and_eq_true, List.all_eq_true, decide_eq_true_eq, ne_eq] at hwn
            obtain ⟨⟨hbw, hdne⟩, hd⟩ := hwn
            obtain ⟨sp, hveq, hspc, -⟩ := splitOn1_spec isSpace vs w d hsp
            have hdne' : d ≠ [] := by simpa using hdne
            apply whole (Or.inr ⟨hnb', Or.inr (Or.inr ⟨w, sp, d, hveq, hbw, hspc, hdne', hd⟩)⟩)
            rcases List.eq_nil_or_concat' d with h0 | ⟨i, l, h1⟩
            · exact absurd h0 hdne'
            · refine ⟨w ++ sp :: i, l, by rw [hveq, h1]; simp, inC4_not_space l (hd l (by rw [h1]; simp))⟩

/-! ### the side condition of the theorem

`dictWF m` is what `lex_render` asks of every metadata dictionary (the global one and the one of
each line).  It is the model's own `dictSafe` (the condition under which the driver evaluates
`lex (render o) = toRaw o`), weakened where that was only a convenience and strengthened by the two
classes `dictSafe` forgot (found by evaluating the model, see `lex_render_dup_refuted` /
`lex_render_default_style_refuted` in `Props/C09Lex.lean`):

excluded, and the real reader fails there too (not proof conveniences)
* a line break in a value or a tag — the reader splits the file there;
* a value that the metadata regular expression does not read back whole: empty; two bare words
  (`font=helvetica bold` gives `helvetica`); `=` in a bare word; `;` outside `{}`, `''`, `""` (the
  line is split); a digit-led value with a letter (`1a` gives `1`); the closing delimiter inside a
  delimited value (`{a}b}`), a `}` in a tag;
* two entries with the same key (`Nodup`) — not a Python dict; `findall` keeps the first, the raw
  dictionary both.  Two `tag` entries are the same case (the reader merges them into one list);
* the key `default_style`: `[a-zA-Z]+` reads `style`.  (The writer never emits it.)

excluded, although the reader succeeds there (conveniences that remain)
* blanks between `=` and an undelimited value (`color= green`): the atoms of the proof have no
  room for `=\s*`; three scanner lemmas (`matchTextDelim_key`, `matchItem_atom`, `spaced_protected`)
  would have to carry the blanks;
* `Key.other s` for a lower-case alphabetic `s` that is not a key word: the writer emits only the
  named keys, `Key.ofString (toString k) = k` is proved by cases on the named keys.

not excluded (unlike `dictSafe`): blanks after ANY value (`color=green ␣`, `font="a b"␣␣`), and a
`text` value that is quoted or bare instead of braced. -/

/-- keys the reader's `[a-zA-Z]+` reads back as themselves. -/
def keyOK (k : Key) : Bool :=
  match k with
  | .other _ => false
  | .default_style => false
  | _ => true

/-- a rendered value: no line break, and it — or it without its trailing blanks — is one of the
alternatives of the metadata regular expression (`valueSafe`, for any key). -/
def valueOK (v : Str) : Bool :=
  v.all (fun c => c ≠ '\n') && (valueSafe false v || valueSafe false (rstrip v))

def dictOK (m : Dict) : Bool :=
  m.all fun kv =>
    if kv.1 = .tag then (tagElems kv.2).all fun s => s.all (fun c => c ≠ '}' && c ≠ '\n')
    else valueOK (pyStr kv.2)

def dictWF (m : Dict) : Bool :=
  dictOK m && decide ((m.map (·.1)).Nodup) && m.all (fun kv => keyOK kv.1)

theorem valueSafe_weaken (b : Bool) (v : Str) (h : valueSafe b v = true) : valueSafe false v = true := by
  cases b
  · exact h
  · simp only [valueSafe, Bool.not_true, Bool.false_and, Bool.or_false, Bool.and_eq_true] at h
    simp only [valueSafe, Bool.and_eq_true, Bool.or_eq_true]
    exact ⟨h.1, Or.inl h.2⟩

/-- the model's `dictSafe` is stronger than `dictOK`. -/
theorem dictOK_of_dictSafe (m : Dict) (h : dictSafe m = true) : dictOK m = true := by
  simp only [dictSafe, List.all_eq_true] at h
  simp only [dictOK, List.all_eq_true]
  intro kv hkv
  have := h kv hkv
  by_cases ht : kv.1 = .tag
  · rw [if_pos ht] at this ⊢; exact this
  · rw [if_neg ht] at this ⊢
    simp only [Bool.and_eq_true] at this
    have hv := this.1
    have hw := valueSafe_weaken _ _ hv
    have hnl : (pyStr kv.2).all (fun c => c ≠ '\n') = true := by
      cases hb : decide (kv.1 = Key.text) <;> rw [hb] at hv <;>
        simp only [valueSafe, Bool.and_eq_true] at hv <;> exact hv.1
    simp only [valueOK, Bool.and_eq_true, Bool.or_eq_true]
    exact ⟨hnl, Or.inl hw⟩

theorem dictWF_of_dictSafe (m : Dict) (h : dictSafe m = true) (hnd : (m.map (·.1)).Nodup)
    (hk : ∀ kv ∈ m, keyOK kv.1 = true) : dictWF m = true := by
  simp only [dictWF, Bool.and_eq_true, decide_eq_true_eq, List.all_eq_true]
  exact ⟨⟨dictOK_of_dictSafe m h, hnd⟩, hk⟩

theorem valueOK_atom (vs : Str) (h : valueOK vs = true) :
    ∃ V T, vs = V ++ T ∧ ValOK V ∧ (∀ c ∈ V, c ≠ '\n') ∧ (∀ c ∈ T, isSpace c = true ∧ c ≠ '\n') ∧
      (∃ init l, V = init ++ [l] ∧ isSpace l = false) ∧ stripVal V = stripVal vs := by
  simp only [valueOK, Bool.and_eq_true, Bool.or_eq_true, List.all_eq_true, decide_eq_true_eq] at h
  obtain ⟨hnl, h | h⟩ := h
  · exact valueSafe_atom false vs h
  · obtain ⟨V, T, e, hV, hVn, hT, hVl, hsv⟩ := valueSafe_atom false (rstrip vs) h
    obtain ⟨T2, e2, hT2, -⟩ := rstrip_split vs
    obtain ⟨c, r, hVc, hcs⟩ := valOK_head V hV
    have hvs : vs = V ++ (T ++ T2) := by rw [← List.append_assoc, ← e]; exact e2
    refine ⟨V, T ++ T2, hvs, hV, hVn, ?_, hVl, ?_⟩
    · intro x hx
      rcases List.mem_append.mp hx with hx | hx
      · exact hT x hx
      · exact ⟨hT2 x hx, by simpa using hnl x (by rw [e2]; simp [hx])⟩
    · rw [hvs, stripVal_append_spaces V (T ++ T2) c r hVc hcs]
      intro x hx
      rcases List.mem_append.mp hx with hx | hx
      · exact (hT x hx).1
      · exact hT2 x hx

theorem keyOK_roundtrip (k : Key) (h : keyOK k = true) :
    Key.ofString (stringOfStr (lower k.toString.toList)) = k ∧ k.toString.toList ≠ [] ∧
    (k.toString.toList.all isAlpha) = true := by
  cases k <;> first | (simp [keyOK] at h; done) | decide

/-! ### `_make_meta_str` as a spaced sequence of atoms -/

/-- the `(key, stripped value)` pairs the reader is to find, in order. -/
def kvOf (m : Dict) : List (Str × Str) :=
  m.flatMap fun kv =>
    if kv.1 = .tag then (tagElems kv.2).map (fun s => ("tag".toList, stripVal ('{' :: s ++ ['}'])))
    else [(kv.1.toString.toList, stripVal (pyStr kv.2))]

def akv (a : Atom) : Str × Str := (a.K, stripVal a.V)

def TailOK (L : Str) (A : List Atom) : Prop := (∀ c ∈ L, c = ' ') ∧ wfAtoms A ∧ (L = [] → A = [])

theorem joinWith_cons (sep p : Str) (ps : List Str) :
    joinWith sep (p :: ps) = if ps = [] then p else p ++ sep ++ joinWith sep ps := by
  cases ps with
  | nil => rfl
  | cons q qs => simp [joinWith]

theorem prepend_atom (K V T L : Str) (A : List Atom) (hK : K ≠ []) (hKa : ∀ c ∈ K, isAlpha c = true)
    (hV : ValOK V) (hVn : ∀ c ∈ V, c ≠ '\n') (hT : ∀ c ∈ T, isSpace c = true ∧ c ≠ '\n')
    (hVl : ∃ init l, V = init ++ [l] ∧ isSpace l = false) (ht : TailOK L A) :
    K ++ '=' :: (V ++ T) ++ L ++ spaced A = spaced (⟨K, V, T ++ L⟩ :: A) ∧ wfAtoms (⟨K, V, T ++ L⟩ :: A) := by
  obtain ⟨hL, hA, hLA⟩ := ht
  constructor
  · simp [spaced, Atom.str]
  · refine ⟨⟨hK, hKa, hV, hVn, ?_, ?_, hVl⟩, hA⟩
    · intro c hc
      rcases List.mem_append.mp hc with h | h
      · exact hT c h
      · rw [hL c h]; exact ⟨by decide, by decide⟩
    · intro h
      simp only [List.append_eq_nil_iff] at h
      exact hLA h.2

theorem tagItems_spaced (elems : List Str) (hs : ∀ s ∈ elems, ∀ c ∈ s, c ≠ '}' ∧ c ≠ '\n') :
    ∀ (L : Str) (A : List Atom), TailOK L A →
    ∃ lead A2, joinWith [' '] (elems.map fun s => "tag={".toList ++ s ++ ['}']) ++ L ++ spaced A = lead ++ spaced A2 ∧
      (∀ c ∈ lead, c = ' ') ∧ wfAtoms A2 ∧
      A2.map akv = elems.map (fun s => ("tag".toList, stripVal ('{' :: s ++ ['}']))) ++ A.map akv := by
  induction elems with
  | nil => intro L A ht; exact ⟨L, A, by simp [joinWith], ht.1, ht.2.1, by simp⟩
  | cons s rest ih =>
    intro L A ht
    have hs0 := hs s (by simp)
    have atomOK : ValOK ('{' :: s ++ ['}']) ∧ (∀ c ∈ '{' :: s ++ ['}'], c ≠ '\n') ∧
        (∃ init l, '{' :: s ++ ['}'] = init ++ [l] ∧ isSpace l = false) := by
      refine ⟨Or.inl ⟨'{', s, Or.inl rfl, rfl, fun c hc => (hs0 c hc).1⟩, ?_, ⟨'{' :: s, '}', rfl, by decide⟩⟩
      intro c hc
      simp only [List.cons_append, List.mem_cons, List.mem_append, List.not_mem_nil, or_false] at hc
      rcases hc with h | h | h
      · rw [h]; decide
      · exact (hs0 c h).2
      · rw [h]; decide
    have hK : ("tag".toList : Str) ≠ [] := by decide
    have hKa : ∀ c ∈ ("tag".toList : Str), isAlpha c = true := by decide
    rw [List.map_cons, joinWith_cons]
    by_cases hr : rest = []
    · subst hr
      simp only [List.map_nil, if_true]
      obtain ⟨e, hw⟩ := prepend_atom "tag".toList ('{' :: s ++ ['}']) [] L A hK hKa atomOK.1 atomOK.2.1 (by simp) atomOK.2.2 ht
      refine ⟨[], _, ?_, by simp, hw, by simp [akv]⟩
      rw [← e]; simp
    · have hne : rest.map (fun s => "tag={".toList ++ s ++ ['}']) ≠ [] := by simpa using hr
      rw [if_neg hne]
      obtain ⟨lead2, A2, e2, hl2, hw2, hm2⟩ := ih (fun t ht' => hs t (by simp [ht'])) L A ht
      have ht2 : TailOK (' ' :: lead2) A2 := ⟨by intro c hc; rcases List.mem_cons.mp hc with h | h; exact h; exact hl2 c h, hw2, by simp⟩
      obtain ⟨e, hw⟩ := prepend_atom "tag".toList ('{' :: s ++ ['}']) [] (' ' :: lead2) A2 hK hKa atomOK.1 atomOK.2.1 (by simp) atomOK.2.2 ht2
      refine ⟨[], _, ?_, by simp, hw, ?_⟩
      · rw [List.nil_append, ← e]
        have : "tag={".toList ++ s ++ ['}'] ++ [' '] ++ joinWith [' '] (rest.map fun s => "tag={".toList ++ s ++ ['}']) ++ L ++ spaced A =
            "tag={".toList ++ s ++ ['}'] ++ [' '] ++ (joinWith [' '] (rest.map fun s => "tag={".toList ++ s ++ ['}']) ++ L ++ spaced A) := by
          simp
        rw [this, e2]
        simp
      · simp only [List.map_cons, hm2, akv]
        simp

/-- what `dictWF` says about one entry. -/
def entryOK (kv : Key × PyVal) : Prop :=
  (kv.1 = .tag → ∀ s ∈ tagElems kv.2, ∀ c ∈ s, c ≠ '}' ∧ c ≠ '\n') ∧
  (kv.1 ≠ .tag → valueOK (pyStr kv.2) = true ∧ keyOK kv.1 = true)

def piece (kv : Key × PyVal) : Str :=
  if kv.1 = .tag then
    joinWith [' '] ((tagElems kv.2).map fun s => "tag={".toList ++ s ++ ['}'])
  else kv.1.toString.toList ++ '=' :: pyStr kv.2

theorem metaStr_eq (m : Dict) : metaStr m = joinWith [' '] (m.map piece) := rfl

theorem piece_spaced (kv : Key × PyVal) (h : entryOK kv) (L : Str) (A : List Atom) (ht : TailOK L A) :
    ∃ lead A2, piece kv ++ L ++ spaced A = lead ++ spaced A2 ∧
      (∀ c ∈ lead, c = ' ') ∧ wfAtoms A2 ∧ A2.map akv = kvOf [kv] ++ A.map akv := by
  by_cases ht' : kv.1 = .tag
  · have := tagItems_spaced (tagElems kv.2) (h.1 ht') L A ht
    simpa [piece, kvOf, ht'] using this
  · obtain ⟨hv, hk⟩ := h.2 ht'
    obtain ⟨hkr, hkne, hka⟩ := keyOK_roundtrip kv.1 hk
    obtain ⟨V, T, e, hV, hVn, hT, hVl, hsv⟩ := valueOK_atom _ hv
    obtain ⟨e2, hw⟩ := prepend_atom kv.1.toString.toList V T L A hkne
      (fun c hc => (List.all_eq_true.mp hka) c hc) hV hVn hT hVl ht
    refine ⟨[], _, ?_, by simp, hw, ?_⟩
    · rw [List.nil_append, ← e2]; simp [piece, ht', e]
    · simp [akv, kvOf, ht', hsv]

theorem metaStr_spaced_aux (m : Dict) (h : ∀ kv ∈ m, entryOK kv) :
    ∃ lead A, joinWith [' '] (m.map piece) = lead ++ spaced A ∧
      (∀ c ∈ lead, c = ' ') ∧ wfAtoms A ∧ A.map akv = kvOf m := by
  induction m with
  | nil => exact ⟨[], [], rfl, by simp, trivial, rfl⟩
  | cons kv m ih =>
    obtain ⟨lead, A, e, hl, hw, hm⟩ := ih (fun x hx => h x (by simp [hx]))
    rw [List.map_cons, joinWith_cons]
    by_cases hm0 : m = []
    · subst hm0
      obtain ⟨lead2, A2, e2, hl2, hw2, hm2⟩ := piece_spaced kv (h kv (by simp)) [] [] ⟨by simp, trivial, fun _ => rfl⟩
      refine ⟨lead2, A2, ?_, hl2, hw2, ?_⟩
      · simpa [spaced] using e2
      · simpa [kvOf] using hm2
    · have hne : m.map piece ≠ [] := by simpa using hm0
      rw [if_neg hne, e]
      have ht2 : TailOK (' ' :: lead) A := ⟨by intro c hc; rcases List.mem_cons.mp hc with h | h; exact h; exact hl c h, hw, by simp⟩
      obtain ⟨lead2, A2, e2, hl2, hw2, hm2⟩ := piece_spaced kv (h kv (by simp)) _ _ ht2
      refine ⟨lead2, A2, ?_, hl2, hw2, ?_⟩
      · rw [← e2]; simp
      · rw [hm2, hm]; simp [kvOf]

theorem dictWF_entryOK (m : Dict) (h : dictWF m = true) : ∀ kv ∈ m, entryOK kv := by
  intro kv hkv
  simp only [dictWF, Bool.and_eq_true, List.all_eq_true, dictOK] at h
  obtain ⟨⟨h1, _⟩, h3⟩ := h
  have h1 := h1 kv hkv
  have h3 := h3 kv hkv
  constructor
  · intro ht s hs c hc
    rw [if_pos ht] at h1
    have := List.all_eq_true.mp (List.all_eq_true.mp h1 s hs) c hc
    simpa using this
  · intro ht
    rw [if_neg ht] at h1
    exact ⟨h1, h3⟩

theorem metaStr_spaced (m : Dict) (h : dictWF m = true) :
    ∃ lead A, metaStr m = lead ++ spaced A ∧
      (∀ c ∈ lead, c = ' ') ∧ wfAtoms A ∧ A.map akv = kvOf m :=
  metaStr_spaced_aux m (dictWF_entryOK m h)

#print axioms findItems_spaced
#print axioms spaced_protected
#print axioms metaStr_spaced
#print axioms dictWF_of_dictSafe

end RegionsVerif.Props.C09
