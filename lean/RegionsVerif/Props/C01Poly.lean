/-
C01 (polygons) — laws of the even-odd rule as implemented in `_geometry/pnpoly.pyx`
(model: `Impl.pnpoly`).  See DESIGN.md §7: "even-odd = inside" for arbitrary simple polygons
needs a Jordan-curve development and is NOT proved; proved here are the division-free form of
the crossing test, its symmetry, translation invariance, the exact answer for axis-aligned
rectangles, and (in `C04`) confinement to the vertex range.
-/
import RegionsVerif.Impl.Shapes
import Mathlib.Tactic.Linarith
import Mathlib.Tactic.Ring
import Mathlib.Tactic.FieldSimp

namespace RegionsVerif.Props.C01
open RegionsVerif.Impl

section field
variable {α : Type} [Field α] [LinearOrder α] [IsStrictOrderedRing α]

/-- an edge passes the first conjunct of the test iff its endpoints lie on different sides of
the horizontal line through the point (upper side open, lower side closed). -/
def straddles (p vi vj : Pt α) : Bool := decide (vi.y > p.y) != decide (vj.y > p.y)

theorem edgeCross_straddles (p vi vj : Pt α) : edgeCross p vi vj = true → straddles p vi vj = true := by
  unfold edgeCross straddles; intro h; exact (Bool.and_eq_true _ _ ▸ h).1

/-- division-free form of the crossing test: for a straddling edge, the point is left of the
edge's intersection with the horizontal line iff the orientation determinant has the sign of
the edge's vertical direction. -/
theorem edgeCross_orient (p vi vj : Pt α) (hs : straddles p vi vj = true) :
    edgeCross p vi vj = true ↔
      (if vi.y < vj.y then (p.x - vi.x) * (vj.y - vi.y) < (vj.x - vi.x) * (p.y - vi.y)
       else (vj.x - vi.x) * (p.y - vi.y) < (p.x - vi.x) * (vj.y - vi.y)) := by
  have hne : vi.y ≠ vj.y := by
    intro h; unfold straddles at hs; rw [h] at hs; simp at hs
  unfold edgeCross
  unfold straddles at hs
  rw [hs, Bool.true_and, decide_eq_true_iff]
  by_cases hlt : vi.y < vj.y
  · rw [if_pos hlt]
    have hpos : 0 < vj.y - vi.y := by linarith
    rw [← sub_lt_iff_lt_add, lt_div_iff₀ hpos]
  · rw [if_neg hlt]
    have hneg : vj.y - vi.y < 0 := by
      rcases lt_or_gt_of_ne hne with h | h
      · exact absurd h hlt
      · linarith
    rw [← sub_lt_iff_lt_add, lt_div_iff_of_neg hneg]

/-- the test is symmetric in the two endpoints of the edge (the intersection abscissa does not
depend on the direction in which the edge is traversed). -/
theorem edgeCross_symm (p vi vj : Pt α) : edgeCross p vi vj = edgeCross p vj vi := by
  unfold edgeCross
  by_cases hs : (decide (vi.y > p.y) != decide (vj.y > p.y)) = true
  · have hs' : (decide (vj.y > p.y) != decide (vi.y > p.y)) = true := by
      rw [bne_comm]; exact hs
    have hne : vi.y ≠ vj.y := by
      intro h; rw [h] at hs; simp at hs
    rw [hs, hs', Bool.true_and, Bool.true_and]
    have e : (vj.x - vi.x) * (p.y - vi.y) / (vj.y - vi.y) + vi.x
           = (vi.x - vj.x) * (p.y - vj.y) / (vi.y - vj.y) + vj.x := by
      have h1 : vj.y - vi.y ≠ 0 := sub_ne_zero.mpr (Ne.symm hne)
      have h2 : vi.y - vj.y ≠ 0 := sub_ne_zero.mpr hne
      field_simp
      ring
    rw [e]
  · have hs' : ¬ (decide (vj.y > p.y) != decide (vi.y > p.y)) = true := by
      rw [bne_comm]; exact hs
    simp only [Bool.not_eq_true] at hs hs'
    rw [hs, hs', Bool.false_and, Bool.false_and]

/-- translation invariance of the edge test. -/
theorem edgeCross_translate (p vi vj t : Pt α) :
    edgeCross ⟨p.x + t.x, p.y + t.y⟩ ⟨vi.x + t.x, vi.y + t.y⟩ ⟨vj.x + t.x, vj.y + t.y⟩
      = edgeCross p vi vj := by
  unfold edgeCross
  simp only [gt_iff_lt, add_lt_add_iff_right, add_sub_add_right_eq_sub]
  congr 2
  apply propext
  constructor <;> intro h <;> linarith

end field

end RegionsVerif.Props.C01

namespace RegionsVerif.Props.C01
open RegionsVerif.Impl

section lists
variable {α : Type} [Field α] [LinearOrder α] [IsStrictOrderedRing α]

omit [Field α] [LinearOrder α] [IsStrictOrderedRing α] in
theorem cyclicPairs_map (f : Pt α → Pt α) (vs : List (Pt α)) :
    cyclicPairs (vs.map f) = (cyclicPairs vs).map fun e => (f e.1, f e.2) := by
  unfold cyclicPairs
  rw [List.getLast?_map]
  cases h : vs.getLast? with
  | none => simp
  | some l =>
    simp only [Option.map_some]
    rw [← List.map_dropLast, ← List.map_cons, List.zip_map]
    simp [Prod.map]

def translate (t : Pt α) (v : Pt α) : Pt α := ⟨v.x + t.x, v.y + t.y⟩

/-- translating the polygon and the query point together does not change the answer. -/
theorem pnpoly_translate (vs : List (Pt α)) (p t : Pt α) :
    pnpoly (vs.map (translate t)) (translate t p) = pnpoly vs p := by
  unfold pnpoly pnpolyCount
  rw [cyclicPairs_map, List.filter_map, List.length_map]
  congr 3
  apply List.filter_congr
  intro e _
  simp only [Function.comp, translate]
  exact edgeCross_translate p e.1 e.2 t

/-- the exact answer for an axis-aligned rectangle given by its four corners in
counter-clockwise order: inside iff `x0 ≤ x < x1 ∧ y0 ≤ y < y1` (open on the upper/right
sides, closed on the lower/left sides — the even-odd rule's boundary convention). -/
theorem pnpoly_axis_rect_iff (x0 x1 y0 y1 : α) (hx : x0 < x1) (hy : y0 < y1) (p : Pt α) :
    pnpoly [⟨x0, y0⟩, ⟨x1, y0⟩, ⟨x1, y1⟩, ⟨x0, y1⟩] p = true ↔
      (x0 ≤ p.x ∧ p.x < x1 ∧ y0 ≤ p.y ∧ p.y < y1) := by
  have hne : y0 - y1 ≠ 0 := by intro h; linarith
  have hne' : y1 - y0 ≠ 0 := by intro h; linarith
  simp only [pnpoly, pnpolyCount, cyclicPairs, List.getLast?_cons_cons, List.getLast?_singleton,
    List.dropLast, List.zip_cons_cons, List.zip_nil_right, List.filter_cons, edgeCross,
    sub_self, zero_mul, zero_div, zero_add, bne_self_eq_false, Bool.false_and]
  by_cases h0 : y0 > p.y <;> by_cases h1 : y1 > p.y <;> by_cases ha : p.x < x0 <;>
    by_cases hb : p.x < x1 <;>
    simp [h0, h1, ha, hb] <;> (try constructor) <;> (try linarith)

end lists

end RegionsVerif.Props.C01

namespace RegionsVerif.Props.C01
open RegionsVerif.Impl

section parity
variable {α : Type} [Field α] [LinearOrder α] [IsStrictOrderedRing α]

/-- consecutive pairs `(v, previous v)` starting with a given predecessor. -/
def pairsAux {β : Type} (prev : β) : List β → List (β × β)
  | [] => []
  | v :: vs => (v, prev) :: pairsAux v vs

theorem zip_eq_pairsAux {β : Type} (prev : β) (l : List β) :
    l.zip (prev :: l.dropLast) = pairsAux prev l := by
  induction l generalizing prev with
  | nil => rfl
  | cons v vs ih =>
    cases vs with
    | nil => simp [pairsAux]
    | cons w ws =>
      rw [List.dropLast_cons₂, List.zip_cons_cons, ih v]
      rfl

theorem parity_succ (n : Nat) : ((n + 1) % 2 == 1) = !(n % 2 == 1) := by
  rcases Nat.mod_two_eq_zero_or_one n with h | h <;> simp [Nat.add_mod, h]

omit [Field α] [LinearOrder α] [IsStrictOrderedRing α] in
theorem cyclicPairs_eq (vs : List (Pt α)) (l : Pt α) (h : vs.getLast? = some l) :
    cyclicPairs vs = pairsAux l vs := by
  unfold cyclicPairs; rw [h]; exact zip_eq_pairsAux l vs

/-- parity of the number of "changes" along a chain telescopes: it is odd iff the first
predecessor and the last element differ. -/
theorem chain_changes_parity {β : Type} (g : β → Bool) (prev : β) (l : List β) :
    (((pairsAux prev l).filter fun e => g e.1 != g e.2).length % 2 == 1) =
      (g prev != g (l.getLast?.getD prev)) := by
  induction l generalizing prev with
  | nil => simp [pairsAux]
  | cons v vs ih =>
    simp only [pairsAux, List.filter_cons]
    have hl : ((v :: vs).getLast?.getD prev) = (vs.getLast?.getD v) := by
      cases vs with
      | nil => simp
      | cons w ws =>
        obtain ⟨x, hx⟩ : ∃ x, (w :: ws).getLast? = some x :=
          ⟨_, List.getLast?_eq_some_getLast (by simp)⟩
        rw [List.getLast?_cons_cons, hx]; rfl
    rw [hl]
    have ih' := ih v
    by_cases hc : (g v != g prev) = true
    · rw [if_pos hc, List.length_cons, parity_succ, ih']
      cases hv : g v <;> cases hp : g prev <;> cases hlast : g (vs.getLast?.getD v) <;> simp_all
    · rw [if_neg hc, ih']
      cases hv : g v <;> cases hp : g prev <;> cases hlast : g (vs.getLast?.getD v) <;> simp_all

/-- a closed polygon has an even number of edges straddling any horizontal line. -/
theorem straddle_even (vs : List (Pt α)) (p : Pt α) :
    ((cyclicPairs vs).filter fun e => straddles p e.1 e.2).length % 2 = 0 := by
  cases h : vs.getLast? with
  | none => unfold cyclicPairs; rw [h]; rfl
  | some l =>
    rw [cyclicPairs_eq vs l h]
    have := chain_changes_parity (fun v : Pt α => decide (v.y > p.y)) l vs
    rw [h] at this
    simp only [Option.getD_some, bne_self_eq_false, beq_eq_false_iff_ne, ne_eq] at this
    unfold straddles
    omega

/-- a straddling edge all of whose endpoints are to the right of the point is crossed. -/
theorem straddle_cross_of_left (p vi vj : Pt α) (hs : straddles p vi vj = true)
    (hi : p.x < vi.x) (hj : p.x < vj.x) : edgeCross p vi vj = true := by
  rw [edgeCross_orient p vi vj hs]
  unfold straddles at hs
  by_cases hlt : vi.y < vj.y
  · rw [if_pos hlt]
    have h1 : ¬ vi.y > p.y := by
      intro h; have : vj.y > p.y := by linarith
      simp [h, this] at hs
    have h2 : vj.y > p.y := by
      by_contra h; simp [h1, h] at hs
    nlinarith
  · rw [if_neg hlt]
    have h1 : vi.y > p.y := by
      by_contra h
      have : ¬ vj.y > p.y := by intro h'; exact h (by linarith)
      simp [h, this] at hs
    have h2 : ¬ vj.y > p.y := by
      intro h; simp [h1, h] at hs
    nlinarith

/-- a crossed edge has an endpoint strictly to the right of the point, one endpoint strictly
above and one at or below. -/
theorem cross_bounds (p vi vj : Pt α) (hc : edgeCross p vi vj = true) :
    (p.x < vi.x ∨ p.x < vj.x) ∧ ((vi.y > p.y ∧ vj.y ≤ p.y) ∨ (vj.y > p.y ∧ vi.y ≤ p.y)) := by
  have hs := edgeCross_straddles p vi vj hc
  have ho := (edgeCross_orient p vi vj hs).mp hc
  unfold straddles at hs
  by_cases hlt : vi.y < vj.y
  · rw [if_pos hlt] at ho
    have h1 : ¬ vi.y > p.y := by
      intro h; have : vj.y > p.y := by linarith
      simp [h, this] at hs
    have h2 : vj.y > p.y := by
      by_contra h; simp [h1, h] at hs
    refine ⟨?_, Or.inr ⟨h2, not_lt.mp h1⟩⟩
    by_contra hcon
    rw [not_or, not_lt, not_lt] at hcon
    nlinarith
  · rw [if_neg hlt] at ho
    have h1 : vi.y > p.y := by
      by_contra h
      have : ¬ vj.y > p.y := by intro h'; exact h (by linarith)
      simp [h, this] at hs
    have h2 : ¬ vj.y > p.y := by
      intro h; simp [h1, h] at hs
    refine ⟨?_, Or.inl ⟨h1, not_lt.mp h2⟩⟩
    by_contra hcon
    rw [not_or, not_lt, not_lt] at hcon
    nlinarith

omit [Field α] [LinearOrder α] [IsStrictOrderedRing α] in
theorem mem_cyclicPairs (vs : List (Pt α)) (e : Pt α × Pt α) (h : e ∈ cyclicPairs vs) :
    e.1 ∈ vs ∧ e.2 ∈ vs := by
  unfold cyclicPairs at h
  cases hl : vs.getLast? with
  | none => rw [hl] at h; simp at h
  | some l =>
    rw [hl] at h
    have h1 := (List.of_mem_zip h).1
    have h2 := (List.of_mem_zip h).2
    refine ⟨h1, ?_⟩
    rcases List.mem_cons.mp h2 with h2 | h2
    · rw [h2]; exact List.mem_of_getLast? hl
    · exact List.dropLast_subset _ h2

/-- **membership is confined to the vertex range**: a point the even-odd rule puts inside has
a vertex at-or-left and one strictly right of it, one at-or-below and one strictly above it.
(The lower/left bounds need the parity of straddling edges.) -/
theorem pnpoly_in_vertex_range (vs : List (Pt α)) (p : Pt α) (h : pnpoly vs p = true) :
    (∃ v ∈ vs, v.x ≤ p.x) ∧ (∃ v ∈ vs, p.x < v.x) ∧
    (∃ v ∈ vs, v.y ≤ p.y) ∧ (∃ v ∈ vs, p.y < v.y) := by
  unfold pnpoly pnpolyCount at h
  have hodd : ((cyclicPairs vs).filter fun e => edgeCross p e.1 e.2).length % 2 = 1 := by
    simpa using h
  -- some edge is crossed
  have hex : ∃ e ∈ cyclicPairs vs, edgeCross p e.1 e.2 = true := by
    by_contra hne
    rw [not_exists] at hne
    have : (cyclicPairs vs).filter (fun e => edgeCross p e.1 e.2) = [] := by
      rw [List.filter_eq_nil_iff]; intro e he hc; exact hne e ⟨he, hc⟩
    rw [this] at hodd; simp at hodd
  obtain ⟨e, he, hc⟩ := hex
  obtain ⟨hm1, hm2⟩ := mem_cyclicPairs vs e he
  obtain ⟨hx, hy⟩ := cross_bounds p e.1 e.2 hc
  refine ⟨?_, ?_, ?_, ?_⟩
  · -- left bound via parity
    by_contra hcon
    rw [not_exists] at hcon
    have hall : ∀ v ∈ vs, p.x < v.x := by
      intro v hv; by_contra hnv; exact hcon v ⟨hv, not_lt.mp hnv⟩
    have : (cyclicPairs vs).filter (fun e => edgeCross p e.1 e.2)
         = (cyclicPairs vs).filter (fun e => straddles p e.1 e.2) := by
      apply List.filter_congr
      intro e' he'
      obtain ⟨h1, h2⟩ := mem_cyclicPairs vs e' he'
      by_cases hs : straddles p e'.1 e'.2 = true
      · rw [hs]; exact straddle_cross_of_left p e'.1 e'.2 hs (hall _ h1) (hall _ h2)
      · simp only [Bool.not_eq_true] at hs
        rw [hs]
        by_contra hcr
        simp only [Bool.not_eq_false] at hcr
        have := edgeCross_straddles p e'.1 e'.2 hcr
        rw [hs] at this; exact Bool.false_ne_true this
    rw [this, straddle_even vs p] at hodd
    exact absurd hodd (by decide)
  · rcases hx with hx | hx
    · exact ⟨e.1, hm1, hx⟩
    · exact ⟨e.2, hm2, hx⟩
  · rcases hy with ⟨-, hy⟩ | ⟨-, hy⟩
    · exact ⟨e.2, hm2, hy⟩
    · exact ⟨e.1, hm1, hy⟩
  · rcases hy with ⟨hy, -⟩ | ⟨hy, -⟩
    · exact ⟨e.1, hm1, hy⟩
    · exact ⟨e.2, hm2, hy⟩

end parity

-- non-vacuity: the even-odd rule on a concrete non-convex polygon over ℚ
example : pnpoly ([⟨0, 0⟩, ⟨4, 0⟩, ⟨4, 4⟩, ⟨2, 1⟩, ⟨0, 4⟩] : List (Pt ℚ)) ⟨1, 1⟩ = true := by
  norm_num [pnpoly, pnpolyCount, cyclicPairs, edgeCross, List.filter]
example : pnpoly ([⟨0, 0⟩, ⟨4, 0⟩, ⟨4, 4⟩, ⟨2, 1⟩, ⟨0, 4⟩] : List (Pt ℚ)) ⟨2, 3⟩ = false := by
  norm_num [pnpoly, pnpolyCount, cyclicPairs, edgeCross, List.filter]

end RegionsVerif.Props.C01
